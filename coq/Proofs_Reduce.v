(** C03, refinement (part 1): the layout-level reducer [zl] (index arithmetic over offsets, option
    indices, record fields; reduction of groups of positions) computes the value-level [zipred] on the
    groups of values those positions denote.  This single statement, [zl_spec], covers the local case
    (the groups are the lists themselves) and the non-local one (the groups are columns).
    Part 2 (Proofs_Reduce2.v) carries it through the at-axis descent to [reduce_model] / [reduce_spec]. *)
From Coq Require Import ZArith List Bool Lia ZifyBool.
From AwkV Require Import Base Layout LayoutInd Valid Types AtAxis Carry Ops_Reduce Typing Proofs_Typing Proofs_C11 Proofs_C03
                         Proofs_Lists Proofs_ToList Proofs_Carry Proofs_AtAxis Proofs_AtAxisOps.
Import ListNotations.
Open Scope Z_scope.

(* ---------------------------------------------------------------- the fragment: finite data *)
(* NaN / infinities are outside the modelled fragment of the reducers ([leaf_int] / [datum_int] answer
   EOob): [fin] says that the part of every data buffer that is in use holds integers only. *)
Fixpoint fin (c : content) : bool :=
  match c with
  | Numpy _ shape data => forallb is_dz (take (prodZ shape) data)
  | Empty => true
  | ListOffset _ _ c' | ListA _ _ _ c' | Regular c' _ _ | Indexed _ _ c' | IndexedOption _ _ c'
  | ByteMasked _ _ c' | BitMasked _ _ _ _ c' | Unmasked c' | Par _ _ c' => fin c'
  | Union _ _ _ cs | Record cs _ _ =>
      (fix all (l : list content) : bool := match l with [] => true | x :: xs => fin x && all xs end) cs
  end.
Lemma fin_all cs :
  (fix all (l : list content) : bool := match l with [] => true | x :: xs => fin x && all xs end) cs = true <->
  Forall (fun x => fin x = true) cs.
Proof.
  induction cs as [|x xs IH]; [split; constructor|]. rewrite andb_true_iff, IH. split.
  - intros [? ?]. constructor; assumption.
  - intros H. inversion H; auto.
Qed.

(* ---------------------------------------------------------------- groups of (position in group, position) *)
(* the values a group of positions denotes *)
Definition gatherG {A} (xs : list A) (G : list (Z * Z)) : res (list (Z * A)) :=
  mapM (fun jp : Z * Z => do v <- get xs (snd jp); Ok (fst jp, v)) G.
(* apply F to the second components *)
Definition mapS {A B} (F : A -> res B) (l : list (Z * A)) : res (list (Z * B)) :=
  mapM (fun jx : Z * A => do y <- F (snd jx); Ok (fst jx, y)) l.

Definition in_range (n : Z) (groups : list (list (Z * Z))) : Prop :=
  forall G, In G groups -> forall jp, In jp G -> 0 <= snd jp < n.

Lemma gatherG_ok {A} (xs : list A) G :
  (forall jp, In jp G -> 0 <= snd jp < zlen xs) -> exists l, gatherG xs G = Ok l.
Proof.
  intros H. apply mapM_total. intros jp Hjp. destruct (get_ok xs (snd jp) (H jp Hjp)) as [v ->]. cbn [bind]. eauto.
Qed.
Lemma gatherG_range {A} (xs : list A) G l : gatherG xs G = Ok l -> forall jp, In jp G -> 0 <= snd jp < zlen xs.
Proof.
  intros H jp Hjp. destruct (mapM_Ok_In _ _ _ _ H Hjp) as (y & Hy & _).
  apply bind_Ok in Hy as (v & Hv & _). eapply get_range, Hv.
Qed.
Lemma gatherG_app {A} (xs : list A) G1 G2 :
  gatherG xs (G1 ++ G2) = do a <- gatherG xs G1; do b <- gatherG xs G2; Ok (a ++ b).
Proof. apply mapM_app. Qed.

(* gathering from a mapped list = gathering, then mapping *)
Lemma gatherG_mapM {A B} (F : A -> res B) xs ys G sub :
  mapM F xs = Ok ys -> gatherG xs G = Ok sub -> gatherG ys G = mapS F sub.
Proof.
  intros HF. revert sub. induction G as [|[j p] G IH]; intros sub H; cbn [gatherG mapM] in H.
  - inversion H. reflexivity.
  - apply bind_Ok in H as (y & Hy & H). apply bind_Ok in H as (sub' & Hsub & H). inversion H; subst.
    apply bind_Ok in Hy as (x & Hx & Hy). inversion Hy; subst. cbn [snd fst] in *.
    unfold gatherG, mapS. cbn [mapM snd fst]. rewrite (mapM_get F xs ys p HF), Hx. cbn [bind].
    fold (gatherG ys G). rewrite (IH sub' Hsub). reflexivity.
Qed.
Lemma gatherG_map {A B} (f : A -> B) xs G :
  gatherG (map f xs) G = rmap (map (fun jx : Z * A => (fst jx, f (snd jx)))) (gatherG xs G).
Proof.
  unfold gatherG. rewrite <- mapM_rmap. apply mapM_ext_in. intros [j p] _. cbn [fst snd].
  rewrite get_map. destruct (get xs p); reflexivity.
Qed.
Lemma mapM_gatherG {A} (xs : list A) groups :
  in_range (zlen xs) groups -> exists subs, mapM (gatherG xs) groups = Ok subs.
Proof. intros H. apply mapM_total. intros G HG. apply gatherG_ok. apply H, HG. Qed.

(* composition through a list of groups *)
Lemma mapM_bind {A B C} (f : A -> res B) (g : B -> res C) l ys :
  mapM f l = Ok ys -> mapM (fun x => do y <- f x; g y) l = mapM g ys.
Proof. intros H. symmetry. apply mapM_mapM, H. Qed.

(* the whole list as one group *)
Lemma gatherG_enum_gen {A} (xs : list A) : forall pre s,
  zlen pre = s ->
  gatherG (pre ++ xs) (map (fun j => (j, j)) (iota_nat s (length xs))) = Ok (zip (iota_nat s (length xs)) xs).
Proof.
  induction xs as [|x xs IH]; intros pre s Hs; [reflexivity|].
  cbn [length iota_nat map zip]. unfold gatherG. cbn [mapM fst snd].
  rewrite get_app2 by lia. replace (s - zlen pre) with 0 by lia. cbn [get_cons_0 bind]. rewrite get_cons_0. cbn [bind].
  specialize (IH (pre ++ [x]) (s + 1)). rewrite <- app_assoc in IH. cbn [app] in IH. unfold gatherG in IH.
  rewrite IH by (rewrite zlen_app, zlen_cons, zlen_nil; lia). reflexivity.
Qed.
Lemma gatherG_enum {A} (xs : list A) :
  gatherG xs (map (fun j => (j, j)) (iota (zlen xs))) = Ok (enum xs).
Proof.
  unfold enum, iota, zlen. rewrite Nat2Z.id. apply (gatherG_enum_gen xs [] 0). reflexivity.
Qed.
(* a contiguous stretch as one group, numbered from 0 *)
Lemma gatherG_cut {A} (vs0 : list A) se l :
  cut1 vs0 se = Ok l ->
  gatherG vs0 (map (fun j => (j, fst se + j)) (iota (snd se - fst se))) = Ok (enum l).
Proof.
  intros H. pose proof (cut1_zlen _ _ _ H) as Hz. destruct se as [s e]. cbn [fst snd] in *.
  unfold cut1 in H. destruct (s =? e) eqn:E.
  - inversion H; subst. replace (e - s) with 0 by lia. reflexivity.
  - pose proof (slice_inv _ _ _ _ H) as (H1 & H2 & H3 & _).
    rewrite <- (gatherG_enum l), Hz. unfold gatherG. rewrite !mapM_map. apply mapM_ext_in.
    intros j Hj. apply iota_In' in Hj. cbn [fst snd]. rewrite (get_slice _ _ _ _ j H) by lia. reflexivity.
Qed.

(* ---------------------------------------------------------------- leaves *)
Lemma leaf_int_leaf dt z : leaf_int (leaf dt (DZ z)) = datum_int dt (DZ z).
Proof. destruct dt; cbn [leaf leaf_int datum_int]; try reflexivity. destruct (z =? 0); reflexivity. Qed.

(* a reduced leaf survives the trip through the result buffer *)
Lemma leaf_roundtrip r mask dt l v :
  leaf_reduce r mask dt l = Some v -> leaf (result_dtype r dt) (datum_of_value v) = v.
Proof.
  intros H. unfold leaf_reduce in H.
  destruct l as [|a l'], mask; try discriminate; inversion H; subst v; clear H;
    destruct r, dt; cbn [leaf result_dtype datum_of_value is_float is_unsigned];
    repeat match goal with
           | |- context [match ?x with _ => _ end] => destruct x
           end; reflexivity.
Qed.

Lemma leaf_reduce_nomask r dt l : leaf_reduce r false dt l <> None.
Proof. unfold leaf_reduce. destruct l; discriminate. Qed.

Lemma to_list_np1 dt data : to_list (Numpy dt [zlen data] data) = Ok (map (leaf dt) data).
Proof.
  rewrite to_list_Numpy. cbn [existsb prodZ fold_right]. rewrite Z.mul_1_r.
  pose proof (zlen_nonneg data). destruct (zlen data <? 0) eqn:E; [lia|]. cbn [orb]. rewrite Z.ltb_irrefl. cbn [nest].
  rewrite take_all by lia. reflexivity.
Qed.

Definition out_ok (r : reducer) (mask : bool) (dt : dtype) (o : option value) : Prop :=
  (mask = false -> o <> None) /\ forall v, o = Some v -> leaf (result_dtype r dt) (datum_of_value v) = v.
Lemma out_ok_reduce r mask dt dt' l : dt' = dt -> out_ok r mask dt (leaf_reduce r mask dt' l).
Proof.
  intros ->. split.
  - intros ->. apply leaf_reduce_nomask.
  - intros v Hv. eapply leaf_roundtrip, Hv.
Qed.

(* the result buffer (under an IndexedOptionArray when mask_identity) lists the reduced leaves *)
Lemma to_list_leaves r mask dt outs :
  (forall o, In o outs -> out_ok r mask dt o) -> to_list (leaves r mask dt outs) = Ok (map opt_val outs).
Proof.
  intros Hok. unfold leaves.
  set (D := fun o : option value => match o with Some v => datum_of_value v | None => DZ 0 end).
  assert (Hnp : to_list (Numpy (result_dtype r dt) [zlen outs] (map D outs)) = Ok (map (leaf (result_dtype r dt)) (map D outs))).
  { rewrite <- (zlen_map D outs). apply to_list_np1. }
  destruct mask.
  - rewrite to_list_IndexedOption, Hnp. cbn [bind]. rewrite mapM_map.
    rewrite <- (mapM_pure opt_val outs). pose proof (zlen_nonneg outs) as Hn.
    apply mapM_pointwise_eq; [rewrite zlen_zip, zlen_iota by lia; lia|].
    intros j Hj. rewrite zlen_zip, zlen_iota in Hj by lia. rewrite get_zip, get_iota by lia. cbn [bind].
    destruct (get_ok outs j ltac:(lia)) as [o Ho]. rewrite Ho. cbn [bind fst snd].
    destruct o as [v|]; cbn [opt_val].
    + unfold pick_opt. destruct (0 <=? j) eqn:E; [|lia]. rewrite !get_map, Ho. cbn [rmap D]. f_equal.
      apply (Hok (Some v)); [eapply get_In, Ho|reflexivity].
    + reflexivity.
  - rewrite Hnp. f_equal. rewrite map_map. apply map_ext_in. intros o Ho. destruct (Hok o Ho) as [Hs Hv].
    destruct o as [v|]; [|exfalso; apply Hs; reflexivity]. cbn [D opt_val]. apply Hv. reflexivity.
Qed.

(* ---------------------------------------------------------------- the statement *)
Section ZL.
  Variable r : reducer.
  Variable mask : bool.

  (* what [zl] is to compute: for every group, [zipred] of the values at its positions *)
  Definition zspec (t : ty) (vs : list value) (groups : list (list (Z * Z))) : res (list value) :=
    mapM (fun G => do xs <- gatherG vs G; zipred r mask t xs) groups.

  Definition zl_ok (c : content) : Prop :=
    forall p groups vs, Valid p c -> frag1 c = true -> fin c = true -> reducible (type_of_p p c) = true ->
      to_list c = Ok vs -> in_range (zlen vs) groups ->
      exists c' ws, zl r mask p c groups = Ok c' /\ to_list c' = Ok ws /\ zspec (type_of_p p c) vs groups = Ok ws.

  (* ---- NumpyArray leaf *)
  Lemma numpy_group dt data G :
    forallb is_dz data = true -> (forall jp, In jp G -> 0 <= snd jp < zlen data) ->
    exists l, mapM (fun jp : Z * Z => do d <- get data (snd jp); do z <- datum_int dt d; Ok (fst jp, z)) G = Ok l /\
              (do xs <- gatherG (map (leaf dt) data) G;
               mapM (fun jv : Z * value => do z <- leaf_int (snd jv); Ok (fst jv, z)) xs) = Ok l.
  Proof.
    intros Hfin. induction G as [|[j p] G IH]; intros Hr.
    - exists []. split; reflexivity.
    - destruct IH as (l & H1 & H2); [intros jp Hjp; apply Hr; right; exact Hjp|].
      apply bind_Ok in H2 as (xs & Hxs & H2).
      specialize (Hr (j, p) (or_introl eq_refl)). cbn [snd] in Hr. destruct (get_ok data p Hr) as [d Hd].
      assert (Hz : exists z, d = DZ z).
      { rewrite forallb_forall in Hfin. specialize (Hfin d (get_In _ _ _ Hd)). destruct d; try discriminate. eauto. }
      destruct Hz as [z ->].
      destruct (datum_int dt (DZ z)) as [z'|] eqn:Ez; [|destruct dt; discriminate].
      exists ((j, z') :: l). unfold gatherG in *. cbn [mapM fst snd]. rewrite Hd, H1, get_map, Hd. cbn [bind rmap].
      rewrite Ez, Hxs. cbn [bind mapM snd fst]. rewrite leaf_int_leaf, Ez, H2. split; reflexivity.
  Qed.

  Lemma zl_Numpy dt shape data : zl_ok (Numpy dt shape data).
  Proof.
    intros p groups vs _ Hfr Hfin _ Hl Hr. cbn [frag1] in Hfr. destruct shape as [|n [|? ?]]; try discriminate.
    cbn [fin] in Hfin. apply to_list_Numpy_inv in Hl as (n' & dims & Hs & Hnn & Hd & Hn). inversion Hs; subst n' dims. clear Hs.
    cbn [nest] in Hn. inversion Hn; subst vs. clear Hn. pose proof (prodZ_nonneg _ Hnn) as Hp0.
    cbn [prodZ fold_right] in *. set (data' := take (n * 1) data) in *.
    assert (Hz : zlen data' = n * 1).
    { apply zlen_take. split; [exact Hp0|exact Hd]. }
    cbn [type_of_p tl numpy_ty zl].
    set (M := fun G : list (Z * Z) =>
                do l <- mapM (fun jp : Z * Z => do d <- get data (snd jp); do z <- datum_int dt d; Ok (fst jp, z)) G;
                Ok (leaf_reduce r mask dt l)).
    assert (Hg : forall G, In G groups -> exists l, M G = Ok (leaf_reduce r mask dt l) /\
                   (do xs <- gatherG (map (leaf dt) data') G; zipred r mask (TNum dt) xs) = Ok (opt_val (leaf_reduce r mask dt l))).
    { intros G HG. rewrite zlen_map in Hr. destruct (numpy_group dt data' G Hfin (Hr G HG)) as (l & H1 & H2).
      exists l. split.
      - unfold M. rewrite (mapM_ext_in _ (fun jp : Z * Z => do d <- get data' (snd jp); do z <- datum_int dt d; Ok (fst jp, z))).
        + rewrite H1. reflexivity.
        + intros jp Hjp. unfold data'. rewrite get_take; [reflexivity|]. specialize (Hr G HG jp Hjp). lia.
      - apply bind_Ok in H2 as (xs & Hxs & H2). rewrite Hxs. cbn [bind zipred]. rewrite H2. reflexivity. }
    destruct (mapM_total M groups) as [outs Houts].
    { intros G HG. destruct (Hg G HG) as (l & H1 & _). eauto. }
    exists (leaves r mask dt outs), (map opt_val outs). split; [fold M; rewrite Houts; reflexivity|]. split.
    - apply to_list_leaves. intros o Ho. destruct (mapM_In_inv _ _ _ _ Houts Ho) as (G & HG & HM).
      destruct (Hg G HG) as (l & H1 & _). rewrite H1 in HM. inversion HM. apply out_ok_reduce. reflexivity.
    - unfold zspec. eapply mapM_transfer; [exact Houts|]. intros G o HG HM.
      destruct (Hg G HG) as (l & H1 & H2). rewrite H1 in HM. inversion HM; subst o. exact H2.
  Qed.

  (* ---- EmptyArray *)
  Lemma zl_Empty : zl_ok Empty.
  Proof.
    intros p groups vs _ _ _ _ Hl Hr. inversion Hl; subst vs. clear Hl. cbn [type_of_p zl].
    assert (Hall : forall G, In G groups -> G = []).
    { intros G HG. destruct G as [|jp G]; [reflexivity|]. specialize (Hr _ HG jp (or_introl eq_refl)). cbn in Hr. lia. }
    rewrite (proj2 (forallb_forall _ groups)).
    2:{ intros G HG. rewrite (Hall G HG). reflexivity. }
    set (o := leaf_reduce r mask DFloat64 []).
    exists (leaves r mask DFloat64 (map (fun _ => o) groups)), (map opt_val (map (fun _ => o) groups)).
    split; [reflexivity|]. split.
    - apply to_list_leaves. intros o' Ho'. apply in_map_iff in Ho' as (G & <- & _). apply out_ok_reduce. reflexivity.
    - unfold zspec. rewrite map_map. rewrite <- mapM_pure. apply mapM_ext_in. intros G HG. rewrite (Hall G HG). reflexivity.
  Qed.

  (* ---- IndexedArray *)
  Lemma gatherG_In {A} (xs : list A) G l j x :
    gatherG xs G = Ok l -> In (j, x) l -> exists p, In (j, p) G /\ get xs p = Ok x.
  Proof.
    intros H Hin. destruct (mapM_In_inv _ _ _ _ H Hin) as ([j' p] & Hjp & Hy). cbn [fst snd] in Hy.
    apply bind_Ok in Hy as (v & Hv & Hy). inversion Hy; subst. eauto.
  Qed.

  Lemma zl_Indexed_eq p w ix c groups :
    zl r mask p (Indexed w ix c) groups = do gs <- mapM (gatherG ix) groups; zl r mask None c gs.
  Proof. reflexivity. Qed.

  Lemma zl_Indexed w ix c : zl_ok c -> zl_ok (Indexed w ix c).
  Proof.
    intros IH p groups vs HV Hfr Hfin Hred Hl Hr. inversion HV; subst. cbn [frag1 fin type_of_p] in *.
    rewrite to_list_Indexed in Hl. apply bind_Ok in Hl as (vs0 & Hl0 & Hl).
    pose proof (mapM_zlen _ _ _ Hl) as Hz. rewrite Hz in Hr.
    destruct (mapM_gatherG ix groups Hr) as [gs Hgs].
    assert (Hr' : in_range (zlen vs0) gs).
    { intros g Hg [j i] Hji. cbn [snd]. destruct (mapM_In_inv _ _ _ _ Hgs Hg) as (G & HG & HgG).
      destruct (gatherG_In _ _ _ _ _ HgG Hji) as (q & _ & Hq).
      pose proof (gather_range_inv _ _ _ Hl) as Hix. rewrite Forall_forall in Hix. apply Hix. eapply get_In, Hq. }
    destruct (IH None gs vs0) as (c' & ws & Hzl & Ht & Hs); try assumption.
    exists c', ws. split; [rewrite zl_Indexed_eq, Hgs; exact Hzl|]. split; [exact Ht|].
    unfold zspec in *. rewrite <- Hs. rewrite <- (mapM_bind _ _ _ _ Hgs). apply mapM_ext_in. intros G HG.
    destruct (mapM_Ok_In _ _ _ _ Hgs HG) as (g & Hg & _). rewrite Hg. cbn [bind].
    rewrite (gatherG_mapM _ _ _ _ _ Hl Hg). reflexivity.
  Qed.

  (* ---- option nodes *)
  Definition opt_content (c : content) : option content :=
    match c with
    | IndexedOption _ _ c' | ByteMasked _ _ c' | BitMasked _ _ _ _ c' | Unmasked c' => Some c'
    | _ => None
    end.
  Definition nonneg (ji : Z * Z) : bool := 0 <=? snd ji.
  Definition notnone (jv : Z * value) : bool := match snd jv with VNone => false | _ => true end.

  Lemma zl_opt_eq p c c' groups :
    opt_content c = Some c' ->
    zl r mask p c groups =
    do oi <- option_index c;
    do gs <- mapM (fun G => do l <- gatherG (fst oi) G; Ok (filter nonneg l)) groups;
    zl r mask None c' gs.
  Proof. destruct c; try discriminate; intros H; inversion H; reflexivity. Qed.

  Lemma option_index_spec c c' vs :
    opt_content c = Some c' -> to_list c = Ok vs ->
    exists ix vs0, option_index c = Ok (ix, c') /\ to_list c' = Ok vs0 /\
                   mapM (fun i => pick_opt vs0 (0 <=? i) i) ix = Ok vs.
  Proof.
    intros Hc Hl. destruct c; try discriminate; cbn [opt_content] in Hc; inversion Hc; subst; cbn [option_index].
    - rewrite to_list_IndexedOption in Hl. apply bind_Ok in Hl as (vs0 & Hl0 & Hl).
      eexists _, vs0. split; [reflexivity|]. split; [exact Hl0|]. rewrite mapM_map, <- Hl. apply mapM_ext_in.
      intros i _. unfold pick_opt. destruct (i <? 0) eqn:E.
      + destruct (0 <=? i) eqn:E2; [lia|]. reflexivity.
      + destruct (0 <=? i) eqn:E2; [reflexivity|lia].
    - rewrite to_list_ByteMasked in Hl. apply bind_Ok in Hl as (vs0 & Hl0 & Hl).
      eexists _, vs0. split; [reflexivity|]. split; [exact Hl0|]. rewrite mapM_map, <- Hl. apply mapM_ext_in.
      intros [i b] Hib. apply zip_In in Hib as [Hi _]. apply iota_In' in Hi.
      destruct (Bool.eqb (negb (b =? 0)) valid_when); unfold pick_opt.
      + destruct (0 <=? i) eqn:E2; [reflexivity|lia].
      + reflexivity.
    - rewrite to_list_BitMasked in Hl. apply bind_Ok in Hl as (vs0 & Hl0 & Hl). destruct (len <? 0); [discriminate|].
      destruct (mapM_total (fun i => do b <- bit_at mask0 lsb i; Ok (if Bool.eqb b valid_when then i else -1)) (iota len)) as [ix Hix].
      { intros i Hi. destruct (mapM_Ok_In _ _ _ _ Hl Hi) as (y & Hy & _). destruct (bit_at mask0 lsb i); [|discriminate]. cbn [bind]. eauto. }
      rewrite Hix. cbn [bind]. exists ix, vs0. split; [reflexivity|]. split; [exact Hl0|].
      rewrite (mapM_mapM _ _ _ _ Hix), <- Hl. apply mapM_ext_in. intros i Hi. apply iota_In' in Hi.
      destruct (bit_at mask0 lsb i) as [b|]; [|reflexivity]. cbn [bind]. destruct (Bool.eqb b valid_when); unfold pick_opt.
      + destruct (0 <=? i) eqn:E2; [reflexivity|lia].
      + reflexivity.
    - rewrite to_list_Unmasked in Hl. exists (iota (clen c')), vs. split; [reflexivity|]. split; [exact Hl|].
      rewrite <- (to_list_len _ _ Hl). transitivity (mapM (get vs) (iota (zlen vs))); [|apply gather_all]. apply mapM_ext_in. intros i Hi. apply iota_In' in Hi.
      unfold pick_opt. destruct (0 <=? i) eqn:E2; [reflexivity|lia].
  Qed.

  Lemma opt_filter vs0 l xs :
    (forall x, In x vs0 -> x <> VNone) ->
    mapS (fun i => pick_opt vs0 (0 <=? i) i) l = Ok xs ->
    gatherG vs0 (filter nonneg l) = Ok (filter notnone xs).
  Proof.
    intros Hnn. revert xs. induction l as [|[j i] l IH]; intros xs H; unfold mapS in H; cbn [mapM] in H.
    - inversion H. reflexivity.
    - apply bind_Ok in H as (y & Hy & H). apply bind_Ok in H as (xs' & Hxs' & H). inversion H; subst. clear H.
      cbn [fst snd] in Hy. apply bind_Ok in Hy as (v & Hv & Hy). inversion Hy; subst. clear Hy.
      specialize (IH xs' Hxs'). cbn [filter]. unfold nonneg at 1, notnone at 1. cbn [snd]. unfold pick_opt in Hv.
      destruct (0 <=? i).
      + assert (Hvn : v <> VNone) by (apply Hnn; eapply get_In, Hv).
        replace (match v with VNone => false | _ => true end) with true by (destruct v; congruence).
        unfold gatherG in *. cbn [mapM fst snd]. rewrite Hv, IH. reflexivity.
      + inversion Hv; subst. exact IH.
  Qed.

  Lemma zl_option c c' : opt_content c = Some c' -> zl_ok c' -> zl_ok c.
  Proof.
    intros Hc IH p groups vs HV Hfr Hfin Hred Hl Hr.
    assert (Hsub : Valid None c' /\ optionlike c' = false /\ frag1 c' = true /\ fin c' = true /\
                   type_of_p p c = TOpt (type_of_p None c')).
    { destruct c; try discriminate; cbn [opt_content] in Hc; inversion Hc; subst; inversion HV; subst;
        cbn [frag1 fin type_of_p] in *; auto. }
    destruct Hsub as (HVc & Ho & Hfr' & Hfin' & Hty). rewrite Hty in *. cbn [reducible] in Hred.
    destruct (option_index_spec c c' vs Hc Hl) as (ix & vs0 & Hoi & Hl0 & Hpick).
    assert (Hnn : forall x, In x vs0 -> x <> VNone) by (eapply nonone_values; eassumption).
    pose proof (mapM_zlen _ _ _ Hpick) as Hz. rewrite Hz in Hr.
    destruct (mapM_gatherG ix groups Hr) as [ls Hls].
    set (gs := map (filter nonneg) ls).
    assert (Hgs : mapM (fun G => do l <- gatherG ix G; Ok (filter nonneg l)) groups = Ok gs).
    { rewrite (mapM_bind _ _ _ _ Hls). apply mapM_pure. }
    assert (Hr' : in_range (zlen vs0) gs).
    { intros g Hg [j i] Hji. cbn [snd]. apply in_map_iff in Hg as (l & <- & Hl'). apply filter_In in Hji as [Hji Hi].
      unfold nonneg in Hi. cbn [snd] in Hi.
      destruct (mapM_In_inv _ _ _ _ Hls Hl') as (G & HG & HgG). destruct (gatherG_In _ _ _ _ _ HgG Hji) as (q & _ & Hq).
      destruct (mapM_Ok_In _ _ _ _ Hpick (get_In _ _ _ Hq)) as (y & Hy & _). unfold pick_opt in Hy. rewrite Hi in Hy.
      eapply get_range, Hy. }
    destruct (IH None gs vs0) as (cr & ws & Hzl & Ht & Hs); try assumption.
    exists cr, ws. split; [rewrite (zl_opt_eq _ _ _ _ Hc), Hoi; cbn [bind fst]; rewrite Hgs; exact Hzl|]. split; [exact Ht|].
    unfold zspec in *. rewrite <- Hs. unfold gs. rewrite mapM_map, <- (mapM_bind _ _ _ _ Hls). apply mapM_ext_in. intros G HG.
    destruct (mapM_Ok_In _ _ _ _ Hls HG) as (l & Hl' & _). rewrite Hl'. cbn [bind].
    destruct (gatherG_ok vs G) as [xs Hxs]; [rewrite Hz; apply Hr, HG|]. rewrite Hxs. cbn [bind zipred].
    rewrite (gatherG_mapM _ _ _ _ _ Hpick Hl') in Hxs. rewrite (opt_filter vs0 l xs Hnn Hxs). reflexivity.
  Qed.

  (* ---- list nodes *)
  Definition sub_maxlen (sub : list (Z * (Z * Z))) : Z :=
    fold_left Z.max (map (fun jse : Z * (Z * Z) => snd (snd jse) - fst (snd jse)) sub) 0.
  Definition sub_col (q : Z) (sub : list (Z * (Z * Z))) : list (Z * Z) :=
    flat_map (fun jse : Z * (Z * Z) => let s := fst (snd jse) in let e := snd (snd jse) in
                                        if s + q <? e then [(fst jse, s + q)] else []) sub.
  Definition sub_cols (sub : list (Z * (Z * Z))) : list (list (Z * Z)) :=
    map (fun q => sub_col q sub) (iota (sub_maxlen sub)).

  Lemma zl_list_eq p c cc groups :
    list_content c = Some cc ->
    zl r mask p c groups =
    if is_strk p then Err EValue else
    do bc <- list_bounds c;
    do subs <- mapM (gatherG (fst bc)) groups;
    do inner <- zl r mask None cc (concat (map sub_cols subs));
    Ok (ListOffset I64 (offsets_from 0 (map sub_maxlen subs)) inner).
  Proof. destruct c; try discriminate; intros H; inversion H; reflexivity. Qed.

  Lemma zipred_list sz t' xs :
    zipred r mask (TList sz None t') xs =
    do ls <- mapM (fun jv : Z * value => match snd jv with VList l => Ok (fst jv, l) | _ => Err EValue end) xs;
    rmap VList (mapM (fun p => zipred r mask t' (column p ls))
                     (iota (fold_left Z.max (map (fun jl : Z * list value => zlen (snd jl)) ls) 0))).
  Proof. reflexivity. Qed.

  Lemma sub_lens vs0 sub : forall lsG,
    mapS (cut1 vs0) sub = Ok lsG ->
    map (fun jse : Z * (Z * Z) => snd (snd jse) - fst (snd jse)) sub = map (fun jl : Z * list value => zlen (snd jl)) lsG.
  Proof.
    induction sub as [|[j se] sub IH]; intros lsG H; unfold mapS in H; cbn [mapM] in H.
    - inversion H. reflexivity.
    - apply bind_Ok in H as (y & Hy & H). apply bind_Ok in H as (lsG' & Hls & H). inversion H; subst. clear H.
      cbn [fst snd] in Hy. apply bind_Ok in Hy as (l & Hl & Hy). inversion Hy; subst. clear Hy.
      cbn [map fst snd]. rewrite (IH _ Hls), (cut1_zlen _ _ _ Hl). reflexivity.
  Qed.

  (* THE KEY LEMMA (one level of the non-local reduction): the model's q-th group of positions below a
     list node -- the positions start+q of the lists that are long enough -- denotes exactly the q-th
     [column] of the specification, and there are as many columns as the longest list has elements *)
  Lemma cols_column vs0 sub lsG :
    mapS (cut1 vs0) sub = Ok lsG ->
    sub_maxlen sub = fold_left Z.max (map (fun jl : Z * list value => zlen (snd jl)) lsG) 0 /\
    forall q, 0 <= q -> gatherG vs0 (sub_col q sub) = Ok (column q lsG).
  Proof.
    intros H. split; [unfold sub_maxlen; rewrite (sub_lens _ _ _ H); reflexivity|].
    intros q Hq. revert lsG H. induction sub as [|[j [s e]] sub IH]; intros lsG H; unfold mapS in H; cbn [mapM] in H.
    - inversion H. reflexivity.
    - apply bind_Ok in H as (y & Hy & H). apply bind_Ok in H as (lsG' & Hls & H). inversion H; subst. clear H.
      cbn [fst snd] in Hy. apply bind_Ok in Hy as (l & Hl & Hy). inversion Hy; subst. clear Hy.
      specialize (IH _ Hls). unfold sub_col, column in *. cbn [flat_map fst snd]. rewrite gatherG_app, IH.
      pose proof (cut1_zlen _ _ _ Hl) as Hz. cbn [fst snd] in Hz.
      destruct (s + q <? e) eqn:E.
      + unfold cut1 in Hl. destruct (s =? e) eqn:Ese; [lia|].
        pose proof (slice_inv _ _ _ _ Hl) as (H1 & H2 & H3 & _).
        rewrite (get_slice _ _ _ _ q Hl) by lia. destruct (get_ok vs0 (s + q) ltac:(lia)) as [v Hv].
        unfold gatherG. cbn [mapM fst snd]. rewrite Hv. reflexivity.
      + rewrite (get_oob l q) by lia. reflexivity.
  Qed.

  Lemma mapM_map_eq {A B C} (H : A -> res B) (f : A -> C) (g : B -> C) xs ys :
    mapM H xs = Ok ys -> (forall x y, In x xs -> H x = Ok y -> f x = g y) -> map f xs = map g ys.
  Proof.
    revert ys. induction xs as [|x xs IH]; intros ys Hm Hfg; cbn [mapM] in Hm.
    - inversion Hm. reflexivity.
    - apply bind_Ok in Hm as (y & Hy & Hm). apply bind_Ok in Hm as (ys' & Hys & Hm). inversion Hm; subst.
      cbn [map]. rewrite (Hfg x y (or_introl eq_refl) Hy), (IH ys' Hys); [reflexivity|].
      intros x' y' Hx'. apply Hfg. right. exact Hx'.
  Qed.
  Lemma mapM_ok_id {A} (f : A -> res A) l : (forall x, In x l -> f x = Ok x) -> mapM f l = Ok l.
  Proof.
    induction l as [|x l IH]; intros H; [reflexivity|]. cbn [mapM]. rewrite (H x (or_introl eq_refl)). cbn [bind].
    rewrite IH; [reflexivity|]. intros y Hy. apply H. right. exact Hy.
  Qed.
  Lemma sub_maxlen_nonneg sub : 0 <= sub_maxlen sub.
  Proof. unfold sub_maxlen. apply Proofs_C03.fold_max_ge. Qed.

  Lemma zl_list c cc : list_content c = Some cc -> zl_ok cc -> zl_ok c.
  Proof.
    intros Hc IH p groups vs HV Hfr Hfin Hred Hl Hr.
    destruct (Valid_param p c HV) as [-> | Es].
    2:{ exfalso. destruct c; try discriminate; destruct p as [[]|]; try discriminate;
          cbn [type_of_p strflag reducible] in Hred; discriminate. }
    assert (Hsub : Valid None cc /\ frag1 cc = true /\ fin cc = true /\
                   exists sz, type_of_p None c = TList sz None (type_of_p None cc)).
    { destruct c; try discriminate; cbn [list_content] in Hc; inversion Hc; subst; inversion HV; subst;
        cbn [frag1 fin type_of_p strflag] in *;
        match goal with H : is_strk None = false -> Valid None _ |- _ => specialize (H eq_refl) end;
        repeat split; auto; eexists; reflexivity. }
    destruct Hsub as (HVc & Hfr' & Hfin' & sz & Hty). rewrite Hty in *. cbn [reducible] in Hred.
    destruct (list_bounds_spec c cc vs Hc Hl) as (bs & vs0 & ls & Hb & Hl0 & Hcut & ->).
    rewrite zlen_map, (mapM_zlen _ _ _ Hcut) in Hr.
    destruct (mapM_gatherG bs groups Hr) as [subs Hsubs].
    assert (HG : forall G sub, In G groups -> gatherG bs G = Ok sub ->
                               exists lsG, mapS (cut1 vs0) sub = Ok lsG /\ gatherG ls G = Ok lsG).
    { intros G sub HG Hsub. destruct (gatherG_ok ls G) as [lsG HlsG]; [rewrite (mapM_zlen _ _ _ Hcut); apply Hr, HG|].
      exists lsG. split; [|exact HlsG]. rewrite <- HlsG. symmetry. apply (gatherG_mapM _ _ _ _ _ Hcut Hsub). }
    set (groups' := concat (map sub_cols subs)).
    assert (Hr' : in_range (zlen vs0) groups').
    { intros G' HG' [j pos] Hjp. cbn [snd]. unfold groups' in HG'. apply in_concat in HG' as (L & HL & HG').
      apply in_map_iff in HL as (sub & <- & Hsub). unfold sub_cols in HG'. apply in_map_iff in HG' as (q & <- & Hq).
      apply iota_In' in Hq. unfold sub_col in Hjp. apply in_flat_map in Hjp as ([j' [s e]] & Hjse & Hjp). cbn [fst snd] in Hjp.
      destruct (s + q <? e) eqn:E; [|contradiction]. destruct Hjp as [Hjp|[]]. inversion Hjp; subst. clear Hjp.
      destruct (mapM_In_inv _ _ _ _ Hsubs Hsub) as (G & HGin & HGs).
      destruct (gatherG_In _ _ _ _ _ HGs Hjse) as (k & _ & Hk).
      destruct (mapM_Ok_In _ _ _ _ Hcut (get_In _ _ _ Hk)) as (l & Hl' & _). unfold cut1 in Hl'.
      destruct (s =? e) eqn:Ese; [lia|]. pose proof (slice_inv _ _ _ _ Hl') as (H1 & H2 & H3 & _). lia. }
    destruct (IH None groups' vs0) as (inner & ws' & Hzl & Ht & Hs); try assumption.
    unfold zspec in Hs. unfold groups' in Hs. rewrite mapM_concat in Hs. apply rmap_Ok in Hs as (Wss & HW & ->).
    rewrite mapM_map in HW.
    exists (ListOffset I64 (offsets_from 0 (map sub_maxlen subs)) inner), (map VList Wss). split.
    { rewrite (zl_list_eq _ _ _ _ Hc), Hb. cbn [is_strk bind fst]. rewrite Hsubs. cbn [bind]. fold groups'. rewrite Hzl. reflexivity. }
    split.
    - rewrite to_list_ListOffset, Ht. cbn [bind]. rewrite (cut_concat_lens Wss); [reflexivity|].
      eapply mapM_map_eq; [exact HW|]. intros sub Ws _ HWs. cbv beta in HWs. rewrite (mapM_zlen _ _ _ HWs).
      unfold sub_cols. rewrite zlen_map, zlen_iota by apply sub_maxlen_nonneg. reflexivity.
    - unfold zspec. rewrite <- (mapM_bind _ _ _ _ Hsubs) in HW. eapply mapM_transfer; [exact HW|].
      intros G Ws HGin HWs. cbv beta in HWs. apply bind_Ok in HWs as (sub & Hsub & HWs).
      destruct (HG G sub HGin Hsub) as (lsG & HlsG & HgG). destruct (cols_column vs0 sub lsG HlsG) as [Hmax Hcol].
      rewrite gatherG_map, HgG. cbn [rmap bind]. rewrite zipred_list, mapM_map.
      rewrite (mapM_ext_in _ (fun jl : Z * list value => Ok jl)) by (intros [? ?] _; reflexivity).
      rewrite mapM_ok_id by reflexivity. cbn [bind]. rewrite <- Hmax.
      unfold sub_cols in HWs. rewrite mapM_map in HWs.
      rewrite (mapM_ext_in _ (fun q => do xs <- gatherG vs0 (sub_col q sub); zipred r mask (type_of_p None cc) xs)).
      + rewrite HWs. reflexivity.
      + intros q Hq. apply iota_In' in Hq. rewrite (Hcol q) by lia. reflexivity.
  Qed.

  (* ---- RecordArray *)
  Definition zl_all (groups : list (list (Z * Z))) : list content -> res (list content) :=
    fix all (l : list content) : res (list content) :=
      match l with
      | [] => Ok []
      | x :: xs => do y <- zl r mask None x groups; do ys <- all xs; Ok (y :: ys)
      end.
  Lemma zl_all_mapM groups cs : zl_all groups cs = mapM (fun x => zl r mask None x groups) cs.
  Proof. induction cs as [|x xs IH]; [reflexivity|]. cbn [mapM zl_all]. fold (zl_all groups). rewrite IH. reflexivity. Qed.
  Lemma zl_Record_eq p cs ks n groups :
    zl r mask p (Record cs ks n) groups = do cs' <- zl_all groups cs; Ok (Record cs' ks (zlen groups)).
  Proof. reflexivity. Qed.

  Definition rfield (i : Z) (jv : Z * value) : res (Z * value) :=
    match snd jv with
    | VRec fs => do kv <- get fs i; Ok (fst jv, snd kv)
    | VTup vs => do v <- get vs i; Ok (fst jv, v)
    | _ => Err EValue
    end.
  Fixpoint rgo (xs : list (Z * value)) (i : Z) (ts : list ty) : res (list value) :=
    match ts with
    | [] => Ok []
    | t1 :: ts' => do col <- mapM (rfield i) xs; do y <- zipred r mask t1 col; do ys <- rgo xs (i + 1) ts'; Ok (y :: ys)
    end.
  Definition wrap_rec (ks : option (list name)) (outs : list value) : res value :=
    match ks with
    | Some names => if Nat.eqb (length names) (length outs) then Ok (VRec (zip names outs)) else Err EValue
    | None => Ok (VTup outs)
    end.
  Lemma zipred_rec ks ts xs : zipred r mask (TRec ks ts) xs = do outs <- rgo xs 0 ts; wrap_rec ks outs.
  Proof.
    cbn [zipred].
    match goal with |- bind (?F 0 ts) _ = _ => assert (E : forall ts' i, F i ts' = rgo xs i ts') end.
    { induction ts' as [|t1 ts' IH]; intros i; [reflexivity|]. cbn [rgo]. rewrite <- IH. reflexivity. }
    rewrite E. reflexivity.
  Qed.
  Lemma row_wrap ks vss i : row ks vss i = do vs <- mapM (fun col : list value => get col i) vss; wrap_rec ks vs.
  Proof. reflexivity. Qed.

  Lemma rfield_row ks vss p v i col x j :
    row ks vss p = Ok v -> get vss i = Ok col -> get col p = Ok x -> rfield i (j, v) = Ok (j, x).
  Proof.
    intros Hrow Hcol Hx. rewrite row_wrap in Hrow. apply bind_Ok in Hrow as (xs & Hxs & Hw).
    assert (Hgi : get xs i = Ok x) by (rewrite (mapM_get _ _ _ i Hxs), Hcol; exact Hx).
    unfold wrap_rec in Hw. destruct ks as [k|].
    - destruct (Nat.eqb (length k) (length xs)) eqn:E; [|discriminate]. inversion Hw; subst v. apply Nat.eqb_eq in E.
      unfold rfield. cbn [snd fst]. rewrite get_zip, Hgi.
      destruct (get_ok k i) as [a Ha]; [apply get_range in Hgi; unfold zlen in *; lia|]. rewrite Ha. reflexivity.
    - inversion Hw; subst v. unfold rfield. cbn [snd fst]. rewrite Hgi. reflexivity.
  Qed.

  Lemma rfield_group ks vss vs n i col G xs :
    mapM (row ks vss) (iota n) = Ok vs -> get vss i = Ok col -> n <= zlen col -> gatherG vs G = Ok xs ->
    exists cxs, gatherG col G = Ok cxs /\ mapM (rfield i) xs = Ok cxs.
  Proof.
    intros Hrows Hcol Hn. revert xs. induction G as [|[j p] G IH]; intros xs H; unfold gatherG in H; cbn [mapM] in H.
    - inversion H. exists []. split; reflexivity.
    - apply bind_Ok in H as (y & Hy & H). apply bind_Ok in H as (xs' & Hxs' & H). inversion H; subst. clear H.
      cbn [fst snd] in Hy. apply bind_Ok in Hy as (v & Hv & Hy). inversion Hy; subst. clear Hy.
      destruct (IH xs' Hxs') as (cxs & Hg1 & Hg2).
      pose proof (get_range _ _ _ Hv) as Hp. assert (Hzn : zlen vs = n).
      { rewrite (mapM_zlen _ _ _ Hrows). apply zlen_iota. destruct (Z_le_gt_dec 0 n); [assumption|].
        exfalso. unfold iota in Hrows. replace (Z.to_nat n) with O in Hrows by lia. inversion Hrows; subst. cbn in Hp. lia. }
      assert (Hrow : row ks vss p = Ok v).
      { rewrite (mapM_get _ _ _ p Hrows), get_iota in Hv by lia. exact Hv. }
      destruct (get_ok col p ltac:(lia)) as [x Hx].
      exists ((j, x) :: cxs). unfold gatherG in *. cbn [mapM fst snd]. rewrite Hx, Hg1. cbn [bind].
      rewrite (rfield_row _ _ _ _ _ _ _ j Hrow Hcol Hx), Hg2. split; reflexivity.
  Qed.

  Lemma rgo_pointwise xs : forall ts i ys,
    zlen ys = zlen ts ->
    (forall a t, get ts a = Ok t ->
                 exists col y, mapM (rfield (i + a)) xs = Ok col /\ zipred r mask t col = Ok y /\ get ys a = Ok y) ->
    rgo xs i ts = Ok ys.
  Proof.
    induction ts as [|t ts IH]; intros i ys Hz Hp.
    - rewrite zlen_nil in Hz. apply zlen_0_nil in Hz. subst. reflexivity.
    - destruct ys as [|y ys]; [rewrite zlen_nil, zlen_cons in Hz; pose proof (zlen_nonneg ts); lia|].
      rewrite !zlen_cons in Hz. cbn [rgo].
      destruct (Hp 0 t (get_cons_0 _ _)) as (col & y' & H1 & H2 & H3). rewrite get_cons_0 in H3. inversion H3; subst y'.
      rewrite Z.add_0_r in H1. rewrite H1. cbn [bind]. rewrite H2. cbn [bind].
      rewrite (IH (i + 1) ys); [reflexivity|lia|].
      intros a t' Ha. pose proof (get_range _ _ _ Ha) as Hr. destruct (Hp (a + 1) t') as (col' & y' & H1' & H2' & H3').
      { rewrite get_cons_S by lia. exact Ha. }
      exists col', y'. rewrite get_cons_S in H3' by lia. replace (i + 1 + a) with (i + (a + 1)) by lia. auto.
  Qed.

  Lemma mapM_iota_get {A B} (F : A -> res B) l : mapM (fun k => do x <- get l k; F x) (iota (zlen l)) = mapM F l.
  Proof.
    pose proof (zlen_nonneg l). apply mapM_pointwise_eq; [apply zlen_iota; lia|].
    intros j Hj. rewrite zlen_iota in Hj by lia. rewrite get_iota by lia. reflexivity.
  Qed.

  Lemma zl_Record cs ks n : Forall zl_ok cs -> zl_ok (Record cs ks n).
  Proof.
    intros IH p groups vs HV Hfr Hfin Hred Hl Hr. inversion HV; subst. cbn [frag1 fin type_of_p reducible] in *.
    apply frag1_all in Hfr. apply fin_all in Hfin.
    match goal with H : Forall (Valid None) cs |- _ => rename H into HVs end.
    match goal with H : Forall (fun x => n <= clen x) cs |- _ => rename H into Hlens end.
    match goal with H : forall k, ks = Some k -> _ |- _ => rename H into Hks end.
    rewrite to_list_Record, all_lists_mapM in Hl. apply bind_Ok in Hl as (vss & Hvss & Hl).
    destruct (n <? 0) eqn:En; [discriminate|].
    assert (Hzn : zlen vs = n) by (rewrite (mapM_zlen _ _ _ Hl); apply zlen_iota; lia).
    set (ts := map (type_of_p None) cs) in *.
    (* every field, by the induction hypothesis *)
    assert (Hx : forall x, In x cs -> exists col c' w, to_list x = Ok col /\ n <= zlen col /\ zl r mask None x groups = Ok c' /\
                                                    to_list c' = Ok w /\ zspec (type_of_p None x) col groups = Ok w).
    { intros x Hin. destruct (mapM_Ok_In _ _ _ _ Hvss Hin) as (col & Hcol & _).
      rewrite Forall_forall in IH, Hfr, Hfin, HVs, Hlens.
      assert (Hn : n <= zlen col) by (rewrite (to_list_len _ _ Hcol); apply Hlens, Hin).
      destruct (IH x Hin None groups col) as (c' & w & Q1 & Q2 & Q3); auto.
      - rewrite forallb_forall in Hred. apply Hred. unfold ts. apply in_map, Hin.
      - intros G HG jp Hjp. specialize (Hr G HG jp Hjp). lia.
      - exists col, c', w. auto. }
    destruct (mapM_total (fun x => zl r mask None x groups) cs) as [cs' Hcs'].
    { intros x Hin. destruct (Hx x Hin) as (col & c' & w & _ & _ & Qa & _). eauto. }
    destruct (mapM_total to_list cs') as [wss Hwss].
    { intros y Hy. destruct (mapM_In_inv _ _ _ _ Hcs' Hy) as (x & Hin & Hzl). destruct (Hx x Hin) as (col & c' & w & _ & _ & Qa & Qb & _).
      rewrite Hzl in Qa. inversion Qa; subst. eauto. }
    (* position by position *)
    assert (Hat : forall a x, get cs a = Ok x ->
                  exists col w, get vss a = Ok col /\ n <= zlen col /\ get wss a = Ok w /\ zspec (type_of_p None x) col groups = Ok w).
    { intros a x Ha. destruct (Hx x (get_In _ _ _ Ha)) as (col & c' & w & Q1 & Q2 & Q3 & Q4 & Q5).
      exists col, w. rewrite (mapM_get _ _ _ a Hvss), (mapM_get _ _ _ a Hwss), (mapM_get _ _ _ a Hcs'), Ha. cbn [bind].
      rewrite Q1, Q3. cbn [bind]. auto. }
    pose proof (zlen_nonneg groups) as Hm.
    assert (Hw_len : forall w, In w wss -> zlen w = zlen groups).
    { intros w Hw. destruct (mapM_In_inv _ _ _ _ Hwss Hw) as (y & Hy & Hyw). destruct (mapM_In_inv _ _ _ _ Hcs' Hy) as (x & Hin & Hzl).
      destruct (Hx x Hin) as (col & c' & w' & _ & _ & Qa & Qb & Hs). rewrite Hzl in Qa. inversion Qa; subst c'.
      rewrite Hyw in Qb. inversion Qb; subst w'. apply (mapM_zlen _ _ _ Hs). }
    (* one group *)
    assert (Hone : forall k G, get groups k = Ok G ->
              exists v, row ks wss k = Ok v /\ (do xs <- gatherG vs G; zipred r mask (TRec ks ts) xs) = Ok v).
    { intros k G HkG. pose proof (get_range _ _ _ HkG) as Hk.
      destruct (gatherG_ok vs G) as [xs Hxs]; [apply Hr; eapply get_In, HkG|].
      destruct (mapM_total (fun w : list value => get w k) wss) as [ys Hys].
      { intros w Hw. apply get_ok. rewrite (Hw_len w Hw). exact Hk. }
      assert (Hrgo : rgo xs 0 ts = Ok ys).
      { apply rgo_pointwise.
        - rewrite (mapM_zlen _ _ _ Hys), (mapM_zlen _ _ _ Hwss), (mapM_zlen _ _ _ Hcs'). unfold ts. rewrite zlen_map. reflexivity.
        - intros a t Ha. unfold ts in Ha. rewrite get_map in Ha. apply rmap_Ok in Ha as (x & Hxa & ->).
          destruct (Hat a x Hxa) as (col & w & Q1 & Q2 & Q3 & Q4).
          destruct (rfield_group ks vss vs n a col G xs Hl Q1 Q2 Hxs) as (cxs & Hc1 & Hc2).
          destruct (get_ok w k) as [y Hy]; [rewrite (Hw_len w (get_In _ _ _ Q3)); exact Hk|].
          exists cxs, y. rewrite Z.add_0_l. split; [exact Hc2|]. split.
          + unfold zspec in Q4. rewrite (mapM_get _ _ _ k Q4), HkG in Hy. cbn [bind] in Hy. rewrite Hc1 in Hy. exact Hy.
          + rewrite (mapM_get _ _ _ a Hys), Q3. exact Hy. }
      assert (Hwr : exists v, wrap_rec ks ys = Ok v).
      { unfold wrap_rec. destruct ks as [k0|]; [|eauto]. rewrite (Hks k0 eq_refl).
        replace (length ys) with (length cs); [rewrite Nat.eqb_refl; eauto|].
        apply zlen_eq_length. rewrite (mapM_zlen _ _ _ Hys), (mapM_zlen _ _ _ Hwss), (mapM_zlen _ _ _ Hcs'). reflexivity. }
      destruct Hwr as [v Hv]. exists v. rewrite row_wrap, Hys, Hxs. cbn [bind]. rewrite zipred_rec, Hrgo. cbn [bind]. auto. }
    destruct (mapM_total (fun G => do xs <- gatherG vs G; zipred r mask (TRec ks ts) xs) groups) as [ws Hws].
    { intros G HG. destruct (In_nth_error _ _ HG) as [k0 Hk0].
      destruct (Hone (Z.of_nat k0) G) as (v & _ & Hv); [|eauto].
      unfold get. destruct (Z.of_nat k0 <? 0) eqn:E; [lia|]. rewrite Nat2Z.id, Hk0. reflexivity. }
    exists (Record cs' ks (zlen groups)), ws. split; [rewrite zl_Record_eq, zl_all_mapM, Hcs'; reflexivity|]. split; [|exact Hws].
    rewrite to_list_Record, all_lists_mapM, Hwss. cbn [bind]. destruct (zlen groups <? 0) eqn:E; [lia|].
    rewrite <- Hws, <- (mapM_iota_get (fun G => do xs <- gatherG vs G; zipred r mask (TRec ks ts) xs) groups). apply mapM_ext_in. intros k Hk. apply iota_In' in Hk.
    destruct (get_ok groups k Hk) as [G HG]. rewrite HG. cbn [bind]. destruct (Hone k G HG) as (v & Q1 & Q2). rewrite Q1, Q2. reflexivity.
  Qed.

  (* ---- parameters: a reducible type has no string node *)
  Lemma zl_Par a rn c : zl_ok c -> zl_ok (Par a rn c).
  Proof.
    intros IH p groups vs HV Hfr Hfin Hred Hl Hr. inversion HV; subst. cbn [frag1 fin type_of_p zl] in *.
    match goal with H : Valid a c |- _ => rename H into HVc end.
    assert (Ha : to_list c = Ok vs).
    { rewrite to_list_Par in Hl. apply bind_Ok in Hl as (vs0 & Hl0 & Hl).
      destruct (Valid_param a c HVc) as [-> | Es]; [inversion Hl; subst; exact Hl0|]. exfalso.
      assert (Hp : ParamOk a c) by (inversion HVc; subst; try assumption; discriminate).
      destruct (ParamOk_str a c Hp Es) as (cc & k & rn' & n & d & Hcc & _ & _).
      destruct a as [[]|]; try discriminate Es; destruct c; try discriminate Hcc;
        cbn [type_of_p strflag reducible] in Hred; discriminate Hred. }
    apply IH; assumption.
  Qed.

  Theorem zl_spec_all c : zl_ok c.
  Proof.
    induction c as [dt shape data| |w o c IHc|w s e c IHc|c size zl IHc|w ix c IHc|w ix c IHc|m vw c IHc
                   |m vw lsb n c IHc|c IHc|w t ix cs IHcs|cs ks n IHcs|arr rn c IHc] using content_ind'.
    - apply zl_Numpy.
    - apply zl_Empty.
    - eapply zl_list; [reflexivity|exact IHc].
    - eapply zl_list; [reflexivity|exact IHc].
    - eapply zl_list; [reflexivity|exact IHc].
    - apply zl_Indexed, IHc.
    - eapply zl_option; [reflexivity|exact IHc].
    - eapply zl_option; [reflexivity|exact IHc].
    - eapply zl_option; [reflexivity|exact IHc].
    - eapply zl_option; [reflexivity|exact IHc].
    - intros p groups vs _ Hfr. discriminate.
    - apply zl_Record, IHcs.
    - apply zl_Par, IHc.
  Qed.
End ZL.

(** [zl] on a layout = [zipred] on the values its groups of positions denote.  Local reduction is the
    instance where the groups are the lists of one list node, non-local reduction the one where they are
    the whole array (axis 0) or columns below list nodes. *)
Theorem zl_spec r mask c groups vs :
  Valid None c -> frag1 c = true -> fin c = true -> reducible (type_of c) = true ->
  to_list c = Ok vs -> in_range (zlen vs) groups ->
  exists c' ws, zl r mask None c groups = Ok c' /\ to_list c' = Ok ws /\ zspec r mask (type_of c) vs groups = Ok ws.
Proof. intros. apply zl_spec_all; assumption. Qed.
Print Assumptions zl_spec.
