"""C07: combinations (C++ layer) = itertools.combinations(_with_replacement) per list at the axis."""
import common as C
import gen as G

THEOREMS = ['combinations_result', 'combs_length_is_binomial', 'combs_r_length_is_multichoose',
            'combs_tuples_are_subsequences', 'combs_all_subsequences', 'combs_no_duplicates', 'combs_r_tuples_have_n', 'combinations_refines_spec']
PY_HALF = True     # harness/pyhalves.py: the Python-layer functions of this property under pyshim
RULE = ('value-first random layouts x n in 1..4 (sometimes 0) x replacement x axis; non-trivial = some list at the axis has '
        '>= n elements (at least one tuple is produced); distinct by case text')
ASSUMPTIONS = ['cartesian/argcartesian are Python-layer functions (not executable here: no pybind11 extension)',
               'types containing unions are skipped; axis=0 (combinations of the outer dimension) not exercised']


def cases(rng, tier):
    n = 10000 if tier == 'quick' else 200000
    out = []
    for i in range(n):
        a = G.gen_array(rng, depth=rng.choice([2, 3, 3]), canonical_too=False, type_kw=dict(allow_union=False))
        t = a['type']
        k = rng.choice([1, 2, 2, 2, 3, 3, 4, 0])
        repl = rng.choice([0, 1])
        axis = G.pick_axis(rng, t)
        nontriv = any(isinstance(v, list) and len(v) >= max(k, 1) for v in a['vals'])
        tags = dict(n=k, repl=repl, axis=axis, negaxis_rec=bool(axis < 0 and G.has_rec_under_list(t)))
        out.append(C.Case('c%d' % i, 'combinations', [str(k), str(repl), str(axis)], [G.sx(a['layout'])],
                          dict(nontrivial=nontriv, tags=tags)))
    return out


def signature(c, impl, v):
    if c.meta.get('tags', {}).get('negaxis_rec'):
        return 'negaxis-record-under-list'
    return None
