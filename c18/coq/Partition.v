(** C18, model of PartitionedArray / IrregularlyPartitionedArray (no proofs in this file).

    Follows /repo/src/libawkward/partition/IrregularlyPartitionedArray.cpp ([partitionid_index_at],
    [repartition]) and PartitionedArray.cpp ([getitem_at], [getitem_range], [getitem_range_nowrap]),
    awkward_regularize_rangeslice (cpu-kernels/kernel-utils.cpp).
    A partition is a list of elements ([list A]); every [partitions_[i]] of the C++ is a checked access. *)
From Coq Require Import ZArith List Bool.
From AwkV Require Import Base.
Import ListNotations.
Open Scope Z_scope.

Section Partition.
  Variable A : Type.

  Record parr := { pa_parts : list (list A); pa_stops : list Z }.

  (* the stops that belong to a list of partitions *)
  Fixpoint cumstops (start : Z) (ps : list (list A)) : list Z :=
    match ps with
    | [] => []
    | p :: r => (start + zlen p) :: cumstops (start + zlen p) r
    end.

  Definition mk_parr (ps : list (list A)) : parr := {| pa_parts := ps; pa_stops := cumstops 0 ps |}.

  (* class invariant: at least one partition, stops are the running totals *)
  Definition wf_parr (pa : parr) : Prop := pa_parts pa <> [] /\ pa_stops pa = cumstops 0 (pa_parts pa).

  (* std::vector::back() *)
  Definition back (l : list Z) : res Z :=
    match l with [] => Err EOob | _ => Ok (last l 0) end.

  (* IrregularlyPartitionedArray::length *)
  Definition pa_length (pa : parr) : res Z := back (pa_stops pa).

  (* IrregularlyPartitionedArray::partitionid_index_at: the for loop over stops_ *)
  Fixpoint pidx_loop (stops : list Z) (i start pos : Z) : option (Z * Z) :=
    match stops with
    | [] => None
    | s :: rest => if pos <? s then Some (i, pos - start) else pidx_loop rest (i + 1) s pos
    end.

  Definition partitionid_index_at (stops : list Z) (pos : Z) : Z * Z :=
    if pos <? 0 then (-1, -1)
    else match pidx_loop stops 0 0 pos with
         | Some r => r
         | None => (zlen stops, 0)
         end.

  (* PartitionedArray::getitem_at_nowrap / getitem_at *)
  Definition getitem_at_nowrap (pa : parr) (pos : Z) : res A :=
    let '(p, j) := partitionid_index_at (pa_stops pa) pos in
    do part <- get (pa_parts pa) p;
    get part j.

  Definition getitem_at (pa : parr) (pos : Z) : res A :=
    do len <- pa_length pa;
    let regular_at := if pos <? 0 then pos + len else pos in
    if (0 <=? regular_at) && (regular_at <? len) then getitem_at_nowrap pa regular_at
    else Err EValue.

  (* awkward_regularize_rangeslice; None = Slice::none() *)
  Definition regularize (start stop : option Z) (posstep : bool) (length : Z) : Z * Z :=
    if posstep then
      let s := match start with None => 0 | Some s => if s <? 0 then s + length else s end in
      let s := if s <? 0 then 0 else s in
      let s := if length <? s then length else s in
      let e := match stop with None => length | Some e => if e <? 0 then e + length else e end in
      let e := if e <? 0 then 0 else e in
      let e := if length <? e then length else e in
      let e := if e <? s then s else e in
      (s, e)
    else
      let s := match start with None => length - 1 | Some s => if s <? 0 then s + length else s end in
      let s := if s <? -1 then -1 else s in
      let s := if length - 1 <? s then length - 1 else s in
      let e := match stop with None => -1 | Some e => if e <? 0 then e + length else e end in
      let e := if e <? -1 then -1 else e in
      let e := if length - 1 <? e then length - 1 else e in
      let e := if s <? e then s else e in
      (s, e).

  (* positions a, a+s, a+2s, ... below b (s > 0) *)
  Definition stride_up (a b s : Z) : list Z :=
    if a <? b then map (fun i => a + i * s) (iota ((b - a + s - 1) / s)) else [].
  (* positions a, a-s, a-2s, ... above b (s > 0) *)
  Definition stride_down (a b s : Z) : list Z :=
    if b <? a then map (fun i => a - i * s) (iota ((a - b + s - 1) / s)) else [].

  (* Content::getitem(Slice(SliceRange(a, b, step))) on one partition: Python l[a:b:step] with given bounds *)
  Definition slice_step (l : list A) (a b step : Z) : res (list A) :=
    if step =? 0 then Err EValue
    else
      let '(ra, rb) := regularize (Some a) (Some b) (0 <? step) (zlen l) in
      if 0 <? step then mapM (get l) (stride_up ra rb step)
      else mapM (get l) (stride_down ra rb (- step)).

  Definition keep_nonempty (piece : list A) (tl : list (list A)) : list (list A) :=
    if 0 <? zlen piece then piece :: tl else tl.

  (* the loop "for partitionid = first; partitionid < numpartitions && partitionid <= last; ++" (step > 0);
     [ps] = partitions_[pid ..] *)
  Fixpoint range_up (ps : list (list A)) (pid first last index_start index_stop step offset : Z)
    : res (list (list A)) :=
    match ps with
    | [] => Ok []
    | p :: rest =>
        if last <? pid then Ok []
        else
          let plen := zlen p in
          do po <-
            (if (pid =? first) && (pid =? last) then
               do q <- (if step =? 1 then slice p index_start index_stop
                        else slice_step p index_start index_stop step);
               Ok (q, offset)
             else if pid =? first then
               if step =? 1 then do q <- slice p index_start plen; Ok (q, offset)
               else do q <- slice_step p index_start plen step;
                    Ok (q, Z.rem (Z.rem (index_start - plen) step + step) step)
             else if pid =? last then
               do q <- (if step =? 1 then slice p 0 index_stop else slice_step p offset index_stop step);
               Ok (q, offset)
             else if negb (step =? 1) then
               do q <- slice_step p offset plen step;
               Ok (q, Z.rem (Z.rem (offset - plen) step + step) step)
             else Ok (p, offset));
          let '(piece, offset') := po in
          do tl <- range_up rest (pid + 1) first last index_start index_stop step offset';
          Ok (keep_nonempty piece tl)
    end.

  (* the loop "for partitionid = first; partitionid >= 0 && partitionid >= last; --" (step < 0);
     [ps] = partitions_[pid], partitions_[pid-1], ..., partitions_[0] *)
  Fixpoint range_down (ps : list (list A)) (pid first last index_start index_stop step offset : Z)
    : res (list (list A)) :=
    match ps with
    | [] => Ok []
    | p :: rest =>
        if pid <? last then Ok []
        else
          let plen := zlen p in
          let ms := - step in
          let '(a, b, offset') :=
            if (pid =? first) && (pid =? last) then (index_start, index_stop, offset)
            else if pid =? first then
              (index_start, - plen - 1, Z.rem (Z.rem (-1 - index_start) ms + ms) ms)
            else if pid =? last then (plen - 1 - offset, index_stop, offset)
            else (plen - 1 - offset, - plen - 1,
                  Z.rem (Z.rem (-1 - (plen - 1 - offset)) ms + ms) ms) in
          let a := if a <? 0 then - plen - 1 else a in
          let b := if b <? 0 then - plen - 1 else b in
          do piece <- slice_step p a b step;
          do tl <- range_down rest (pid - 1) first last index_start index_stop step offset';
          Ok (keep_nonempty piece tl)
    end.

  (* PartitionedArray::getitem_range_nowrap *)
  Definition getitem_range_nowrap (pa : parr) (start stop step : Z) : res parr :=
    let '(first, index_start) := partitionid_index_at (pa_stops pa) start in
    let '(last, index_stop) := partitionid_index_at (pa_stops pa) stop in
    let n := zlen (pa_parts pa) in
    do pieces <-
      (if 0 <? step then
         if first <? 0 then (if last <? first then Ok [] else Err EOob)
         else range_up (drop first (pa_parts pa)) first first last index_start index_stop step 0
       else if step <? 0 then
         if (0 <=? first) && (last <=? first) && (n <=? first) then Err EOob
         else range_down (rev (take (first + 1) (pa_parts pa))) first first last index_start index_stop step 0
       else Err EValue);
    match pieces with
    | [] => do p0 <- get (pa_parts pa) 0; Ok (mk_parr [take 0 p0])      (* partitions_[0]->getitem_nothing() *)
    | _ => Ok (mk_parr pieces)
    end.

  (* PartitionedArray::getitem_range *)
  Definition getitem_range (pa : parr) (start stop step : option Z) : res parr :=
    let regular_step := match step with None => 1 | Some s => s end in
    let posstep := match step with None => true | Some s => 0 <? s end in
    do len <- pa_length pa;
    let '(a, b) := regularize start stop posstep len in
    getitem_range_nowrap pa a b regular_step.

  (* ---- IrregularlyPartitionedArray::repartition ---- *)

  Definition dst_len (dst : option (list A)) : Z := match dst with None => 0 | Some d => zlen d end.
  Definition dst_app (dst : option (list A)) (piece : list A) : list A :=
    match dst with None => piece | Some d => d ++ piece end.

  (* the inner "while (dst == nullptr || dst->length() < length)" loop for one target partition.
     [fixed = false] is the code as pinned (before the fix: commit); [fixed = true] is the code with the guard
        if (partitionid >= numpartitions()) { if (dst == nullptr) dst = partitions_[0]->getitem_range_nowrap(0, 0); break; }
     at the top of the loop body (the current tree). *)
  Fixpoint fill (fixed : bool) (fuel : nat) (parts : list (list A)) (length : Z)
           (dst : option (list A)) (pid index : Z) : res (list A * Z * Z) :=
    match fuel with
    | O => Err EFuel
    | S fuel' =>
        if (match dst with None => true | Some d => zlen d <? length end) then
          if fixed && (zlen parts <=? pid) then Ok (dst_app dst [], pid, index)
          else
            do src <- get parts pid;
            let available := zlen src - index in
            let desired := match dst with None => length | Some d => length - zlen d end in
            if available <=? desired then
              do piece <- slice src index (zlen src);
              fill fixed fuel' parts length (Some (dst_app dst piece)) (pid + 1) 0
            else
              do piece <- slice src index (index + desired);
              fill fixed fuel' parts length (Some (dst_app dst piece)) pid (index + desired)
        else Ok (dst_app dst [], pid, index)
    end.

  (* the outer "for i < stops.size()" loop *)
  Fixpoint repart_loop (fixed : bool) (fuel : nat) (parts : list (list A)) (stops : list Z)
           (prev pid index : Z) : res (list (list A)) :=
    match stops with
    | [] => Ok []
    | s :: rest =>
        do r <- fill fixed fuel parts (s - prev) None pid index;
        let '(dst, pid', index') := r in
        do tl <- repart_loop fixed fuel parts rest s pid' index';
        Ok (dst :: tl)
    end.

  Definition repartition (fixed : bool) (fuel : nat) (pa : parr) (stops : list Z) : res parr :=
    if list_eqb Z.eqb stops (pa_stops pa) then Ok pa
    else
      do l' <- back stops;
      do l <- back (pa_stops pa);
      if negb (l' =? l) then Err EValue
      else
        do ps <- repart_loop fixed fuel (pa_parts pa) stops 0 0 0;
        Ok {| pa_parts := ps; pa_stops := stops |}.

  (* fuel that always suffices: every iteration of the inner loop either moves to the next source
     partition or completes the target *)
  Definition repartition_fuel (pa : parr) : nat := S (S (length (pa_parts pa))).
End Partition.

Arguments pa_parts {A} p.
Arguments pa_stops {A} p.
