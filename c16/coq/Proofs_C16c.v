(** C16 proofs, part 4: from_buffers(to_buffers c) has the value of c (fragment). *)
From Coq Require Import ZArith List Bool Lia ZifyBool.
From AwkV Require Import Base Layout LayoutInd Valid Types Proofs_Lists Proofs_C11 Proofs_Typing Proofs_ToList.
From AwkBuffers Require Import Buffers Proofs_C16 Proofs_C16b.
Import ListNotations.
Open Scope Z_scope.

(* nodes that come back whole whatever length their parent asks for (their own buffers are kept in full) *)
Fixpoint resets (c : content) : bool :=
  match c with
  | Numpy _ _ _ | ListOffset _ _ _ | ListA _ _ _ _ | Indexed _ _ _ | IndexedOption _ _ _ | ByteMasked _ _ _ => true
  | Regular c' _ _ => resets c'
  | _ => false
  end.

(* the fragment: 1-d NumpyArray, ListOffsetArray (offsets inside the content), ListArray and ByteMaskedArray over nodes
   that come back whole, RegularArray of positive size, IndexedArray, IndexedOptionArray, RecordArray (tuples and keyed) *)
Fixpoint frag16 (c : content) : bool :=
  match c with
  | Numpy _ shape _ => match shape with [_] => true | _ => false end
  | ListOffset _ o c' => frag16 c' && forallb (fun x => (0 <=? x) && (x <=? clen c')) o
  | ListA _ _ _ c' => frag16 c' && resets c'
  | Regular c' size _ => (0 <? size) && frag16 c'
  | Indexed _ _ c' | IndexedOption _ _ c' => frag16 c'
  | ByteMasked _ _ c' => frag16 c' && resets c'
  | Record cs _ _ => (fix all (l : list content) : bool := match l with [] => true | x :: xs => frag16 x && all xs end) cs
  | _ => false
  end.
Lemma frag16_all cs :
  (fix all (l : list content) : bool := match l with [] => true | x :: xs => frag16 x && all xs end) cs = forallb frag16 cs.
Proof. induction cs as [|x xs IH]; [reflexivity|]. cbn [forallb]. rewrite IH. reflexivity. Qed.

Definition efflen (t : option Z) (c : content) : Z := match t with None => clen c | Some k => k end.
Definition trim_ok (t : option Z) (c : content) : Prop := match t with None => True | Some k => 0 <= k <= clen c end.

Definition rt_at (c : content) : Prop :=
  forall t len vs, Valid None c -> frag16 c = true -> trim_ok t c -> 0 <= len <= efflen t c -> to_list c = Ok vs ->
  exists c', of_ftree false (to_ftree c t) len = Ok c' /\ len <= clen c' <= efflen t c /\
             to_list c' = Ok (take (clen c') vs) /\ (resets c = true -> clen c' = efflen t c).

Lemma to_list_clen c vs : to_list c = Ok vs -> zlen vs = clen c /\ 0 <= clen c.
Proof. intros H. pose proof (to_list_len c vs H). pose proof (zlen_nonneg vs). lia. Qed.

(* ---------------------------------------------------------------- leaves *)
Lemma rt_Numpy dt shape data : rt_at (Numpy dt shape data).
Proof.
  intros t len vs HV Hf Ht Hlen Hvs. cbn [frag16] in Hf. destruct shape as [|n [|? ?]]; try discriminate Hf.
  apply Valid_Numpy_inv in HV as (_ & _ & HF & Hd). inversion HF as [|? ? Hn _]; subst.
  unfold prodZ in Hd. cbn [fold_right] in Hd.
  rewrite to_list_Numpy in Hvs. cbn [existsb] in Hvs. replace (n <? 0) with false in Hvs by lia. cbn [orb] in Hvs.
  unfold prodZ in Hvs. cbn [fold_right] in Hvs. replace (zlen data <? n * 1) with false in Hvs by lia.
  cbn [nest] in Hvs. injection Hvs as <-.
  set (rows := match t with None => n | Some k => k end).
  assert (Hrows : 0 <= rows <= n /\ len <= rows /\ rows = efflen t (Numpy dt [n] data)).
  { unfold rows, efflen, trim_ok in *. cbn [clen] in *. destruct t; lia. }
  destruct Hrows as (Hr & Hlr & Hre).
  exists (Numpy dt [rows] (take rows data)). cbn [to_ftree of_ftree tl]. fold rows.
  unfold prodZ. cbn [fold_right existsb]. replace (rows * 1) with rows by lia.
  assert (Hz : zlen (take rows data) = rows) by (rewrite zlen_take_min; lia).
  rewrite Hz. replace (1 =? 0) with false by reflexivity. rewrite Z.div_1_r, Z.mod_1_r.
  replace (rows <? len) with false by lia. cbn [negb Z.eqb].
  split; [reflexivity|]. cbn [clen]. split; [lia|]. split; [|intros _; lia].
  rewrite to_list_Numpy. cbn [existsb]. replace (rows <? 0) with false by lia. cbn [orb].
  unfold prodZ. cbn [fold_right]. rewrite Hz. replace (rows <? rows * 1) with false by lia. cbn [nest].
  f_equal. replace (rows * 1) with rows by lia. replace (n * 1) with n by lia.
  rewrite take_take by lia. rewrite <- map_take. rewrite take_take by lia. reflexivity.
Qed.

(* ---------------------------------------------------------------- helpers *)
Lemma pairs_In o a b : In (a, b) (pairs o) -> In a o /\ In b o.
Proof.
  induction o as [|x o IH]; [intros []|]. destruct o as [|y o]; [intros []|].
  change (pairs (x :: y :: o)) with ((x, y) :: pairs (y :: o)). intros [E|Hin].
  - injection E as -> ->. split; [left; reflexivity|right; left; reflexivity].
  - destruct (IH Hin) as [H1 H2]. split; right; assumption.
Qed.
Lemma last_In' {A} (l : list A) d : l <> [] -> In (last l d) l.
Proof.
  induction l as [|x l IH]; [congruence|]. intros _. destruct l as [|y l]; [left; reflexivity|].
  right. change (last (x :: y :: l) d) with (last (y :: l) d). apply IH. discriminate.
Qed.
Lemma In_take {A} (x : A) k l : In x (take k l) -> In x l.
Proof. apply In_firstn. Qed.
Lemma trim_as_take {A} t (l : list A) k : (t = None -> k = zlen l) -> (forall j, t = Some j -> k = j) -> trim t l = take k l.
Proof.
  intros H1 H2. destruct t as [j|]; cbn [trim].
  - rewrite (H2 j eq_refl). reflexivity.
  - rewrite take_all; [reflexivity|]. rewrite (H1 eq_refl). lia.
Qed.
Lemma take_nil_iff {A} (l : list A) k : l <> [] -> 0 < k -> take k l <> [].
Proof. intros Hl Hk. destruct l; [congruence|]. unfold take. destruct (Z.to_nat k) eqn:E; [lia|]. discriminate. Qed.

Lemma cut_ne {A} (vs : list A) o : o <> [] -> cut vs o = mapM (cut1 vs) (pairs o).
Proof. destruct o; [congruence|reflexivity]. Qed.

Lemma rt_ListOffset w o c : rt_at c -> rt_at (ListOffset w o c).
Proof.
  intros IH t len vs HV Hf Ht Hlen Hvs.
  cbn [frag16] in Hf. apply andb_true_iff in Hf as [Hfc Hoff].
  apply Valid_ListOffset_inv in HV as (_ & Ho1 & Hpairs & Hc). specialize (Hc eq_refl).
  rewrite to_list_ListOffset in Hvs. apply bind_Ok in Hvs as (cvs & Hcvs & Hvs). apply rmap_Ok in Hvs as (ls & Hcut & ->).
  destruct (to_list_clen c cvs Hcvs) as [Hzc Hc0].
  set (k := efflen t (ListOffset w o c)) in *.
  assert (Hk : 0 <= k <= zlen o - 1) by (unfold k, efflen, trim_ok in *; cbn [clen] in *; destruct t; lia).
  assert (Eo : trim1 t o = take (k + 1) o).
  { unfold k, efflen. destruct t as [j|]; cbn [trim1 clen]; [reflexivity|]. rewrite take_all; [reflexivity|lia]. }
  assert (Hone : o <> []) by (intros ->; cbn in Ho1; lia).
  set (o' := take (k + 1) o) in *.
  assert (Ho' : o' <> []) by (apply take_nil_iff; [exact Hone|lia]).
  assert (Hzo' : zlen o' = k + 1) by (unfold o'; rewrite zlen_take_min; lia).
  set (d := last o' 0).
  assert (Hd : 0 <= d <= clen c).
  { assert (Hin : In d o) by (apply (In_take d (k + 1)); apply last_In'; exact Ho').
    rewrite forallb_forall in Hoff. specialize (Hoff d Hin). lia. }
  destruct (IH None d cvs Hc Hfc I ltac:(cbn; lia) Hcvs) as (c1 & Hof & Hb & Hl1 & _). cbn [efflen] in Hb.
  exists (ListOffset w o' c1). cbn [to_ftree of_ftree]. rewrite Eo. fold o'.
  replace (zlen o' - 1 <? len) with false by (unfold k, efflen in *; cbn [clen] in *; lia).
  rewrite (last_z_last o' 0 Ho'). cbn [bind]. fold d. rewrite Hof. cbn [bind].
  split; [reflexivity|]. cbn [clen]. split; [lia|]. split; [|intros _; lia].
  rewrite to_list_ListOffset, Hl1. cbn [bind].
  (* cut of the prefix *)
  rewrite (cut_ne cvs o Hone) in Hcut.
  assert (Hm : mapM (cut1 cvs) (pairs o') = Ok (take k ls)).
  { unfold o'. rewrite pairs_take by lia. apply mapM_take. exact Hcut. }
  assert (Hmono : Forall (fun ab : Z * Z => fst ab <= snd ab) (pairs o')).
  { unfold o'. rewrite pairs_take by lia. apply Forall_forall. intros ab Hin. apply In_take in Hin.
    rewrite Forall_forall in Hpairs. specialize (Hpairs ab Hin). unfold pair_ok in Hpairs. lia. }
  assert (Hpre : mapM (cut1 (take (clen c1) cvs)) (pairs o') = Ok (take k ls)).
  { apply mapM_cut1_prefix; [exact Hm| |lia]. apply Forall_forall. intros [a b] Hin. cbn [fst snd].
    destruct (pairs_In o' a b Hin) as [_ Hb']. pose proof (pairs_mono_last o' Hmono b Hb') as Hlast.
    assert (E : last o' b = d).
    { unfold d. clear - Ho'. induction o' as [|x l IHl]; [congruence|]. destruct l as [|y l]; [reflexivity|].
      change (last (x :: y :: l) b) with (last (y :: l) b). change (last (x :: y :: l) 0) with (last (y :: l) 0). apply IHl. discriminate. }
    rewrite E in Hlast. right. lia. }
  rewrite (cut_ne _ o' Ho'), Hpre. cbn [rmap].
  f_equal. replace (zlen o' - 1) with k by lia. apply map_take.
Qed.

Lemma live_stops_bounds s e lc : Forall (pair_ok lc) (zip s e) -> Forall (fun x => 0 <= x <= lc) (live_stops s e).
Proof.
  intros HF. unfold live_stops. apply Forall_forall. intros x Hin. apply in_map_iff in Hin as ([a b] & <- & Hin).
  apply filter_In in Hin as [Hin Hne]. rewrite Forall_forall in HF. specialize (HF (a, b) Hin). unfold pair_ok in HF.
  cbn [fst snd] in *. lia.
Qed.

Lemma rt_ListA w s e c : rt_at c -> rt_at (ListA w s e c).
Proof.
  intros IH t len vs HV Hf Ht Hlen Hvs.
  cbn [frag16] in Hf. apply andb_true_iff in Hf as [Hfc Hres].
  apply Valid_ListA_inv in HV as (_ & Hse & Hpairs & Hc). specialize (Hc eq_refl).
  rewrite to_list_ListA in Hvs. apply bind_Ok in Hvs as (cvs & Hcvs & Hvs). apply rmap_Ok in Hvs as (ls & Hcut & ->).
  destruct (to_list_clen c cvs Hcvs) as [Hzc Hc0].
  unfold cut2 in Hcut. replace (zlen e <? zlen s) with false in Hcut by lia.
  set (k := efflen t (ListA w s e c)) in *.
  assert (Hk : 0 <= k <= zlen s) by (unfold k, efflen, trim_ok in *; cbn [clen] in *; pose proof (zlen_nonneg s); destruct t; lia).
  set (s' := trim t s). set (e' := trim t e).
  assert (Hzs' : zlen s' = k).
  { unfold s', k, efflen. destruct t as [j|]; cbn [trim clen]; [|reflexivity]. cbn in Ht. rewrite zlen_take_min; lia. }
  assert (Hze' : k <= zlen e').
  { unfold e', k, efflen. destruct t as [j|]; cbn [trim clen]; [|lia]. cbn in Ht. rewrite zlen_take_min; lia. }
  assert (Hzip : zip s' e' = take k (zip s e)).
  { unfold s', e', k, efflen. destruct t as [j|]; cbn [trim clen]; [apply zip_take|].
    rewrite take_all; [reflexivity|]. rewrite zlen_zip. lia. }
  set (need := max_or0 (live_stops (take len s') (take len e'))).
  assert (Hneed : 0 <= need <= clen c).
  { apply max_or0_bounds; [lia|]. apply live_stops_bounds. rewrite zip_take, Hzip. apply Forall_forall. intros ab Hin.
    apply In_take in Hin. apply In_take in Hin. rewrite Forall_forall in Hpairs. exact (Hpairs ab Hin). }
  destruct (IH None need cvs Hc Hfc I ltac:(cbn; lia) Hcvs) as (c1 & Hof & Hb & Hl1 & Hr). cbn [efflen] in Hb, Hr.
  specialize (Hr Hres). rewrite Hr in Hl1. rewrite take_all in Hl1 by lia.
  exists (ListA w s' e' c1). cbn [to_ftree of_ftree]. fold s' e'.
  replace (zlen s' <? len) with false by (unfold k, efflen in *; cbn [clen] in *; lia).
  replace (zlen e' <? len) with false by (unfold k, efflen in *; cbn [clen] in *; lia).
  fold need. rewrite Hof. cbn [bind]. replace (zlen e' <? zlen s') with false by lia.
  split; [reflexivity|]. cbn [clen]. split; [lia|]. split; [|intros _; lia].
  rewrite to_list_ListA, Hl1. cbn [bind]. unfold cut2. replace (zlen e' <? zlen s') with false by lia.
  rewrite Hzip, (mapM_take _ _ _ k Hcut). cbn [rmap]. f_equal. rewrite Hzs'. apply map_take.
Qed.

Lemma mapM_get_prefix {A} (vs : list A) ix m : Forall (fun i => i < m) ix -> mapM (get (take m vs)) ix = mapM (get vs) ix.
Proof.
  intros HF. apply mapM_ext_in. intros i Hin. rewrite Forall_forall in HF. apply get_take. exact (HF i Hin).
Qed.

Lemma rt_Indexed w ix c : rt_at c -> rt_at (Indexed w ix c).
Proof.
  intros IH t len vs HV Hf Ht Hlen Hvs. cbn [frag16] in Hf.
  apply Valid_Indexed_inv in HV as (Hix & _ & Hc).
  rewrite to_list_Indexed in Hvs. apply bind_Ok in Hvs as (cvs & Hcvs & Hvs).
  destruct (to_list_clen c cvs Hcvs) as [Hzc Hc0].
  set (k := efflen t (Indexed w ix c)) in *.
  assert (Hk : 0 <= k <= zlen ix) by (unfold k, efflen, trim_ok in *; cbn [clen] in *; pose proof (zlen_nonneg ix); destruct t; lia).
  assert (Eix : trim t ix = take k ix) by (apply trim_as_take; unfold k, efflen; cbn [clen]; [intros ->; reflexivity|intros j ->; reflexivity]).
  set (ix' := take k ix) in *.
  assert (Hzix : zlen ix' = k) by (unfold ix'; rewrite zlen_take_min; lia).
  assert (Hix' : Forall (fun i => 0 <= i < clen c) ix').
  { apply Forall_forall. intros i Hin. apply In_take in Hin. rewrite Forall_forall in Hix. exact (Hix i Hin). }
  set (need := match ix' with [] => 0 | _ => max_or0 ix' + 1 end).
  assert (Hneed : 0 <= need <= clen c /\ Forall (fun i => i < need) ix').
  { unfold need. destruct ix' as [|i0 r] eqn:E; [split; [lia|constructor]|]. rewrite <- E in *.
    assert (Hne : ix' <> []) by (rewrite E; discriminate).
    pose proof (max_or0_nonempty_in ix' Hne) as Hin. rewrite Forall_forall in Hix'. pose proof (Hix' _ Hin).
    split; [lia|]. apply Forall_forall. intros i Hi. pose proof (max_or0_ge ix' i Hi). lia. }
  destruct Hneed as [Hneed Hlt].
  destruct (IH None need cvs Hc Hf I ltac:(cbn; lia) Hcvs) as (c1 & Hof & Hb & Hl1 & _). cbn [efflen] in Hb.
  exists (Indexed w ix' c1). cbn [to_ftree of_ftree]. rewrite Eix. fold ix'.
  replace (zlen ix' <? len) with false by (unfold k, efflen in *; cbn [clen] in *; lia).
  fold need. rewrite Hof. cbn [bind].
  split; [reflexivity|]. cbn [clen]. split; [lia|]. split; [|intros _; lia].
  rewrite to_list_Indexed, Hl1. cbn [bind]. rewrite Hzix.
  rewrite mapM_get_prefix; [apply mapM_take; exact Hvs|].
  eapply Forall_impl; [|exact Hlt]. cbn. intros; lia.
Qed.

Lemma rt_IndexedOption w ix c : rt_at c -> rt_at (IndexedOption w ix c).
Proof.
  intros IH t len vs HV Hf Ht Hlen Hvs. cbn [frag16] in Hf.
  apply Valid_IndexedOption_inv in HV as (Hix & _ & Hc).
  rewrite to_list_IndexedOption in Hvs. apply bind_Ok in Hvs as (cvs & Hcvs & Hvs).
  destruct (to_list_clen c cvs Hcvs) as [Hzc Hc0].
  set (k := efflen t (IndexedOption w ix c)) in *.
  assert (Hk : 0 <= k <= zlen ix) by (unfold k, efflen, trim_ok in *; cbn [clen] in *; pose proof (zlen_nonneg ix); destruct t; lia).
  assert (Eix : trim t ix = take k ix) by (apply trim_as_take; unfold k, efflen; cbn [clen]; [intros ->; reflexivity|intros j ->; reflexivity]).
  set (ix' := take k ix) in *.
  assert (Hzix : zlen ix' = k) by (unfold ix'; rewrite zlen_take_min; lia).
  assert (Hix' : Forall (fun i => i < clen c) ix').
  { apply Forall_forall. intros i Hin. apply In_take in Hin. rewrite Forall_forall in Hix. exact (Hix i Hin). }
  set (need := match ix' with [] => 0 | _ => Z.max 0 (max_or0 ix' + 1) end).
  assert (Hneed : 0 <= need <= clen c /\ Forall (fun i => i < need) ix').
  { unfold need. destruct ix' as [|i0 r] eqn:E; [split; [lia|constructor]|]. rewrite <- E in *.
    assert (Hne : ix' <> []) by (rewrite E; discriminate).
    pose proof (max_or0_nonempty_in ix' Hne) as Hin. rewrite Forall_forall in Hix'. pose proof (Hix' _ Hin).
    split; [lia|]. apply Forall_forall. intros i Hi. pose proof (max_or0_ge ix' i Hi). lia. }
  destruct Hneed as [Hneed Hlt].
  destruct (IH None need cvs Hc Hf I ltac:(cbn; lia) Hcvs) as (c1 & Hof & Hb & Hl1 & _). cbn [efflen] in Hb.
  exists (IndexedOption w ix' c1). cbn [to_ftree of_ftree]. rewrite Eix. fold ix'.
  replace (zlen ix' <? len) with false by (unfold k, efflen in *; cbn [clen] in *; lia).
  fold need. rewrite Hof. cbn [bind].
  split; [reflexivity|]. cbn [clen]. split; [lia|]. split; [|intros _; lia].
  rewrite to_list_IndexedOption, Hl1. cbn [bind]. rewrite Hzix.
  rewrite <- (mapM_take _ _ _ k Hvs). fold ix'. apply mapM_ext_in. intros i Hin.
  unfold pick_opt. destruct (0 <=? i); [|reflexivity]. apply get_take.
  rewrite Forall_forall in Hlt. pose proof (Hlt i Hin). lia.
Qed.

Lemma rt_Regular c size zl : rt_at c -> rt_at (Regular c size zl).
Proof.
  intros IH t len vs HV Hf Ht Hlen Hvs.
  cbn [frag16] in Hf. apply andb_true_iff in Hf as [Hs Hfc]. assert (Hs' : 0 < size) by lia. clear Hs.
  apply Valid_Regular_inv in HV as (_ & _ & _ & Hc). specialize (Hc eq_refl).
  rewrite to_list_Regular in Hvs. apply bind_Ok in Hvs as (cvs & Hcvs & Hvs). apply rmap_Ok in Hvs as (ch & Hch & ->).
  destruct (to_list_clen c cvs Hcvs) as [Hzc Hc0].
  unfold chunks in Hch. replace (size <? 0) with false in Hch by lia. replace (size =? 0) with false in Hch by lia.
  injection Hch as <-.
  assert (Ecl : clen (Regular c size zl) = clen c / size) by (cbn [clen]; replace (size =? 0) with false by lia; reflexivity).
  set (k := efflen t (Regular c size zl)) in *.
  assert (Hk : 0 <= k <= clen c / size).
  { unfold k, efflen, trim_ok in *. rewrite Ecl in *. pose proof (Z.div_pos (clen c) size ltac:(lia) Hs'). destruct t; lia. }
  pose proof (Z.mul_div_le (clen c) size Hs') as Hmd.
  set (tc := tmul t size).
  assert (Htc : trim_ok tc c) by (unfold tc, tmul, trim_ok in *; rewrite Ecl in *; destruct t as [j|]; [nia|exact I]).
  assert (Hec : efflen tc c = match t with None => clen c | Some j => j * size end) by (unfold tc; destruct t; reflexivity).
  assert (Hnd : 0 <= len * size <= efflen tc c).
  { rewrite Hec. unfold k, efflen in *. rewrite Ecl in *. destruct t; nia. }
  destruct (IH tc (len * size) cvs Hc Hfc Htc Hnd Hcvs) as (c1 & Hof & Hb & Hl1 & Hr).
  set (m := clen c1) in *.
  exists (Regular c1 size len). cbn [to_ftree of_ftree]. fold tc. rewrite Hof. cbn [bind].
  replace (size <? 0) with false by lia.
  assert (Ecl' : clen (Regular c1 size len) = m / size) by (cbn [clen]; replace (size =? 0) with false by lia; reflexivity).
  rewrite Ecl'.
  assert (Hlo : len <= m / size) by (apply Z.div_le_lower_bound; lia).
  assert (Hhi : m / size <= k).
  { unfold k, efflen. rewrite Ecl. rewrite Hec in Hb. destruct t as [j|].
    - apply Z.div_le_upper_bound; lia.
    - apply Z.div_le_mono; lia. }
  split; [reflexivity|]. split; [lia|]. split.
  - rewrite to_list_Regular, Hl1. cbn [bind]. unfold chunks.
    replace (size <? 0) with false by lia. replace (size =? 0) with false by lia. cbn [rmap]. f_equal.
    assert (Hzm : zlen (take m cvs) = m) by (rewrite zlen_take_min; rewrite Hec in Hb; unfold trim_ok in Htc; destruct t; lia).
    rewrite Hzm. rewrite <- map_take. f_equal. unfold take at 2.
    apply chunks_nat_prefix; [exact Hs'| | |].
    + apply Z2Nat.inj_le; [lia|apply Z.div_pos; lia|]. apply Z.div_le_mono; [lia|]. rewrite Hec in Hb. unfold trim_ok in Htc. destruct t; lia.
    + rewrite Z2Nat.id by lia. pose proof (Z.mul_div_le m size Hs'). lia.
    + rewrite Hec in Hb. unfold trim_ok in Htc. destruct t; lia.
  - cbn [resets]. intros Hres. specialize (Hr Hres). fold m in Hr. rewrite Hr, Hec. unfold k, efflen. rewrite Ecl.
    destruct t as [j|]; [apply Z.div_mul; lia|reflexivity].
Qed.
