(** Proofs_C13h2.v -- k_safe for the jagged-slicing kernels (models of Kernels2.v): the capacity of every carry
    buffer is stated as the prefix sum ([psum]) that the corresponding counting kernel computes. *)
From Coq Require Import ZArith List Bool Lia ZifyBool.
From AwkV Require Import Base.
From AwkKernels Require Import Kernels KLemmas Proofs_C13 Proofs_C13b Proofs_C13c Proofs_C13d.
From AwkKernels Require Export Kernels2.
From AwkKernels Require Import Proofs_C13e Proofs_C13f Proofs_C13g Proofs_C13h.
Import ListNotations.
Open Scope Z_scope.

Ltac Zify.zify_post_hook ::= Z.to_euclidean_division_equations.

(* ================================================================================================ *)
(** * prefix sums: [psum f n = f 0 + ... + f (n-1)] *)
Fixpoint psum (f : Z -> Z) (n : nat) : Z :=
  match n with O => 0 | S n' => psum f n' + f (Z.of_nat n') end.

Lemma psum_S f i : 0 <= i -> psum f (Z.to_nat (i + 1)) = psum f (Z.to_nat i) + f i.
Proof. intros H. replace (Z.to_nat (i + 1)) with (S (Z.to_nat i)) by lia. cbn [psum]. now rewrite Z2Nat.id by lia. Qed.
Lemma psum_mono f (n : Z) : (forall i, 0 <= i < n -> 0 <= f i) ->
  forall a b : nat, (a <= b)%nat -> Z.of_nat b <= n -> psum f a <= psum f b.
Proof.
  intros Hf a b Hab. induction Hab; intros Hb; [lia|]. cbn [psum].
  specialize (Hf (Z.of_nat m)). lia.
Qed.
Lemma psum_nonneg f (n : Z) : (forall i, 0 <= i < n -> 0 <= f i) -> forall a : nat, Z.of_nat a <= n -> 0 <= psum f a.
Proof. intros Hf a Ha. apply (psum_mono f n Hf 0 a); lia. Qed.
Lemma psum_ext f g n : (forall i, 0 <= i < Z.of_nat n -> f i = g i) -> psum f n = psum g n.
Proof. induction n; intros H; cbn [psum]; auto. rewrite IHn, H by (try intros; try apply H; lia). reflexivity. Qed.

(** the prefix sum of the slice lengths is what awkward_ListArray_getitem_jagged_carrylen computes *)
Lemma psum_count_sum starts stops n : (n <= length starts)%nat -> (n <= length stops)%nat ->
  psum (fun i => at_ stops i - at_ starts i) n = count_sum starts stops n.
Proof.
  induction n; intros H1 H2; cbn [psum]; [reflexivity|]. rewrite count_sum_S by lia. rewrite IHn by lia. reflexivity.
Qed.

Ltac red_st := cbv beta iota; cbn [fst snd].

(* ================================================================================================ *)
(** * awkward_ListArray_getitem_jagged_apply.
    Extra precondition found: every slice must satisfy slicestarts[i] <= slicestops[i].  The kernel reports
    "jagged slice's stops[i] < starts[i]" only when it reaches slice i, after having copied the earlier slices; the
    caller (ListArray::getitem_next_jagged) sizes tocarry by awkward_ListArray_getitem_jagged_carrylen, which adds the
    signed differences without validating them. *)
Theorem ListArray_getitem_jagged_apply_safe tooffsets tocarry slicestarts slicestops n sliceindex sliceinnerlen fromstarts fromstops contentlen :
  n <= zlen slicestarts -> n <= zlen slicestops -> n <= zlen fromstarts -> n <= zlen fromstops ->
  n + 1 <= zlen tooffsets -> sliceinnerlen <= zlen sliceindex ->
  (forall i, 0 <= i < n -> 0 <= at_ slicestarts i <= at_ slicestops i) ->
  psum (fun i => at_ slicestops i - at_ slicestarts i) (Z.to_nat n) <= zlen tocarry ->
  ListArray_getitem_jagged_apply tooffsets tocarry slicestarts slicestops n sliceindex sliceinnerlen
    fromstarts fromstops contentlen <> XOob.
Proof.
  intros H1 H2 H3 H4 H5 H6 Hm Hcap. unfold ListArray_getitem_jagged_apply. eapply xp_noob.
  set (f := fun i => at_ slicestops i - at_ slicestarts i) in *.
  assert (Hf : forall i, 0 <= i < n -> 0 <= f i) by (intros i Hi; specialize (Hm i Hi); unfold f; lia).
  apply xp_bind_xfor with
    (P := fun i (st : list Z * (list Z * Z)) =>
            zlen (fst st) = zlen tooffsets /\ zlen (fst (snd st)) = zlen tocarry /\ snd (snd st) = psum f (Z.to_nat i))
    (Q := fun _ : list Z * list Z => True).
  - cbn [fst snd]. auto.
  - intros i [to [tc k]] Hi (L1 & L2 & K). red_st. cbn [fst snd] in *.
    pose proof (psum_S f i (proj1 Hi)) as PS. unfold f at 3 in PS.
    pose proof (psum_mono f n Hf (Z.to_nat (i + 1)) (Z.to_nat n)) as PM.
    pose proof (psum_nonneg f n Hf (Z.to_nat i)) as PN. specialize (Hm i Hi).
    do 3 xp_step. cbn [snd].
    apply xp_bind with (R := fun ck : list Z * Z => zlen (fst ck) = zlen tocarry /\ snd ck = psum f (Z.to_nat (i + 1))).
    + destruct (negb (at_ slicestarts i =? at_ slicestops i)) eqn:Ene; [|apply xp_ret; cbn [fst snd]; split; lia].
      xp_auto.
      eapply xp_weaken.
      * apply xp_xfor with (P := fun j (ck : list Z * Z) =>
                                   zlen (fst ck) = zlen tocarry /\ snd ck = k + (j - at_ slicestarts i)).
        -- cbn [fst snd]. split; lia.
        -- intros j [tc' k'] Hj (L3 & K3). cbn [fst snd] in *. xp_auto.
           apply xp_lift. apply np_kpush; cbn [fst snd]; [lia|]. rewrite zlen_set_nth. split; lia.
      * intros [tc' k'] (L3 & K3). cbn [fst snd] in *. split; lia.
    + intros [tc' k'] (L3 & K3). cbn [fst snd] in *. xp_auto. cbn [fst snd]. rewrite !zlen_set_nth. auto.
  - intros s' _. now apply xp_ret.
Qed.

Example ListArray_getitem_jagged_apply_example :
  ListArray_getitem_jagged_apply [9;9;9] [9;9;9] [0; 2] [2; 3] 2 [1; -1; 0] 3 [0; 3] [3; 5] 5
  = XOk ([0; 2; 3], [1; 2; 3]).
Proof. vm_compute. reflexivity. Qed.

(** without [slicestarts i <= slicestops i]: offsets 0, 2, 0 give carrylen = (2 - 0) + (0 - 2) = 0, so the caller allocates
    an empty tocarry, and the first slice is written before the second one is rejected *)
Example ListArray_getitem_jagged_apply_nonmonotone_refuted :
  psum (fun i => at_ [2; 0] i - at_ [0; 2] i) 2 = 0 /\
  ListArray_getitem_jagged_apply [9;9;9] [] [0; 2] [2; 0] 2 [0; 0] 2 [0; 3] [3; 5] 5 = XOob.
Proof. split; vm_compute; reflexivity. Qed.

(* ================================================================================================ *)
(** * awkward_ListArray_getitem_jagged_expand *)
Theorem ListArray_getitem_jagged_expand_safe multistarts multistops singleoffsets tocarry fromstarts fromstops jaggedsize length :
  length <= zlen fromstarts -> length <= zlen fromstops -> jaggedsize + 1 <= zlen singleoffsets ->
  length * jaggedsize <= zlen multistarts -> length * jaggedsize <= zlen multistops -> length * jaggedsize <= zlen tocarry ->
  ListArray_getitem_jagged_expand multistarts multistops singleoffsets tocarry fromstarts fromstops jaggedsize length <> XOob.
Proof.
  intros H1 H2 H3 H4 H5 H6. unfold ListArray_getitem_jagged_expand. eapply xp_noob.
  apply (xp_xfor_c _ (fun st : list Z * list Z * list Z =>
           zlen (fst (fst st)) = zlen multistarts /\ zlen (snd (fst st)) = zlen multistops /\ zlen (snd st) = zlen tocarry)); auto.
  intros i st Hi (L1 & L2 & L3). xp_auto. apply xp_lift.
  apply (np_kfor_c _ (fun st : list Z * list Z * list Z =>
           zlen (fst (fst st)) = zlen multistarts /\ zlen (snd (fst st)) = zlen multistops /\ zlen (snd st) = zlen tocarry)); auto.
  intros j [[ms mp] tc] Hj (M1 & M2 & M3). red_st. cbn [fst snd] in *.
  assert (0 <= i * jaggedsize + j < length * jaggedsize) by nia.
  np_auto. cbn [fst snd]. rewrite !zlen_set_nth. auto.
Qed.

Example ListArray_getitem_jagged_expand_example :
  ListArray_getitem_jagged_expand [9;9;9;9] [9;9;9;9] [0; 1; 3] [9;9;9;9] [0; 2] [2; 4] 2 2
  = XOk ([0; 1; 0; 1], [1; 3; 1; 3], [0; 1; 2; 3]).
Proof. vm_compute. reflexivity. Qed.

(* ================================================================================================ *)
(** * awkward_ListArray_getitem_jagged_shrink: tocarry must hold the number of non-missing entries of all slices,
      which is what awkward_ListArray_getitem_jagged_numvalid counts *)
Definition nvalid (missing : list Z) (a b : Z) : Z :=
  zlen (filter (fun j => 0 <=? at_ missing j) (range a b)).

Lemma iota_nat_app s n m : iota_nat s (n + m) = iota_nat s n ++ iota_nat (s + Z.of_nat n) m.
Proof.
  revert s; induction n; intros s.
  - cbn [Nat.add iota_nat app]. f_equal. lia.
  - cbn [Nat.add iota_nat app]. f_equal. rewrite IHn. do 2 f_equal. lia.
Qed.
Lemma range_split a j b : a <= j <= b -> range a b = range a j ++ range j b.
Proof.
  intros H. unfold range. replace (Z.to_nat (b - a)) with (Z.to_nat (j - a) + Z.to_nat (b - j))%nat by lia.
  rewrite iota_nat_app. do 2 f_equal. lia.
Qed.
Lemma range_single j : range j (j + 1) = [j].
Proof. unfold range. replace (Z.to_nat (j + 1 - j)) with 1%nat by lia. reflexivity. Qed.
Lemma range_empty a b : b <= a -> range a b = [].
Proof. intros H. unfold range. replace (Z.to_nat (b - a)) with O by lia. reflexivity. Qed.

Lemma nvalid_nonneg m a b : 0 <= nvalid m a b.
Proof. apply zlen_nonneg. Qed.
Lemma nvalid_empty m a b : b <= a -> nvalid m a b = 0.
Proof. intros H. unfold nvalid. now rewrite range_empty. Qed.
Lemma nvalid_split m a j b : a <= j <= b -> nvalid m a b = nvalid m a j + nvalid m j b.
Proof. intros H. unfold nvalid. rewrite (range_split a j b H), filter_app, zlen_app. reflexivity. Qed.
Lemma nvalid_snoc m a j : a <= j -> nvalid m a (j + 1) = nvalid m a j + (if 0 <=? at_ m j then 1 else 0).
Proof.
  intros H. rewrite (nvalid_split m a j (j + 1)) by lia. f_equal. unfold nvalid. rewrite range_single.
  cbn [filter]. destruct (0 <=? at_ m j); reflexivity.
Qed.

Theorem ListArray_getitem_jagged_shrink_safe tocarry tosmalloffsets tolargeoffsets slicestarts slicestops n missing :
  0 <= n -> n <= zlen slicestarts -> n <= zlen slicestops ->
  n + 1 <= zlen tosmalloffsets -> n + 1 <= zlen tolargeoffsets ->
  (forall i, 0 <= i < n -> 0 <= at_ slicestarts i /\ at_ slicestops i <= zlen missing) ->
  psum (fun i => nvalid missing (at_ slicestarts i) (at_ slicestops i)) (Z.to_nat n) <= zlen tocarry ->
  ListArray_getitem_jagged_shrink tocarry tosmalloffsets tolargeoffsets slicestarts slicestops n missing <> KOob.
Proof.
  intros H0 H1 H2 H3 H4 Hr Hcap. unfold ListArray_getitem_jagged_shrink. eapply np_noob.
  set (f := fun i => nvalid missing (at_ slicestarts i) (at_ slicestops i)) in *.
  assert (Hf : forall i, 0 <= i < n -> 0 <= f i) by (intros; apply nvalid_nonneg).
  apply np_bind with (R := fun _ : Z => True).
  { destruct (n =? 0) eqn:E0; np_auto; auto. }
  intros first _. np_auto.
  apply np_bind_kfor with
    (P := fun i (st : list Z * Z * list Z * list Z) =>
            let '(ck, so, lo) := st in
            zlen (fst ck) = zlen tocarry /\ snd ck = psum f (Z.to_nat i) /\
            zlen so = zlen tosmalloffsets /\ zlen lo = zlen tolargeoffsets)
    (Q := fun _ : list Z * list Z * list Z => True).
  - cbn [fst snd]. rewrite !zlen_set_nth. auto.
  - intros i [[[tc k] so] lo] Hi (L1 & K & L2 & L3). red_st. cbn [fst snd] in *.
    pose proof (psum_S f i (proj1 Hi)) as PS. unfold f at 3 in PS.
    pose proof (psum_mono f n Hf (Z.to_nat (i + 1)) (Z.to_nat n)) as PM.
    pose proof (psum_nonneg f n Hf (Z.to_nat i)) as PN. destruct (Hr i Hi) as (R1 & R2).
    do 2 np_step.
    set (ss := at_ slicestarts i) in *. set (se := at_ slicestops i) in *.
    apply np_bind with (R := fun r1 : list Z * Z * list Z =>
       zlen (fst (fst r1)) = zlen tocarry /\ snd (fst r1) = psum f (Z.to_nat (i + 1)) /\ zlen (snd r1) = zlen tosmalloffsets).
    + destruct (negb (ss =? se)) eqn:Ene.
      * apply np_bind_kfor with
          (P := fun j (s : list Z * Z * Z) =>
                  zlen (fst (fst s)) = zlen tocarry /\ snd (fst s) = k + nvalid missing ss j /\ snd s = nvalid missing ss j).
        -- cbn [fst snd]. rewrite nvalid_empty by lia. repeat split; lia.
        -- intros j [[tc' k'] sc] Hj (L4 & K4 & S4). red_st. cbn [fst snd] in *.
           pose proof (nvalid_snoc missing ss j (proj1 Hj)) as NS.
           pose proof (nvalid_split missing ss (j + 1) se) as NP. pose proof (nvalid_nonneg missing (j + 1) se) as NN.
           pose proof (nvalid_nonneg missing ss j) as NN2.
           np_auto.
           ++ eapply np_bind; [apply np_kpush; cbn [fst snd]; [lia|]|].
              ** instantiate (1 := fun ck' => zlen (fst ck') = zlen tocarry /\ snd ck' = k' + 1). cbn [fst snd].
                 rewrite zlen_set_nth. auto.
              ** intros [tc2 k2] (L5 & K5). cbn [fst snd] in *. np_auto. cbn [fst snd]. repeat split; lia.
           ++ cbn [fst snd]. repeat split; lia.
        -- intros [[tc' k'] sc] (L4 & K4 & S4). cbn [fst snd] in *.
           assert (NM : nvalid missing ss (Z.max ss se) = nvalid missing ss se).
           { destruct (Z_le_gt_dec ss se); [now rewrite Z.max_r by lia|]. rewrite Z.max_l by lia.
             rewrite !nvalid_empty by lia. reflexivity. }
           np_auto. cbn [fst snd]. rewrite zlen_set_nth. repeat split; lia.
      * assert (ss = se) by lia. np_auto. cbn [fst snd]. rewrite zlen_set_nth. rewrite nvalid_empty in PS by lia.
        repeat split; lia.
    + intros [[tc' k'] so'] (L4 & K4 & L5). cbn [fst snd] in *. np_auto. rewrite zlen_set_nth. auto.
  - intros [[[tc k] so] lo] _. now apply np_ret.
Qed.

Example ListArray_getitem_jagged_shrink_example :
  ListArray_getitem_jagged_shrink [9;9;9] [9;9;9] [9;9;9] [0; 2] [2; 5] 2 [0; -1; 1; 2; -1]
  = KOk ([0; 2; 3], [0; 1; 3], [0; 2; 5]).
Proof. vm_compute. reflexivity. Qed.

(* ================================================================================================ *)
(** * awkward_carry_SliceJagged64_nextcarry: tocarry holds the total length of the carried lists, which is the last
      entry written by awkward_carry_SliceJagged64_offsets *)
Theorem carry_SliceJagged64_nextcarry_safe tocarry fromoffsets fromcarry n :
  n <= zlen fromcarry ->
  (forall i, 0 <= i < n -> 0 <= at_ fromcarry i /\ at_ fromcarry i + 1 < zlen fromoffsets /\
                           at_ fromoffsets (at_ fromcarry i) <= at_ fromoffsets (at_ fromcarry i + 1)) ->
  psum (fun i => at_ fromoffsets (at_ fromcarry i + 1) - at_ fromoffsets (at_ fromcarry i)) (Z.to_nat n) <= zlen tocarry ->
  carry_SliceJagged64_nextcarry tocarry fromoffsets fromcarry n <> KOob.
Proof.
  intros H1 Hc Hcap. unfold carry_SliceJagged64_nextcarry. eapply np_noob.
  set (f := fun i => at_ fromoffsets (at_ fromcarry i + 1) - at_ fromoffsets (at_ fromcarry i)) in *.
  assert (Hf : forall i, 0 <= i < n -> 0 <= f i) by (intros i Hi; destruct (Hc i Hi) as (_ & _ & ?); unfold f; lia).
  apply np_bind_kfor with
    (P := fun i (st : list Z * Z) => zlen (fst st) = zlen tocarry /\ snd st = psum f (Z.to_nat i))
    (Q := fun _ : list Z => True).
  - cbn [fst snd]. auto.
  - intros i [tc k] Hi (L1 & K). cbn [fst snd] in *.
    pose proof (psum_S f i (proj1 Hi)) as PS. unfold f at 3 in PS.
    pose proof (psum_mono f n Hf (Z.to_nat (i + 1)) (Z.to_nat n)) as PM.
    pose proof (psum_nonneg f n Hf (Z.to_nat i)) as PN. destruct (Hc i Hi) as (C1 & C2 & C3).
    np_auto.
    eapply np_weaken.
    + apply np_kfor with (P := fun j (st : list Z * Z) =>
                                 zlen (fst st) = zlen tocarry /\ snd st = k + (j - at_ fromoffsets (at_ fromcarry i))).
      * cbn [fst snd]. split; lia.
      * intros j [tc' k'] Hj (L2 & K2). cbn [fst snd] in *. apply np_kpush; cbn [fst snd]; [lia|].
        rewrite zlen_set_nth. split; lia.
    + intros [tc' k'] (L2 & K2). cbn [fst snd] in *. split; lia.
  - intros s' _. now apply np_ret.
Qed.

Example carry_SliceJagged64_nextcarry_example :
  carry_SliceJagged64_nextcarry [9;9;9;9] [0; 2; 3; 6] [2; 1] 2 = KOk [3; 4; 5; 2].
Proof. vm_compute. reflexivity. Qed.

(* ================================================================================================ *)
(** * awkward_SliceVarNewAxis_to_SliceJagged64: tocarry[j] = i for offsets[i] <= j < offsets[i+1] *)
Theorem SliceVarNewAxis_to_SliceJagged64_safe tocarry fromoffsets n :
  n + 1 <= zlen fromoffsets ->
  (forall i, 0 <= i <= n -> 0 <= at_ fromoffsets i <= zlen tocarry) ->
  SliceVarNewAxis_to_SliceJagged64 tocarry fromoffsets n <> KOob.
Proof.
  intros H1 Ho. unfold SliceVarNewAxis_to_SliceJagged64. eapply np_noob.
  apply (np_kfor_c _ (fun o => zlen o = zlen tocarry)); auto.
  intros i o Hi L. pose proof (Ho i) as O1. pose proof (Ho (i + 1)) as O2. np_auto.
  apply (np_kfor_c _ (fun o => zlen o = zlen tocarry)); auto.
  intros j o' Hj L'. np_auto. now rewrite zlen_set_nth.
Qed.

Example SliceVarNewAxis_to_SliceJagged64_example :
  SliceVarNewAxis_to_SliceJagged64 [9;9;9;9;9] [0; 2; 2; 5] 3 = KOk [0; 0; 2; 2; 2].
Proof. vm_compute. reflexivity. Qed.

(* ================================================================================================ *)
(** * awkward_ListOffsetArray_getitem_adjust_offsets *)
Theorem ListOffsetArray_getitem_adjust_offsets_safe tooffsets tononzero fromoffsets n nonzero nonzerolength :
  1 <= zlen fromoffsets -> n + 1 <= zlen fromoffsets -> 1 <= zlen tooffsets -> n + 1 <= zlen tooffsets ->
  nonzerolength <= zlen nonzero -> nonzerolength <= zlen tononzero ->
  ListOffsetArray_getitem_adjust_offsets tooffsets tononzero fromoffsets n nonzero nonzerolength <> KOob.
Proof.
  intros H0 H1 H2 H3 H4 H5. unfold ListOffsetArray_getitem_adjust_offsets. eapply np_noob. np_auto.
  apply np_bind_kfor with
    (P := fun (_ : Z) (st : list Z * list Z * Z) =>
            let '(to, tn, j) := st in zlen to = zlen tooffsets /\ zlen tn = zlen tononzero /\ 0 <= j)
    (Q := fun _ : list Z * list Z => True).
  - rewrite zlen_set_nth. repeat split; lia.
  - intros i [[to tn] j] Hi (L1 & L2 & J). red_st. np_auto.
    eapply np_bind.
    + apply np_kwhile with (P := fun s : list Z * Z * Z => zlen (fst (fst s)) = zlen tononzero /\ 0 <= snd (fst s)).
      * cbn [fst snd]. auto.
      * intros [[tn' j'] c] (L3 & J3) C. cbn [fst snd] in *. red_st.
        assert (j' < nonzerolength) by lia. np_auto. cbn [fst snd]. rewrite zlen_set_nth. split; lia.
    + intros [[tn' j'] c] ((L3 & J3) & _). cbn [fst snd] in *. red_st. np_auto. rewrite zlen_set_nth. repeat split; lia.
  - intros [[to tn] j] _. now apply np_ret.
Qed.

Example ListOffsetArray_getitem_adjust_offsets_example :
  ListOffsetArray_getitem_adjust_offsets [9;9;9] [9;9;9] [0; 3; 5] 2 [0; 2; 4] 3 = KOk ([0; 2; 3], [0; 2; 1]).
Proof. vm_compute. reflexivity. Qed.

(* ================================================================================================ *)
(** * awkward_ListOffsetArray_getitem_adjust_offsets_index.  The kernel reads originalmask[j] for every
      fromoffsets[i] <= j < fromoffsets[i+1] and never looks at masklength. *)
Theorem ListOffsetArray_getitem_adjust_offsets_index_safe tooffsets tononzero fromoffsets n index indexlength nonzero nonzerolength originalmask masklength :
  1 <= zlen fromoffsets -> n + 1 <= zlen fromoffsets -> 1 <= zlen tooffsets -> n + 1 <= zlen tooffsets ->
  indexlength <= zlen index -> nonzerolength <= zlen nonzero -> nonzerolength <= zlen tononzero ->
  (forall i, 0 <= i <= n -> 0 <= at_ fromoffsets i <= zlen originalmask) ->
  ListOffsetArray_getitem_adjust_offsets_index tooffsets tononzero fromoffsets n index indexlength nonzero nonzerolength
    originalmask masklength <> KOob.
Proof.
  intros H0 H1 H2 H3 H4 H5 H6 Hm. unfold ListOffsetArray_getitem_adjust_offsets_index. eapply np_noob. np_auto.
  apply np_bind_kfor with
    (P := fun (_ : Z) (st : list Z * list Z * Z) =>
            let '(to, tn, k) := st in zlen to = zlen tooffsets /\ zlen tn = zlen tononzero /\ 0 <= k)
    (Q := fun _ : list Z * list Z => True).
  - rewrite zlen_set_nth. repeat split; lia.
  - intros i [[to tn] k] Hi (L1 & L2 & K). red_st. pose proof (Hm i) as M1. pose proof (Hm (i + 1)) as M2. np_auto.
    apply np_bind with (R := fun _ : Z => True).
    { apply (np_kfor_c _ (fun _ : Z => True)); auto. intros j nn Hj _. np_auto. auto. }
    intros numnull _.
    eapply np_bind.
    + apply np_kwhile with (P := fun s : list Z * Z * Z * Z => zlen (fst (fst (fst s))) = zlen tononzero /\ 0 <= snd (fst (fst s))).
      * cbn [fst snd]. auto.
      * intros [[[tn' k'] nc] c] (L3 & K3) C. cbn [fst snd] in *. red_st.
        assert (KL : k' < indexlength) by lia.
        rewrite (kget_at index k') in C by lia.
        np_auto.
        -- cbn [fst snd]. split; lia.
        -- assert (0 <= at_ index k' < nonzerolength) by lia. np_auto. cbn [fst snd]. rewrite zlen_set_nth. split; lia.
    + intros [[[tn' k'] nc] c] ((L3 & K3) & _). cbn [fst snd] in *. red_st. np_auto. rewrite zlen_set_nth. repeat split; lia.
  - intros [[to tn] k] _. now apply np_ret.
Qed.

Example ListOffsetArray_getitem_adjust_offsets_index_example :
  ListOffsetArray_getitem_adjust_offsets_index [9;9;9] [9;9] [0; 3; 5] 2 [0; -1; 1] 3 [0; 4] 2 [0; 1; 0; 0; 0] 5
  = KOk ([0; 2; 3], [0; 1]).
Proof. vm_compute. reflexivity. Qed.

(* ================================================================================================ *)
(** * awkward_IndexedArray_getitem_adjust_outindex: toindex receives one entry per missing value and one per matched
      nonzero position (the caller allocates nonzero.length() + numnull cells) *)
Theorem IndexedArray_getitem_adjust_outindex_safe tomask toindex tononzero fromindex n nonzero nonzerolength :
  n <= zlen fromindex -> n <= zlen tomask -> 0 <= nonzerolength <= zlen nonzero -> nonzerolength <= zlen tononzero ->
  psum (fun i => if at_ fromindex i <? 0 then 1 else 0) (Z.to_nat n) + nonzerolength <= zlen toindex ->
  IndexedArray_getitem_adjust_outindex tomask toindex tononzero fromindex n nonzero nonzerolength <> KOob.
Proof.
  intros H1 H2 H3 H4 Hcap. unfold IndexedArray_getitem_adjust_outindex. eapply np_noob.
  set (f := fun i => if at_ fromindex i <? 0 then 1 else 0) in *.
  assert (Hf : forall i, 0 <= i < n -> 0 <= f i) by (intros; unfold f; destruct (_ <? 0); lia).
  apply np_bind_kfor with
    (P := fun i (st : list Z * list Z * list Z * Z * Z) =>
            let '(tm, ti, tn, j, k) := st in
            zlen tm = zlen tomask /\ zlen ti = zlen toindex /\ zlen tn = zlen tononzero /\
            0 <= j <= nonzerolength /\ k = psum f (Z.to_nat i) + j)
    (Q := fun _ : list Z * list Z * list Z => True).
  - cbn [psum]. repeat split; lia.
  - intros i [[[[tm ti] tn] j] k] Hi (L1 & L2 & L3 & J & K). red_st.
    pose proof (psum_S f i (proj1 Hi)) as PS. unfold f at 3 in PS.
    pose proof (psum_mono f n Hf (Z.to_nat (i + 1)) (Z.to_nat n)) as PM.
    pose proof (psum_nonneg f n Hf (Z.to_nat i)) as PN.
    np_auto; rewrite ?zlen_set_nth; try (destruct (at_ fromindex i <? 0); repeat split; lia).
  - intros [[[[tm ti] tn] j] k] _. now apply np_ret.
Qed.

Example IndexedArray_getitem_adjust_outindex_example :
  IndexedArray_getitem_adjust_outindex [9;9;9;9] [9;9;9] [9;9] [0; -1; 1; 2] 4 [0; 2] 2
  = KOk ([0; 1; 0; 0], [0; -1; 1], [0; 3]).
Proof. vm_compute. reflexivity. Qed.
