(** C14 — pushing one whole value (atoms and nested lists) through any well-formed inactive builder. *)
From Coq Require Import ZArith List Bool Lia.
From AwkV Require Import Base Layout.
From AwkBuilder Require Import Builder Spec GbLemmas Invariant StepLemmas AtomStep.
Import ListNotations.
Open Scope Z_scope.

Lemma cmd_eq_null c : c = CNull \/ c <> CNull.
Proof. destruct c; (now left) || (right; discriminate). Qed.

Section WithOpts.
Variable o : opts.
Hypothesis Ho : good_opts o.

(* the tail of UnionBuilder::X for an atom: tags_.append(i); index_.append(length) *)
Lemma union_after_update tags idx pre x post x' v (s1 : builder) (s2 : gb -> builder) :
  wf (BUnion tags idx (pre ++ x :: post) (-1)) -> pushed x x' v ->
  exists u,
    withgb (gb_append o tags (Z.of_nat (length pre))) s1 (fun tags' =>
    withgb (gb_append o idx (blen x)) (s2 tags') (fun idx' =>
    SOk (BUnion tags' idx' (pre ++ x' :: post) (-1)) None)) = SOk u None /\
    pushed (BUnion tags idx (pre ++ x :: post) (-1)) u v.
Proof.
  intros W P. pose proof W as (Wt & Wi & _).
  destruct (gb_append_ok o tags (Z.of_nat (length pre)) Ho Wt) as (t' & Et & Wt' & Lt & Nt & _). rewrite Et. cbn [withgb].
  destruct (gb_append_ok o idx (blen x) Ho Wi) as (i' & Ei & Wi' & Li & Ni & _). rewrite Ei. cbn [withgb].
  eexists; split; [reflexivity|]. eapply union_update; eauto.
Qed.

Lemma union_after_push tags idx cs nb v (s1 : builder) (s2 : gb -> builder) :
  wf (BUnion tags idx cs (-1)) -> wf nb -> active nb = false -> bvals nb = [v] ->
  exists u,
    withgb (gb_append o tags (Z.of_nat (length cs))) s1 (fun tags' =>
    withgb (gb_append o idx 0) (s2 tags') (fun idx' =>
    SOk (BUnion tags' idx' (cs ++ [nb]) (-1)) None)) = SOk u None /\
    pushed (BUnion tags idx cs (-1)) u v.
Proof.
  intros W Wn An Vn. pose proof W as (Wt & Wi & _).
  destruct (gb_append_ok o tags (Z.of_nat (length cs)) Ho Wt) as (t' & Et & Wt' & Lt & Nt & _). rewrite Et. cbn [withgb].
  destruct (gb_append_ok o idx 0 Ho Wi) as (i' & Ei & Wi' & Li & Ni & _). rewrite Ei. cbn [withgb].
  eexists; split; [reflexivity|]. eapply union_push; eauto.
Qed.

Lemma union_wf_parts tags idx cs cur :
  wf (BUnion tags idx cs cur) -> Forall wf cs /\ (cur = -1 -> Forall (fun x => active x = false) cs).
Proof. intros (_ & _ & _ & Wcs & _ & In & _). split; [now apply wf_all|exact In]. Qed.

Lemma union_atom tags idx cs c v :
  wf (BUnion tags idx cs (-1)) -> atomval c = Some v -> c <> CNull ->
  exists u, step o (BUnion tags idx cs (-1)) c = SOk u None /\ pushed (BUnion tags idx cs (-1)) u v.
Proof.
  intros W Hv Hc. destruct (union_wf_parts _ _ _ _ W) as [Wcs In]. specialize (In eq_refl).
  cbn [step]. change (negb (-1 =? -1)) with false. cbv iota.
  rewrite (kind_atom c v Hv Hc).
  destruct (find_app (fun x => step o x c) (takes c) cs 0) as [[[i x] r]|] eqn:F.
  - apply find_app_spec in F. destruct F as (pre & post & -> & -> & T & ->).
    apply Forall_app in Wcs. destruct Wcs as [_ Wxp]. inversion Wxp as [|? ? Wx _]; subst.
    destruct (takes_atom o Ho x c v Wx Hv Hc T) as (x' & Ex & Px). rewrite Ex.
    cbn [Nat.add]. rewrite upd_nth_app. apply union_after_update; auto.
  - assert (forall (s1 : builder -> builder) (s2 : builder -> gb -> builder), exists u,
              withb (fresh_after o c) (BUnion tags idx cs (-1)) (fun nb =>
                withgb (gb_append o tags (Z.of_nat (length cs))) (s1 nb) (fun tags' =>
                withgb (gb_append o idx 0) (s2 nb tags') (fun idx' =>
                SOk (BUnion tags' idx' (cs ++ [nb]) (-1)) None))) = SOk u None /\
              pushed (BUnion tags idx cs (-1)) u v) as Fresh.
    { intros s1 s2. destruct (fresh_atom o Ho c v Hv Hc) as (nb & En & Wn & An & Vn & Bn). rewrite En. cbn [withb].
      apply union_after_push; auto. }
    pose proof (Fresh (fun nb => BUnion tags idx (cs ++ [nb]) (-1)) (fun nb tags' => BUnion tags' idx (cs ++ [nb]) (-1))) as Fresh'.
    cbv beta in Fresh'.
    destruct c; try discriminate; try congruence; try (exact Fresh').
    (* real: an Int64Builder alternative is converted in place *)
    destruct (find_app (fun x => x) is_int cs 0) as [[[i x] r]|] eqn:G; [|exact Fresh'].
    apply find_app_spec in G. destruct G as (pre & post & -> & -> & T & ->).
    destruct x; try discriminate T.
    apply Forall_app in Wcs. destruct Wcs as [_ Wxp]. inversion Wxp as [|? ? Wx _]; subst. cbn [wf] in Wx.
    destruct (gb_convert_ok o buf Ho Wx) as (gf & Ef & Wf & Lf & Nf & _). rewrite Ef. cbn [withgb].
    destruct (gb_append_ok o gf z Ho Wf) as (gf' & Ef' & Wf' & Lf' & Nf' & _). rewrite Ef'. cbn [withgb].
    cbn [Nat.add]. rewrite upd_nth_app. rewrite Nf.
    change (glen buf) with (blen (BInt buf)).
    apply union_after_update; auto.
    cbn in Hv. inversion Hv; subst v.
    unfold pushed. cbn [wf active bvals]. rewrite Lf', Lf, map_app. exact (conj Wf' (conj eq_refl eq_refl)).
Qed.

Lemma atom_step c : forall cmd v,
  wf c -> active c = false -> atomval cmd = Some v ->
  exists s r, step o c cmd = SOk s r /\ pushed c (pick s r) v.
Proof.
  induction c using builder_ind'; intros cmd v W A Hv.
  - (* Unknown *)
    destruct (cmd_eq_null cmd) as [->|Hc].
    + cbn in Hv. inversion Hv; subst v. cbn [step kind_of]. do 2 eexists; split; [reflexivity|].
      cbn [pick]. unfold pushed. cbn [wf active bvals] in *. rewrite repeat_snoc by lia.
      refine (conj _ (conj eq_refl eq_refl)). lia.
    + cbn [step]. rewrite (kind_atom cmd v Hv Hc). cbn [wf] in W.
      destruct (unknown_start_atom o Ho n cmd v W Hv Hc) as (r & E & P). rewrite E. do 2 eexists; split; [reflexivity|exact P].
  - (* Bool *)
    destruct (cmd_eq_null cmd) as [->|Hc].
    + cbn in Hv. inversion Hv; subst v. cbn [step]. destruct (option_null_ok o Ho (BBool g) W A) as (idx & E & P).
      rewrite E. do 2 eexists; split; [reflexivity|exact P].
    + destruct cmd; try discriminate; try congruence.
      * destruct (takes_atom o Ho (BBool g) (CBool b) v W Hv Hc eq_refl) as (x' & E & P). rewrite E.
        do 2 eexists; split; [reflexivity|exact P].
      * cbn [step kind_of]. destruct (union_wrap_atom o Ho (BBool g) _ v W A Hv Hc) as (u & E & P). rewrite E.
        do 2 eexists; split; [reflexivity|exact P].
      * cbn [step kind_of]. destruct (union_wrap_atom o Ho (BBool g) _ v W A Hv Hc) as (u & E & P). rewrite E.
        do 2 eexists; split; [reflexivity|exact P].
      * cbn [step kind_of]. destruct (union_wrap_atom o Ho (BBool g) _ v W A Hv Hc) as (u & E & P). rewrite E.
        do 2 eexists; split; [reflexivity|exact P].
  - (* Int *)
    destruct (cmd_eq_null cmd) as [->|Hc].
    + cbn in Hv. inversion Hv; subst v. cbn [step]. destruct (option_null_ok o Ho (BInt g) W A) as (idx & E & P).
      rewrite E. do 2 eexists; split; [reflexivity|exact P].
    + destruct cmd; try discriminate; try congruence.
      * cbn [step kind_of]. destruct (union_wrap_atom o Ho (BInt g) _ v W A Hv Hc) as (u & E & P). rewrite E.
        do 2 eexists; split; [reflexivity|exact P].
      * destruct (takes_atom o Ho (BInt g) (CInt z) v W Hv Hc eq_refl) as (x' & E & P). rewrite E.
        do 2 eexists; split; [reflexivity|exact P].
      * (* real: becomes a Float64Builder *)
        cbn [step]. cbn [wf] in W.
        destruct (gb_convert_ok o g Ho W) as (gf & Ef & Wf & Lf & Nf & _). rewrite Ef. cbn [withgb].
        destruct (gb_append_ok o gf z Ho Wf) as (gf' & Ef' & Wf' & Lf' & Nf' & _). rewrite Ef'. cbn [withgb].
        do 2 eexists; split; [reflexivity|]. cbn [pick]. cbn in Hv. inversion Hv; subst v.
        unfold pushed. cbn [wf active bvals]. rewrite Lf', Lf, map_app. exact (conj Wf' (conj eq_refl eq_refl)).
      * cbn [step kind_of]. destruct (union_wrap_atom o Ho (BInt g) _ v W A Hv Hc) as (u & E & P). rewrite E.
        do 2 eexists; split; [reflexivity|exact P].
  - (* Float *)
    destruct (cmd_eq_null cmd) as [->|Hc].
    + cbn in Hv. inversion Hv; subst v. cbn [step]. destruct (option_null_ok o Ho (BFloat g) W A) as (idx & E & P).
      rewrite E. do 2 eexists; split; [reflexivity|exact P].
    + destruct cmd; try discriminate; try congruence.
      * cbn [step kind_of]. destruct (union_wrap_atom o Ho (BFloat g) _ v W A Hv Hc) as (u & E & P). rewrite E.
        do 2 eexists; split; [reflexivity|exact P].
      * cbn [step]. cbn [wf] in W. cbn in Hv. inversion Hv; subst v.
        destruct (gb_append_ok o g z Ho W) as (g' & E' & W' & L' & N' & _). rewrite E'. cbn [withgb].
        do 2 eexists; split; [reflexivity|]. cbn [pick]. unfold pushed. cbn [wf active bvals]. rewrite L', map_app.
        exact (conj W' (conj eq_refl eq_refl)).
      * destruct (takes_atom o Ho (BFloat g) (CReal z) v W Hv Hc eq_refl) as (x' & E & P). rewrite E.
        do 2 eexists; split; [reflexivity|exact P].
      * cbn [step kind_of]. destruct (union_wrap_atom o Ho (BFloat g) _ v W A Hv Hc) as (u & E & P). rewrite E.
        do 2 eexists; split; [reflexivity|exact P].
  - (* String *)
    destruct (cmd_eq_null cmd) as [->|Hc].
    + cbn in Hv. inversion Hv; subst v. cbn [step]. destruct (option_null_ok o Ho (BString e a b) W A) as (idx & E & P).
      rewrite E. do 2 eexists; split; [reflexivity|exact P].
    + destruct cmd; try discriminate; try congruence.
      * cbn [step kind_of]. destruct (union_wrap_atom o Ho (BString e a b) _ v W A Hv Hc) as (u & E & P). rewrite E.
        do 2 eexists; split; [reflexivity|exact P].
      * cbn [step kind_of]. destruct (union_wrap_atom o Ho (BString e a b) _ v W A Hv Hc) as (u & E & P). rewrite E.
        do 2 eexists; split; [reflexivity|exact P].
      * cbn [step kind_of]. destruct (union_wrap_atom o Ho (BString e a b) _ v W A Hv Hc) as (u & E & P). rewrite E.
        do 2 eexists; split; [reflexivity|exact P].
      * destruct (Bool.eqb e isstr) eqn:Ee.
        -- assert (takes (CStr isstr s) (BString e a b) = true) as T.
           { cbn [takes]. apply Bool.eqb_prop in Ee. subst. apply Bool.eqb_reflx. }
           destruct (takes_atom o Ho (BString e a b) (CStr isstr s) v W Hv Hc T) as (x' & E & P). rewrite E.
           do 2 eexists; split; [reflexivity|exact P].
        -- cbn [step]. rewrite Ee. destruct (union_wrap_atom o Ho (BString e a b) _ v W A Hv Hc) as (u & E & P). rewrite E.
           do 2 eexists; split; [reflexivity|exact P].
  - (* Option *)
    cbn [active] in A. destruct W as (Wi & Wc & Fi).
    cbn [step]. rewrite A. cbn [negb].
    destruct (cmd_eq_null cmd) as [->|Hc].
    + cbn in Hv. inversion Hv; subst v. cbn [kind_of].
      destruct (gb_append_ok o idx (-1) Ho Wi) as (i' & Ei & Wi' & Li & Ni & _). rewrite Ei. cbn [withgb].
      do 2 eexists; split; [reflexivity|]. cbn [pick]. unfold pushed. cbn [wf active bvals]. rewrite Li, map_app.
      refine (conj (conj Wi' (conj Wc _)) (conj A eq_refl)).
      apply Forall_app. split; [exact Fi|]. constructor; [|constructor]. pose proof (blen_nonneg c Wc). lia.
    + rewrite (kind_atom cmd v Hv Hc).
      destruct (IHc cmd v Wc A Hv) as (s & r & Es & (Wn & An & Vn)). rewrite Es.
      destruct (gb_append_ok o idx (blen c) Ho Wi) as (i' & Ei & Wi' & Li & Ni & _). rewrite Ei. cbn [withgb].
      do 2 eexists; split; [reflexivity|]. cbn [pick]. unfold pushed. cbn [wf active bvals]. rewrite Li, map_app, Vn.
      assert (blen (pick s r) = blen c + 1) as Bn.
      { rewrite <- !bvals_len by auto. rewrite Vn, zlen_app, zlen_cons, zlen_nil. lia. }
      refine (conj (conj Wi' (conj Wn _)) (conj An _)).
      * rewrite Bn. apply Forall_app. split.
        -- eapply Forall_impl; [|exact Fi]. cbn. intros; lia.
        -- constructor; [lia|constructor].
      * cbn [map]. rewrite <- (bvals_len c Wc), lookup_last. f_equal.
        apply map_ext_in. intros i Hi. apply nth_lookup_app. rewrite Forall_forall in Fi. rewrite bvals_len by auto. auto.
  - (* List, not begun *)
    cbn [active] in A. subst begun. cbn [step negb].
    destruct (cmd_eq_null cmd) as [->|Hc].
    + cbn in Hv. inversion Hv; subst v. destruct (option_null_ok o Ho (BList offs c false) W eq_refl) as (idx & E & P).
      rewrite E. do 2 eexists; split; [reflexivity|exact P].
    + destruct (union_wrap_atom o Ho (BList offs c false) _ v W eq_refl Hv Hc) as (u & E & P).
      destruct cmd; try discriminate; try congruence; cbn [kind_of]; rewrite E; do 2 eexists; split; try reflexivity; exact P.
  - contradiction.
  - contradiction.
  - (* Union *)
    cbn [active] in A. apply negb_false_iff in A. apply Z.eqb_eq in A. subst cur.
    destruct (cmd_eq_null cmd) as [->|Hc].
    + cbn in Hv. inversion Hv; subst v. cbn [step]. change (negb (-1 =? -1)) with false. cbv iota. cbn [kind_of].
      destruct (option_null_ok o Ho (BUnion tags idx cs (-1)) W eq_refl) as (i' & E & P).
      rewrite E. do 2 eexists; split; [reflexivity|exact P].
    + destruct (union_atom tags idx cs cmd v W Hv Hc) as (u & E & P). rewrite E.
      do 2 eexists; split; [reflexivity|exact P].
Qed.

End WithOpts.
