(** C03 property theorems (proofs in Proofs_C03.v), about the reducer specification
    ([leaf_reduce] for one group of leaves, [zipred] across lists). The layout-level model [zl]
    and the implementation are tied to it by correspondence. *)
From AwkV Require Import Base Layout Valid Types AtAxis Ops_Reduce Proofs_C03 Proofs_AtAxis Proofs_Reduce Proofs_Reduce2 Proofs_Reduce3.
Import ListNotations. Open Scope Z_scope.

(* an empty group yields the identity ... *)
Theorem empty_group_yields_identity : forall dt,
  leaf_reduce RCount false dt [] = Some (VNum (DZ 0)) /\
  leaf_reduce RCountNonzero false dt [] = Some (VNum (DZ 0)) /\
  leaf_reduce RSum false dt [] = Some (VNum (DZ (wrap_acc dt 0))) /\
  leaf_reduce RProd false dt [] = Some (VNum (DZ (wrap_acc dt 1))) /\
  leaf_reduce RAny false dt [] = Some (VBool false) /\
  leaf_reduce RAll false dt [] = Some (VBool true) /\
  leaf_reduce RArgmin false dt [] = Some (VNum (DZ (-1))) /\
  leaf_reduce RArgmax false dt [] = Some (VNum (DZ (-1))).
Proof. exact empty_group_identity. Qed.
Print Assumptions empty_group_yields_identity.

(* ... or None under mask_identity, for every reducer *)
Theorem empty_group_is_none_under_mask : forall r dt, leaf_reduce r true dt [] = None.
Proof. exact empty_group_masked. Qed.
Print Assumptions empty_group_is_none_under_mask.

Theorem count_is_group_size : forall mask dt l,
  leaf_reduce RCount mask dt l = (match l, mask with [], true => None | _, _ => Some (VNum (DZ (zlen l))) end).
Proof. exact count_counts. Qed.
Print Assumptions count_is_group_size.

Theorem sum_is_wrapped_sum : forall mask dt x xs,
  leaf_reduce RSum mask dt (map (fun v => (0, v)) (x :: xs)) =
  Some (VNum (DZ (wrap_acc dt (fold_left Z.add (x :: xs) 0)))).
Proof. exact sum_is_sum. Qed.
Print Assumptions sum_is_wrapped_sum.

Theorem accumulator_does_not_wrap_small_values : forall dt z,
  - two63 <= z < two63 -> is_unsigned dt = false -> wrap_acc dt z = z.
Proof. exact wrap_acc_small. Qed.
Print Assumptions accumulator_does_not_wrap_small_values.

(* argmin gives the position within the group of the FIRST minimal element
   (positions are those handed in, i.e. they count skipped missing values) *)
Theorem argmin_first_extremum : forall l j,
  leaf_reduce RArgmin false DInt64 l = Some (VNum (DZ j)) -> l <> [] ->
  exists x pre post, l = pre ++ (j, x) :: post /\
                     (forall j' x', In (j', x') l -> x <= x') /\
                     (forall j' x', In (j', x') pre -> x < x').
Proof. exact argmin_is_first_minimum. Qed.
Print Assumptions argmin_first_extremum.

(* reducing across lists of unequal length: one output per position of the longest list *)
Theorem nonlocal_result_length : forall r mask sz t' xs out,
  zipred r mask (TList sz None t') xs = Ok (VList out) ->
  exists ls, mapM (fun jv : Z * value => match snd jv with VList l => Ok (fst jv, l) | _ => Err EValue end) xs = Ok ls /\
             zlen out = fold_left Z.max (map (fun jl : Z * list value => zlen (snd jl)) ls) 0.
Proof. exact zipred_list_shape. Qed.
Print Assumptions nonlocal_result_length.

(* the group at position p consists exactly of the p-th elements of the lists long enough, in order *)
Theorem group_is_column : forall p (ls : list (Z * list value)),
  column p ls = flat_map (fun jl : Z * list value =>
                            match nth_error (snd jl) (Z.to_nat p) with
                            | Some v => if p <? 0 then [] else [(fst jl, v)]
                            | None => []
                            end) ls.
Proof. exact column_spec. Qed.
Print Assumptions group_is_column.

(* ---- refinement: the layout-level model [reduce_model] (local reduction at the innermost lists, column-wise
        non-local reduction above) computes exactly the value-level specification, for EVERY axis, reducer,
        mask_identity and keepdims, on every valid layout whose used leaf data is finite ([fin]: no NaN/inf);
        unions and strings give the same refusal on both sides (proofs in Proofs_Reduce*.v) ---- *)
Theorem reduce_refines_spec_partial : forall r axis mask keepdims c vs,
  Valid None c -> fin c = true -> to_list c = Ok vs ->
  obs (reduce_model r axis mask keepdims c) = reduce_spec r axis mask keepdims (type_of c) vs.
Proof. exact Proofs_Reduce2.reduce_refines_spec_partial. Qed.
Print Assumptions reduce_refines_spec_partial.

Theorem reduce_refines_cases_partial : forall r axis mask keepdims c vs,
  Valid None c -> fin c = true -> to_list c = Ok vs ->
  match reduce_model r axis mask keepdims c with
  | Ok c' => exists ws, to_list c' = Ok ws /\ reduce_spec r axis mask keepdims (type_of c) vs = Ok ws
  | Err EValue => reduce_spec r axis mask keepdims (type_of c) vs = Err EValue
  | Err _ => False
  end.
Proof. exact Proofs_Reduce2.reduce_refines_cases_partial. Qed.
Print Assumptions reduce_refines_cases_partial.

Theorem reduce_local_refines_spec_partial : forall r mask keepdims c vs,
  Valid None c -> fin c = true -> to_list c = Ok vs ->
  obs (reduce_model r (-1) mask keepdims c) = reduce_spec r (-1) mask keepdims (type_of c) vs.
Proof. exact Proofs_Reduce2.reduce_local_refines_spec_partial. Qed.
Print Assumptions reduce_local_refines_spec_partial.

Theorem zl_computes_zipred_partial : forall r mask c groups vs,
  Valid None c -> frag1 c = true -> fin c = true -> reducible (type_of c) = true ->
  to_list c = Ok vs -> in_range (zlen vs) groups ->
  exists c' ws, zl r mask None c groups = Ok c' /\ to_list c' = Ok ws /\
                mapM (fun G => do xs <- gatherG vs G; zipred r mask (type_of c) xs) groups = Ok ws.
Proof. exact Proofs_Reduce.zl_spec. Qed.
Print Assumptions zl_computes_zipred_partial.

Theorem nonlocal_positions_are_columns : forall (vs0 : list value) sub lsG,
  mapS (cut1 vs0) sub = Ok lsG ->
  sub_maxlen sub = fold_left Z.max (map (fun jl : Z * list value => zlen (snd jl)) lsG) 0 /\
  forall q, 0 <= q -> gatherG vs0 (sub_col q sub) = Ok (column q lsG).
Proof. exact Proofs_Reduce.cols_column. Qed.
Print Assumptions nonlocal_positions_are_columns.

Theorem local_reduction_of_a_list_node_partial : forall r mask keepdims p c cc vs,
  list_content c = Some cc -> Valid None cc -> frag1 cc = true -> fin cc = true -> reducible (type_of cc) = true ->
  to_list c = Ok vs ->
  exists c' ws, reduce_g r mask keepdims p c = Ok c' /\ to_list c' = Ok ws /\
                mapM (fun v => match v with VList l => reduce_f r mask keepdims (type_of cc) l | _ => Err EValue end) vs = Ok ws.
Proof. exact Proofs_Reduce2.reduce_g_spec. Qed.
Print Assumptions local_reduction_of_a_list_node_partial.

Theorem missing_values_are_skipped : forall r mask keepdims dt l,
  is_arg r = false ->
  reduce_f r mask keepdims (TOpt (TNum dt)) l =
  reduce_f r mask keepdims (TNum dt) (filter (fun v => negb (is_none v)) l).
Proof. exact Proofs_Reduce3.missing_values_are_skipped. Qed.
Print Assumptions missing_values_are_skipped.

Theorem missing_pairs_are_dropped : forall r mask t pre j post,
  zipred r mask (TOpt t) (pre ++ (j, VNone) :: post) = zipred r mask (TOpt t) (pre ++ post).
Proof. exact Proofs_Reduce3.missing_pairs_are_dropped. Qed.
Print Assumptions missing_pairs_are_dropped.

Theorem argminmax_positions_count_missing : forall mask dt l j,
  0 <= j ->
  (reduce_f RArgmin mask false (TOpt (TNum dt)) l = Ok (VNum (DZ j)) ->
   exists v z, get l j = Ok v /\ leaf_int v = Ok z /\
               forall i v' z', get l i = Ok v' -> leaf_int v' = Ok z' -> z <= z' /\ (i < j -> z < z')) /\
  (reduce_f RArgmax mask false (TOpt (TNum dt)) l = Ok (VNum (DZ j)) ->
   exists v z, get l j = Ok v /\ leaf_int v = Ok z /\
               forall i v' z', get l i = Ok v' -> leaf_int v' = Ok z' -> z' <= z /\ (i < j -> z' < z)).
Proof. exact Proofs_Reduce3.argminmax_positions_count_missing. Qed.
Print Assumptions argminmax_positions_count_missing.

Theorem keepdims_wraps_in_length_one : forall r mask t l,
  reduce_f r mask true t l = rmap (fun v => VList [v]) (reduce_f r mask false t l).
Proof. exact Proofs_Reduce3.keepdims_wraps_in_length_one. Qed.
Print Assumptions keepdims_wraps_in_length_one.

Theorem min_max_of_nonempty_is_member_and_bound : forall mask dt l,
  l <> [] ->
  (dt <> DBool ->
   (exists m, leaf_reduce RMin mask dt l = Some (VNum (DZ m)) /\ In m (map snd l) /\ forall x, In x (map snd l) -> m <= x) /\
   (exists m, leaf_reduce RMax mask dt l = Some (VNum (DZ m)) /\ In m (map snd l) /\ forall x, In x (map snd l) -> x <= m)) /\
  leaf_reduce RMin mask DBool l = leaf_reduce RAll mask DBool l /\
  leaf_reduce RMax mask DBool l = leaf_reduce RAny mask DBool l.
Proof. exact Proofs_Reduce3.min_max_of_nonempty_is_member_and_bound. Qed.
Print Assumptions min_max_of_nonempty_is_member_and_bound.

Theorem any_all_are_exists_forall : forall mask dt l,
  l <> [] \/ mask = false ->
  (exists b, leaf_reduce RAny mask dt l = Some (VBool b) /\ (b = true <-> exists x, In x (map snd l) /\ x <> 0)) /\
  (exists b, leaf_reduce RAll mask dt l = Some (VBool b) /\ (b = true <-> forall x, In x (map snd l) -> x <> 0)).
Proof. exact Proofs_Reduce3.any_all_are_exists_forall. Qed.
Print Assumptions any_all_are_exists_forall.

Theorem prod_is_wrapped_product : forall mask dt l,
  l <> [] \/ mask = false -> leaf_reduce RProd mask dt l = Some (VNum (DZ (wrap_acc dt (prodZ (map snd l))))).
Proof. exact Proofs_Reduce3.prod_is_wrapped_product. Qed.
Print Assumptions prod_is_wrapped_product.

Theorem count_nonzero_counts : forall mask dt l,
  l <> [] \/ mask = false ->
  let k := zlen (filter nz (map snd l)) in
  leaf_reduce RCountNonzero mask dt l = Some (VNum (DZ k)) /\ 0 <= k <= zlen l /\
  (k = zlen l <-> forall x, In x (map snd l) -> x <> 0).
Proof. exact Proofs_Reduce3.count_nonzero_counts. Qed.
Print Assumptions count_nonzero_counts.

Theorem positions_matter_to_arg_reducers_only : forall r mask dt l l',
  is_arg r = false -> map snd l = map snd l' -> leaf_reduce r mask dt l = leaf_reduce r mask dt l'.
Proof. exact Proofs_Reduce3.leaf_reduce_positions. Qed.
Print Assumptions positions_matter_to_arg_reducers_only.

