(** C08: mergemany on the same-structure fragment (value concatenation). *)
From Coq Require Import ZArith List Bool Lia ZifyBool.
From AwkV Require Import Base Layout LayoutInd Valid Types Carry Proofs_C11.
From AwkMerge Require Import Merge Lemmas_C08 Proofs_C08.
Import ListNotations.
Open Scope Z_scope.

(* ---------------------------------------------------------------- the fragment *)
(* skeleton shared by all operands: 1-d numbers / a list level / an indexed-or-option level *)
Inductive sk := SNum | SList (s : sk) | SIx (s : sk).

Fixpoint has_sk (s : sk) (c : content) {struct s} : bool :=
  match s, c with
  | SNum, Numpy _ [_] _ => true
  | SList s', ListOffset _ _ c' => has_sk s' c'
  | SList s', ListA _ _ _ c' => has_sk s' c'
  | SList s', Regular c' size _ => negb (size =? 1) && has_sk s' c'
  | SIx s', Indexed _ _ c' => has_sk s' c'
  | SIx s', IndexedOption _ _ c' => has_sk s' c'
  | SIx s', ByteMasked _ _ c' => has_sk s' c'
  | SIx s', BitMasked _ _ _ _ c' => has_sk s' c'
  | SIx s', Unmasked c' => has_sk s' c'
  | _, _ => false
  end.

Fixpoint need (s : sk) : nat := match s with SNum => 1 | SList s' | SIx s' => S (need s') end.

(* the numeric leaf type of a layout of the fragment *)
Fixpoint leaf_dt (c : content) : dtype :=
  match c with
  | Numpy dt _ _ => dt
  | ListOffset _ _ c' | ListA _ _ _ c' | Regular c' _ _ | Indexed _ _ c' | IndexedOption _ _ c'
  | ByteMasked _ _ c' | BitMasked _ _ _ _ c' | Unmasked c' | Par _ _ c' => leaf_dt c'
  | _ => DBool
  end.

(* the documented cast: booleans become 0/1 when the merged leaf type is a number; nothing else changes *)
Fixpoint deep_cast (ndt : dtype) (v : value) {struct v} : value :=
  match v with
  | VBool b => if dt_eqb ndt DBool then v else bnum b
  | VList l => VList (map (deep_cast ndt) l)
  | _ => v
  end.

Lemma deep_cast_leaf ndt dt d : fill_ok dt ndt = true -> deep_cast ndt (leaf dt d) = leaf ndt (fill_datum dt d).
Proof.
  intros H. destruct dt; cbn in *;
    try (destruct ndt; cbn in *; try discriminate; reflexivity).
  (* dt = bool *)
  destruct ndt; cbn; destruct d as [z| |neg]; cbn; try reflexivity;
    destruct (z =? 0) eqn:E; cbn; reflexivity.
Qed.

(* ---------------------------------------------------------------- small facts about the model *)
Lemma split_head_none stop l : Forall (fun x => stop x = false) l -> split_head stop l = (l, []).
Proof.
  induction 1 as [|x xs Hx _ IH]; cbn; [reflexivity|]. rewrite Hx, IH. reflexivity.
Qed.

Lemma mkpar_nopar c : mkpar nopar c = c.
Proof. reflexivity. Qed.
Lemma merge_pars_nopar : merge_pars nopar nopar = nopar.
Proof. reflexivity. Qed.

Lemma has_sk_nopar s c : has_sk s c = true -> params c = nopar /\ body c = c.
Proof. destruct s, c; cbn; try discriminate; auto. Qed.

Lemma has_sk_SNum c : has_sk SNum c = true -> exists dt n data, c = Numpy dt [n] data.
Proof.
  destruct c; cbn; try discriminate. destruct shape as [|n [|? ?]]; try discriminate. eauto.
Qed.

Lemma prodZ_one n : prodZ [n] = n.
Proof. unfold prodZ. cbn. lia. Qed.

Lemma to_list_np1 dt n data vs :
  to_list (Numpy dt [n] data) = Ok vs -> 0 <= n <= zlen data /\ vs = map (leaf dt) (take n data).
Proof.
  cbn [to_list]. rewrite prodZ_one. cbn [existsb]. rewrite orb_false_r.
  destruct (n <? 0) eqn:E; [discriminate|]. destruct (zlen data <? n) eqn:E2; [discriminate|].
  cbn. intros H; inversion H. split; [lia|reflexivity].
Qed.
Lemma to_list_np1_ok dt n data : 0 <= n <= zlen data -> to_list (Numpy dt [n] data) = Ok (map (leaf dt) (take n data)).
Proof.
  intros H. cbn [to_list]. rewrite prodZ_one. cbn [existsb]. rewrite orb_false_r.
  destruct (n <? 0) eqn:E; [lia|]. destruct (zlen data <? n) eqn:E2; [lia|]. reflexivity.
Qed.

(* ---------------------------------------------------------------- SNum: NumpyArray::mergemany *)
Definition np3 := (dtype * Z * list datum)%type.
Definition np_of (x : np3) : content := let '(dt, n, data) := x in Numpy dt [n] data.
Definition np_ok (x : np3) : Prop := let '(_, n, data) := x in 0 <= n <= zlen data.
Definition np_dt (x : np3) : dtype := let '(dt, _, _) := x in dt.
Definition np_n (x : np3) : Z := let '(_, n, _) := x in n.
Definition np_vals (x : np3) : list value := let '(dt, n, data) := x in map (leaf dt) (take n data).
Definition np_filled (x : np3) : list datum := let '(dt, n, data) := x in map (fill_datum dt) (take n data).
Definition np_tuple (x : np3) : pars * dtype * list Z * list datum := let '(dt, n, data) := x in (nopar, dt, [n], data).

Definition fold_dt (arrs : list np3) (d0 : dtype) : dtype := fold_left (fun acc x => promote acc (np_dt x)) arrs d0.

Lemma fold_dt_ok_acc arrs : forall d0 x, fill_ok x d0 = true -> fill_ok x (fold_dt arrs d0) = true.
Proof.
  induction arrs as [|a rest IH]; intros d0 x H; cbn; [exact H|].
  apply IH. eapply fill_ok_trans; [exact H|apply fill_ok_promote_l].
Qed.
Lemma fold_dt_ok_in arrs : forall d0 a, In a arrs -> fill_ok (np_dt a) (fold_dt arrs d0) = true.
Proof.
  induction arrs as [|b rest IH]; intros d0 a HIn; [destruct HIn|].
  cbn. destruct HIn as [->|HIn].
  - apply fold_dt_ok_acc. apply fill_ok_promote_r.
  - apply IH. exact HIn.
Qed.

Lemma fold_dt_leaf arrs : forall d0, fold_dt arrs d0 = fold_left promote (map leaf_dt (map np_of arrs)) d0.
Proof.
  induction arrs as [|[[d n] dat] rest IH]; intros d0; cbn; [reflexivity|]. apply IH.
Qed.

Lemma mapM_np_part arrs : mapM np_part (map np_of arrs) = Ok (map (fun x => [np_tuple x]) arrs).
Proof.
  induction arrs as [|[[dt n] data] rest IH]; cbn; [reflexivity|].
  cbn in IH. rewrite IH. reflexivity.
Qed.
Lemma concat_singletons {A B} (f : A -> B) l : concat (map (fun x => [f x]) l) = map f l.
Proof. induction l; cbn; [reflexivity|]. now rewrite IHl. Qed.

Lemma fold_pars_nopar arrs p0 :
  p0 = nopar ->
  fold_left (fun acc (x : pars * dtype * list Z * list datum) => let '(p, _, _, _) := x in merge_pars acc p)
            (map np_tuple arrs) p0 = nopar.
Proof.
  intros ->. induction arrs as [|[[dt n] data] rest IH]; cbn; [reflexivity|]. exact IH.
Qed.
Lemma fold_promote_tuples arrs d0 :
  fold_left (fun acc (x : pars * dtype * list Z * list datum) => let '(_, d, _, _) := x in promote acc d)
            (map np_tuple arrs) d0 = fold_dt arrs d0.
Proof.
  revert d0. induction arrs as [|[[dt n] data] rest IH]; intros d0; cbn; [reflexivity|]. apply IH.
Qed.

Lemma sum_n_tuples arrs :
  sumZ (map (fun x : pars * dtype * list Z * list datum => let '(_, _, sh', _) := x in hd 0 sh') (map np_tuple arrs))
  = sumZ (map np_n arrs).
Proof. induction arrs as [|[[dt n] data] rest IH]; cbn; [reflexivity|]. unfold sumZ in *. cbn. now rewrite IH. Qed.

Lemma zlen_concat_filled arrs : Forall np_ok arrs -> zlen (concat (map np_filled arrs)) = sumZ (map np_n arrs).
Proof.
  induction 1 as [|[[dt n] data] rest Hx _ IH]; cbn; [reflexivity|].
  rewrite zlen_app, IH, zlen_map. cbn in Hx. rewrite zlen_take by lia. reflexivity.
Qed.
Lemma sum_n_nonneg arrs : Forall np_ok arrs -> 0 <= sumZ (map np_n arrs).
Proof.
  induction 1 as [|[[dt n] data] rest Hx _ IH]; cbn; [lia|]. cbn in Hx. unfold sumZ in *. cbn. lia.
Qed.

Lemma mm_numpy_all rec (a : np3) (others : list np3) :
  others <> [] -> Forall np_ok (a :: others) ->
  let arrs := a :: others in
  let ndt := fold_dt arrs (np_dt a) in
  mm_numpy rec (np_of a) (np_dt a) [np_n a] (map np_of others)
  = Ok (Numpy ndt [sumZ (map np_n arrs)] (concat (map np_filled arrs))).
Proof.
  intros Hne Hok arrs ndt.
  unfold mm_numpy.
  rewrite split_head_none.
  2:{ apply Forall_forall. intros x Hx. apply in_map_iff in Hx. destruct Hx as ([[dt n] data] & <- & _). reflexivity. }
  change (np_of a :: map np_of others) with (map np_of arrs).
  rewrite mapM_np_part. cbn [bind]. rewrite concat_singletons.
  assert (Hpa : params (np_of a) = nopar) by (destruct a as [[? ?] ?]; reflexivity).
  rewrite Hpa. cbn [is_chars_par fst nopar].
  rewrite fold_pars_nopar by reflexivity. rewrite fold_promote_tuples. fold ndt.
  match goal with |- context [mapM ?f (map np_tuple arrs)] =>
    assert (HM : mapM f (map np_tuple arrs) = Ok (map np_filled arrs)) end.
  { apply Forall2_mapM.
    assert (HF : Forall (fun x => np_ok x /\ fill_ok (np_dt x) ndt = true) arrs).
    { apply Forall_forall. intros x Hx. split.
      - eapply Forall_forall in Hok; eauto.
      - unfold ndt. apply fold_dt_ok_in. exact Hx. }
    clearbody ndt. clear -HF. induction HF as [|[[dt n] data] rest [Hx Hf] _ IH]; cbn; constructor; auto.
    cbn in Hx, Hf. rewrite Hf. cbn [negb]. change (prodZ [n]) with (n * 1). rewrite Z.mul_1_r.
    rewrite slice_in by lia. cbn. do 2 f_equal. f_equal. lia. }
  rewrite HM. cbn [bind]. rewrite sum_n_tuples. cbn [finish]. reflexivity.
Qed.

Lemma to_list_merged_numpy arrs ndt :
  Forall np_ok arrs -> Forall (fun x => fill_ok (np_dt x) ndt = true) arrs ->
  to_list (Numpy ndt [sumZ (map np_n arrs)] (concat (map np_filled arrs)))
  = Ok (concat (map (map (deep_cast ndt)) (map np_vals arrs))).
Proof.
  intros Hok Hf.
  pose proof (zlen_concat_filled _ Hok) as Hl. pose proof (sum_n_nonneg _ Hok) as Hn.
  rewrite to_list_np1_ok by lia. f_equal.
  rewrite take_all by lia.
  clear Hl Hn. induction Hok as [|[[dt n] data] rest Hx _ IH]; cbn; [reflexivity|].
  inversion Hf; subst. rewrite map_app, IH by assumption. f_equal.
  rewrite !map_map. apply map_ext. intros d. symmetry. apply deep_cast_leaf. assumption.
Qed.

(* ---------------------------------------------------------------- values as a function *)
Definition vals (c : content) : list value := match to_list c with Ok v => v | Err _ => [] end.
Definition tl_ok (c : content) : Prop := exists v, to_list c = Ok v.
Lemma vals_ok c v : to_list c = Ok v -> vals c = v.
Proof. unfold vals. now intros ->. Qed.
Lemma tl_ok_vals c : tl_ok c -> to_list c = Ok (vals c).
Proof. intros [v H]. now rewrite (vals_ok _ _ H). Qed.
Lemma zlen_vals c : tl_ok c -> zlen (vals c) = clen c.
Proof. intros H. apply to_list_len. now apply tl_ok_vals. Qed.

Lemma deep_cast_VList ndt l : deep_cast ndt (VList l) = VList (map (deep_cast ndt) l).
Proof. reflexivity. Qed.
Lemma map_VList_concat (L : list (list (list value))) : map VList (concat L) = concat (map (map VList) L).
Proof. induction L; cbn; [reflexivity|]. now rewrite map_app, IHL. Qed.

(* ---------------------------------------------------------------- SList: ListArray::mergemany *)
Lemma pairs_zip o : pairs o = zip (removelast o) (tl o).
Proof.
  induction o as [|a [|b t] IH]; try reflexivity.
  change (pairs (a :: b :: t)) with ((a, b) :: pairs (b :: t)).
  change (removelast (a :: b :: t)) with (a :: removelast (b :: t)).
  cbn [tl zip]. f_equal. exact IH.
Qed.
Lemma removelast_len {A} (l : list A) : length (removelast l) = pred (length l).
Proof.
  induction l as [|a [|b t] IH]; try reflexivity.
  change (removelast (a :: b :: t)) with (a :: removelast (b :: t)). cbn [length]. rewrite IH. reflexivity.
Qed.
Lemma zip_firstn_r {A B} (l : list A) (m : list B) : zip l (firstn (length l) m) = zip l m.
Proof. revert m. induction l; destruct m; cbn; auto. now rewrite IHl. Qed.

(* the (starts, stops, content) view of a list node of the fragment *)
Definition reg_n (c : content) (size zl : Z) : Z := if size =? 0 then zl else clen c / size.
Definition lv_s (x : content) : list Z :=
  match x with
  | ListOffset _ o _ => removelast o | ListA _ s _ _ => s
  | Regular c size zl => map (fun i => i * size) (iota (reg_n c size zl))
  | _ => [] end.
Definition lv_e (x : content) : list Z :=
  match x with
  | ListOffset _ o _ => tl o | ListA _ s e _ => take (zlen s) e
  | Regular c size zl => map (fun i => (i + 1) * size) (iota (reg_n c size zl))
  | _ => [] end.
Definition lv_c (x : content) : content :=
  match x with ListOffset _ _ c | ListA _ _ _ c | Regular c _ _ => c | _ => Empty end.

Lemma skipn_skipn' {A} (a b : nat) (l : list A) : skipn a (skipn b l) = skipn (b + a) l.
Proof.
  revert l. induction b as [|b IH]; intros l; [reflexivity|].
  destruct l; cbn [skipn plus]; [now destruct a|]. apply IH.
Qed.
Lemma drop_drop {A} (l : list A) a b : 0 <= a -> 0 <= b -> drop a (drop b l) = drop (a + b) l.
Proof.
  intros Ha Hb. unfold drop. rewrite skipn_skipn'. f_equal. lia.
Qed.
Lemma chunks_nat_map {A} (n : Z) : 0 <= n -> forall k (vs : list A),
  chunks_nat vs n k = map (fun i => take n (drop (i * n) vs)) (iota_nat 0 k).
Proof.
  intros Hn. induction k as [|k IH]; intros vs; cbn [chunks_nat iota_nat map]; [reflexivity|].
  rewrite Z.mul_0_l. change (drop 0 vs) with vs. f_equal.
  rewrite IH. rewrite (iota_nat_shift 0 1 k), map_map.
  apply map_ext_in. intros i Hi. apply iota_nat_In in Hi. rewrite drop_drop by nia. do 2 f_equal. ring.
Qed.
Lemma regular_cut1 {A} (vs : list A) size n :
  0 < size -> n = zlen vs / size ->
  mapM (cut1 vs) (zip (map (fun i => i * size) (iota n)) (map (fun i => (i + 1) * size) (iota n)))
  = Ok (chunks_nat vs size (Z.to_nat n)).
Proof.
  intros Hs Hn. rewrite zip_map_l, zip_map_r, map_map, zip_same, map_map, mapM_map. cbn [fst snd].
  rewrite (chunks_nat_map size ltac:(lia)). fold (iota n). rewrite <- mapM_Ok.
  apply mapM_ext. intros i Hi. apply iota_In in Hi. unfold cut1.
  replace (i * size =? (i + 1) * size) with false by nia.
  assert (Hb : (i + 1) * size <= zlen vs).
  { pose proof (zlen_nonneg vs). assert (size * (zlen vs / size) <= zlen vs) by (apply Z.mul_div_le; lia). nia. }
  rewrite slice_in by nia. do 2 f_equal. ring.
Qed.
Definition lv_lists (x : content) : list (list value) :=
  match mapM (cut1 (vals (lv_c x))) (zip (lv_s x) (lv_e x)) with Ok l => l | Err _ => [] end.
Definition lv_tuple (x : content) : pars * list Z * list Z * content := (nopar, lv_s x, lv_e x, lv_c x).

Lemma list_view s' x :
  has_sk (SList s') x = true -> tl_ok x ->
  list_parts x = Ok [lv_tuple x] /\ has_sk s' (lv_c x) = true /\ tl_ok (lv_c x) /\
  length (lv_s x) = length (lv_e x) /\
  mapM (cut1 (vals (lv_c x))) (zip (lv_s x) (lv_e x)) = Ok (lv_lists x) /\
  vals x = map VList (lv_lists x) /\ stop_basic x = false /\ leaf_dt x = leaf_dt (lv_c x).
Proof.
  intros Hs [vx Hx]. destruct x; cbn in Hs; try discriminate.
  - (* ListOffset *)
    cbn [to_list] in Hx. apply bind_ok in Hx. destruct Hx as (vc & Hc & Hx).
    apply rmap_ok in Hx. destruct Hx as (r & Hr & ->).
    unfold cut in Hr. destruct offsets as [|o0 ot] eqn:Eo; [discriminate|]. rewrite <- Eo in *.
    assert (Hne : offsets <> []) by (rewrite Eo; discriminate).
    unfold lv_tuple, lv_lists. cbn [lv_s lv_e lv_c]. rewrite (vals_ok _ _ Hc).
    rewrite <- pairs_zip, Hr.
    repeat split; auto.
    + unfold list_parts. cbn [body]. rewrite Eo. rewrite <- Eo. reflexivity.
    + eexists; eauto.
    + rewrite removelast_len. destruct offsets; [congruence|reflexivity].
    + unfold vals. cbn [to_list]. rewrite Hc. cbn. unfold cut. rewrite Eo. rewrite <- Eo. rewrite Hr. reflexivity.
  - (* ListA *)
    cbn [to_list] in Hx. apply bind_ok in Hx. destruct Hx as (vc & Hc & Hx).
    apply rmap_ok in Hx. destruct Hx as (r & Hr & ->).
    unfold cut2 in Hr. destruct (zlen stops <? zlen starts) eqn:E; [discriminate|].
    unfold lv_tuple, lv_lists. cbn [lv_s lv_e lv_c]. rewrite (vals_ok _ _ Hc).
    assert (Hz : zip starts (take (zlen starts) stops) = zip starts stops).
    { unfold take, zlen. rewrite Nat2Z.id. apply zip_firstn_r. }
    rewrite Hz, Hr.
    repeat split; auto.
    + unfold list_parts. cbn [body]. rewrite slice_in by (pose proof (zlen_nonneg starts); lia).
      cbn. unfold drop. cbn. rewrite Z.sub_0_r. reflexivity.
    + eexists; eauto.
    + unfold take, zlen in *. rewrite firstn_length. lia.
    + unfold vals. cbn [to_list]. rewrite Hc. cbn. unfold cut2. rewrite E, Hr. reflexivity.
  - (* Regular, size <> 1 *)
    apply andb_true_iff in Hs. destruct Hs as [Hs1 Hs].
    cbn [to_list] in Hx. apply bind_ok in Hx. destruct Hx as (vc & Hc & Hx).
    apply rmap_ok in Hx. destruct Hx as (r & Hr & ->).
    unfold lv_tuple, lv_lists. cbn [lv_s lv_e lv_c]. rewrite (vals_ok _ _ Hc).
    pose proof (to_list_len _ _ Hc) as Hlc.
    unfold chunks in Hr. destruct (size <? 0) eqn:E0; [discriminate|].
    assert (HM : mapM (cut1 vc) (zip (map (fun i => i * size) (iota (reg_n x size zeros_length)))
                                     (map (fun i => (i + 1) * size) (iota (reg_n x size zeros_length)))) = Ok r).
    { unfold reg_n. destruct (size =? 0) eqn:E1.
      - destruct (zeros_length <? 0) eqn:E2; [discriminate|]. inversion Hr; subst r.
        rewrite zip_map_l, zip_map_r, map_map, zip_same, map_map, mapM_map. cbn [fst snd].
        rewrite <- mapM_Ok. apply mapM_ext. intros i _. unfold cut1.
        replace (i * size =? (i + 1) * size) with true by lia. reflexivity.
      - inversion Hr; subst r. rewrite <- Hlc. apply regular_cut1; [lia|reflexivity]. }
    rewrite HM.
    repeat split; auto.
    + unfold list_parts. cbn [body]. rewrite E0. reflexivity.
    + eexists; eauto.
    + rewrite !map_length. reflexivity.
    + unfold vals. cbn [to_list]. rewrite Hc. cbn. unfold chunks. rewrite E0. 
      destruct (size =? 0); [destruct (zeros_length <? 0); [discriminate|]|]; rewrite Hr; reflexivity.
Qed.

Lemma cut1_shift (dc : value -> value) (pre vc rest : list value) x y l :
  cut1 vc (x, y) = Ok l ->
  cut1 (pre ++ map dc vc ++ rest) (x + zlen pre, y + zlen pre) = Ok (map dc l).
Proof.
  unfold cut1. destruct (x =? y) eqn:E.
  - intros H; inversion H; subst. replace (x + zlen pre =? y + zlen pre) with true by lia. reflexivity.
  - intros H. replace (x + zlen pre =? y + zlen pre) with false by lia.
    apply slice_app_r. apply slice_app_l. apply slice_map. exact H.
Qed.

Lemma fill_lists_sem (dc : value -> value) (items : list content) :
  Forall (fun x => tl_ok (lv_c x) /\ length (lv_s x) = length (lv_e x) /\
                   mapM (cut1 (vals (lv_c x))) (zip (lv_s x) (lv_e x)) = Ok (lv_lists x)) items ->
  forall pre,
  let V := pre ++ concat (map (fun x => map dc (vals (lv_c x))) items) in
  length (fst (fill_lists (zlen pre) (map lv_tuple items))) = length (snd (fill_lists (zlen pre) (map lv_tuple items))) /\
  mapM (cut1 V) (zip (fst (fill_lists (zlen pre) (map lv_tuple items))) (snd (fill_lists (zlen pre) (map lv_tuple items))))
  = Ok (concat (map (fun x => map (map dc) (lv_lists x)) items)).
Proof.
  induction 1 as [|x rest (Hc & Hl & HM) _ IH]; intros pre V.
  - cbn. split; reflexivity.
  - cbn [map fill_lists lv_tuple].
    specialize (IH (pre ++ map dc (vals (lv_c x)))).
    rewrite zlen_app, zlen_map, (zlen_vals _ Hc) in IH.
    destruct (fill_lists (zlen pre + clen (lv_c x)) (map lv_tuple rest)) as [ss es] eqn:EF.
    cbn [fst snd] in *. destruct IH as [IHl IHm].
    split.
    + rewrite !app_length, !map_length. lia.
    + rewrite zip_app by (rewrite !map_length; exact Hl).
      rewrite mapM_app.
      assert (HV : V = (pre ++ map dc (vals (lv_c x))) ++ concat (map (fun x0 => map dc (vals (lv_c x0))) rest)).
      { unfold V. cbn [map concat]. now rewrite app_assoc. }
      rewrite <- HV in IHm. rewrite IHm.
      assert (H1 : mapM (cut1 V) (zip (map (fun x0 => x0 + zlen pre) (lv_s x)) (map (fun x0 => x0 + zlen pre) (lv_e x)))
                   = Ok (map (map dc) (lv_lists x))).
      { rewrite zip_map_l, zip_map_r, map_map, mapM_map. cbn [fst snd].
        apply mapM_ok_Forall2 in HM. apply Forall2_mapM.
        clear -HM. unfold V. cbn [map concat].
        induction HM as [|[a b] l ps ls Hab _ IH']; cbn; constructor; auto.
        apply cut1_shift. exact Hab. }
      rewrite H1. cbn [bind map concat]. reflexivity.
Qed.

(* ---------------------------------------------------------------- indexed / option nodes *)
Definition sem_ix (isopt : bool) (vs : list value) (ix : list Z) : res (list value) :=
  mapM (fun i => if isopt then pick_opt vs (0 <=? i) i else get vs i) ix.

Lemma in_zip_l {A B} (l : list A) (m : list B) a b : In (a, b) (zip l m) -> In a l.
Proof.
  revert m. induction l as [|x xs IH]; destruct m as [|y ys]; cbn; try tauto.
  intros [E|H]; [inversion E; auto | right; eapply IH; eauto].
Qed.

Lemma mapM_comp {A B C} (g : A -> res B) (h : B -> res C) l ys :
  mapM g l = Ok ys -> mapM h ys = mapM (fun x => do y <- g x; h y) l.
Proof.
  revert ys. induction l as [|x xs IH]; cbn; intros ys H.
  - inversion H. reflexivity.
  - destruct (g x) eqn:E; cbn in H; [|discriminate].
    destruct (mapM g xs) eqn:E2; cbn in H; [|discriminate].
    inversion H; subst. cbn. rewrite (IH _ eq_refl). reflexivity.
Qed.

(* an indexed / option node is its content gathered by the index that [ix_parts] extracts *)
Lemma ix_parts_sem b o ix cc vb :
  ix_parts b = Ok (o, ix, cc) -> to_list b = Ok vb ->
  exists vc, to_list cc = Ok vc /\ sem_ix o vc ix = Ok vb.
Proof.
  intros HP HT. destruct b; cbn in HP; try discriminate.
  - (* Indexed *)
    inversion HP; subst. cbn [to_list] in HT. apply bind_ok in HT. destruct HT as (vc & Hc & HT).
    exists vc. split; auto.
  - (* IndexedOption *)
    inversion HP; subst. cbn [to_list] in HT. apply bind_ok in HT. destruct HT as (vc & Hc & HT).
    exists vc. split; auto. unfold sem_ix. rewrite mapM_map. rewrite <- HT.
    apply mapM_ext. intros i _. destruct (i <? 0) eqn:E.
    + replace (0 <=? -1) with false by lia. replace (0 <=? i) with false by lia. reflexivity.
    + reflexivity.
  - (* ByteMasked *)
    inversion HP; subst. cbn [to_list] in HT. apply bind_ok in HT. destruct HT as (vc & Hc & HT).
    exists vc. split; auto. unfold sem_ix. rewrite mapM_map. rewrite <- HT.
    apply mapM_ext. intros [i b] Hin. apply in_zip_l in Hin. apply iota_In in Hin.
    destruct (Bool.eqb (negb (b =? 0)) valid_when) eqn:E.
    + replace (0 <=? i) with true by lia. reflexivity.
    + reflexivity.
  - (* BitMasked *)
    apply bind_ok in HP. destruct HP as (oi & Hoi & HP). inversion HP; subst. clear HP.
    apply bind_ok in Hoi. destruct Hoi as (ixs & HM & Hoi). inversion Hoi; subst. cbn [fst snd]. clear Hoi.
    cbn [to_list] in HT. apply bind_ok in HT. destruct HT as (vc & Hc & HT).
    destruct (len <? 0) eqn:E; [discriminate|].
    exists vc. split; auto. unfold sem_ix. rewrite (mapM_comp _ _ _ _ HM). rewrite <- HT.
    apply mapM_ext. intros i Hin. apply iota_In in Hin.
    destruct (bit_at mask lsb i) as [bt|]; cbn; [|reflexivity].
    destruct (Bool.eqb bt valid_when).
    + replace (0 <=? i) with true by lia. reflexivity.
    + reflexivity.
  - (* Unmasked *)
    inversion HP; subst. cbn [to_list] in HT. exists vb. split; auto.
    unfold sem_ix. rewrite <- (to_list_len _ _ HT).
    transitivity (mapM (get vb) (iota (zlen vb))); [|apply mapM_get_iota].
    apply mapM_ext. intros i Hin. apply iota_In in Hin.
    replace (0 <=? i) with true by lia. reflexivity.
Qed.

Definition iv (x : content) : bool * list Z * content :=
  match ix_parts x with Ok p => p | Err _ => (false, [], Empty) end.
Definition iv_opt (x : content) : bool := fst (fst (iv x)).
Definition iv_ix (x : content) : list Z := snd (fst (iv x)).
Definition iv_c (x : content) : content := snd (iv x).
Definition iv_tuple (x : content) : bool * (Z -> list Z) * content :=
  (iv_opt x, fun base => shift_ix base (iv_ix x), iv_c x).

Lemma has_sk_SIx_parts s' x :
  has_sk (SIx s') x = true -> tl_ok x ->
  exists p, ix_parts x = Ok p /\ has_sk s' (snd p) = true /\ is_union x = false /\ body x = x /\
            leaf_dt x = leaf_dt (snd p) /\ params x = nopar.
Proof.
  intros Hs [vx Hx]. destruct x; cbn in Hs; try discriminate.
  - eexists; repeat split; eauto.
  - eexists; repeat split; eauto.
  - eexists; repeat split; eauto.
  - cbn [to_list] in Hx. apply bind_ok in Hx. destruct Hx as (vc & Hc & Hx).
    destruct (len <? 0) eqn:E; [discriminate|].
    cbn [ix_parts option_index].
    assert (exists ixs, mapM (fun i => do b <- bit_at mask lsb i; Ok (if Bool.eqb b valid_when then i else -1)) (iota len) = Ok ixs) as [ixs Hixs].
    { clear -Hx. revert vx Hx. induction (iota len) as [|i l IH]; cbn; intros vx Hx; [eauto|].
      destruct (bit_at mask lsb i) as [bt|]; cbn in *; [|discriminate].
      destruct (pick_opt vc (Bool.eqb bt valid_when) i); cbn in Hx; [|discriminate].
      destruct (mapM _ l) eqn:E in Hx; cbn in Hx; [|discriminate].
      destruct (IH _ E) as [ixs ->]. cbn. eauto. }
    rewrite Hixs. cbn. eexists; repeat split; eauto.
  - eexists; repeat split; eauto.
Qed.

Lemma ix_view s' x :
  has_sk (SIx s') x = true -> tl_ok x ->
  ix_part x = Ok [iv_tuple x] /\ has_sk s' (iv_c x) = true /\ tl_ok (iv_c x) /\
  sem_ix (iv_opt x) (vals (iv_c x)) (iv_ix x) = Ok (vals x) /\ is_union x = false /\
  leaf_dt x = leaf_dt (iv_c x) /\ params x = nopar.
Proof.
  intros Hs Hx. destruct (has_sk_SIx_parts _ _ Hs Hx) as ([[o ix] cc] & HP & Hsk & Hu & Hb & Hl & Hpar).
  destruct Hx as [vx Hx].
  destruct (ix_parts_sem _ _ _ _ _ HP Hx) as (vc & Hc & Hsem).
  unfold iv_tuple, iv_opt, iv_ix, iv_c, iv. rewrite HP. cbn [fst snd] in *.
  rewrite (vals_ok _ _ Hc), (vals_ok _ _ Hx).
  repeat split; auto; [|eexists; eauto].
  unfold ix_part. rewrite Hb.
  destruct x; cbn in Hs; try discriminate; rewrite HP; reflexivity.
Qed.

Lemma deep_cast_VNone ndt : deep_cast ndt VNone = VNone.
Proof. reflexivity. Qed.

Lemma sem_elem_shift (dc : value -> value) (pre vc rest : list value) (o anyopt : bool) j v :
  dc VNone = VNone -> (o = true -> anyopt = true) ->
  (if o then pick_opt vc (0 <=? j) j else get vc j) = Ok v ->
  let j' := if j <? 0 then -1 else j + zlen pre in
  (if anyopt then pick_opt (pre ++ map dc vc ++ rest) (0 <=? j') j' else get (pre ++ map dc vc ++ rest) j') = Ok (dc v).
Proof.
  intros HN Himp H j'. pose proof (zlen_nonneg pre) as Hp.
  assert (Hget : forall v0, get vc j = Ok v0 -> 0 <= j /\ get (pre ++ map dc vc ++ rest) (j + zlen pre) = Ok (dc v0)).
  { intros v0 Hg. destruct (get_ok _ _ _ Hg) as [Hr _]. split; [lia|].
    apply get_app_r; [lia|]. apply get_app_l. apply get_map. exact Hg. }
  destruct o.
  - rewrite (Himp eq_refl). unfold pick_opt in H. destruct (0 <=? j) eqn:E.
    + destruct (Hget _ H) as [Hj Hg]. unfold j'. replace (j <? 0) with false by lia.
      unfold pick_opt. replace (0 <=? j + zlen pre) with true by lia. exact Hg.
    + inversion H; subst. unfold j'. replace (j <? 0) with true by lia. cbn. now rewrite HN.
  - destruct (Hget _ H) as [Hj Hg]. unfold j'. replace (j <? 0) with false by lia.
    destruct anyopt; [|exact Hg].
    unfold pick_opt. replace (0 <=? j + zlen pre) with true by lia. exact Hg.
Qed.

Lemma fill_index_sem (dc : value -> value) (anyopt : bool) (items : list content) :
  dc VNone = VNone ->
  Forall (fun x => tl_ok (iv_c x) /\ (iv_opt x = true -> anyopt = true) /\
                   sem_ix (iv_opt x) (vals (iv_c x)) (iv_ix x) = Ok (vals x)) items ->
  forall pre,
  sem_ix anyopt (pre ++ concat (map (fun x => map dc (vals (iv_c x))) items))
         (fill_index (zlen pre) (map iv_tuple items))
  = Ok (concat (map (fun x => map dc (vals x)) items)).
Proof.
  intros HN. induction 1 as [|x rest (Hc & Himp & Hsem) _ IH]; intros pre.
  - reflexivity.
  - cbn [map fill_index iv_tuple concat].
    specialize (IH (pre ++ map dc (vals (iv_c x)))).
    rewrite zlen_app, zlen_map, (zlen_vals _ Hc) in IH. rewrite <- app_assoc in IH.
    unfold sem_ix in *. rewrite mapM_app. rewrite IH.
    assert (H1 : mapM (fun i => if anyopt
                                then pick_opt (pre ++ map dc (vals (iv_c x)) ++ concat (map (fun x0 => map dc (vals (iv_c x0))) rest)) (0 <=? i) i
                                else get (pre ++ map dc (vals (iv_c x)) ++ concat (map (fun x0 => map dc (vals (iv_c x0))) rest)) i)
                      (shift_ix (zlen pre) (iv_ix x)) = Ok (map dc (vals x))).
    { unfold shift_ix. rewrite mapM_map.
      apply mapM_ok_Forall2 in Hsem. apply Forall2_mapM.
      induction Hsem as [|j v js vs Hjv _ IH']; cbn; constructor; auto.
      apply (sem_elem_shift dc pre (vals (iv_c x)) _ (iv_opt x) anyopt j v HN Himp Hjv). }
    rewrite H1. reflexivity.
Qed.

(* ---------------------------------------------------------------- the theorem *)
Lemma mapM_singletons {A B} (f : A -> res (list B)) (g : A -> B) l :
  Forall (fun x => f x = Ok [g x]) l -> mapM f l = Ok (map (fun x => [g x]) l).
Proof. induction 1 as [|x xs Hx _ IH]; cbn; [reflexivity|]. now rewrite Hx, IH. Qed.

Lemma fold_params_nopar (l : list content) :
  Forall (fun x => params x = nopar) l ->
  fold_left (fun acc x => merge_pars acc (params x)) l nopar = nopar.
Proof. induction 1 as [|x xs Hx _ IH]; cbn; [reflexivity|]. rewrite Hx. exact IH. Qed.
Lemma fold_lv_pars (l : list content) :
  fold_left (fun acc (x : pars * list Z * list Z * content) => let '(p, _, _, _) := x in merge_pars acc p)
            (map lv_tuple l) nopar = nopar.
Proof. induction l; cbn; [reflexivity|]. exact IHl. Qed.

Lemma sk_numpy_list cs :
  Forall (fun c => has_sk SNum c = true) cs -> Forall tl_ok cs ->
  exists arrs, cs = map np_of arrs /\ Forall np_ok arrs /\ map vals cs = map np_vals arrs.
Proof.
  induction 1 as [|c rest Hc _ IH]; intros Ht.
  - exists []. repeat split; constructor.
  - inversion Ht as [|? ? [v Hv] Hrest]; subst.
    destruct (IH Hrest) as (arrs & -> & Hok & Hvals).
    destruct (has_sk_SNum _ Hc) as (dt & n & data & ->).
    destruct (to_list_np1 _ _ _ _ Hv) as [Hn ->].
    exists ((dt, n, data) :: arrs). cbn [map np_of]. repeat split.
    + constructor; auto.
    + cbn [map]. f_equal; auto. apply vals_ok. exact Hv.
Qed.

Lemma deep_cast_map_VList dc (L : list (list value)) :
  map (deep_cast dc) (map VList L) = map VList (map (map (deep_cast dc)) L).
Proof. rewrite !map_map. reflexivity. Qed.

(* no option level directly inside an option level (what validity of the operands guarantees) *)
Fixpoint sk_ok (s : sk) : bool :=
  match s with
  | SNum => true
  | SList s' => sk_ok s'
  | SIx s' => match s' with SIx _ => false | _ => sk_ok s' end
  end.

Lemma cut1_ok_pair {A} (V : list A) p l : cut1 V p = Ok l -> pair_okb (zlen V) p = true.
Proof.
  destruct p as [a b]. unfold cut1, pair_okb. destruct (a =? b) eqn:E; [reflexivity|].
  intros H. apply slice_ok in H. lia.
Qed.
Lemma mapM_ok_forallb {A B} (f : A -> res B) (g : A -> bool) l ys :
  (forall x y, f x = Ok y -> g x = true) -> mapM f l = Ok ys -> forallb g l = true.
Proof.
  intros Hfg H. apply mapM_ok_Forall2 in H. induction H; cbn; [reflexivity|].
  rewrite (Hfg _ _ H), IHForall2. reflexivity.
Qed.
Lemma has_sk_not_optionlike s c : has_sk s c = true -> match s with SIx _ => False | _ => True end -> optionlike c = false.
Proof. destruct s, c; cbn; try discriminate; try tauto; reflexivity. Qed.

Theorem mm_sk s : forall f cs,
  (need s <= f)%nat -> (2 <= length cs)%nat ->
  Forall (fun c => has_sk s c = true) cs -> Forall tl_ok cs ->
  exists c, mm f cs = Ok c /\ has_sk s c = true /\
            to_list c = Ok (concat (map (fun x => map (deep_cast (leaf_dt c)) (vals x)) cs)) /\
            (sk_ok s = true -> valid_b c = true) /\
            leaf_dt c = fold_left promote (map leaf_dt cs) (leaf_dt (hd Empty cs)).
Proof.
  induction s as [|s' IH|s' IH]; intros f cs Hf Hlen Hsk Htl.
  - (* ---- numbers ---- *)
    destruct f as [|f']; [cbn in Hf; lia|].
    destruct (sk_numpy_list _ Hsk Htl) as (arrs & -> & Hok & Hvals).
    destruct arrs as [|a [|b others]]; cbn in Hlen; try lia.
    pose proof (mm_numpy_all (mm f') a (b :: others)) as HM.
    specialize (HM ltac:(discriminate) Hok). cbn zeta in HM.
    set (arrs := a :: b :: others) in HM, Hok, Hvals |- .
    destruct a as [[dta na] dataa].
    cbn [mm]. unfold mm_step. cbn [map np_of body]. cbn [map np_of np_dt np_n] in HM.
    rewrite HM.
    eexists. split; [reflexivity|]. split; [reflexivity|].
    assert (Hlen' : zlen (concat (map np_filled arrs)) = sumZ (map np_n arrs)) by (apply zlen_concat_filled; exact Hok).
    assert (Hnn : 0 <= sumZ (map np_n arrs)) by (apply sum_n_nonneg; exact Hok).
    split; [|split; [intros _; unfold valid_b; cbn [validb paramcheck forallb]; rewrite prodZ_one; lia|]].
    2:{ cbn [leaf_dt hd]. change (Numpy dta [na] dataa :: np_of b :: map np_of others) with (map np_of arrs).
        apply fold_dt_leaf. }
    cbn [leaf_dt].
    rewrite to_list_merged_numpy; auto.
    + f_equal. change (Numpy dta [na] dataa :: np_of b :: map np_of others) with (map np_of arrs).
      rewrite <- Hvals, !map_map. reflexivity.
    + apply Forall_forall. intros x Hx. apply fold_dt_ok_in. exact Hx.
  - (* ---- lists ---- *)
    destruct f as [|f']; [cbn in Hf; lia|]. cbn in Hf.
    destruct cs as [|a [|b others]]; cbn in Hlen; try lia.
    set (oth := b :: others) in *. set (cs := a :: oth) in *.
    assert (HV : Forall (fun x => list_parts x = Ok [lv_tuple x] /\ has_sk s' (lv_c x) = true /\ tl_ok (lv_c x) /\
                   length (lv_s x) = length (lv_e x) /\
                   mapM (cut1 (vals (lv_c x))) (zip (lv_s x) (lv_e x)) = Ok (lv_lists x) /\
                   vals x = map VList (lv_lists x) /\ stop_basic x = false /\ leaf_dt x = leaf_dt (lv_c x)) cs).
    { apply Forall_forall. intros x Hx. apply (list_view s').
      - eapply Forall_forall in Hsk; eauto.
      - eapply Forall_forall in Htl; eauto. }
    (* the merged content *)
    destruct (IH f' (map lv_c cs)) as (cm & Hcm & Hskm & Htlm & Hvm & Hdtm).
    { lia. } { rewrite map_length. cbn. lia. }
    { apply Forall_forall. intros c Hc. apply in_map_iff in Hc. destruct Hc as (x & <- & Hx).
      eapply Forall_forall in HV; eauto. tauto. }
    { apply Forall_forall. intros c Hc. apply in_map_iff in Hc. destruct Hc as (x & <- & Hx).
      eapply Forall_forall in HV; eauto. tauto. }
    rewrite map_map in Htlm.
    set (dc := deep_cast (leaf_dt cm)) in *.
    pose proof (fill_lists_sem dc cs) as HF.
    assert (HFpre : Forall (fun x => tl_ok (lv_c x) /\ length (lv_s x) = length (lv_e x) /\
                   mapM (cut1 (vals (lv_c x))) (zip (lv_s x) (lv_e x)) = Ok (lv_lists x)) cs).
    { eapply Forall_impl; [|exact HV]. cbn. tauto. }
    specialize (HF HFpre []). cbn [app] in HF. change (zlen (@nil value)) with 0 in HF.
    destruct (fill_lists 0 (map lv_tuple cs)) as [ss es] eqn:EF. cbn [fst snd] in HF. destruct HF as [HFl HFm].
    exists (ListA I64 ss es cm). split; [|split; [|split; [|split]]].
    5:{ cbn [leaf_dt]. rewrite Hdtm, map_map.
        assert (HE : map (fun x => leaf_dt (lv_c x)) cs = map leaf_dt cs).
        { apply map_ext_in. intros x Hx. eapply Forall_forall in HV; eauto. symmetry. tauto. }
        rewrite HE. f_equal. unfold cs. cbn [map hd].
        pose proof (Forall_inv (a:=a) (l:=oth) HV) as Ha'. cbn beta in Ha'. symmetry. tauto. }
    + cbn [mm]. unfold mm_step.
      assert (Hba : body a = a /\ params a = nopar).
      { inversion Hsk; subst. destruct (has_sk_nopar _ _ H1). auto. }
      destruct Hba as [Hba Hpa].
      change (a :: oth) with cs. unfold cs at 1. unfold oth at 1.
      rewrite Hba.
      assert (Hdisp : match a with
                      | ListOffset _ _ _ | ListA _ _ _ _ => True
                      | Regular _ size _ => (size =? 1) = false
                      | _ => False end).
      { inversion Hsk; subst. destruct a; cbn in H1; try discriminate; try exact I.
        apply andb_true_iff in H1. destruct H1 as [H1 _]. apply negb_true_iff in H1. exact H1. }
      assert (Hml : mm_list (mm f') a (b :: others) = Ok (ListA I64 ss es cm)).
      { unfold mm_list.
        rewrite split_head_none.
        2:{ inversion HV as [|? ? _ Hrest]; subst. eapply Forall_impl; [|exact Hrest]. cbn. tauto. }
        assert (Hself : self_list a = Ok a).
        { unfold self_list. rewrite Hba. destruct a; try contradiction; try reflexivity. rewrite Hdisp. reflexivity. }
        rewrite Hself. cbn [bind].
        change (a :: b :: others) with cs.
        rewrite (mapM_singletons list_parts lv_tuple cs) by (eapply Forall_impl; [|exact HV]; cbn; tauto).
        cbn [bind]. rewrite concat_singletons.
        rewrite Hpa. rewrite fold_lv_pars.
        rewrite map_map. cbn [lv_tuple].
        change (map (fun x : content => lv_c x) cs) with (map lv_c cs). rewrite Hcm. cbn [bind].
        rewrite EF. cbn [finish mkpar nopar]. reflexivity. }
      destruct a; try contradiction; exact Hml.
    + cbn [has_sk]. exact Hskm.
    + cbn [to_list leaf_dt]. rewrite Htlm. cbn [bind]. unfold cut2.
      replace (zlen es <? zlen ss) with false by (unfold zlen; lia).
      fold dc. rewrite HFm. cbn [rmap]. f_equal.
      rewrite map_VList_concat. f_equal. rewrite map_map.
      apply map_ext_in. intros x Hx. eapply Forall_forall in HV; eauto.
      destruct HV as (_ & _ & _ & _ & _ & -> & _).
      unfold dc. rewrite deep_cast_map_VList. reflexivity.
    + intros Hok. cbn [sk_ok] in Hok. unfold valid_b. cbn [validb paramcheck is_strk].
      fold (valid_b cm). rewrite (Hvm Hok).
      replace (zlen ss <=? zlen es) with true by (unfold zlen; lia).
      rewrite <- (to_list_len _ _ Htlm).
      rewrite (mapM_ok_forallb _ _ _ _ (cut1_ok_pair _) HFm). reflexivity.
  - (* ---- indexed / option nodes ---- *)
    destruct f as [|f']; [cbn in Hf; lia|]. cbn in Hf.
    destruct cs as [|a [|b others]]; cbn in Hlen; try lia.
    set (oth := b :: others) in *. set (cs := a :: oth) in *.
    assert (HV : Forall (fun x => ix_part x = Ok [iv_tuple x] /\ has_sk s' (iv_c x) = true /\ tl_ok (iv_c x) /\
                   sem_ix (iv_opt x) (vals (iv_c x)) (iv_ix x) = Ok (vals x) /\ is_union x = false /\
                   leaf_dt x = leaf_dt (iv_c x) /\ params x = nopar) cs).
    { apply Forall_forall. intros x Hx. apply (ix_view s').
      - eapply Forall_forall in Hsk; eauto.
      - eapply Forall_forall in Htl; eauto. }
    destruct (IH f' (map iv_c cs)) as (cm & Hcm & Hskm & Htlm & Hvm & Hdtm).
    { lia. } { rewrite map_length. cbn. lia. }
    { apply Forall_forall. intros c Hc. apply in_map_iff in Hc. destruct Hc as (x & <- & Hx).
      eapply Forall_forall in HV; eauto. tauto. }
    { apply Forall_forall. intros c Hc. apply in_map_iff in Hc. destruct Hc as (x & <- & Hx).
      eapply Forall_forall in HV; eauto. tauto. }
    rewrite map_map in Htlm.
    set (dc := deep_cast (leaf_dt cm)) in *.
    set (anyopt := existsb (fun x : bool * (Z -> list Z) * content => let '(o, _, _) := x in o) (map iv_tuple cs)).
    assert (Hany : forall x, In x cs -> iv_opt x = true -> anyopt = true).
    { intros x Hx Ho. unfold anyopt. apply existsb_exists. exists (iv_tuple x). split.
      - apply in_map. exact Hx.
      - exact Ho. }
    pose proof (fill_index_sem dc anyopt cs (deep_cast_VNone _)) as HF.
    assert (HFpre : Forall (fun x => tl_ok (iv_c x) /\ (iv_opt x = true -> anyopt = true) /\
                   sem_ix (iv_opt x) (vals (iv_c x)) (iv_ix x) = Ok (vals x)) cs).
    { apply Forall_forall. intros x Hx. pose proof Hx as Hx'. eapply Forall_forall in Hx'; [|exact HV].
      cbn in Hx'. repeat split; try tauto. apply Hany. exact Hx. }
    specialize (HF HFpre []). cbn [app] in HF. change (zlen (@nil value)) with 0 in HF.
    set (index := fill_index 0 (map iv_tuple cs)) in *.
    exists (if anyopt then IndexedOption I64 index cm else Indexed I64 index cm). split; [|split; [|split; [|split]]].
    5:{ assert (HE : map (fun x => leaf_dt (iv_c x)) cs = map leaf_dt cs).
        { apply map_ext_in. intros x Hx. eapply Forall_forall in HV; eauto. symmetry. tauto. }
        assert (Hl : leaf_dt (if anyopt then IndexedOption I64 index cm else Indexed I64 index cm) = leaf_dt cm) by (destruct anyopt; reflexivity).
        rewrite Hl, Hdtm, map_map, HE. f_equal. unfold cs. cbn [map hd].
        pose proof (Forall_inv (a:=a) (l:=oth) HV) as Ha'. cbn beta in Ha'. symmetry. tauto. }
    + cbn [mm]. unfold mm_step.
      assert (Hba : body a = a /\ params a = nopar).
      { inversion Hsk; subst. destruct (has_sk_nopar _ _ H1). auto. }
      destruct Hba as [Hba Hpa].
      change (a :: oth) with cs. unfold cs at 1. unfold oth at 1.
      rewrite Hba.
      assert (Hdisp : match a with
                      | Indexed _ _ _ | IndexedOption _ _ _ | ByteMasked _ _ _ | BitMasked _ _ _ _ _ | Unmasked _ => True
                      | _ => False end).
      { inversion Hsk; subst. destruct a; cbn in H1; try discriminate; exact I. }
      assert (Hmi : mm_indexed (mm f') a (b :: others)
                    = Ok (if anyopt then IndexedOption I64 index cm else Indexed I64 index cm)).
      { unfold mm_indexed.
        rewrite split_head_none.
        2:{ inversion HV as [|? ? _ Hrest]; subst. eapply Forall_impl; [|exact Hrest]. cbn. tauto. }
        change (a :: b :: others) with cs.
        rewrite (mapM_singletons ix_part iv_tuple cs) by (eapply Forall_impl; [|exact HV]; cbn; tauto).
        cbn [bind]. rewrite concat_singletons.
        rewrite Hpa. rewrite fold_params_nopar by (eapply Forall_impl; [|exact HV]; cbn; tauto).
        rewrite map_map. cbn [iv_tuple].
        change (map (fun x : content => iv_c x) cs) with (map iv_c cs). rewrite Hcm. cbn [bind].
        fold anyopt. fold index. cbn [finish mkpar nopar]. destruct anyopt; reflexivity. }
      destruct a; try contradiction; exact Hmi.
    + destruct anyopt; cbn [has_sk]; exact Hskm.
    + unfold sem_ix in HF.
      destruct anyopt; cbn [to_list leaf_dt]; rewrite Htlm; cbn [bind]; fold dc; exact HF.
    + intros Hok. cbn [sk_ok] in Hok.
      assert (Hs' : match s' with SIx _ => False | _ => True end) by (destruct s'; try exact I; discriminate).
      assert (Hok' : sk_ok s' = true) by (destruct s'; try exact Hok; discriminate).
      pose proof (has_sk_not_optionlike _ _ Hskm Hs') as Hno.
      unfold sem_ix in HF. pose proof (to_list_len _ _ Htlm) as HL. fold dc in HL.
      unfold valid_b. destruct anyopt; cbn [validb paramcheck]; fold (valid_b cm); rewrite (Hvm Hok'), Hno; cbn [negb andb];
        rewrite !andb_true_r; rewrite <- HL.
      * eapply mapM_ok_forallb; [|exact HF]. cbn. intros i y Hy. unfold pick_opt in Hy.
        match goal with |- (_ <? zlen ?l) = true => pose proof (zlen_nonneg l) end.
        destruct (0 <=? i) eqn:E; [|lia]. apply get_ok in Hy. lia.
      * eapply mapM_ok_forallb; [|exact HF]. cbn. intros i y Hy. apply get_ok in Hy. lia.
Qed.

(* ---------------------------------------------------------------- valid operands have values *)
Lemma mapM_total {A B} (f : A -> res B) l : (forall x, In x l -> exists y, f x = Ok y) -> exists ys, mapM f l = Ok ys.
Proof.
  induction l as [|x xs IH]; intros H; cbn; [eauto|].
  destruct (H x (or_introl eq_refl)) as [y ->]. destruct IH as [ys ->]; [intros; apply H; now right|].
  cbn. eauto.
Qed.
Lemma pair_okb_cut1 {A} (V : list A) p : pair_okb (zlen V) p = true -> exists l, cut1 V p = Ok l.
Proof.
  destruct p as [a b]. unfold pair_okb, cut1. destruct (a =? b) eqn:E; [eauto|].
  intros H. rewrite slice_in by lia. eauto.
Qed.

Lemma valid_tl_ok_sk s : forall c, has_sk s c = true -> valid_b c = true -> tl_ok c.
Proof.
  unfold valid_b. induction s as [|s' IH|s' IH]; intros c Hs Hv.
  - destruct (has_sk_SNum _ Hs) as (dt & n & data & ->). cbn [validb paramcheck forallb] in Hv.
    rewrite prodZ_one in Hv. eexists. apply to_list_np1_ok. lia.
  - destruct c; cbn in Hs; try discriminate; cbn [validb paramcheck is_strk] in Hv.
    + apply andb_true_iff in Hv. destruct Hv as [Hv Hc]. destruct (IH _ Hs Hc) as [vc Hvc].
      apply andb_true_iff in Hv. destruct Hv as [Ho Hp]. cbn in Ho.
      rewrite <- (to_list_len _ _ Hvc) in Hp.
      destruct (mapM_total (cut1 vc) (pairs offsets)) as [r Hr].
      { intros p Hin. apply pair_okb_cut1. eapply forallb_forall in Hp; eauto. }
      exists (map VList r). cbn [to_list]. rewrite Hvc. cbn. unfold cut.
      destruct offsets; [cbn in Ho; lia|]. rewrite Hr. reflexivity.
    + apply andb_true_iff in Hv. destruct Hv as [Hv Hc]. destruct (IH _ Hs Hc) as [vc Hvc].
      apply andb_true_iff in Hv. destruct Hv as [Ho Hp]. cbn in Ho.
      rewrite <- (to_list_len _ _ Hvc) in Hp.
      destruct (mapM_total (cut1 vc) (zip starts stops)) as [r Hr].
      { intros p Hin. apply pair_okb_cut1. eapply forallb_forall in Hp; eauto. }
      exists (map VList r). cbn [to_list]. rewrite Hvc. cbn. unfold cut2.
      replace (zlen stops <? zlen starts) with false by lia. rewrite Hr. reflexivity.
    + apply andb_true_iff in Hs. destruct Hs as [_ Hs].
      apply andb_true_iff in Hv. destruct Hv as [Hv Hc]. destruct (IH _ Hs Hc) as [vc Hvc].
      apply andb_true_iff in Hv. destruct Hv as [Hv Hz]. apply andb_true_iff in Hv. destruct Hv as [_ Hsz].
      unfold tl_ok. cbn [to_list]. rewrite Hvc. cbn [bind]. unfold chunks.
      replace (size <? 0) with false by lia.
      destruct (size =? 0); [replace (zeros_length <? 0) with false by lia|]; eexists; reflexivity.
  - destruct c; cbn in Hs; try discriminate; cbn [validb paramcheck] in Hv.
    + (* Indexed *)
      apply andb_true_iff in Hv. destruct Hv as [Hv Hc]. destruct (IH _ Hs Hc) as [vc Hvc].
      apply andb_true_iff in Hv. destruct Hv as [Hi _]. cbn in Hi.
      rewrite <- (to_list_len _ _ Hvc) in Hi.
      destruct (mapM_total (get vc) index) as [r Hr].
      { intros i Hin. eapply forallb_forall in Hi; eauto. apply get_in_range. lia. }
      exists r. cbn [to_list]. rewrite Hvc. exact Hr.
    + (* IndexedOption *)
      apply andb_true_iff in Hv. destruct Hv as [Hv Hc]. destruct (IH _ Hs Hc) as [vc Hvc].
      apply andb_true_iff in Hv. destruct Hv as [Hi _]. cbn in Hi.
      rewrite <- (to_list_len _ _ Hvc) in Hi.
      destruct (mapM_total (fun i => pick_opt vc (0 <=? i) i) index) as [r Hr].
      { intros i Hin. eapply forallb_forall in Hi; eauto. unfold pick_opt.
        destruct (0 <=? i) eqn:E; [apply get_in_range; lia|eauto]. }
      exists r. cbn [to_list]. rewrite Hvc. exact Hr.
    + (* ByteMasked *)
      apply andb_true_iff in Hv. destruct Hv as [Hv Hc]. destruct (IH _ Hs Hc) as [vc Hvc].
      apply andb_true_iff in Hv. destruct Hv as [Hi _]. cbn in Hi.
      rewrite <- (to_list_len _ _ Hvc) in Hi.
      destruct (mapM_total (fun im : Z * Z => let (i, b) := im in pick_opt vc (Bool.eqb (negb (b =? 0)) valid_when) i)
                           (zip (iota (zlen mask)) mask)) as [r Hr].
      { intros [i b] Hin. apply in_zip_l in Hin. apply iota_In in Hin. unfold pick_opt.
        destruct (Bool.eqb (negb (b =? 0)) valid_when); [apply get_in_range; lia|eauto]. }
      exists r. cbn [to_list]. rewrite Hvc. exact Hr.
    + (* BitMasked *)
      apply andb_true_iff in Hv. destruct Hv as [Hv Hc]. destruct (IH _ Hs Hc) as [vc Hvc].
      apply andb_true_iff in Hv. destruct Hv as [Hv _].
      apply andb_true_iff in Hv. destruct Hv as [Hv Hn3].
      apply andb_true_iff in Hv. destruct Hv as [Hn1 Hn2]. cbn in Hn1.
      rewrite <- (to_list_len _ _ Hvc) in Hn3.
      destruct (mapM_total (fun i => do b <- bit_at mask lsb i; pick_opt vc (Bool.eqb b valid_when) i) (iota len)) as [r Hr].
      { intros i Hin. apply iota_In in Hin. unfold bit_at.
        destruct (get_in_range mask (i / 8)) as [byte ->].
        { split; [apply Z.div_pos; lia|]. apply Z.div_lt_upper_bound; lia. }
        cbn. unfold pick_opt. destruct (Bool.eqb _ valid_when); [apply get_in_range; lia|eauto]. }
      exists r. cbn [to_list]. rewrite Hvc. cbn. replace (len <? 0) with false by lia. exact Hr.
    + (* Unmasked *)
      apply andb_true_iff in Hv. destruct Hv as [_ Hc]. destruct (IH _ Hs Hc) as [vc Hvc].
      exists vc. exact Hvc.
Qed.

Lemma valid_sk_ok s : forall c, has_sk s c = true -> valid_b c = true -> sk_ok s = true.
Proof.
  unfold valid_b. induction s as [|s' IH|s' IH]; intros c Hs Hv; [reflexivity| |].
  - destruct c; cbn in Hs; try discriminate; cbn [validb paramcheck is_strk] in Hv;
      apply andb_true_iff in Hv; destruct Hv as [_ Hc]; try (apply andb_true_iff in Hs; destruct Hs as [_ Hs]);
      cbn; eapply IH; eauto.
  - assert (exists c', has_sk s' c' = true /\ optionlike c' = false /\ validb None c' = true) as (c' & Hs' & Ho & Hc).
    { destruct c; cbn in Hs; try discriminate; cbn [validb paramcheck] in Hv;
        apply andb_true_iff in Hv; destruct Hv as [Hv Hc]; apply andb_true_iff in Hv; destruct Hv as [_ Ho];
        apply negb_true_iff in Ho; eauto. }
    cbn. destruct s' as [| |s''].
    + reflexivity.
    + eapply IH; eauto.
    + exfalso. destruct c'; cbn in Hs'; try discriminate; cbn in Ho; discriminate.
Qed.

Lemma need_le_csize s : forall c, has_sk s c = true -> (need s <= csize c)%nat.
Proof.
  induction s as [|s' IH|s' IH]; intros c H; destruct c; cbn in H; try discriminate; cbn; try lia;
    try (apply andb_true_iff in H; destruct H as [_ H]); specialize (IH _ H); lia.
Qed.

(* ---------------------------------------------------------------- (b) + (e): statements for Props *)
Theorem mergemany_app_partial_pf : forall s cs,
  (2 <= length cs)%nat ->
  Forall (fun c => has_sk s c = true) cs -> Forall (fun c => valid_b c = true) cs ->
  exists c, mergemany cs = Ok c /\
            Forall (fun x => to_list x = Ok (vals x)) cs /\
            to_list c = Ok (concat (map (fun x => map (deep_cast (leaf_dt c)) (vals x)) cs)).
Proof.
  intros s cs Hlen Hsk Hv.
  assert (Htl : Forall tl_ok cs).
  { apply Forall_forall. intros x Hx. eapply valid_tl_ok_sk.
    - eapply Forall_forall in Hsk; eauto.
    - eapply Forall_forall in Hv; eauto. }
  destruct cs as [|a rest]; [cbn in Hlen; lia|].
  destruct (mm_sk s (mm_fuel (a :: rest)) (a :: rest)) as (c & Hc & _ & Ht & _); auto.
  { inversion Hsk; subst. pose proof (need_le_csize _ _ H1). unfold mm_fuel. cbn [fold_right length]. lia. }
  exists c. split; [exact Hc|]. split; [|exact Ht].
  eapply Forall_impl; [|exact Htl]. intros x. apply tl_ok_vals.
Qed.

Theorem mergemany_valid_partial_pf : forall s cs c,
  (2 <= length cs)%nat ->
  Forall (fun c => has_sk s c = true) cs -> Forall (fun c => valid_b c = true) cs ->
  mergemany cs = Ok c -> valid_b c = true /\ has_sk s c = true.
Proof.
  intros s cs c Hlen Hsk Hv Hm.
  assert (Htl : Forall tl_ok cs).
  { apply Forall_forall. intros x Hx. eapply valid_tl_ok_sk.
    - eapply Forall_forall in Hsk; eauto.
    - eapply Forall_forall in Hv; eauto. }
  destruct cs as [|a rest]; [cbn in Hlen; lia|].
  destruct (mm_sk s (mm_fuel (a :: rest)) (a :: rest)) as (c' & Hc & Hs' & _ & Hval & _); auto.
  { inversion Hsk; subst. pose proof (need_le_csize _ _ H1). unfold mm_fuel. cbn [fold_right length]. lia. }
  unfold mergemany in Hm. rewrite Hc in Hm. inversion Hm; subst. split; [|exact Hs'].
  apply Hval. inversion Hsk; inversion Hv; subst. eapply valid_sk_ok; eauto.
Qed.

(* non-vacuity: [[1,2],None,[3]] (option over ListOffset32, bool leaves) ++ [None,[4]] (bit-masked ListArray, int8 leaves) *)
Example mergemany_partial_example :
  let a := IndexedOption I32 [0; -1; 1] (ListOffset I32 [0; 2; 3] (Numpy DBool [3] [DZ 1; DZ 0; DZ 1])) in
  let b := BitMasked [2] true true 2 (ListA U32 [5; 0] [5; 1] (Numpy DInt8 [1] [DZ 4])) in
  has_sk (SIx (SList SNum)) a = true /\ has_sk (SIx (SList SNum)) b = true /\
  valid_b a = true /\ valid_b b = true /\
  rmap to_list (mergemany [a; b])
  = Ok (Ok [VList [VNum (DZ 1); VNum (DZ 0)]; VNone; VList [VNum (DZ 1)]; VNone; VList [VNum (DZ 4)]]).
Proof. vm_compute. repeat split. Qed.

(* non-vacuity with a RegularArray operand: [[1,2],[3,4]] (regular, size 2, uint8) ++ [[5]] (ListOffset, float64) *)
Example mergemany_partial_example_regular :
  let a := Regular (Numpy DUInt8 [5] [DZ 1; DZ 2; DZ 3; DZ 4; DZ 9]) 2 0 in
  let b := ListOffset I64 [1; 2] (Numpy DFloat64 [2] [DZ 0; DZ 5]) in
  has_sk (SList SNum) a = true /\ has_sk (SList SNum) b = true /\ valid_b a = true /\ valid_b b = true /\
  rmap to_list (mergemany [a; b])
  = Ok (Ok [VList [VNum (DZ 1); VNum (DZ 2)]; VList [VNum (DZ 3); VNum (DZ 4)]; VList [VNum (DZ 5)]]) /\
  rmap leaf_dt (mergemany [a; b]) = Ok DFloat64.
Proof. vm_compute. repeat split. Qed.
