(** Element typing: when a nested-list value has a (core) type; the depth of the leaves of a value;
    the minmax depth of a type computed with the C++ loop.  MODEL ONLY: no proofs in this file. *)
From Coq Require Import ZArith List Bool.
From AwkV Require Import Base Layout Valid Types.
(* copied from c17 *)
Import ListNotations.
Open Scope Z_scope.

Definition name_eqb (a b : name) : bool := list_eqb Z.eqb a b.
Definition dtype_eqb (a b : dtype) : bool :=
  match a, b with
  | DBool, DBool | DInt8, DInt8 | DInt16, DInt16 | DInt32, DInt32 | DInt64, DInt64
  | DUInt8, DUInt8 | DUInt16, DUInt16 | DUInt32, DUInt32 | DUInt64, DUInt64
  | DFloat32, DFloat32 | DFloat64, DFloat64 => true
  | _, _ => false
  end.

(* [has_typeb t v]: v is a legal element of an array whose item type is t.
   numbers/booleans at the leaves according to the dtype; lists (of the regular size, if regular);
   None only under an option; records with the keys in order, tuples positionally; strings as a unit;
   a union value belongs to some alternative; nothing has the unknown type. *)
Fixpoint has_typeb (t : ty) (v : value) {struct t} : bool :=
  match t with
  | TNum dt =>
      match v with
      | VBool _ => dtype_eqb dt DBool
      | VNum _ => negb (dtype_eqb dt DBool)
      | _ => false
      end
  | TUnk => false
  | TList sz (Some isstr) _ =>
      match v with
      | VStr i s => Bool.eqb i isstr && match sz with Some n => zlen s =? n | None => true end
      | _ => false
      end
  | TList sz None t' =>
      match v with
      | VList l => forallb (has_typeb t') l && match sz with Some n => zlen l =? n | None => true end
      | _ => false
      end
  | TOpt t' => match v with VNone => true | _ => has_typeb t' v end
  | TRec (Some ks) ts =>
      match v with
      | VRec fs =>
          list_eqb name_eqb (map fst fs) ks &&
          (fix go (ts : list ty) (vs : list value) {struct ts} : bool :=
             match ts, vs with
             | [], [] => true
             | t0 :: ts', v0 :: vs' => has_typeb t0 v0 && go ts' vs'
             | _, _ => false
             end) ts (map snd fs)
      | _ => false
      end
  | TRec None ts =>
      match v with
      | VTup vs =>
          (fix go (ts : list ty) (vs : list value) {struct ts} : bool :=
             match ts, vs with
             | [], [] => true
             | t0 :: ts', v0 :: vs' => has_typeb t0 v0 && go ts' vs'
             | _, _ => false
             end) ts vs
      | _ => false
      end
  | TUnion ts =>
      (fix ex (ts : list ty) : bool :=
         match ts with
         | [] => false
         | t0 :: ts' => has_typeb t0 v || ex ts'
         end) ts
  end.

Definition has_type (t : ty) (v : value) : Prop := has_typeb t v = true.

