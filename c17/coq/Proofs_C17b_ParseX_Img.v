(** C17b: everything the reference JSON parser and [params_parse] return (on a byte string) lies in their round-trip
    fragments [json_ok] / [params_ok]: the fragments are exact for these two layers. *)
From Coq Require Import ZArith List Bool Lia ZifyBool.
From AwkV Require Import Base Layout.
From AwkTypes Require Import Json Forms TypeStr Proofs_Json Proofs_Parse Proofs_C17b_Exact
  Proofs_C17b_ParseX_Json Proofs_C17b_ParseX_Defs.
Import ListNotations.
Open Scope Z_scope.

Definition jimg (sub : bytes -> res (json * bytes)) : Prop :=
  forall s j r, sub s = Ok (j, r) -> key_ok s = true -> json_ok j = true /\ key_ok r = true.

Lemma key_ok_tail c s : key_ok (c :: s) = true -> key_ok s = true.
Proof. rewrite key_ok_cons. intros H. apply andb_true_iff in H. tauto. Qed.

Section JImage.
  Variable sub : bytes -> res (json * bytes).
  Hypothesis Hsub : jimg sub.

  Lemma jp_elems_img : forall fuel s l r, jp_elems sub fuel s = Ok (l, r) -> key_ok s = true ->
    forallb json_ok l = true /\ key_ok r = true.
  Proof.
    induction fuel as [|fuel IH]; intros s l r H Hk; [discriminate|]. cbn [jp_elems] in H.
    destruct (sub s) as [[v r1]|e] eqn:E; [|discriminate]. cbn [bind fst snd] in H.
    destruct (Hsub _ _ _ E Hk) as [Hv Hr1]. destruct r1 as [|c r']; [discriminate|].
    pose proof (key_ok_tail _ _ Hr1) as Hr'.
    destruct (c =? 93).
    - inversion H; subst. simpl. rewrite Hv. split; [reflexivity|exact Hr'].
    - destruct (c =? 44); [|discriminate].
      destruct (jp_elems sub fuel r') as [[l' r2]|e] eqn:El; [|discriminate]. cbn [bind fst snd] in H. inversion H; subst.
      destruct (IH _ _ _ El Hr') as [Hl' Hr2]. simpl. rewrite Hv, Hl'. split; [reflexivity|exact Hr2].
  Qed.

  Lemma jp_members_img : forall fuel s m r, jp_members sub fuel s = Ok (m, r) -> key_ok s = true ->
    forallb (fun kv => key_ok (fst kv) && json_ok (snd kv)) m = true /\ key_ok r = true.
  Proof.
    induction fuel as [|fuel IH]; intros s m r H Hk; [discriminate|]. cbn [jp_members] in H.
    destruct (unquote s) as [[k r0]|e] eqn:Eq; [|discriminate]. cbn [bind fst snd] in H.
    destruct (unquote_key_ok _ _ _ Eq Hk) as [Hkey Hr0]. destruct r0 as [|c0 s1]; [discriminate|].
    pose proof (key_ok_tail _ _ Hr0) as Hs1. destruct (c0 =? 58); [|discriminate].
    destruct (sub s1) as [[v r1]|e] eqn:E; [|discriminate]. cbn [bind fst snd] in H.
    destruct (Hsub _ _ _ E Hs1) as [Hv Hr1]. destruct r1 as [|c r']; [discriminate|].
    pose proof (key_ok_tail _ _ Hr1) as Hr'.
    destruct (c =? 125).
    - inversion H; subst. simpl. rewrite Hkey, Hv. split; [reflexivity|exact Hr'].
    - destruct (c =? 44); [|discriminate].
      destruct (jp_members sub fuel r') as [[m' r2]|e] eqn:El; [|discriminate]. cbn [bind fst snd] in H. inversion H; subst.
      destruct (IH _ _ _ El Hr') as [Hm' Hr2]. simpl. rewrite Hkey, Hv, Hm'. split; [reflexivity|exact Hr2].
  Qed.
End JImage.

Theorem json_parse_img : forall fuel, jimg (json_parse fuel).
Proof.
  induction fuel as [|fuel IH]; intros s j r H Hk; [discriminate|]. cbn [json_parse] in H. unfold jp_value in H.
  destruct s as [|c s']; [discriminate|]. pose proof (key_ok_tail _ _ Hk) as Hk'.
  assert (Hlit : forall w v, jp_lit w v s' = Ok (j, r) -> json_ok v = true -> json_ok j = true /\ key_ok r = true).
  { intros w v Hl Hv. unfold jp_lit in Hl. destruct (strip_prefix w s') as [r'|] eqn:Es; [|discriminate].
    inversion Hl; subst. split; [exact Hv|exact (strip_prefix_key_ok _ _ _ Es Hk')]. }
  destruct (c =? 110); [exact (Hlit _ _ H eq_refl)|].
  destruct (c =? 116); [exact (Hlit _ _ H eq_refl)|].
  destruct (c =? 102); [exact (Hlit _ _ H eq_refl)|].
  destruct (c =? 34).
  { unfold jp_str in H. destruct (unquote (c :: s')) as [[k r0]|e] eqn:Eq; [|discriminate]. cbn [bind fst snd] in H.
    inversion H; subst. exact (unquote_key_ok _ _ _ Eq Hk). }
  destruct (c =? 91).
  { unfold jp_arr in H. destruct s' as [|c2 r2]; [discriminate|]. destruct (c2 =? 93).
    - inversion H; subst. split; [reflexivity|exact (key_ok_tail _ _ Hk')].
    - destruct (jp_elems (json_parse fuel) fuel (c2 :: r2)) as [[l r1]|e] eqn:E; [|discriminate]. cbn [bind fst snd] in H.
      inversion H; subst. exact (jp_elems_img _ IH _ _ _ _ E Hk'). }
  destruct (c =? 123).
  { unfold jp_obj in H. destruct s' as [|c2 r2]; [discriminate|]. destruct (c2 =? 125).
    - inversion H; subst. split; [reflexivity|exact (key_ok_tail _ _ Hk')].
    - destruct (jp_members (json_parse fuel) fuel (c2 :: r2)) as [[m r1]|e] eqn:E; [|discriminate]. cbn [bind fst snd] in H.
      inversion H; subst. rewrite json_ok_obj. exact (jp_members_img _ IH _ _ _ _ E Hk'). }
  destruct ((c =? 45) || is_digit c) eqn:Ehead; [|discriminate].
  unfold jp_num in H. destruct (span numchar (c :: s')) as [tok rest] eqn:Es.
  pose proof (proj2 (span_key_ok _ _ _ _ Es Hk)) as Hrest. destruct (span_spec _ _ _ _ Es) as [Hcat Hnum].
  destruct (existsb isfrac tok) eqn:Ef.
  - inversion H; subst. split; [|exact Hrest]. cbn [json_ok]. unfold dbl_text_ok. rewrite Hnum, Ef.
    assert (Hnc : numchar c = true) by (unfold numchar, isfrac, is_digit in *; lia).
    cbn [span] in Es. rewrite Hnc in Es. destruct (span numchar s') as [a b]. inversion Es; subst. rewrite Ehead. reflexivity.
  - destruct tok as [|c0 ds]; [discriminate|]. destruct (c0 =? 45).
    + destruct ds; [discriminate|]. destruct (forallb is_digit (z :: ds)); [|discriminate]. inversion H; subst.
      split; [reflexivity|exact Hrest].
    + destruct (forallb is_digit (c0 :: ds)); [|discriminate]. inversion H; subst. split; [reflexivity|exact Hrest].
Qed.

(* the JSON fragment is exact: a value is in [json_ok] iff its text is a byte string that parses back to it
   (given that the text of a json_ok value is a byte string, see json_print_key_ok) *)
Theorem json_parse_top_img s j : key_ok s = true -> json_parse_top s = Ok j -> json_ok j = true.
Proof.
  unfold json_parse_top, json_value. intros Hk H.
  destruct (json_parse (S (length s)) s) as [[j' r]|e] eqn:E; [|discriminate]. cbn [bind fst snd] in H.
  destruct r; [|discriminate]. inversion H; subst. exact (proj1 (json_parse_img _ _ _ _ E Hk)).
Qed.

Lemma pp_members_img : forall fuel s q r, pp_members fuel s = Ok (q, r) -> key_ok s = true ->
  forallb pval_ok q = true /\ key_ok r = true /\ q <> [].
Proof.
  induction fuel as [|fuel IH]; intros s q r H Hk; [discriminate|]. cbn [pp_members] in H.
  destruct (unquote s) as [[k r0]|e] eqn:Eq; [|discriminate]. cbn [bind fst snd] in H.
  destruct (unquote_key_ok _ _ _ Eq Hk) as [Hkey Hr0].
  destruct (strip_prefix p_colon r0) as [s1|] eqn:Ec; [|discriminate].
  pose proof (strip_prefix_key_ok _ _ _ Ec Hr0) as Hs1.
  destruct (json_value s1) as [[v r1]|e] eqn:E; [|discriminate]. cbn [bind fst snd] in H.
  destruct (json_parse_img _ _ _ _ E Hs1) as [Hv Hr1]. destruct r1 as [|c r']; [discriminate|].
  destruct (c =? 125).
  - inversion H; subst. unfold pval_ok. simpl. rewrite Hkey, Hv. repeat split; [exact (key_ok_tail _ _ Hr1)|discriminate].
  - destruct (strip_prefix p_comma (c :: r')) as [rest|] eqn:Es; [|discriminate].
    pose proof (strip_prefix_key_ok _ _ _ Es Hr1) as Hrest.
    destruct (pp_members fuel rest) as [[q' r2]|e] eqn:El; [|discriminate]. cbn [bind fst snd] in H. inversion H; subst.
    destruct (IH _ _ _ El Hrest) as (Hq' & Hr2 & _). cbn [forallb]. unfold pval_ok at 1. cbn [fst snd]. rewrite Hkey, Hv, Hq'.
    repeat split; [exact Hr2|discriminate].
Qed.

Theorem params_parse_img s q r : params_parse s = Ok (q, r) -> key_ok s = true -> params_ok q = true /\ key_ok r = true.
Proof.
  unfold params_parse. intros H Hk. destruct (strip_prefix p_parameters_eq s) as [s1|] eqn:Es; [|discriminate].
  pose proof (strip_prefix_key_ok _ _ _ Es Hk) as Hs1.
  destruct (pp_members (length s1) s1) as [[q' r']|e] eqn:E; [|discriminate]. cbn [bind fst] in H.
  destruct (params_wf q') eqn:Ew; [|discriminate]. inversion H; subst.
  destruct (pp_members_img _ _ _ _ E Hs1) as (Hv & Hr & Hne). split; [|exact Hr].
  unfold params_wf in Ew. apply andb_true_iff in Ew as [Hs Hc]. unfold params_ok. rewrite Hs, Hc, Hv.
  destruct q; [congruence|reflexivity].
Qed.
