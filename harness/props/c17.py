"""C17: types and forms describe the data truthfully and survive serialisation.

implementation : /repo's libawkward through impl/drv/typedrv (Content::type/form, Form::type/tojson/fromjson/equal,
                 depth / field queries on layouts and forms, getitem_range / getitem_at element types)
model          : c17/coq (Forms.v, TypeStr.v, Typing.v) extracted -> .build/c17/typerun
third voter    : /repo/src/awkward/_typeparser (Lark stand-alone parser, pure Python) with stand-ins for the
                 awkward.types classes of the unbuildable pybind11 extension (c17/tools/larkvote.py)
parser model   : c17/coq/Lark.v (lark_parse: Gallina model of from_datashape = grammar + toast, the subject of the
                 lark_* theorems) is run (typerun op larkparse) on every string the repository's parser is run on and on
                 a stream of strings built from the grammar; the two object trees are compared (corr:lark-model)
"""
import fcntl
import json
import os
import re
import subprocess
import time

import common as C
import gen as G

THEOREMS = ['type_of_form_of',
            'depth_queries_agree',
            'minmax_is_value_depth',
            'form_json_roundtrip',
            'type_print_parse_roundtrip',
            'to_list_typed',
            'getitem_range_preserves_type',
            'type_parse_printable',
            'printable_key_ok',
            'printable_iff_roundtrip',
            'type_roundtrip_exact',
            'not_printable_no_roundtrip',
            'type_parse_print_parse',
            'type_tostring_injective',
            'array_type_printable',
            'array_type_roundtrip',
            'json_print_parse_x',
            'json_roundtrip_x',
            'string_parameters_parse_x',
            'type_print_parse_roundtrip_x_thm',
            'printable_x_extends_thm',
            'type_tostring_injective_x_thm',
            'array_type_roundtrip_x_thm',
            'type_parse_x_agrees_thm',
            'json_parse_top_img_thm',
            'params_parse_img_thm',
            'printable_x_iff_thm',
            'type_parse_x_img_thm',
            'printable_x_exact_thm',
            'printable_x_key_ok_thm',
            'printable_x_characterised_thm',
            'form_json_ok',
            'form_text_roundtrip',
            'form_text_injective',
            'array_form_wf',
            'array_form_json_roundtrip',
            'array_form_text_roundtrip',
            'array_form_text_injective',
            'form_roundtrip_characterised',
            'form_json_injective',
            'form_json_verbose_compact',
            'form_roundtrip_iff_wf',
            'form_roundtrip_idempotent',
            'form_type_commutes_with_fromjson',
            'form_loose_roundtrip',
            'form_wf_loose_contains_wf',
            'form_canon_is_wf',
            'form_noncanonical_format_counterexample',
            'form_fromjson_image',
            'form_fromjson_wf_iff',
            'form_fromjson_reprint_iff',
            'fromjson_node_ext',
            'fromjson_member_order',
            'fromjson_extra_member',
            'fromjson_duplicate_member',
            'str2form_prefix',
            'str2form_empty_string_is_i8',
            'get_iform_preset_agrees',
            'has_identifier_wins',
            'fromjson_meta_defaults',
            'getitem_at_type',
            'elements_match_items',
            'item_types_total',
            'no_items_no_elements',
            'empty_array_items',
            'unknown_type_no_elements',
            'list_of_unknown_all_empty',
            'option_of_unknown_all_none',
            'carry_preserves_rtype',
            'getitem_range_preserves_rtype',
            'getitem_range_preserves_typestring',
            'carry_preserves_item_types',
            'carry_preserves_form',
            'type_of_form_ignores_norm',
            'item_types_ignores_norm',
            'crange_numpy_shape',
            'carry_numpy_shape',
            'crange_numpy_total',
            'crange_regular_size',
            'carry_len',
            'crange_len',
            'range_slice',
            'getitem_field_type',
            'getitem_fields_type',
            'getitem_field_typed_values',
            'getitem_field_iff',
            'getitem_at_model_is_carry',
            'getitem_at_model_type',
            'getitem_at_model_elem',
            'getitem_at_model_oob',
            'getitem_field_elements_typed',
            'field_projection_typed',
            'list_element_is_array',
            'numpy_element_is_array',
            'range_then_at',
            'none_only_if_type_allows',
            'unmasked_none_never_hit',
            'option_element',
            'indexed_element',
            'union_element',
            'record_element',
            'getitem_range_model_is_carry',
            'getitem_range_model_type',
            'getitem_range_model_total',
            'getitem_field_rtype',
            'string_element',
            'getitem_field_model_type',
            'getitem_fields_model_type',
            'carry_preserves_form_exact',
            'second_slice_form_exact',
            'getitem_fields_rtype',
            'items_cover_type',
            'items_sound',
            'items_sandwich',
            'relax_only_forgets',
            'valid_leaf_type_has_no_array_param',
            'purelist_depth_form_eq_type',
            'minmax_depth_form_eq_type',
            'branch_depth_form_eq_type',
            'purelist_isregular_form_eq_type',
            'field_queries_type_then_form',
            'field_queries_form_eq_type_exact',
            'field_lookup_content_eq_form',
            'queries_content_eq_form_eq_type',
            'record_key_of_fieldindex',
            'record_fieldindex_of_key',
            'tuple_key_fieldindex_roundtrip',
            'form_keys_have_key',
            'form_numfields_is_number_of_keys',
            'queries_agree_with_nested_list_value',
            'numfields_is_number_of_keys_layout',
            'minmax_depth_min_le_max',
            'minmax_depth_min_le_max_layout',
            'pure_list_depth_queries_coincide',
            'purelist_depth_positive_without_union',
            'minmax_depth_layout_eq_type',
            'minmax_depth_type_eq_erased',
            'core_minmax_eq_minmax_ty_partial',
            'minmax_depth_layout_eq_core_type',
            'pure_layout_depth_queries',
            'purelist_depth_is_exact_leaf_depth',
            'listed_keys_are_in_every_record',
            'layout_keys_have_key',
            'field_queries_content_eq_type_exact',
            'purelist_depth_positive_layout',
            'not_branching_minmax_partial',
            'not_branching_minmax_layout_partial',
            'form_key_is_keys_entry',
            'type_keys_answers_iff_form_reaches_record',
            'key_names_field_of_every_record',
            'fieldindex_is_position_in_every_record',
            'purelist_depth_is_exact_depth_with_unions',
            'lark_fragment_printable',
            'lark_print_parse_roundtrip',
            'lark_print_parse_roundtrip_full',
            'lark_print_parse_some_mode',
            'lark_agrees_with_type_parse',
            'lark_finding_empty_record_or_union',
            'lark_finding_highlevel_arraytype',
            'lark_finding_dtype_not_in_grammar',
            'lark_finding_string_escapes',
            'lark_print_parse_roundtrip_categorical',
            'lark_fragment_categorical_extends',
            'lark_lowlevel_never_arraytype',
            'lark_parameters_text_roundtrip',
            'lark_print_parse_roundtrip_parameters',
            'lark_print_parse_parameters_some_mode',
            'lark_fragment_parameters_extends',
            'lark_fragment_parameters_extends_categorical']
DRIVERS = ('typedrv',)
NEEDS_SAN = True
COQ_DIR = os.path.join(C.VERIF, 'c17', 'coq')
COQ_LOGICAL = '-R %s/coq AwkV -R . AwkTypes' % C.VERIF
B17 = os.path.join(C.BUILD, 'c17')
CORPUS = os.path.join(C.VERIF, 'corpus', 'C17')
LARK = os.path.join(C.VERIF, 'c17', 'tools', 'larkvote.py')
LARK_STRINGS = os.path.join(C.VERIF, 'c17', 'tools', 'lark_strings.txt')

RULE = ('describe: value-first random layouts (all node classes, widths, option encodings, strings, n-d NumpyArray, record '
        'names incl. reserved words, categorical) x typestrs (none | string/bytes/char/byte | + a custom record typestr); '
        'describe-x: the same with arbitrary JSON parameters at random nodes (nested objects/arrays, escapes, big integers, '
        'doubles, null, __array__/__record__/__categorical__ of every kind) and Identities; formjson: random form JSON '
        '(every class, generic and width-specific class names, abbreviated index names, primitive vs format+itemsize, '
        'every optional key spelled / omitted / null, has_identifier, extra and duplicate keys, shuffled key order, '
        'whitespace, VirtualArray) and a malformed stream (truncations, wrong class names, missing required keys, wrong '
        'value kinds, conflicting widths, non-primitive names); every printed type string goes to the model\'s '
        'type_parse and to the repository\'s Lark parser; lark-grammar: type strings built from type-grammar.lark '
        '(fixed list c17/tools/lark_strings.txt + random derivations: every type class, parameters= with every JSON value '
        'kind, categorical[type=...], ?T / option[T] / option[T, parameters=...], record names incl. keywords and keyword '
        'prefixes, tuples, structs with mismatching lengths, regular sizes incl. 0 / negative / non-integers, unknown, '
        'nested unions, the backslash-apostrophe string form, whitespace variants, int128) and malformed ones (character '
        'deleted / inserted, truncation, trailing garbage, bad keyword): from_datashape(s, False) and (s, True) against '
        'the Rocq model lark_parse_full of the parser on these and on every printed type string, compared as object trees. '
        'non-trivial = >= 2 nodes (layouts/forms/parsed types) and accepted; distinct by case text')
ASSUMPTIONS = [
    'parameter values are JSON texts in rj::Writer normal form (what Form::fromjson stores; the driver normalises the '
    'parameters it sets); doubles in parameters are limited to a few exactly printable values',
    'RapidJSON is absent: Form JSON goes through the clean-room substitute impl/rapidjson_shim',
    'little-endian 64-bit non-Windows dtype_to_format branch; float16/float128/complex/datetime forms are exercised '
    'through Form JSON only (the layout generator has the eleven core dtypes)',
    'Form::equal (every check on, compatibility_check off, as Form.__eq__), form keys and Identities are checked on the '
    'implementation side only (no layout in the core model carries them); the model sees such layouts through the '
    'implementation\'s own form JSON; Form::equal is skipped for records with a repeated field name (it looks fields '
    'up by name and is not reflexive there)',
    'Form -> JSON -> Form is required only of forms of existing node classes (model predicate form_wf, hypothesis of '
    'theorem form_json_roundtrip); on all other forms (ListForm with starts != stops, u32/i8 IndexedOptionForm, union '
    'tags != i8, non-primitive or inconsistent NumpyForm fields, sizes beyond int32) the implementation and the model '
    'must fail or succeed alike, which is checked and counted (roundtrip_outside_fragment)',
    'the model implements the copyjson behaviour after the fix of io/json.cpp (numbers in parameters are copied '
    'faithfully); corpus/C17/forms.case keeps the reproducers',
    'src/python/types.cpp (pybind11) cannot be built: the Lark parser is run against stand-in classes with the same '
    'constructor signatures whose __str__ re-implements the C++ printers; parameters dicts are printed compactly; a type '
    'string counts as brought back if low-level or high-level mode returns a type that prints identically and contains '
    'no ArrayType; strings printed through a user-defined typestr are not sent (from_datashape cannot know them)',
    'corr:lark-model compares c17/coq/Lark.v with the repository\'s grammar, generated LALR parser, TreeToJson and toast '
    'as they are, but with the stand-in type classes: the object tree built by toast is compared node by node (class, '
    'parameters as Python values, typestr, keys, size) with the model\'s rty. Three points are mapped on the harness side: '
    '(1) an ArrayType(T, n) node is compared with the model\'s parameterless RReg n T plus its "an ArrayType occurs" flag '
    '(so the stand-in\'s "?3 * T" vs the model\'s "option[3 * T]" printing never enters); (2) a float parameter is the '
    'Python float on one side and the number\'s text on the other: compared as repr(float(text)); (3) the exceptions of the '
    'pybind11 constructors that the grammar can trigger are re-implemented in the stand-ins (PrimitiveType("int128"): '
    'ValueError; RegularType / ArrayType with a float or an int outside int64_t: TypeError; RecordType with keys of '
    'another length: ValueError) from reading src/python/types.cpp and pybind11\'s integer caster, which cannot be run '
    'here. Any exception = rejected (exception classes are not compared). One deviation of the model is known and '
    'counted, not reported (evidence c17.lark_model.*.known_deviation.size-beyond-int64): Lark.v accepts '
    '"9223372036854775808 * int64" (its size is a Z), the constructor refuses it. Type strings are valid UTF-8 (a lone '
    'surrogate cannot be cast to std::string by pybind11) and nested at most a few levels deep (toast is recursive: '
    'Python\'s RecursionError beyond some 300 nested types is a resource limit the model does not have)',
    'the model\'s type_parse covers the fragment `printable` (theorem type_print_parse_roundtrip): no parameters= forms, '
    'no categorical[...]; on the other strings only "prints back identically when it parses" is checked',
    'element typing is checked for the first 8 and the last element; range slices for 9 (start, stop) pairs',
    'validityerror is not called on layouts with __array__ = "categorical" (its is_unique check is outside this '
    'property and has a memory-safety defect of its own, reported under C12)',
    'a zero-dimensional NumpyArray (what getitem_at returns for 1-d data) has no form/type (Content::form reads past '
    'the empty shape): scalars are reported by dtype',
]
TRUSTED_BASE = [
    'Rocq kernel: coqc 8.16.1 (vm_compute in Examples only; native_compute not used)',
    'no axioms: every property theorem is closed under the global context (parsed from Print Assumptions on this run)',
    'extraction: ExtrOcamlBasic only, Z/positive/nat inductive; OCaml 4.13.1; readers/printers ocaml/sx.ml, ocaml/rd.ml, '
    'c17/ocaml/typerun.ml (JSON text reader mirroring the shim, result printing)',
    'C++ driver impl/drv/typedrv.cpp + drv_common.h (layout builder)',
    'generators / comparison / classification in harness/props/c17.py; Lark stand-ins c17/tools/larkvote.py (object-tree '
    'dump, constructor exceptions); tree printing of the model\'s rty in typerun.ml',
    'RapidJSON substitute impl/rapidjson_shim',
    'model vs code: c17/coq/*.v are hand-written models of the C++ Form/Type classes and (Lark.v) of the Python parser; '
    'tied by differential testing only',
]

KNOWN17 = [k for k in C.load_known() if k.get('property') == 'C17']


# ===================================================================== small helpers
TOK = re.compile(r'[()]|[^\s()]+')


def sx_parse(s):
    stack = [[]]
    for t in TOK.findall(s):
        if t == '(':
            stack.append([])
        elif t == ')':
            x = stack.pop()
            stack[-1].append(x)
        else:
            stack[-1].append(t)
    if len(stack) != 1 or len(stack[0]) != 1:
        raise ValueError('sx: ' + s[:80])
    return stack[0][0]


def bsx(b):
    """bytes -> (n n n)"""
    return '(' + ' '.join(str(x) for x in b) + ')'


def unb(x):
    """parsed (n n n) -> bytes, 'err' stays"""
    if isinstance(x, str):
        return x
    return bytes(int(t) for t in x)


def fields(x):
    """parsed ((k v...) (k v...)) -> dict k -> rest"""
    d = {}
    for e in x:
        if isinstance(e, list) and e and isinstance(e[0], str):
            d[e[0]] = e[1:]
    return d


DEFAULT_TS = [(b'byte', b'byte'), (b'bytestring', b'bytes'), (b'char', b'char'), (b'string', b'string')]


def ts_sx(ts):
    return '(' + ' '.join('(%s %s)' % (bsx(k), bsx(v)) for k, v in ts) + ')'


# ===================================================================== JSON text generation
def esc_string(rng, s, fancy):
    """a JSON string literal for the unicode string s; fancy: random alternative spellings"""
    out = ['"']
    for ch in s:
        c = ord(ch)
        r = rng.random() if fancy else 1.0
        if ch == '"':
            out.append('\\"' if r > 0.2 else '\\u0022')
        elif ch == '\\':
            out.append('\\\\')
        elif c < 0x20:
            short = {8: '\\b', 12: '\\f', 10: '\\n', 13: '\\r', 9: '\\t'}
            out.append(short[c] if c in short and r > 0.3 else '\\u%04x' % c)
        elif ch == '/' and r < 0.3:
            out.append('\\/')
        elif c < 0x7f and r < 0.05:
            out.append('\\u%04X' % c)
        elif c >= 0x80 and r < 0.4:
            if c >= 0x10000:
                c2 = c - 0x10000
                out.append('\\u%04x\\u%04x' % (0xD800 + (c2 >> 10), 0xDC00 + (c2 & 0x3FF)))
            else:
                out.append('\\u%04x' % c)
        else:
            out.append(ch)
    out.append('"')
    return ''.join(out)


class J:
    """JSON object with explicit member order (list of pairs), so duplicates and order are under control"""

    def __init__(self, pairs):
        self.pairs = list(pairs)


def jdump(rng, v, fancy=False):
    ws = (lambda: rng.choice(['', '', '', ' ', '\n ', '\t'])) if fancy else (lambda: '')
    if v is None:
        return 'null'
    if v is True:
        return 'true'
    if v is False:
        return 'false'
    if isinstance(v, int):
        return str(v)
    if isinstance(v, float):
        return {0.5: '0.5', 1.5: '1.5', -2.25: '-2.25', 100.0: '100.0', 1e30: '1e30', 1e-7: '1e-7'}[v]
    if isinstance(v, str):
        return esc_string(rng, v, fancy)
    if isinstance(v, list):
        return '[' + ws() + (',' + ws()).join(jdump(rng, x, fancy) for x in v) + ws() + ']'
    if isinstance(v, J):
        return '{' + ws() + (',' + ws()).join(esc_string(rng, k, fancy) + ws() + ':' + ws() + jdump(rng, x, fancy)
                                              for k, x in v.pairs) + ws() + '}'
    raise TypeError(type(v))


STRS = ['', 'a', 'xy', 'Pt', 'a"b', 'back\\slash', 'tab\there', 'nl\n', '\x01\x1f', 'café', '€', '\U0001F600',
        'sp ace', '/', 'i64', 'null', '{', '__array__']
FLOATS = [0.5, 1.5, -2.25, 100.0, 1e30, 1e-7]
BIGINTS = [2 ** 31 - 1, 2 ** 31, -2 ** 31, -2 ** 31 - 1, 2 ** 32, 2 ** 63 - 1, -2 ** 63, 2 ** 63, 2 ** 64 - 1]


def gen_json_value(rng, depth=2):
    r = rng.random()
    if depth <= 0 or r < 0.55:
        k = rng.random()
        if k < 0.12:
            return None
        if k < 0.24:
            return rng.random() < 0.5
        if k < 0.5:
            return rng.randint(-9, 99)
        if k < 0.58:
            return rng.choice(BIGINTS)
        if k < 0.66:
            return rng.choice(FLOATS)
        return rng.choice(STRS)
    if r < 0.78:
        return [gen_json_value(rng, depth - 1) for _ in range(rng.choice([0, 1, 2, 3]))]
    n = rng.choice([0, 1, 2, 3])
    keys = rng.sample(STRS, n)
    return J([(k, gen_json_value(rng, depth - 1)) for k in keys])


RECNAMES = ['Pt', 'Vec3', 'P_1', '_x', 'point', 'union', 'var', 'option', 'int64', 'unknown', 'tuple', 'struct', 'byte',
            'string', 'categorical', 'x']
ARRAYVALS = ['string', 'bytestring', 'char', 'byte', 'categorical', 'other', 'sorted']


def gen_params(rng, maxn=3):
    """list of (key, value) with distinct keys"""
    n = rng.choice([1, 1, 2, maxn])
    out = {}
    for _ in range(n):
        k = rng.random()
        if k < 0.25:
            out['__record__'] = rng.choice(RECNAMES + [None, 3, 'a b', ''])
        elif k < 0.45:
            out['__array__'] = rng.choice(ARRAYVALS + [None, 7])
        elif k < 0.52:
            out['__categorical__'] = rng.choice([True, True, False, None, 1])
        else:
            out[rng.choice(['a', 'b', 'zz', 'key"q', 'k\\', 'café', '__doc__', 'A', '_', ''])] = gen_json_value(rng, 2)
    return list(out.items())


# ===================================================================== layout decoration
def decorate(rng, lay, names=True, ndim=True, categorical=True):
    """record names, categorical wrappers, n-d NumpyArray leaves on a gen.py layout (core syntax)"""
    if not isinstance(lay, list) or not lay or not isinstance(lay[0], str):
        return lay
    h = lay[0]
    if h == 'par':
        # string / char nodes stay as they are
        if lay[1] in ('string', 'bytestring'):
            return lay
        return ['par', lay[1], lay[2], decorate(rng, lay[3], names, ndim, categorical)]
    if h == 'np':
        return lay
    out = list(lay)
    ci = {'lo': [3], 'la': [4], 'reg': [3], 'ix': [3], 'ixo': [3], 'bym': [3], 'bim': [5], 'unm': [1]}.get(h)
    if h == 'un':
        ci = list(range(4, len(lay)))
    if h == 'rec':
        ci = list(range(3, len(lay)))
    for i in ci or []:
        out[i] = decorate(rng, lay[i], names, ndim, categorical)
    if h == 'reg' and ndim and out[3][0] == 'np' and len(out[3][2]) >= 1 and rng.random() < 0.5:
        size, n, leaf = out[1], out[2], out[3]
        total = n * size
        for d in leaf[2][1:]:
            total *= d
        have = 1
        for d in leaf[2]:
            have *= d
        if have >= total and (size > 0 or True):
            inner = leaf[2][1:]
            inner_n = 1
            for d in inner:
                inner_n *= d
            return ['np', leaf[1], [n, size] + inner, leaf[3][:n * size * inner_n]]
    if h == 'rec' and names and rng.random() < 0.35:
        return ['par', 'none', rng.choice(RECNAMES), out]
    if h in ('ix', 'ixo') and categorical and rng.random() < 0.08:
        return ['par', 'categorical', 'none', out]
    return out


def extend(rng, lay, top=True):
    """extended syntax: random parx parameters at random nodes, ident at the top"""
    if not isinstance(lay, list) or not lay or not isinstance(lay[0], str):
        return lay
    h = lay[0]
    out = list(lay)
    ci = {'lo': [3], 'la': [4], 'reg': [3], 'ix': [3], 'ixo': [3], 'bym': [3], 'bim': [5], 'unm': [1], 'par': [3]}.get(h)
    if h == 'un':
        ci = list(range(4, len(lay)))
    if h == 'rec':
        ci = list(range(3, len(lay)))
    for i in ci or []:
        out[i] = extend(rng, lay[i], False)
    if rng.random() < 0.3:
        ps = gen_params(rng)
        out = ['parx', [[list(k.encode('utf-8')), list(jdump(rng, v).encode('utf-8'))] for k, v in ps], out]
    if top and rng.random() < 0.3:
        out = ['ident', out]
    return out


# ===================================================================== form JSON generation
PRIMS = ['bool', 'int8', 'int16', 'int32', 'int64', 'uint8', 'uint16', 'uint32', 'uint64', 'float16', 'float32',
         'float64', 'float128', 'complex64', 'complex128', 'complex256', 'datetime64', 'timedelta64']
FMT = {'bool': ('?', 1), 'int8': ('b', 1), 'int16': ('h', 2), 'int32': ('i', 4), 'int64': ('l', 8), 'uint8': ('B', 1),
       'uint16': ('H', 2), 'uint32': ('I', 4), 'uint64': ('L', 8), 'float16': ('e', 2), 'float32': ('f', 4),
       'float64': ('d', 8), 'float128': ('g', 16), 'complex64': ('Zf', 8), 'complex128': ('Zd', 16),
       'complex256': ('Zg', 32), 'datetime64': ('M', 8), 'timedelta64': ('m', 8)}
IDX = {'i8': ['i8', 'i', ''], 'u8': ['u8', 'u'], 'i32': ['i32', 'i3'], 'u32': ['u32', 'u3'], 'i64': ['i64', 'i6']}


def idx_spelling(rng, form):
    return rng.choice(IDX[form]) if rng.random() < 0.25 else form


def gen_form(rng, depth, stats, wellformed=True):
    """returns a J (or a str for a bare primitive). wellformed: only forms Form -> JSON -> Form is expected to keep"""
    def tail(pairs):
        r = rng.random()
        if r < 0.25:
            pairs.append((rng.choice(['has_identities', 'has_identities', 'has_identifier']), rng.random() < 0.5))
        if rng.random() < 0.35:
            pairs.append(('parameters', J(gen_params(rng)) if rng.random() < 0.9 else J([])))
        r = rng.random()
        if r < 0.2:
            pairs.append(('form_key', rng.choice(['node0', 'k', '', 'a"b', 'café'])))
        elif r < 0.3:
            pairs.append(('form_key', None))
        if rng.random() < 0.1:
            pairs.append((rng.choice(['extra', 'length', 'class2']), gen_json_value(rng, 1)))
        return pairs

    def finish(pairs):
        pairs = tail(pairs)
        if rng.random() < 0.3:
            rng.shuffle(pairs)
        if rng.random() < 0.04 and pairs:
            k, v = rng.choice(pairs)
            pairs.insert(rng.randrange(len(pairs) + 1), (k, v if rng.random() < 0.5 else gen_json_value(rng, 1)))
            stats['dupkey'] = stats.get('dupkey', 0) + 1
        return J(pairs)

    sub = lambda: gen_form(rng, depth - 1, stats, wellformed)
    r = rng.random()
    if depth <= 0 or r < 0.22:
        p = rng.choice(PRIMS[:9] * 3 + PRIMS)
        k = rng.random()
        if k < 0.45:
            stats['prim-string'] = stats.get('prim-string', 0) + 1
            return p
        pairs = [('class', 'NumpyArray')]
        if k < 0.75:
            pairs.append(('primitive', p))
            if rng.random() < 0.5:
                pairs += [('format', FMT[p][0]), ('itemsize', FMT[p][1])]
        else:
            fmt, size = FMT[p]
            if not wellformed and rng.random() < 0.3:
                fmt = rng.choice(['q', 'Q', '<i', '=d', '>i', 'c', 'x', 'M8[ns]', '5s', ''])
            if not wellformed and rng.random() < 0.15:
                size = rng.choice([3, 0, 16, -1])
            pairs += [('format', fmt), ('itemsize', size)]
        if rng.random() < 0.4:
            pairs.append(('inner_shape', [rng.choice([0, 1, 2, 3, 5]) for _ in range(rng.choice([0, 1, 1, 2]))]))
        stats['NumpyArray'] = stats.get('NumpyArray', 0) + 1
        return finish(pairs)
    kinds = ['ListOffsetArray', 'ListArray', 'RegularArray', 'IndexedArray', 'IndexedOptionArray', 'ByteMaskedArray',
             'BitMaskedArray', 'UnmaskedArray', 'UnionArray', 'RecordArray', 'RecordArray', 'EmptyArray', 'VirtualArray']
    kind = rng.choice(kinds)
    stats[kind] = stats.get(kind, 0) + 1
    if kind == 'EmptyArray':
        return finish([('class', 'EmptyArray')])
    if kind in ('ListOffsetArray', 'IndexedArray', 'IndexedOptionArray', 'ListArray'):
        widths = ['i32', 'i64'] if kind == 'IndexedOptionArray' else ['i32', 'u32', 'i64']
        w = rng.choice(widths)
        suffix = {'i32': '32', 'u32': 'U32', 'i64': '64'}[w]
        generic = rng.random() < 0.35
        pairs = [('class', kind if generic else kind + suffix)]
        fieldnames = {'ListOffsetArray': ['offsets'], 'ListArray': ['starts', 'stops'],
                      'IndexedArray': ['index'], 'IndexedOptionArray': ['index']}[kind]
        for fn in fieldnames:
            ww = w
            if not wellformed and generic and rng.random() < 0.3:
                ww = rng.choice(['i8', 'u8', 'i32', 'u32', 'i64'])
            if generic or rng.random() < 0.6:
                pairs.append((fn, idx_spelling(rng, ww)))
        pairs.append(('content', sub()))
        return finish(pairs)
    if kind == 'RegularArray':
        size = rng.choice([0, 1, 2, 3, 10])
        if not wellformed and rng.random() < 0.2:
            size = rng.choice([-1, 2 ** 31 - 1])
        return finish([('class', 'RegularArray'), ('content', sub()), ('size', size)])
    if kind == 'ByteMaskedArray':
        m = 'i8' if wellformed or rng.random() < 0.6 else rng.choice(['u8', 'i32', 'u32', 'i64'])
        return finish([('class', kind), ('mask', idx_spelling(rng, m)), ('content', sub()), ('valid_when', rng.random() < 0.5)])
    if kind == 'BitMaskedArray':
        m = 'u8' if wellformed or rng.random() < 0.6 else rng.choice(['i8', 'i32', 'u32', 'i64'])
        return finish([('class', kind), ('mask', idx_spelling(rng, m)), ('content', sub()),
                       ('valid_when', rng.random() < 0.5), ('lsb_order', rng.random() < 0.5)])
    if kind == 'UnmaskedArray':
        return finish([('class', kind), ('content', sub())])
    if kind == 'UnionArray':
        w = rng.choice(['i32', 'u32', 'i64'])
        suffix = {'i32': '8_32', 'u32': '8_U32', 'i64': '8_64'}[w]
        generic = rng.random() < 0.35
        pairs = [('class', 'UnionArray' if generic else 'UnionArray' + suffix)]
        tg = 'i8'
        if not wellformed and generic and rng.random() < 0.3:
            tg = rng.choice(['u8', 'i64'])
        if generic or rng.random() < 0.6:
            pairs.append(('tags', idx_spelling(rng, tg)))
        if generic or rng.random() < 0.6:
            pairs.append(('index', idx_spelling(rng, w)))
        pairs.append(('contents', [sub() for _ in range(rng.choice([0, 1, 2, 2, 3]))]))
        return finish(pairs)
    if kind == 'RecordArray':
        n = rng.choice([0, 1, 2, 2, 3])
        if rng.random() < 0.35:
            return finish([('class', kind), ('contents', [sub() for _ in range(n)])])
        keys = rng.sample(['x', 'y', 'z', 'a"b', '0', '1', 'café', '', 'k\\', 'tab\t'], n)
        if n >= 2 and rng.random() < 0.05:
            keys[1] = keys[0]
        return finish([('class', kind), ('contents', J([(k, sub()) for k in keys]))])
    if kind == 'VirtualArray':
        return finish([('class', kind), ('form', sub() if rng.random() < 0.8 else None), ('has_length', rng.random() < 0.5)])
    raise ValueError(kind)


def break_form_text(rng, text, stats):
    """one malformation of a valid form JSON text -> (what, text)"""
    r = rng.random()
    if r < 0.3 and len(text) > 2:
        stats['trunc'] = stats.get('trunc', 0) + 1
        return 'truncated', text[:rng.randrange(1, len(text))]
    reps = [('"class"', '"klass"'), ('Array', 'Arrai'), ('"content"', '"contents"'), ('"contents"', '"content"'),
            ('"size"', '"sise"'), ('"valid_when"', '"validwhen"'), ('"lsb_order"', '"lsb"'), ('"has_length"', '"haslength"'),
            ('"form"', '"frm"'), ('"primitive"', '"primitiv"'), ('"itemsize"', '"itemsiz"'), ('true', '1'), ('false', '"no"'),
            ('"i64"', '"i65"'), ('"i32"', '"i64"'), ('"i8"', '"x"'), ('"u8"', '7'), ('64"', '32"'), ('"int64"', '"int65"'),
            ('"float64"', '"double"'), ('"parameters":{', '"parameters":[{'), ('"form_key":"', '"form_key":5,"k":"'),
            ('"has_identities":true', '"has_identities":"true"'), ('[', '{'), (':', ' '), (',', ',,'), ('}', '')]
    rng.shuffle(reps)
    for a, b in reps:
        if a in text:
            i = [m.start() for m in re.finditer(re.escape(a), text)]
            k = rng.choice(i)
            stats['mut:' + a] = stats.get('mut:' + a, 0) + 1
            return 'replace %s -> %s' % (a, b), text[:k] + b + text[k + len(a):]
    return 'toplevel', rng.choice(['3', 'null', '[]', '"notatype"', '', '{}', 'true', '{"class":5}'])


# ===================================================================== type strings from the grammar (lark-grammar stream)
LK_PRIMS = ['bool', 'int8', 'int16', 'int32', 'int64', 'uint8', 'uint16', 'uint32', 'uint64', 'float32', 'float64']
LK_ODD = ['float16', 'float128', 'complex64', 'complex128', 'complex256', 'datetime64', 'timedelta64', 'int128', 'uint128']
LK_NAMES = ['Name', 'Vec', 'pt', 'Vec3', 'P_1', 'byte', 'union', 'int', 'type', 'null', 'variable', 'Int', 'X', 'stringy',
            'in', 'parameters', 'parametersX', 'p', 'true', 'categorical', 'tuple', 'structs', 'optional', 'unknown', 'u',
            'bytesize', 'boolx', 'float', 'uint', 'Z']
LK_KEYS = ['a', 'b', 'x y', '', 'a\\"b', 'k\\n', '\\u00e9', 'é', '€', '0', 'a:b', '{', ']', ',', "'", '\\t\\r', '\\u12aB', 'a\x01',
           '\x7f', 'tab\there', '\x0b', '\U0001F600']
LK_PVALS = ['1', '-2', '0', '-0', '+7', '007', '1.5', '-2.25', '1.50', '.5', '5.', '1.5e3', '1.5E-3', '100.0', '1e30',
            '12345678901234567890123', '"s"', '""', '"é"', 'null', 'true', 'false', '[1,2]', '[]', '[ ]', '{}', '{ }',
            '{"q": 1}', '{"q": 1, "r": [null], "q": 2}', '"x\\"y"', '[1, [2, {"a": null}]]', '\\\'', '\\\'v"\\\'',
            '"\\u0041\\n"', '[true, false, null, "t", 1.0]']
LK_PKEYS = ['a', 'b', '__array__', '__record__', '__categorical__', 'zz', '', 'é', 'A', 'a"', '__doc__']


def lk_params(r):
    n = r.choice([0, 1, 1, 2, 3])
    ks = r.sample(LK_PKEYS, n)
    if n >= 2 and r.random() < 0.15:
        ks[1] = ks[0]
    def key(k):
        return '"%s"' % k.replace('"', '\\"')
    def val(k):
        if k == '__categorical__' and r.random() < 0.6:
            return r.choice(['true', 'false'])
        if k in ('__array__', '__record__') and r.random() < 0.6:
            return '"%s"' % r.choice(['string', 'char', 'categorical', 'Name', 'x'])
        return r.choice(LK_PVALS)
    sep = r.choice([', ', ', ', ',', ' , '])
    colon = r.choice([': ', ': ', ':', ' : '])
    eq = r.choice(['=', '=', ' = '])
    return 'parameters' + eq + '{' + sep.join(key(k) + colon + val(k) for k in ks) + '}'


def lk_size(r):
    return r.choice(['0', '1', '2', '3', '3', '10', '123', '-1', '+2', '00', '9223372036854775807', '2.5', '3.0', '1e2'])


def lk_gen(r, d):
    if d <= 0 or r.random() < 0.22:
        c = r.random()
        if c < 0.5:
            return r.choice(LK_PRIMS)
        if c < 0.6:
            return 'unknown'
        if c < 0.78:
            return r.choice(['string', 'bytes', 'char', 'byte'])
        if c < 0.83:
            return r.choice(LK_ODD)
        return r.choice(LK_PRIMS + ['unknown', 'unknown']) + '[' + lk_params(r) + ']'
    c = r.randrange(19)
    sub = lambda: lk_gen(r, d - 1)
    lst = lambda lo=1: ', '.join(sub() for _ in range(r.randint(lo, 3)))
    flds = lambda lo=1: ', '.join('"%s": %s' % (r.choice(LK_KEYS), sub()) for _ in range(r.randint(lo, 3)))
    if c == 0:
        return 'var * ' + sub()
    if c == 1:
        return '%s * %s' % (lk_size(r), sub())
    if c == 2:
        return '?' + sub()
    if c == 3:
        return 'option[' + sub() + ']'
    if c == 4:
        return 'union[' + lst(r.choice([0, 1, 1, 2])) + ']'
    if c == 5:
        return '(' + lst(r.choice([0, 1, 1])) + ')'
    if c == 6:
        return '{' + flds(r.choice([0, 1, 1])) + '}'
    if c == 7:
        return r.choice(LK_NAMES) + '[' + flds(r.choice([0, 1, 1])) + ']'
    if c == 8:
        return r.choice(LK_NAMES) + '[' + lst() + ']'
    if c == 9:
        return '[var * ' + sub() + ', ' + lk_params(r) + ']'
    if c == 10:
        return '[%s * %s, %s]' % (lk_size(r), sub(), lk_params(r))
    if c == 11:
        return 'option[' + sub() + ', ' + lk_params(r) + ']'
    if c == 12:
        return 'union[' + lst() + ', ' + lk_params(r) + ']'
    if c == 13:
        return 'tuple[[' + lst(r.choice([0, 1, 1])) + '], ' + lk_params(r) + ']'
    if c == 14:
        n = r.randint(0, 3)
        return ('struct[[' + ', '.join('"%s"' % r.choice(LK_KEYS) for _ in range(n)) + '], ['
                + ', '.join(sub() for _ in range(n if r.random() < 0.85 else n + 1)) + '], ' + lk_params(r) + ']')
    if c == 15:
        return 'categorical[type=' + sub() + ']'
    if c == 16:
        return '?' + sub() + '[' + lk_params(r) + ']'
    if c == 17:
        return 'union[' + ', '.join('union[' + lst() + ']' for _ in range(r.randint(1, 2))) + ', ' + sub() + ']'
    return sub()


def lk_whitespace(r, s):
    """spaces around punctuation changed at random (outside quoted strings)"""
    out, inq, i = [], False, 0
    while i < len(s):
        ch = s[i]
        if inq:
            out.append(ch)
            if ch == '\\' and i + 1 < len(s):
                out.append(s[i + 1])
                i += 1
            elif ch == '"':
                inq = False
        elif ch == '"':
            inq = True
            out.append(ch)
        elif ch == ' ':
            out.append(r.choice(['', ' ', ' ', '  ', '\t', '\n', '\r\n', '\x0c']))
        elif ch in '[](){},:=*?' and r.random() < 0.3:
            out.append(r.choice([' ', '\t', '\n']) + ch + r.choice(['', ' ']))
        else:
            out.append(ch)
        i += 1
    return r.choice(['', '', ' ', '\n']) + ''.join(out) + r.choice(['', '', ' ', '\n', '\t \x0c'])


def lk_mutate(r, s):
    c = r.randrange(9)
    i = r.randrange(len(s) + 1)
    if c == 0:
        return 'delete', s[:i] + s[i + 1:]
    if c == 1:
        return 'insert', s[:i] + r.choice(' \t[](){},:?*"x1.e=-\\\'\x0b\x00é') + s[i:]
    if c == 2:
        return 'trailing', s + r.choice([' ', ']', ',', 'x', '[parameters={}]', '[parameters={"a": 1}]', ')', '}', ' int64',
                                         '"', '*', ' * int64', '?'])
    if c == 3:
        return 'truncate', s[:i]
    if c == 4:
        ws = [m for m in re.finditer(r'[a-z]{3,}', s)]
        if ws:
            m = r.choice(ws)
            w = m.group(0)
            k = r.randrange(len(w))
            w2 = r.choice([w[:k] + w[k + 1:], w[:k] + w[k].upper() + w[k + 1:], w + r.choice('sx8'), w[:k] + ' ' + w[k:]])
            return 'keyword', s[:m.start()] + w2 + s[m.end():]
        return 'trailing', s + 'x'
    if c == 5:
        br = [k for k, ch in enumerate(s) if ch in '[](){}']
        if br:
            k = r.choice(br)
            return 'bracket', s[:k] + r.choice(['', '', '[', ']', '(', ')', '{', '}']) + s[k + 1:]
        return 'trailing', s + ']'
    if c == 6:
        return 'swap', s.replace(', ', r.choice([',', ' ', ';', ',,']), 1)
    if c == 7:
        return 'quote', s.replace('"', r.choice(["'", '', "\\'"]), 1)
    return 'whitespace', lk_whitespace(r, s)


LK_TOKENS = ['var', '*', '?', 'option', '[', ']', 'union', 'tuple', 'struct', 'unknown', 'categorical', 'type', '=',
             'parameters', '{', '}', '(', ')', ',', ':', '"a"', '"b"', '3', '0', 'int64', 'bool', 'float64', 'uint8', 'int128',
             'string', 'bytes', 'byte', 'char', 'Name', 'x', 'true', 'false', 'null', '1.5', '-1', '[]', '{}', '""',
             'parameters={}', 'parameters={"a": 1}', '[parameters={}]', 'var *', '3 *', '"a":', 'type=', "\\'", '[[', ']]',
             ', parameters={"p": [1, 2.5, null]}]', 'union[', 'option[', 'tuple[[', 'struct[["a"], [', 'categorical[type=',
             'Name["a":', '[var *', '[2 *', '(int64', '{"k": ']


def lk_soup(r):
    """a random sequence of grammar tokens and fragments: mostly malformed, sometimes a type by accident"""
    n = r.choice([1, 2, 2, 3, 3, 4, 5, 6, 8, 12])
    sep = r.choice(['', ' ', ' ', None])
    toks = [r.choice(LK_TOKENS) for _ in range(n)]
    if sep is None:
        return ''.join(t + r.choice(['', ' ']) for t in toks)
    return sep.join(toks)


LK_TOKEN_RE = re.compile(r'"(?:[^"\\\\]|\\\\.)*"|[A-Za-z_]+[0-9]*|[-+]?[0-9.]+(?:[eE][-+]?[0-9]+)?|\\s+|.', re.S)


def lk_token_mutate(r, s):
    """one edit on the token sequence of a derived string: delete / duplicate / swap / replace a token"""
    toks = LK_TOKEN_RE.findall(s)
    idx = [i for i, t in enumerate(toks) if not t.isspace()]
    if not idx:
        return s + 'x'
    i = r.choice(idx)
    c = r.randrange(5)
    if c == 0:
        del toks[i]
    elif c == 1:
        toks.insert(i, toks[i])
    elif c == 2:
        j = r.choice(idx)
        toks[i], toks[j] = toks[j], toks[i]
    elif c == 3:
        toks[i] = r.choice(LK_TOKENS[:44])
    else:
        toks.insert(i, r.choice(LK_TOKENS[:44]) + r.choice(['', ' ']))
    return ''.join(toks)


def lark_stream(rng, tier):
    """[(what, text)] distinct"""
    out, seen = [], set()

    def put(what, s):
        if s and s not in seen:
            try:
                s.encode('utf-8')
            except UnicodeEncodeError:
                return
            seen.add(s)
            out.append((what, s))
    if os.path.exists(LARK_STRINGS):
        for l in open(LARK_STRINGS, encoding='utf-8'):
            l = l.rstrip('\n')
            if l.strip(' ') != '' or l:
                put('fixed', l)
    ngen, nws, nmut, nsoup = (900, 300, 600, 600) if tier == 'quick' else (12000, 4000, 8000, 8000)
    for _ in range(ngen):
        put('derived', lk_gen(rng, rng.randint(0, 4)))
    for _ in range(nws):
        put('whitespace', lk_whitespace(rng, lk_gen(rng, rng.randint(1, 3))))
    for _ in range(nmut):
        what, t = lk_mutate(rng, lk_gen(rng, rng.randint(0, 3)))
        put('malformed:' + what if what != 'whitespace' else 'whitespace', t)
    for k in range(nsoup):
        put('malformed:tokens', lk_soup(rng) if k % 4 == 0 else lk_token_mutate(rng, lk_gen(rng, rng.randint(0, 3))))
    return out


# ===================================================================== numbers copyjson mishandles
CATEG = ' '.join(str(x) for x in b'"categorical"')


def odd_value(v):
    """does a parsed JSON value contain a number that is not an int32 (a double, or an integer beyond int32)?"""
    if isinstance(v, bool) or v is None or isinstance(v, str):
        return False
    if isinstance(v, float):
        return True
    if isinstance(v, int):
        return not (-2 ** 31 <= v < 2 ** 31)
    if isinstance(v, list):
        return any(odd_value(x) for x in v)
    if isinstance(v, dict):
        return any(odd_value(x) for x in v.values())
    return False


def odd_numbers_in_text(text):
    """any "parameters" member of the form JSON holding such a number (False when the text is not JSON)"""
    try:
        v = json.loads(text)
    except ValueError:
        return False
    found = []

    def walk(x):
        if isinstance(x, dict):
            for k, y in x.items():
                if k == 'parameters' and odd_value(y):
                    found.append(1)
                walk(y)
        elif isinstance(x, list):
            for y in x:
                walk(y)
    walk(v)
    return bool(found)


def odd_numbers_in_layout(lay):
    if not isinstance(lay, list):
        return False
    if lay and lay[0] == 'parx':
        for k, v in lay[1]:
            try:
                if odd_value(json.loads(bytes(v).decode('utf-8'))):
                    return True
            except ValueError:
                pass
    return any(odd_numbers_in_layout(x) for x in lay)


# ===================================================================== cases
def count_nodes(lay):
    return len(G.nodes(lay))


def cases(rng, tier):
    n = 1500 if tier == 'quick' else 30000
    out = []
    # corpus first
    if os.path.isdir(CORPUS):
        for fn in sorted(os.listdir(CORPUS)):
            if fn.endswith('.case'):
                out += replay_cases(os.path.join(CORPUS, fn), prefix='k%s-' % fn[:-5])
    n_desc = int(n * 0.45)
    n_ext = int(n * 0.15)
    n_form = n - n_desc - n_ext
    for i in range(n_desc):
        a = G.gen_array(rng, depth=rng.choice([1, 2, 3, 3, 4]), canonical_too=False)
        lay = decorate(rng, a['layout'])
        r = rng.random()
        ts = [] if r < 0.3 else (DEFAULT_TS if r < 0.85 else sorted(DEFAULT_TS + [(b'Pt', b'PtType'), (b'Vec3', b'vec3')]))
        tags = dict(stream='describe', typestrs=len(ts), nodes=min(count_nodes(lay), 12))
        tags.update({'enc_' + k: 1 for k in a['stats']})
        ls = G.sx(lay)
        out.append(C.Case('d%d' % i, 'describe', [ts_sx(ts)], [ls] + (['novalid'] if 'categorical' in ls else []),
                          dict(nontrivial=count_nodes(lay) >= 2, tags=tags, kind='core')))
    for i in range(n_ext):
        a = G.gen_array(rng, depth=rng.choice([1, 2, 3, 3]), canonical_too=False)
        lay = extend(rng, decorate(rng, a['layout'], categorical=False))
        r = rng.random()
        ts = [] if r < 0.3 else DEFAULT_TS
        tags = dict(stream='describe-x', typestrs=len(ts))
        ls = G.sx(lay)
        odd = odd_numbers_in_layout(lay)
        out.append(C.Case('x%d' % i, 'describe', [ts_sx(ts)], [ls] + (['novalid'] if CATEG in ls else []),
                          dict(nontrivial=True, tags=dict(tags, oddnum=odd), kind='ext', oddnum=odd)))
    for i in range(n_form):
        stats = {}
        r = rng.random()
        wellformed = r < 0.6
        f = gen_form(rng, rng.choice([0, 1, 2, 3, 3]), stats, wellformed)
        text = jdump(rng, f, fancy=rng.random() < 0.3)
        what = 'valid' if wellformed else 'loose'
        if r > 0.8:
            what, text = break_form_text(rng, text, stats)
            what = 'broken: ' + what
        ts = [] if rng.random() < 0.4 else DEFAULT_TS
        tags = dict(stream='formjson', what=what.split(':')[0])
        tags.update(stats)
        out.append(C.Case('f%d' % i, 'formjson', [ts_sx(ts), bsx(text.encode('utf-8'))], [],
                          dict(nontrivial=len(stats) >= 2, tags=tags, kind='form', text=text, oddnum=odd_numbers_in_text(text))))
    for i, (what, t) in enumerate(lark_stream(rng, tier)):
        out.append(lark_case('L%d' % i, t.encode('utf-8'), what))
    return out


def lark_case(cid, b, what):
    """a type string for from_datashape / lark_parse (both modes)"""
    return C.Case(cid, 'larkparse', [bsx(b)], [], dict(nontrivial=True, kind='lark', s=b,
                                                       tags=dict(stream='lark-grammar', lark_what=what.split(':')[0])))


def replay_cases(path, prefix=''):
    cases_ = []
    n = 0
    for ln in open(path):
        ln = ln.strip()
        if not ln or ln.startswith('#'):
            continue
        x = sx_parse(ln)
        cid, op = x[0], x[1]
        m = re.match(r'^\((\S+) (\S+) (.*)\)$', ln)
        rest = m.group(3)
        # split the first argument (typestrs) from the rest
        depth = 0
        k = 0
        for k, ch in enumerate(rest):
            if ch == '(':
                depth += 1
            elif ch == ')':
                depth -= 1
                if depth == 0:
                    break
        ts, body = rest[:k + 1], rest[k + 1:].strip()
        n += 1
        if op == 'larkparse':
            cases_.append(lark_case(prefix + cid, unb(sx_parse(ts)), 'replay'))
        elif op == 'describe':
            extra = []
            if body.endswith(' novalid'):
                body, extra = body[:-len(' novalid')].rstrip(), ['novalid']
            kind = 'ext' if ('(parx ' in body or '(ident ' in body or '(recb ' in body) else 'core'
            cases_.append(C.Case(prefix + cid, op, [ts], [body] + extra, dict(nontrivial=True, tags=dict(stream='replay'), kind=kind)))
        else:
            cases_.append(C.Case(prefix + cid, op, [ts, body], [], dict(nontrivial=True, tags=dict(stream='replay'), kind='form',
                                                                       text=unb(sx_parse(body)).decode('utf-8', 'replace'))))
    return cases_


# ===================================================================== build
def build():
    os.makedirs(B17, exist_ok=True)
    lock = open(os.path.join(C.BUILD, '.lock-c17'), 'w')
    fcntl.flock(lock, fcntl.LOCK_EX)
    try:
        r = C.sh('cd %s && ([ -f Makefile.coq ] || coq_makefile -f _CoqProject -o Makefile.coq) >/dev/null 2>&1 '
                 '&& timeout 3000 make -f Makefile.coq -j8 2>&1 | tail -30' % COQ_DIR)
        if r.returncode != 0 or 'Error' in r.stdout:
            raise C.BuildError('C17 Rocq build failed:\n' + r.stdout[-4000:])
        r = C.sh('make -s -C %s/c17/ocaml VERIF=%s' % (C.VERIF, C.VERIF))
        if r.returncode != 0 or not os.path.exists(os.path.join(B17, 'typerun')):
            raise C.BuildError('typerun build failed:\n' + r.stdout[-4000:])
    finally:
        fcntl.flock(lock, fcntl.LOCK_UN)
        lock.close()


def run_typerun(lines):
    exe = os.path.join(B17, 'typerun')
    p = subprocess.run('ulimit -s unlimited 2>/dev/null; exec ' + exe, shell=True, input='\n'.join(lines) + '\n',
                       stdout=subprocess.PIPE, stderr=subprocess.PIPE, text=True, timeout=3600)
    out = {}
    for ol in p.stdout.splitlines():
        m = C.LINE_ID.match(ol)
        if m:
            out[m.group(1)] = ol[len(m.group(1)) + 2:-1]
    if p.returncode != 0:
        raise RuntimeError('typerun failed rc=%s: %s' % (p.returncode, p.stderr[-2000:]))
    return out


def run_lark(strings):
    """list of bytes -> list of dict (or None when the voter could not run)"""
    if not strings:
        return []
    py = '/venv/bin/python' if os.path.exists('/venv/bin/python') else 'python3'
    inp = '\n'.join('x' + s.hex() for s in strings) + '\n'
    try:
        p = subprocess.run([py, LARK, C.REPO], input=inp, stdout=subprocess.PIPE, stderr=subprocess.PIPE, text=True,
                           timeout=1800)
    except subprocess.TimeoutExpired:
        return None
    if p.returncode != 0:
        C.log('lark voter failed: ' + p.stderr[-500:])
        return None
    res = [json.loads(l) for l in p.stdout.splitlines() if l.strip()]
    return res if len(res) == len(strings) else None


# ===================================================================== signatures of known limitations
def form_signature(text):
    """known-finding signature of a form whose JSON round trip fails, from the implementation's own JSON"""
    try:
        v = json.loads(text)
    except ValueError:
        return None
    sigs = set()

    def walk(x):
        if isinstance(x, dict):
            cls = x.get('class')
            if isinstance(cls, str):
                if cls.startswith('Unrecognized'):
                    sigs.add('form-roundtrip-unrecognized-index-width')
                if cls.startswith('ListArray') and x.get('starts') != x.get('stops'):
                    sigs.add('form-roundtrip-list-starts-stops-differ')
                if cls.startswith('UnionArray') and x.get('tags') != 'i8':
                    sigs.add('form-roundtrip-union-tags-not-i8')
                if cls == 'NumpyArray':
                    prim, fmt, size = x.get('primitive'), x.get('format'), x.get('itemsize')
                    if prim == 'unknown':
                        sigs.add('form-roundtrip-nonprimitive-format')
                    elif prim in FMT and (fmt, size) != FMT[prim]:
                        # an alternative spelling of the same dtype (e.g. "q"/8 = int64 as NumPy's longlong reports it)
                        # is a form of an existing array; anything else is not
                        sigs.add('form-roundtrip-noncanonical-format' if size == FMT[prim][1] else
                                 'form-roundtrip-inconsistent-itemsize')
                if cls == 'RegularArray' and isinstance(x.get('size'), int) and not (-2 ** 31 <= x['size'] < 2 ** 31):
                    sigs.add('form-roundtrip-size-beyond-int32')
            for k, y in x.items():
                if k != 'parameters':
                    walk(y)
        elif isinstance(x, list):
            for y in x:
                walk(y)
        elif x == 'unknown':
            sigs.add('form-roundtrip-nonprimitive-format')     # a plain NumpyForm of a non-primitive format prints as "unknown"
    walk(v)
    if len(sigs) == 1:
        return sigs.pop()
    if sigs:
        return sorted(sigs)[0]
    return None


def has_duplicate_keys(text):
    dup = []

    def hook(pairs):
        ks = [k for k, _ in pairs]
        if len(set(ks)) != len(ks):
            dup.append(1)
        return dict(pairs)
    try:
        json.loads(text.decode('utf-8', 'surrogateescape'), object_pairs_hook=hook)
    except (ValueError, AttributeError):
        return False
    return bool(dup)


def lark_signature(s, res, feats):
    """which of the known limitations of the repository's parser explains that the printed type string s does not
    come back (feats: features of the type computed by the model's runner from the type itself); None = none does"""
    feats = set(feats)
    if 'custom-typestr' in feats:
        return 'skip'                 # a user-defined typestr cannot be known to from_datashape
    if 'empty' in feats:
        return 'lark-empty-record-or-union'            # (), {}, Name[], union[], struct[[], [], ...]
    if 'named-tuple' in feats:
        return 'lark-named-tuple'                      # Name[T, U]
    if 'name-charset' in feats:
        return 'lark-record-name-charset'              # Vec3[...], P_1[...]
    if b'\\' in s:
        return 'lark-string-escapes-not-decoded'       # "a\"b" is read as a\"b (s[1:-1])
    if 'dtype' in feats:
        return 'lark-dtype-not-in-grammar'             # float16, float128, complex*, datetime64, timedelta64
    if 'needs-hl' in feats and 'regular' in feats:
        return 'lark-highlevel-turns-regular-into-arraytype'
    if 'reserved-name' in feats:
        return 'lark-other'                            # record named union / struct / tuple / unknown / byte / ...
    if 'typestr-hides' in feats:
        # "string" / "bytes" / "char" / "byte" printed for a node that is not the string / char type the words stand for
        # (the __array__ parameter sits on another node class): the printer is not injective
        return 'lark-typestr-hides-node-class'
    if 'hidden-categorical' in feats or 'expnum' in feats:
        # "__categorical__" other than true is not printed (the string reads back as a different type);
        # 1e30 is read with int("1e30")
        return 'lark-parameters'
    return None


# ===================================================================== Lark.v against the repository's parser
def hexb(x):
    return bytes(int(t) for t in x).hex()


def model_json(j):
    """typerun's J -> the canonical value of larkvote.jtree"""
    if j == 'null':
        return None
    if j == 'true':
        return True
    if j == 'false':
        return False
    h = j[0]
    if h == 'i':
        return ['i', j[1]]
    if h == 'd':
        # the model carries a non-integral number as its text, TreeToJson as float(text)
        return ['d', repr(float(bytes(int(t) for t in j[1]).decode('ascii')))]
    if h == 's':
        return ['s', hexb(j[1])]
    if h == 'a':
        return ['a', [model_json(x) for x in j[1:]]]
    if h == 'o':
        return ['o', [[hexb(e[1]), model_json(e[2])] for e in j[1:]]]
    raise ValueError('json tree: %r' % (j,))


def model_tree(t):
    """typerun's T -> the canonical tree of larkvote (Type.tree) in which ArrayType is written as a plain reg"""
    h = t[0]
    P = [[hexb(e[1]), model_json(e[2])] for e in t[1]]
    ts = hexb(t[2])
    if h == 'num':
        return ['num', P, ts, bytes(int(x) for x in t[3]).decode('ascii')]
    if h == 'unk':
        return ['unk', P, ts]
    if h in ('list', 'opt'):
        return [h, P, ts, model_tree(t[3])]
    if h == 'reg':
        return ['reg', P, ts, t[3], model_tree(t[4])]
    if h == 'rec':
        keys = None if t[3] == 'none' else [hexb(k) for k in t[3][1:]]
        return ['rec', P, ts, keys, [model_tree(x) for x in t[4]]]
    if h == 'union':
        return ['union', P, ts, [model_tree(x) for x in t[3]]]
    raise ValueError('type tree: %r' % (h,))


def oracle_tree(t):
    """larkvote's tree with ArrayType(T, n) written the way the model writes it: a parameterless reg"""
    h = t[0]
    if h == 'array':
        return ['reg', [], '', t[1], oracle_tree(t[2])]
    if h in ('num', 'unk'):
        return t
    if h in ('list', 'opt'):
        return [h, t[1], t[2], oracle_tree(t[3])]
    if h == 'reg':
        return ['reg', t[1], t[2], t[3], oracle_tree(t[4])]
    if h in ('rec', 'union'):
        return t[:-1] + [[oracle_tree(x) for x in t[-1]]]
    raise ValueError('oracle tree: %r' % (h,))


def tree_nodes(t):
    h = t[0]
    if h in ('num', 'unk'):
        return 1
    if h in ('rec', 'union'):
        return 1 + sum(tree_nodes(x) for x in t[-1])
    return 1 + tree_nodes(t[-1])


def tree_sizes(t):
    """all regular sizes in a canonical tree"""
    h = t[0]
    if h in ('num', 'unk'):
        return []
    if h in ('rec', 'union'):
        return [n for x in t[-1] for n in tree_sizes(x)]
    return ([int(t[3])] if h == 'reg' else []) + tree_sizes(t[-1])


def lark_model_verdict(o, m):
    """o: larkvote's result for one mode; m: typerun's larkparse answer for the same mode.
    -> (verdict, detail); verdict: 'accept' | 'reject' (agreement) | 'deviation:<name>' (known, counted) | 'diff' | 'bad'"""
    if m is None or m.startswith('bad'):
        return 'bad', 'model runner: %s' % m
    if m.startswith('err'):
        if m != 'err value':
            return 'bad', 'lark_parse ends with %r (only Err EValue stands for an exception)' % m
        if not o.get('ok'):
            return 'reject', ''
        return 'diff', 'the parser accepts (%s), the model rejects' % o.get('str')
    d = fields(sx_parse('(' + m[3:] + ')'))
    mt = model_tree(d['tree'][0])
    marr = d['array'] == ['1']
    if d['lp'] != ['oob' if marr else 'ok']:
        return 'bad', 'lark_parse and lark_parse_full disagree: lp %s array %s' % (d['lp'], d['array'])
    if not o.get('ok'):
        if o.get('exc') == 'TypeError' and any(not (-2 ** 63 <= n < 2 ** 63) for n in tree_sizes(mt)):
            return 'deviation:size-beyond-int64', ''
        return 'diff', 'the parser raises %s, the model accepts and prints %r' % (o.get('exc'), unb(d['printed'][0]))
    ot = oracle_tree(o['tree'])
    if ot != mt:
        return 'diff', 'different types: parser %s, model %s (parser prints %r, model %r)' % (
            json.dumps(ot), json.dumps(mt), o.get('str'), unb(d['printed'][0]))
    if bool(o.get('arraytype')) != marr:
        return 'diff', 'ArrayType occurs: parser %s, model %s' % (o.get('arraytype'), marr)
    return 'accept', ot


# ===================================================================== run
def known_sig(sig):
    return sig is not None and any(k.get('signature') == sig and k.get('status') != 'fixed' for k in KNOWN17)


def run(cases, tier, rng):
    t0 = time.time()
    lark_cases = [c for c in cases if c.meta.get('kind') == 'lark']
    cases = [c for c in cases if c.meta.get('kind') != 'lark']
    lines = [c.line() for c in cases]
    impl, errs = C.run_driver(lines, drv='typedrv', san=False) if lines else ({}, {})
    C.log('implementation: %d cases in %.1fs' % (len(lines), time.time() - t0))
    if tier == 'thorough' and os.path.exists(os.path.join(C.SAN, 'typedrv')):
        t1 = time.time()
        impl_san, errs_san = C.run_driver(lines, drv='typedrv', san=True)
        C.log('implementation (ASan+UBSan): %.1fs' % (time.time() - t1))
    else:
        impl_san, errs_san = None, {}

    verd, dist, samples, distinct = {}, {}, [], set()
    findings = []
    corr = {'corr:type': True, 'corr:form-json': True, 'corr:fromjson-accepts': True, 'corr:depth-queries': True,
            'corr:element-types': True, 'corr:theorem-instances': True, 'corr:type-parse': True,
            'corr:lark-parser': True, 'corr:lark-model': True}
    stats = dict(lark_model={}, roundtrip_outside_fragment=0, lark_strings=0, lark_ok=0, lark_fail={}, roundtrip_fail={}, model_parse={}, elems=0, ranges=0,
                 accepted_forms=0, rejected_forms=0, san_cases=0)

    def add(kind, c, what, sig=None, extra=None, obl=None):
        verd[kind] = verd.get(kind, 0) + 1
        if kind in ('agree', 'skip'):
            return
        no_input = kind in ('modeldiff', 'bad')
        if obl and not known_sig(sig):
            corr[obl] = False
        findings.append(dict(kind=kind, what=what, case_lines=[c.line()] + ['# ' + x for x in (extra or [])],
                             signature=sig, no_input=no_input, size=len(c.line())))

    # ---- model lines
    mlines = []
    parsed = {}
    for c in cases:
        r = impl.get(c.id, 'crash missing')
        if impl_san is not None:
            rs = impl_san.get(c.id, 'crash missing')
            stats['san_cases'] += 1
            if rs.startswith('crash') or rs.startswith('timeout'):
                r = rs
                errs[c.id] = errs_san.get(c.id, '')
        impl[c.id] = r
        kind = c.meta.get('kind')
        if kind == 'core':
            mlines.append('(%s describe %s %s)' % (c.id, c.args[0], c.layouts[0]))
        elif kind == 'ext':
            if r.startswith('ok '):
                try:
                    d = fields(sx_parse(r[3:]))
                    parsed[c.id] = d
                    mlines.append('(%s fromjson %s %s)' % (c.id, c.args[0], bsx(unb(d['form'][0]))))
                except (ValueError, KeyError, IndexError):
                    pass
        else:
            mlines.append('(%s fromjson %s %s)' % (c.id, c.args[0], c.args[1]))
    t1 = time.time()
    model = run_typerun(mlines)
    C.log('model: %d lines in %.1fs' % (len(mlines), time.time() - t1))

    type_strings = {}     # bytes -> case (first seen)

    for c in cases:
        r = impl[c.id]
        m = model.get(c.id)
        kind = c.meta.get('kind')
        for k2, v2 in (c.meta.get('tags') or {}).items():
            dist.setdefault(k2, {})
            dist[k2][str(v2)] = dist[k2].get(str(v2), 0) + 1
        if r.startswith('crash') or r.startswith('timeout'):
            add('crash', c, '%s: implementation crashed / hung (%s)' % (c.op, r), sig=None,
                extra=['stderr: ' + errs.get(c.id, '')[-800:].replace('\n', '\n# ')], obl='corr:type')
            continue
        if r.startswith('bad'):
            add('bad', c, 'driver could not evaluate the case: ' + r[:300], obl='corr:type')
            continue
        odd = bool(c.meta.get('oddnum'))
        if r.startswith('err runtime') and odd:
            # io/json.cpp copyjson: an integer parameter beyond int32 is "unrecognized JSON element type"
            add('viol', c, '%s: Form::tojson raises runtime_error for a form whose parameters hold an integer beyond int32'
                % c.op, sig='form-json-parameter-numbers', obl='corr:form-json')
            continue
        if m is None or m.startswith('bad'):
            if kind == 'ext' and c.id not in parsed:
                add('bad', c, 'implementation output not understood: ' + r[:200], obl='corr:type')
            else:
                add('bad', c, 'model could not evaluate the case: ' + str(m)[:300], obl='corr:type')
            continue
        # ---------------- accept / reject
        odd = bool(c.meta.get('oddnum'))
        if r.startswith('err'):
            if kind == 'form':
                stats['rejected_forms'] += 1
                if m.startswith('err'):
                    add('agree', c, '')
                else:
                    add('modeldiff', c, 'Form::fromjson rejects a text the model accepts (%s)' % r,
                        extra=['model: ' + m[:400]], obl='corr:fromjson-accepts')
            else:
                add('viol', c, 'describe raised %s on a generated layout' % r, obl='corr:type')
            continue
        if m.startswith('err'):
            add('modeldiff', c, 'Form::fromjson accepts a text the model rejects', extra=['impl: ' + r[:400]],
                obl='corr:fromjson-accepts')
            continue
        try:
            I = parsed.get(c.id) or fields(sx_parse(r[3:]))
            M = fields(sx_parse('(' + m[3:] + ')'))
        except ValueError as e:
            add('bad', c, 'unparsable result: %s' % e, obl='corr:type')
            continue
        if kind == 'form':
            stats['accepted_forms'] += 1
        problems = []       # (kind, what, sig, obligation)

        def b(d, k, i=0):
            return unb(d[k][i]) if k in d else None

        # ---------------- types
        itype = b(I, 'type') if kind != 'form' else b(I, 'ftype')
        if kind != 'form' and b(I, 'type') != b(I, 'ftype'):
            problems.append(('viol', 'type from the array %r differs from type from its form %r' % (b(I, 'type'), b(I, 'ftype')), None, 'corr:type'))
        mtype = b(M, 'type') if kind == 'core' else b(M, 'ftype')
        if itype != mtype and kind == 'ext' and odd:
            # the model reads this layout through the implementation's form JSON, in which copyjson has already
            # damaged the numbers: nothing to compare the type string with
            problems.append(('viol', 'type string %r has parameter numbers the form JSON %r no longer has' % (itype, b(I, 'form')),
                             'form-json-parameter-numbers', 'corr:form-json'))
        elif itype != mtype:
            problems.append(('modeldiff', 'type string: implementation %r, model %r' % (itype, mtype), None, 'corr:type'))
        if kind == 'core' and b(M, 'type') != b(M, 'ftype'):
            problems.append(('bad', 'model: type of array and of form differ', None, 'corr:theorem-instances'))
        # ---------------- form JSON
        for key in ('form', 'formv'):
            if b(I, key) != b(M, key) and odd:
                problems.append(('viol', '%s JSON: parameter numbers are not copied faithfully (copyjson truncates doubles to '
                                 'integers): implementation %r, expected %r' % (key, b(I, key), b(M, key)),
                                 'form-json-parameter-numbers', 'corr:form-json'))
                break
            if b(I, key) != b(M, key):
                same = False
                try:
                    same = json.loads(b(I, key).decode('utf-8', 'surrogateescape')) == json.loads(b(M, key).decode('utf-8', 'surrogateescape'))
                except (ValueError, AttributeError):
                    pass
                problems.append(('modeldiff', '%s JSON differs%s: implementation %r, model %r' % (
                    key, ' in formatting only' if same else '', b(I, key), b(M, key)), None, 'corr:form-json'))
        # Form -> JSON -> Form
        rt_ok = (b(I, 'form2') == b(I, 'form') and b(I, 'formv2') == b(I, 'form') and b(I, 'ftype2') == b(I, 'ftype'))
        if rt_ok and (I.get('equal') != ['11'] or I.get('equalv') != ['1']):
            if has_duplicate_keys(b(I, 'form')):
                # RecordForm::equal looks fields up by name: with a repeated field name it is not even reflexive
                stats['equal_skipped_duplicate_record_keys'] = stats.get('equal_skipped_duplicate_record_keys', 0) + 1
            else:
                rt_ok = False
        m_rt = M.get('rt') == ['11']
        m_wf = M.get('wf') == ['1']
        if m_wf and not m_rt:
            problems.append(('bad', 'model: a well-formed form does not survive the model\'s own JSON round trip', None,
                             'corr:theorem-instances'))
        if not rt_ok:
            sig = form_signature(b(I, 'form').decode('utf-8', 'replace'))
            if odd and m_rt:
                sig = 'form-json-parameter-numbers'
            stats['roundtrip_fail'][str(sig)] = stats['roundtrip_fail'].get(str(sig), 0) + 1
            if not m_rt and sig != 'form-roundtrip-noncanonical-format':
                # outside the fragment of forms that describe an existing node class (form_wf): the model predicts
                # the same failure; counted, not a verdict
                stats['roundtrip_outside_fragment'] = stats.get('roundtrip_outside_fragment', 0) + 1
            else:
                problems.append(('viol', 'Form -> JSON -> Form does not give the form back: json %r reparsed %r equal %s (verbose: %r, %s) '
                                 'type after %r; model predicts round trip %s' % (
                                     b(I, 'form'), b(I, 'form2'), I.get('equal'), b(I, 'formv2'), I.get('equalv'),
                                     b(I, 'ftype2'), 'ok' if m_rt else 'failure'), sig, 'corr:form-json'))
        elif not m_rt:
            # only outside form_wf (checked above): the model compares forms structurally, Form::equal and the JSON
            # text do not show e.g. an itemsize that contradicts the format of a NumpyForm printed as "bool"
            stats['roundtrip_outside_fragment'] += 1
        # ---------------- depth queries
        idepths = [I.get('fdepth')] + ([I.get('depth')] if kind != 'form' else [])
        if kind != 'form' and I.get('depth') != I.get('fdepth'):
            problems.append(('viol', 'depth/field queries on the array %s differ from those on its form %s' % (
                I.get('depth'), I.get('fdepth')), None, 'corr:depth-queries'))
        mdepths = [M.get('fdepth')] + ([M.get('depth')] if kind == 'core' else [])
        if any(x != idepths[0] for x in mdepths):
            problems.append(('modeldiff', 'depth/field queries: implementation %s, model %s' % (idepths[0], mdepths),
                             None, 'corr:depth-queries'))
        # ---------------- ranges / elements
        if kind != 'form':
            for e in I.get('ranges', []):
                stats['ranges'] += 1
                if unb(e[3]) != itype:
                    problems.append(('viol', 'getitem_range(%s, %s) has type %r, the array %r' % (e[0], e[1], unb(e[3]), itype),
                                     None, 'corr:element-types'))
                    break
            items = M.get('items', [[]])[0]
            allowed = set()
            if isinstance(items, list):
                for it in items:
                    allowed.add('none' if it == 'none' else (it[0], unb(it[1])))
            for e in I.get('elems', []):
                stats['elems'] += 1
                key = 'none' if e == 'none' else (e[0], unb(e[1]))
                if key not in allowed:
                    problems.append(('viol', 'element %r is not of an item type the array type %r promises (%s)' % (
                        key, itype, sorted(map(str, allowed))), None, 'corr:element-types'))
                    break
        # ---------------- theorem instances evaluated by the model on this input
        if kind == 'core':
            if I.get('valid') not in (M.get('valid'), ['skipped'], ['err']):
                problems.append(('skipnote', 'validity differs (C11 domain)', None, None))
            elif M.get('valid') == ['1']:
                if M.get('erase') != ['1'] or M.get('typed') != ['11'] or M.get('ranges') != ['1'] or M.get('npok') != ['1']:
                    problems.append(('bad', 'a proved statement evaluates to false on this input: erase %s typed %s ranges %s npok %s' % (
                        M.get('erase'), M.get('typed'), M.get('ranges'), M.get('npok')), None, 'corr:theorem-instances'))
        pv = (M.get('parse') or ['?'])[0]
        stats['model_parse'][pv] = stats['model_parse'].get(pv, 0) + 1
        if pv.startswith('BAD'):
            problems.append(('bad', 'model: type_parse (type_tostring t) <> t on a printable type (%s)' % pv, None, 'corr:type-parse'))
        # ---------------- collect type strings for the parsers
        if itype == mtype and isinstance(itype, bytes) and itype not in type_strings:
            type_strings[itype] = (c, [x for x in M.get('feat', []) if isinstance(x, str)])
        real = [p for p in problems if p[0] != 'skipnote']
        if not real:
            add('agree', c, '')
            if c.meta.get('nontrivial', True):
                distinct.add(c.body())
                if len(samples) < 6:
                    samples.append(c.line()[:400])
        else:
            for (k, what, sig, obl) in real[:2]:
                add(k, c, '%s: %s' % (c.op, what), sig=sig, obl=obl, extra=['impl: ' + r[:1500], 'model: ' + m[:1500]])

    # ---------------- type strings: model's parser and the repository's parser
    strs = sorted(type_strings)
    rng.shuffle(strs)
    limit = 2500 if tier == 'quick' else 40000
    strs = strs[:limit]
    t2 = time.time()
    pm = run_typerun(['(p%d parsetype %s)' % (i, bsx(s)) for i, s in enumerate(strs)])
    mparse_ok = 0
    for i, s in enumerate(strs):
        o = pm.get('p%d' % i, 'bad')
        if o.startswith('ok'):
            d = fields(sx_parse('(' + o[3:] + ')'))
            if unb(d['printed'][0]) == s:
                mparse_ok += 1
            else:
                add('bad', type_strings[s][0], 'model type_parse of %r prints back as %r' % (s, unb(d['printed'][0])), obl='corr:type-parse')
    stats['model_parse_strings'] = dict(total=len(strs), parsed_back_identically=mparse_ok)
    lstrs = [c.meta['s'] for c in lark_cases]
    all_strs = strs + lstrs
    lres = run_lark(all_strs)
    if lres is None:
        corr['corr:lark-parser'] = False
        corr['corr:lark-model'] = False
        add('bad', (cases + lark_cases)[0], 'the Lark parser voter could not be run', obl='corr:lark-parser')
    else:
        for s, res in zip(strs, lres):
            stats['lark_strings'] += 1
            good = any(res[k].get('ok') and res[k].get('same') and not res[k].get('arraytype') for k in ('ll', 'hl'))
            if good:
                stats['lark_ok'] += 1
                continue
            c, feats = type_strings[s]
            sig = lark_signature(s, res, feats)
            if sig == 'skip':
                stats['lark_skipped_custom_typestr'] = stats.get('lark_skipped_custom_typestr', 0) + 1
                continue
            stats['lark_fail'][str(sig)] = stats['lark_fail'].get(str(sig), 0) + 1
            add('viol', c, 'from_datashape: the type string %r printed by the implementation does not come back: low-level %s, high-level %s'
                % (s, {k: v for k, v in res['ll'].items() if k != 'tree'}, {k: v for k, v in res['hl'].items() if k != 'tree'}),
                sig=sig, obl='corr:lark-parser')
        C.log('parsers: %d strings in %.1fs (lark ok %d)' % (len(strs), time.time() - t2, stats['lark_ok']))
        # ---------------- the Rocq model of the parser (Lark.v) against the parser, on the same strings and on the
        # strings built from the grammar: same object tree or both reject, in both modes
        t3 = time.time()
        ml = []
        for i, s in enumerate(all_strs):
            ml.append('(m%d-0 larkparse 0 %s)' % (i, bsx(s)))
            ml.append('(m%d-1 larkparse 1 %s)' % (i, bsx(s)))
        lm = run_typerun(ml)
        lms = stats['lark_model']
        for src in ('printed', 'grammar'):
            lms[src] = dict(strings=0, comparisons=0, agree_accept=0, agree_reject=0, accepted_in_some_mode=0, known_deviation={},
                            differ=0, bad=0)
        diffs = []
        for i, s in enumerate(all_strs):
            if i < len(strs):
                c, src = lark_case('T%d' % i, s, 'printed'), 'printed'
            else:
                c, src = lark_cases[i - len(strs)], 'grammar'
                for k2, v2 in (c.meta.get('tags') or {}).items():
                    dist.setdefault(k2, {})
                    dist[k2][str(v2)] = dist[k2].get(str(v2), 0) + 1
            st = lms[src]
            st['strings'] += 1
            allok, nodes, some = True, 0, False
            for mode, key in ((0, 'll'), (1, 'hl')):
                st['comparisons'] += 1
                try:
                    v, detail = lark_model_verdict(lres[i][key], lm.get('m%d-%d' % (i, mode)))
                except (ValueError, KeyError, IndexError, TypeError) as e:
                    v, detail = 'bad', 'results not understood: %r' % (e,)
                if v == 'accept':
                    st['agree_accept'] += 1
                    nodes = max(nodes, tree_nodes(detail))
                    some = True
                    add('agree', c, '')
                elif v == 'reject':
                    st['agree_reject'] += 1
                    add('agree', c, '')
                elif v.startswith('deviation:'):
                    st['known_deviation'][v[10:]] = st['known_deviation'].get(v[10:], 0) + 1
                    add('skip', c, '')
                    allok = False
                else:
                    allok = False
                    st['differ' if v == 'diff' else 'bad'] += 1
                    diffs.append((len(s), s, key, detail))
                    if v == 'diff':
                        add('modeldiff', c, 'model of the type-string parser (Lark.v lark_parse_full) and from_datashape differ '
                            '(high_level=%s) on %r: %s' % (bool(mode), s, detail), obl='corr:lark-model',
                            extra=['parser: ' + json.dumps(lres[i][key])[:1500], 'model: ' + str(lm.get('m%d-%d' % (i, mode)))[:1500]])
                    else:
                        add('bad', c, 'model of the type-string parser: %s (high_level=%s, %r)' % (detail, bool(mode), s),
                            obl='corr:lark-model')
            if some:
                st['accepted_in_some_mode'] += 1
            if allok and some and nodes >= 2 and src == 'grammar':
                distinct.add(c.body())
        diffs.sort()
        stats['lark_model_differences'] = [dict(string=d[1].decode('utf-8', 'replace'), mode=d[2], detail=d[3][:600]) for d in diffs[:25]]
        C.log('parser model: %d strings x 2 modes in %.1fs: %s' % (len(all_strs), time.time() - t3, json.dumps(lms)))

    # keep the smallest representative per (kind, signature / first words)
    best = {}
    for f in findings:
        key = (f['kind'], str(f['signature']) if f['signature'] else f['what'][:60])
        if key not in best or f['size'] < best[key]['size']:
            best[key] = f
    fl = sorted(best.values(), key=lambda f: (f.get('no_input', False), f['size']))
    return dict(findings=fl, corr_obligations=corr, evaluations=len(cases) + len(strs) + len(lark_cases), distinct_nontrivial=len(distinct),
                samples=samples, distribution=dist, verdicts=verd, extra=dict(c17=stats))
