(** C08 property theorems (statements only; proofs are in Proofs_C08.v). *)
From AwkV Require Import Base Layout Valid Types Carry.
From AwkMerge Require Import Merge Proofs_C08.

Theorem promotion_table_is_numpy : forall a b, promote a b = numpy_promote a b.
Proof. exact promotion_table_is_numpy_pf. Qed.
Print Assumptions promotion_table_is_numpy.
