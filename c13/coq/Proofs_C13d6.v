(** Proofs_C13d6.v -- k_width for the width-parametric kfill-shaped kernels whose k_safe / k_spec are in Proofs_C13.v:
    every specialisation agrees with the ideal (unbounded) one on inputs representable in it *)
From Coq Require Import ZArith List Bool Lia ZifyBool.
From AwkV Require Import Base.
From AwkKernels Require Import Kernels KLemmas Proofs_C13 Proofs_C13b Proofs_C13c Proofs_C13d.
Import ListNotations.
Open Scope Z_scope.

Ltac Zify.zify_post_hook ::= Z.to_euclidean_division_equations.

Theorem ListOffsetArray_flatten_offsets_width tT tooffsets outer outerlen inner :
  outerlen <= zlen outer ->
  (forall i, 0 <= i < outerlen -> 0 <= at_ outer i < zlen inner /\ fits tT (at_ inner (at_ outer i))) ->
  ListOffsetArray_flatten_offsets tT tooffsets outer outerlen inner
  = ListOffsetArray_flatten_offsets TIdeal tooffsets outer outerlen inner.
Proof.
  intros H1 Hf. unfold ListOffsetArray_flatten_offsets. apply kfill_ext. intros i Hi.
  destruct (Hf i Hi) as (B & F). rewrite (kget_at outer) by lia. cbn [kbind].
  rewrite (kget_at inner) by lia. cbn [kbind wrap]. now rewrite F.
Qed.

Theorem ListOffsetArray_compact_offsets_width tT tooffsets fromoffsets length :
  1 <= zlen fromoffsets -> length + 1 <= zlen fromoffsets ->
  (forall i, 0 <= i < length -> fits tT (at_ fromoffsets (i + 1) - at_ fromoffsets 0)) ->
  ListOffsetArray_compact_offsets tT tooffsets fromoffsets length
  = ListOffsetArray_compact_offsets TIdeal tooffsets fromoffsets length.
Proof.
  intros H0 H1 Hf. unfold ListOffsetArray_compact_offsets. rewrite (kget_at fromoffsets 0) by lia. cbn [kbind].
  destruct (kupd tooffsets 0 0); cbn [kbind]; auto. apply kfill_ext. intros i Hi.
  rewrite (kget_at fromoffsets) by lia. cbn [kbind wrap]. now rewrite (Hf i Hi).
Qed.

Theorem RegularArray_compact_offsets_width tT tooffsets length size :
  (forall i, 0 <= i < length -> fits tT ((i + 1) * size)) ->
  RegularArray_compact_offsets tT tooffsets length size = RegularArray_compact_offsets TIdeal tooffsets length size.
Proof.
  intros Hf. unfold RegularArray_compact_offsets. destruct (kupd tooffsets 0 0); cbn [kbind]; auto.
  apply kfill_ext. intros i Hi. cbn [wrap]. now rewrite (Hf i Hi).
Qed.

Theorem UnionArray_fillna_width tT toindex fromindex length :
  length <= zlen fromindex -> (forall i, 0 <= i < length -> fits tT (Z.max 0 (at_ fromindex i))) ->
  UnionArray_fillna tT toindex fromindex length = UnionArray_fillna TIdeal toindex fromindex length.
Proof.
  intros H Hf. unfold UnionArray_fillna. apply kfill_ext. intros i Hi.
  rewrite (kget_at fromindex) by lia. cbn [kbind wrap]. specialize (Hf i Hi).
  destruct (0 <=? at_ fromindex i) eqn:E.
  - rewrite Z.max_r in Hf by lia. now rewrite Hf.
  - rewrite Z.max_l in Hf by lia. now rewrite Hf.
Qed.

Theorem IndexedArray_fill_width tTO toindex toindexoffset fromindex length base :
  length <= zlen fromindex -> fits tTO (-1) ->
  (forall i, 0 <= i < length -> 0 <= at_ fromindex i -> fits tTO (at_ fromindex i + base)) ->
  IndexedArray_fill tTO toindex toindexoffset fromindex length base
  = IndexedArray_fill TIdeal toindex toindexoffset fromindex length base.
Proof.
  intros H F1 Hf. unfold IndexedArray_fill. apply kfill_ext. intros i Hi.
  rewrite (kget_at fromindex) by lia. cbn [kbind wrap].
  destruct (at_ fromindex i <? 0) eqn:E; [now rewrite F1|]. now rewrite (Hf i Hi) by lia.
Qed.

Theorem UnionArray_filltags_width tTO totags totagsoffset fromtags length base :
  length <= zlen fromtags -> (forall i, 0 <= i < length -> fits tTO (at_ fromtags i + base)) ->
  UnionArray_filltags tTO totags totagsoffset fromtags length base
  = UnionArray_filltags TIdeal totags totagsoffset fromtags length base.
Proof.
  intros H Hf. unfold UnionArray_filltags. apply kfill_ext. intros i Hi.
  rewrite (kget_at fromtags) by lia. cbn [kbind wrap]. now rewrite (Hf i Hi).
Qed.

Theorem UnionArray_fillindex_width tTO toindex toindexoffset fromindex length :
  length <= zlen fromindex -> (forall i, 0 <= i < length -> fits tTO (at_ fromindex i)) ->
  UnionArray_fillindex tTO toindex toindexoffset fromindex length
  = UnionArray_fillindex TIdeal toindex toindexoffset fromindex length.
Proof.
  intros H Hf. unfold UnionArray_fillindex. apply kfill_ext. intros i Hi.
  rewrite (kget_at fromindex) by lia. cbn [kbind wrap]. now rewrite (Hf i Hi).
Qed.

Theorem ListArray_getitem_next_at_width tT tC tocarry starts stops lenstarts at0 :
  lenstarts <= zlen starts -> lenstarts <= zlen stops ->
  (forall i, 0 <= i < lenstarts ->
     fits tC (at_ stops i - at_ starts i) /\
     fits tT (at_ starts i + (if at0 <? 0 then at0 + (at_ stops i - at_ starts i) else at0))) ->
  ListArray_getitem_next_at tT tC tocarry starts stops lenstarts at0
  = ListArray_getitem_next_at TIdeal TIdeal tocarry starts stops lenstarts at0.
Proof.
  intros H1 H2 Hf. unfold ListArray_getitem_next_at. apply kfill_ext. intros i Hi.
  rewrite (kget_at starts), (kget_at stops) by lia. cbn [kbind wrap]. cbv zeta.
  destruct (Hf i Hi) as (F1 & F2). rewrite F1.
  destruct (kcheck _ MIndexOutOfRange); cbn [kbind]; auto. unfold fits in F1. rewrite ?F1. now rewrite F2.
Qed.

Theorem RegularArray_broadcast_tooffsets_width tT fromoffsets offsetslength size :
  offsetslength <= zlen fromoffsets ->
  (forall i, 0 <= i < offsetslength - 1 -> fits tT (at_ fromoffsets (i + 1) - at_ fromoffsets i)) ->
  RegularArray_broadcast_tooffsets tT fromoffsets offsetslength size
  = RegularArray_broadcast_tooffsets TIdeal fromoffsets offsetslength size.
Proof.
  intros H Hf. unfold RegularArray_broadcast_tooffsets, kchecks. apply kfor_ext. intros i [] Hi.
  rewrite (kget_at fromoffsets (i + 1)), (kget_at fromoffsets i) by lia. cbn [kbind wrap]. cbv zeta. rewrite !(Hf i) by lia. reflexivity.
Qed.

Theorem ListArray_compact_offsets_width tT tC tooffsets starts stops length :
  length <= zlen starts -> length <= zlen stops -> length + 1 <= zlen tooffsets ->
  (forall i, 0 <= i < length -> fits tC (at_ stops i - at_ starts i)) ->
  (forall k, (k <= Z.to_nat length)%nat -> fits tT (count_sum starts stops k)) ->
  (forall i, 0 <= i < length -> at_ starts i <= at_ stops i) ->
  ListArray_compact_offsets tT tC tooffsets starts stops length
  = ListArray_compact_offsets TIdeal TIdeal tooffsets starts stops length.
Proof.
  intros H1 H2 H3 Fc Ft Hm. unfold ListArray_compact_offsets.
  destruct (kupd tooffsets 0 0) as [out0| |] eqn:U0; cbn [kbind]; auto.
  destruct (kupd_at _ _ _ _ U0) as (L0 & A0).
  assert (G : forall m i0 o, 0 <= i0 -> i0 + Z.of_nat m <= length -> zlen o = zlen tooffsets ->
            at_ o i0 = count_sum starts stops (Z.to_nat i0) ->
            kfor_nat m i0 (fun i out => let* start := kget starts i in let* stop := kget stops i in
                let* _ := kcheck (stop <? start) MStopsLtStarts in let* prev := kget out i in
                kupd out (i + 1) (wrap tT (prev + wrap tC (stop - start)))) o
            = kfor_nat m i0 (fun i out => let* start := kget starts i in let* stop := kget stops i in
                let* _ := kcheck (stop <? start) MStopsLtStarts in let* prev := kget out i in
                kupd out (i + 1) (wrap TIdeal (prev + wrap TIdeal (stop - start)))) o).
  { induction m; intros i0 o Hi Hm' Lo Ao; cbn [kfor_nat]; auto.
    rewrite (kget_at starts), (kget_at stops) by lia. cbn [kbind].
    destruct (kcheck (at_ stops i0 <? at_ starts i0) MStopsLtStarts); cbn [kbind]; auto.
    rewrite (kget_at o) by lia. cbn [kbind wrap]. rewrite (Fc i0) by lia.
    assert (CS : count_sum starts stops (Z.to_nat (i0 + 1)) = at_ o i0 + (at_ stops i0 - at_ starts i0)).
    { replace (Z.to_nat (i0 + 1)) with (S (Z.to_nat i0)) by lia.
      rewrite count_sum_S by (unfold zlen in *; lia). rewrite Z2Nat.id by lia. now rewrite Ao. }
    rewrite <- CS. rewrite (Ft (Z.to_nat (i0 + 1))) by lia.
    destruct (kupd o (i0 + 1) _) as [o1| |] eqn:U; cbn [kbind]; auto.
    destruct (kupd_at _ _ _ _ U) as (L1 & A1).
    apply IHm; try lia. rewrite A1 by lia. now rewrite Z.eqb_refl. }
  unfold kfor. destruct (Z_le_gt_dec length 0).
  - replace (Z.to_nat (length - 0)) with O by lia. reflexivity.
  - apply G; try lia. rewrite A0 by lia. reflexivity.
Qed.

(* ---- kernels of Proofs_C13c.v / Proofs_C13d.v whose wrapped values depend on the inputs only *)
Theorem ListArray_getitem_carry_width tC tostarts tostops starts stops fromcarry lenstarts lencarry :
  lencarry <= zlen fromcarry -> lenstarts <= zlen starts -> lenstarts <= zlen stops ->
  (forall i, 0 <= i < lencarry -> 0 <= at_ fromcarry i) ->
  (forall c, 0 <= c < lenstarts -> fits tC (at_ starts c) /\ fits tC (at_ stops c)) ->
  ListArray_getitem_carry tC tostarts tostops starts stops fromcarry lenstarts lencarry
  = ListArray_getitem_carry TIdeal tostarts tostops starts stops fromcarry lenstarts lencarry.
Proof.
  intros H1 H2 H3 Hc Hf. unfold ListArray_getitem_carry. apply kfor_ext. intros j [ts tp] Hj.
  rewrite (kget_at fromcarry) by lia. cbn [kbind]. specialize (Hc j Hj).
  destruct (lenstarts <=? at_ fromcarry j) eqn:E; cbn [kcheck kbind]; auto.
  rewrite (kget_at starts), (kget_at stops) by lia. cbn [kbind wrap].
  destruct (Hf (at_ fromcarry j) ltac:(lia)) as (F1 & F2). now rewrite F1, F2.
Qed.

Theorem ListArray_min_range_width tC tomin starts stops lenstarts :
  1 <= zlen starts -> 1 <= zlen stops -> lenstarts <= zlen starts -> lenstarts <= zlen stops ->
  (forall i, 0 <= i < Z.max 1 lenstarts -> fits tC (at_ stops i - at_ starts i)) ->
  ListArray_min_range tC tomin starts stops lenstarts = ListArray_min_range TIdeal tomin starts stops lenstarts.
Proof.
  intros H0 H0' H1 H2 Hf. unfold ListArray_min_range.
  rewrite (kget_at starts 0), (kget_at stops 0) by lia. cbn [kbind wrap]. rewrite (Hf 0) by lia.
  f_equal. apply kfor_ext. intros i s Hi. rewrite (kget_at starts), (kget_at stops) by lia. cbn [kbind wrap]. cbv zeta.
  rewrite !(Hf i) by lia. reflexivity.
Qed.

Theorem ListArray_rpad_and_clip_length_axis1_width tC tomin starts stops target lenstarts :
  lenstarts <= zlen starts -> lenstarts <= zlen stops ->
  (forall i, 0 <= i < lenstarts -> fits tC (at_ stops i - at_ starts i)) ->
  ListArray_rpad_and_clip_length_axis1 tC tomin starts stops target lenstarts
  = ListArray_rpad_and_clip_length_axis1 TIdeal tomin starts stops target lenstarts.
Proof.
  intros H1 H2 Hf. unfold ListArray_rpad_and_clip_length_axis1.
  f_equal. apply kfor_ext. intros i s Hi. rewrite (kget_at starts), (kget_at stops) by lia. cbn [kbind wrap]. cbv zeta.
  rewrite !(Hf i) by lia. reflexivity.
Qed.

Theorem ListArray_getitem_next_range_spreadadvanced_width tC toadvanced fromadvanced fromoffsets lenstarts :
  lenstarts + 1 <= zlen fromoffsets ->
  (forall i, 0 <= i < lenstarts -> fits tC (at_ fromoffsets (i + 1) - at_ fromoffsets i)) ->
  ListArray_getitem_next_range_spreadadvanced tC toadvanced fromadvanced fromoffsets lenstarts
  = ListArray_getitem_next_range_spreadadvanced TIdeal toadvanced fromadvanced fromoffsets lenstarts.
Proof.
  intros H1 Hf. unfold ListArray_getitem_next_range_spreadadvanced. apply kfor_ext. intros i s Hi.
  rewrite (kget_at fromoffsets (i + 1)), (kget_at fromoffsets i) by lia. cbn [kbind wrap]. cbv zeta.
  rewrite !(Hf i) by lia. reflexivity.
Qed.

Theorem ListArray_getitem_next_range_carrylength_width tC carrylength starts stops lenstarts start stop step :
  lenstarts <= zlen starts -> lenstarts <= zlen stops ->
  (forall i, 0 <= i < lenstarts -> fits tC (at_ stops i - at_ starts i)) ->
  ListArray_getitem_next_range_carrylength tC carrylength starts stops lenstarts start stop step
  = ListArray_getitem_next_range_carrylength TIdeal carrylength starts stops lenstarts start stop step.
Proof.
  intros H1 H2 Hf. unfold ListArray_getitem_next_range_carrylength.
  destruct (kupd carrylength 0 0); cbn [kbind]; auto. apply kfor_ext. intros i s Hi.
  rewrite (kget_at starts), (kget_at stops) by lia. cbn [kbind wrap]. cbv zeta. rewrite !(Hf i) by lia. reflexivity.
Qed.

Theorem RegularArray_broadcast_tooffsets_size1_width tT tocarry fromoffsets offsetslength :
  offsetslength <= zlen fromoffsets ->
  (forall i, 0 <= i < offsetslength - 1 -> fits tT (at_ fromoffsets (i + 1) - at_ fromoffsets i) /\ fits tT i) ->
  RegularArray_broadcast_tooffsets_size1 tT tocarry fromoffsets offsetslength
  = RegularArray_broadcast_tooffsets_size1 TIdeal tocarry fromoffsets offsetslength.
Proof.
  intros H1 Hf. unfold RegularArray_broadcast_tooffsets_size1. f_equal. apply kfor_ext. intros i s Hi.
  rewrite (kget_at fromoffsets (i + 1)), (kget_at fromoffsets i) by lia. cbn [kbind wrap]. cbv zeta.
  destruct (Hf i Hi) as (F1 & F2). unfold fits in F1, F2. rewrite !F1, ?F2. reflexivity.
Qed.
