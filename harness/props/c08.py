"""C08: concatenation keeps every element; merging and simplifying never change a value.

Implementation side: impl/drv/mergedrv.cpp (concat = transcription of the axis=0 branch of ak.concatenate, mergemany,
mergeable, merge_as_union, simplify_optiontype, simplify_uniontype, numbers_to_type).  Model side: c08/coq/Merge.v
extracted into .build/c08/mergerun.  NumPy voter for the promotion lattice: python3-vt (numpy.result_type)."""
import hashlib
import json
import os
import re
import subprocess
import time

import common as C
import gen as G

THEOREMS = ['promotion_table_is_numpy',
            'fill_ok_promote',
            'mergemany_app_partial',
            'mergemany_valid_partial',
            'mergemany_dtype_partial',
            'concat_app_partial',
            'mergemany_option_mix_partial',
            'merge_as_union_app',
            'merge_as_union_valid',
            'simplify_option_value',
            'simplify_option_flat',
            'simplify_union_value_partial',
            'astype_only_casts_partial',
            'mergemany_records_partial',
            'trim_takes_prefix',
            'mergemany_union_first',
            'mergemany_union_first_valid',
            'mergemany_union_later_partial',
            'simplify_union_false_total_partial',
            'concat_two_different',
            'concat_group_then_different_partial',
            'simplify_union_single',
            'simplify_union_merge_distinct',
            'simplify_union_merge_partial',
            'simplify_union_merge_nobool_partial',
            'simplify_union_false_frag_total_partial',
            'astype_only_casts',
            'astype_frag_of_valid',
            'astype_only_casts_valid']
DRIVERS = ('mergedrv',)
NEEDS_SAN = True
COQ_DIR = '/verif/c08/coq'
COQ_LOGICAL = '-R /verif/coq AwkV -R . AwkMerge'
CORPUS = os.path.join(C.VERIF, 'corpus', 'C08')
B = os.path.join(C.BUILD, 'c08')

PY_HALF = True     # harness/pyhalves.py: the Python-layer functions of this property under pyshim
RULE = ('2-4 value-first random layouts per case (same type re-encoded / leaf dtypes varied over all 121 ordered pairs / bool with '
        'numbers x mergebool / option with non-option / records with permuted equal names / Regular sizes equal+unequal / '
        'EmptyArray operands / genuinely different types / union operands) through concat (transcribed ak.concatenate axis=0), '
        'mergemany, mergeable, merge_as_union; hand-nested unions (nested, mergeable alternatives, unused alternatives) through '
        'simplify_uniontype x merge x mergebool; option-in-option (8 outer x 8 inner node classes) through simplify_optiontype; '
        'numbers_to_type over all 11x11 dtype pairs and nested structures. Compared: values (seen at the result type), result '
        'type against the type-level specification (NumPy promotion, same-kind types merge, others union), validity of the '
        'result (closure). non-trivial = >= 2 operands with >= 1 element each (concat/merge) or >= 1 element (others); distinct '
        'by case text')
ASSUMPTIONS = ['ak.concatenate(axis>0) and the Python wrappers are not executable here; concat is a C++ transcription of the '
               'axis=0 loop, guarded by a text hash of that block of structure.py (corr:concat-transcription)',
               'numeric leaves are integers (also in float arrays) small enough that every widening cast is exact '
               '(|x| < 2^24 when a float32 is involved, < 2^53 for float64); NaN/inf only where no cast to an integer type occurs',
               'float -> integer casts outside the target range are undefined in C and are not generated',
               'parameters other than __array__ (string/bytestring/char/byte) are not generated; __record__ names are not generated',
               'the type-level claim is not checked when an operand contains a union, an n-d NumpyArray or a __record__ name; '
               'list sizes (regular vs var) are not part of the type claim: this tree merges RegularArrays into ListArray64',
               'complex, datetime64/timedelta64, float16/float128 leaves are outside the model (11 dtypes)',
               'operands are valid layouts (validityerror == ""), except for the one nesting that simplify_optiontype / '
               'simplify_uniontype exist to remove; merging INVALID layouts is outside C08 (RecordArray::mergemany reads out of '
               'bounds when a field is shorter than the record: reported for C12)',
               'the Rocq theorems cover the same-skeleton fragment (1-d NumpyArray, ListOffset/ListArray/Regular(size<>1), the five '
               'option encodings + IndexedArray, plain operands after an option operand), merge_as_union, simplify_optiontype, '
               'simplify_uniontype(merge=False) and numbers_to_type on 1-d NumpyArray; records, unions as operands, EmptyArray '
               'operands, strings, n-d NumpyArray, reverse_merge (option operand after a plain one) and simplify_uniontype(merge=True) '
               'are tied to the implementation by the differential tests only']
TRUSTED_BASE = [
    'Rocq kernel: coqc 8.16.1; theorems in c08/coq/Props_C08.v closed under the global context (parsed on this run)',
    'extraction: ExtrOcamlBasic only, Z/positive/nat inductive; OCaml 4.13.1; reader/printer c08/ocaml/{sx,rd,mergerun}.ml',
    'C++ driver impl/drv/mergedrv.cpp + drv_common.h (layout builder/dumper); concat_axis0 there is a hand transcription of '
    'the Python loop',
    'generators / verdict logic in harness/props/c08.py and mergerun.ml; RapidJSON substitute impl/rapidjson_shim',
    'model vs code: Merge.v is a hand-written model of the C++, tied by differential testing only',
    'numpy %s (python3-vt) as third voter for the promotion lattice only',
]

NUMERIC = ['int8', 'int16', 'int32', 'int64', 'uint8', 'uint16', 'uint32', 'uint64', 'float32', 'float64']
DTS = ['bool'] + NUMERIC
UNSIGNED = {'uint8', 'uint16', 'uint32', 'uint64'}


# ---------------------------------------------------------------------------------------------- build
def build():
    r = C.sh('cd %s && ([ -f Makefile.coq ] || coq_makefile -f _CoqProject -o Makefile.coq) >/dev/null 2>&1 '
             '&& timeout 2400 make -f Makefile.coq -j8 2>&1 | tail -30' % COQ_DIR)
    if r.returncode != 0 or 'Error' in r.stdout:
        raise C.BuildError('C08 Rocq build failed:\n' + r.stdout[-3000:])
    r = C.sh('make -s -C %s/c08/ocaml VERIF=%s' % (C.VERIF, C.VERIF))
    if r.returncode != 0 or not os.path.exists(os.path.join(B, 'mergerun')):
        raise C.BuildError('mergerun build failed:\n' + r.stdout[-3000:])


# ---------------------------------------------------------------------------------------------- type helpers
def vary(rng, t, p_dt=0.6, p_opt=0.15, p_perm=0.5, dts=None):
    """a type of the same kind as t: leaf dtypes re-drawn, options added/removed, record fields permuted"""
    k = t[0]
    if k == 'leaf':
        if t[1] == 'bool':
            out = t
        elif rng.random() < p_dt:
            out = ('leaf', rng.choice(dts or NUMERIC))
        else:
            out = t
        if rng.random() < p_opt:
            return ('opt', out)
        return out
    if k == 'str':
        return t
    if k == 'list':
        out = ('list', vary(rng, t[1], p_dt, p_opt, p_perm, dts))
        if rng.random() < p_opt:
            return ('opt', out)
        return out
    if k == 'opt':
        inner = vary(rng, t[1], p_dt, 0.0, p_perm, dts)
        if inner[0] == 'opt':
            return inner
        return inner if rng.random() < 0.3 else ('opt', inner)
    if k == 'rec':
        fields = [(n, vary(rng, ft, p_dt, p_opt, p_perm, dts)) for n, ft in t[1]]
        if not t[2] and rng.random() < p_perm:
            rng.shuffle(fields)
        return ('rec', fields, t[2])
    if k == 'union':
        return t
    raise ValueError(t)


def small(v):
    """clip numeric leaves so that every widening cast stays exact"""
    if isinstance(v, bool) or v is None:
        return v
    if isinstance(v, int):
        return max(-100, min(100, v)) if abs(v) > 2 ** 20 else v
    if isinstance(v, float):
        return v
    if isinstance(v, list):
        return [small(x) for x in v]
    if isinstance(v, tuple):
        if v and v[0] == '$rec':
            return ('$rec', [small(x) for x in v[1]])
        if v and v[0] == '$un':
            return ('$un', v[1], small(v[2]))
        return v
    return v


EXT32 = {'int8': (-128, 127), 'int16': (-2 ** 15, 2 ** 15 - 1), 'int32': (-2 ** 31, 2 ** 31 - 1),
         'uint8': (0, 255), 'uint16': (0, 2 ** 16 - 1), 'uint32': (0, 2 ** 32 - 1)}


def extremes(rng, t, v):
    """leaf values of the integer dtypes up to 32 bits replaced (30 %) by the dtype's extremes: a promotion that reads a
    buffer with the wrong signedness or width shows only there (they are exact in int64 and float64)"""
    k = t[0]
    if v is None:
        return None
    if k == 'leaf':
        if t[1] in EXT32 and rng.random() < 0.3:
            return rng.choice(EXT32[t[1]])
        return v
    if k == 'list':
        return [extremes(rng, t[1], x) for x in v]
    if k == 'opt':
        return extremes(rng, t[1], v)
    if k == 'rec' and isinstance(v, tuple) and v and v[0] == '$rec':
        return ('$rec', [extremes(rng, ft, x) for (_, ft), x in zip(t[1], v[1])])
    if k == 'union' and isinstance(v, tuple) and v and v[0] == '$un':
        return ('$un', v[1], extremes(rng, t[1][v[1]], v[2]))
    return v


def mk(rng, t, n=None, special=False, enc_kw=None):
    n = rng.choice([0, 1, 2, 3, 3, 4]) if n is None else n
    vals = [small(G.gen_value(rng, t, 3, special)) for _ in range(n)]
    if rng.random() < 0.25:
        vals = [extremes(rng, t, v) for v in vals]
    enc = G.Enc(rng, **dict(dict(special=special, nd=0), **(enc_kw or {})))
    return G.encode(enc, t, vals), vals


def ty_mergeable(mb, a, b):
    """python twin of Merge.ty_mergeable (used only to classify the known EmptyArray-in-the-middle finding)"""
    if a[0] == 'union' or b[0] == 'union' or a[0] == 'unk' or b[0] == 'unk':
        return True
    if a[0] == 'opt':
        a = a[1]
    if b[0] == 'opt':
        b = b[1]
    if a[0] != b[0]:
        return False
    if a[0] == 'leaf':
        return a[1] == b[1] or mb or not (a[1] == 'bool' or b[1] == 'bool')
    if a[0] == 'str':
        return a[1] == b[1]
    if a[0] == 'list':
        return ty_mergeable(mb, a[1], b[1])
    if a[0] == 'rec':
        if a[2] != b[2] or len(a[1]) != len(b[1]):
            return False
        if a[2]:
            return all(ty_mergeable(mb, x[1], y[1]) for x, y in zip(a[1], b[1]))
        da, db = dict(a[1]), dict(b[1])
        return sorted(da) == sorted(db) and all(ty_mergeable(mb, da[k], db[k]) for k in da)
    return False


def empty_between_unmergeable(mb, types):
    """an EmptyArray strictly between two operands that are not mergeable with each other"""
    for i, t in enumerate(types):
        if t[0] != 'unk':
            continue
        left = [x for x in types[:i] if x[0] != 'unk']
        right = [x for x in types[i + 1:] if x[0] != 'unk']
        if left and right and not ty_mergeable(mb, left[-1], right[0]):
            return True
    return False


def nelems(v):
    return len(v)


# ---------------------------------------------------------------------------------------------- case generators
TKW = dict(allow_union=False)


def base_type(rng, depth=None, **kw):
    return G.gen_type(rng, rng.choice([0, 1, 1, 2, 2, 3]) if depth is None else depth, **dict(TKW, **kw))


def operands(rng, kind):
    """-> (list of (type, layout, vals), special_tags)"""
    k = rng.choice([2, 2, 3, 4])
    tags = {}
    if kind == 'same':
        t = base_type(rng, allow_union=rng.random() < 0.15)
        special = rng.random() < 0.4
        ops = []
        for _ in range(k):
            lay, vals = mk(rng, t, special=special)
            ops.append((t, lay, vals))
        return ops, tags
    if kind == 'vary':
        t = base_type(rng)
        ops = []
        for _ in range(k):
            ti = vary(rng, t)
            lay, vals = mk(rng, ti)
            ops.append((ti, lay, vals))
        return ops, tags
    if kind == 'boolnum':
        t = base_type(rng, depth=rng.choice([0, 0, 1, 2]), leaf_dtypes=['bool'], allow_str=False)
        ops = []
        for i in range(k):
            ti = vary(rng, t, dts=None) if i % 2 == 0 else _swap_bool(rng, t)
            lay, vals = mk(rng, ti)
            ops.append((ti, lay, vals))
        return ops, tags
    if kind == 'optmix':
        t = base_type(rng, allow_opt=False)
        ops = []
        for i in range(k):
            ti = ('opt', t) if rng.random() < 0.5 else t
            lay, vals = mk(rng, ti, special=False)
            ops.append((ti, lay, vals))
        return ops, tags
    if kind == 'records':
        n = rng.choice([1, 2, 2, 3])
        names = rng.sample(['a', 'b', 'c', 'x', 'y', 'pt'], n)
        istuple = rng.random() < 0.25
        t = ('rec', [(nm, base_type(rng, depth=rng.choice([0, 0, 1, 2]))) for nm in names], istuple)
        if rng.random() < 0.4:
            t = ('list', t)
        ops = []
        for _ in range(k):
            ti = vary(rng, t, p_perm=0.7)
            lay, vals = mk(rng, ti)
            ops.append((ti, lay, vals))
        return ops, tags
    if kind == 'regular':
        inner = base_type(rng, depth=rng.choice([0, 0, 1]))
        t = ('list', inner)
        ops = []
        size = rng.choice([0, 1, 2, 3])
        for i in range(k):
            ti = vary(rng, t, p_opt=0.0)
            sz = size if rng.random() < 0.7 else rng.choice([0, 1, 2, 3])
            n = rng.choice([0, 1, 2, 3])
            vals = [[small(G.gen_value(rng, ti[1], 3, False)) for _ in range(sz)] for _ in range(n)]
            enc = G.Enc(rng, nd=0, special=False, list_kinds=('reg',) if rng.random() < 0.8 else ('lo', 'la', 'reg'))
            lay = G.encode(enc, ti, vals)
            ops.append((ti, lay, vals))
        return ops, tags
    if kind == 'different':
        ops = []
        for _ in range(k):
            ti = base_type(rng, depth=rng.choice([0, 1, 1, 2]), allow_union=rng.random() < 0.2)
            lay, vals = mk(rng, ti)
            ops.append((ti, lay, vals))
        return ops, tags
    if kind == 'ndnumpy':
        dims = [rng.choice([0, 1, 2, 3]) for _ in range(rng.choice([1, 1, 2]))]
        ops = []
        for _ in range(k):
            dt = rng.choice(DTS)
            d = dims if rng.random() < 0.85 else [rng.choice([1, 2, 3]) for _ in dims]
            n = rng.choice([0, 1, 2, 3])
            cnt = n
            for x in d:
                cnt *= x
            data = [G.leaf_value(rng, dt, False) for _ in range(cnt)] + [0] * rng.choice([0, 0, 1])
            ti = ('leaf', dt)
            for x in reversed(d):
                ti = ('list', ti)
            ops.append((ti, ['np', dt, [n] + d, data], None))
        return ops, dict(nd=True)
    raise ValueError(kind)


def _swap_bool(rng, t):
    """bool leaves become a random numeric dtype"""
    k = t[0]
    if k == 'leaf':
        return ('leaf', rng.choice(NUMERIC)) if t[1] == 'bool' else t
    if k in ('list', 'opt'):
        return (k, _swap_bool(rng, t[1]))
    if k == 'rec':
        return ('rec', [(n, _swap_bool(rng, ft)) for n, ft in t[1]], t[2])
    return t


def with_empties(rng, ops, p=0.5):
    out = list(ops)
    if rng.random() < p:
        for _ in range(rng.choice([1, 1, 2])):
            out.insert(rng.randint(0, len(out)), (('unk',), ['empty'], []))
    out = out[:4]
    if empty_between_unmergeable(True, [o[0] for o in out]) and rng.random() < 0.9:
        # (the open known finding is generated on purpose elsewhere, at a low rate)
        out = [o for o in out if o[0][0] != 'unk'] + [(('unk',), ['empty'], [])]
    return out[:4]


def union_layout(rng, nested=True):
    """a hand-made UnionArray (possibly with nested unions, mergeable / unused alternatives) and its values"""
    nalt = rng.choice([1, 2, 2, 3, 3, 4])
    pool = [('leaf', 'int64'), ('leaf', 'float64'), ('leaf', 'bool'), ('leaf', 'int8'), ('leaf', 'uint32'),
            ('list', ('leaf', 'int64')), ('list', ('leaf', 'float32')), ('list', ('leaf', 'bool')),
            ('opt', ('leaf', 'int32')), ('opt', ('list', ('leaf', 'uint8'))), ('str', True), ('str', False),
            ('rec', [('a', ('leaf', 'int64'))], False), ('rec', [('a', ('leaf', 'float64'))], False),
            ('rec', [('a', ('leaf', 'int64')), ('b', ('leaf', 'bool'))], False), ('rec', [('a', ('leaf', 'int16'))], True),
            ('list', ('list', ('leaf', 'int64')))]
    alts = [rng.choice(pool) for _ in range(nalt)]
    n = rng.choice([0, 1, 2, 3, 4, 5])
    stored = [[] for _ in alts]
    tags, index = [], []
    for _ in range(n):
        i = rng.randrange(nalt)
        tags.append(i)
        index.append(len(stored[i]))
        stored[i].append(small(G.gen_value(rng, alts[i], 3, False)))
    for i in range(nalt):          # unreachable junk + shuffled storage
        for _ in range(rng.choice([0, 0, 1])):
            stored[i].append(small(G.gen_value(rng, alts[i], 3, False)))
        perm = list(range(len(stored[i])))
        rng.shuffle(perm)
        inv = {old: new for new, old in enumerate(perm)}
        stored[i] = [stored[i][p] for p in perm]
        index = [inv[ix] if tags[j] == i else ix for j, ix in enumerate(index)]
    children = []
    for i, a in enumerate(alts):
        if nested and rng.random() < 0.35:
            sub, _ = union_over(rng, a, stored[i])
            children.append(sub)
        else:
            enc = G.Enc(rng, nd=0, special=False)
            children.append(G.encode(enc, a, stored[i]))
    w = rng.choice(G.WIDTHS)
    return ['un', w, tags, index + [0] * rng.choice([0, 0, 1])] + children


def union_over(rng, t, vals):
    """a union node all of whose alternatives have type t (or a dtype-varied t), covering vals in order"""
    nalt = rng.choice([1, 2, 2, 3])
    stored = [[] for _ in range(nalt)]
    tags, index = [], []
    for v in vals:
        i = rng.randrange(nalt)
        tags.append(i)
        index.append(len(stored[i]))
        stored[i].append(v)
    children = []
    for i in range(nalt):
        enc = G.Enc(rng, nd=0, special=False)
        children.append(G.encode(enc, t, stored[i]))
    return ['un', rng.choice(G.WIDTHS), tags, index] + children, t


OPT_KINDS = ['ix', 'ixo', 'bym', 'bim', 'unm']


def wrap_option(rng, kind, inner, n, nones_ok=True):
    """an option / indexed node of class `kind` over the layout `inner` (length n); returns (layout, length)"""
    if kind == 'ix':
        m = rng.choice([0, 1, 2, 3, 4])
        ix = [rng.randrange(n) for _ in range(m)] if n > 0 else []
        return ['ix', rng.choice(G.WIDTHS), ix, inner], len(ix)
    if kind == 'ixo':
        m = rng.choice([0, 1, 2, 3, 4])
        ix = [(rng.randrange(n) if (n > 0 and rng.random() < 0.7) else rng.choice([-1, -1, -3])) for _ in range(m)]
        return ['ixo', rng.choice(['i32', 'i64']), ix, inner], len(ix)
    if kind == 'bym':
        m = rng.randint(0, n)
        mask = [rng.choice([0, 1, 1, 2, -1]) for _ in range(m)]
        return ['bym', mask, rng.choice([0, 1]), inner], m
    if kind == 'bim':
        m = rng.randint(0, n)
        nbytes = (m + 7) // 8 + rng.choice([0, 0, 1])
        mask = [rng.randint(0, 255) for _ in range(nbytes)]
        return ['bim', mask, rng.choice([0, 1]), rng.choice([0, 1]), m, inner], m
    if kind == 'unm':
        return ['unm', inner], n
    raise ValueError(kind)


def cases(rng, tier):
    quick = tier != 'thorough'
    out = []
    cid = [0]

    def add(op, args, layouts, meta):
        cid[0] += 1
        out.append(C.Case('c%d' % cid[0], op, [str(a) for a in args], [G.sx(l) for l in layouts], meta))

    # ---- corpus first
    if os.path.isdir(CORPUS):
        for fn in sorted(os.listdir(CORPUS)):
            if not fn.endswith('.case'):
                continue
            for c in replay_cases(os.path.join(CORPUS, fn)):
                c.id = 'k_' + c.id
                c.meta['tags']['kind'] = 'corpus'
                out.append(c)

    # ---- all 121 ordered dtype pairs through concat (1-d and one list level), mergebool on
    reps = 1 if quick else 6
    for _ in range(reps):
        for a in DTS:
            for b in DTS:
                wrap = rng.choice([0, 0, 1])
                ta, tb = ('leaf', a), ('leaf', b)
                for _w in range(wrap):
                    ta, tb = ('list', ta), ('list', tb)
                la, va = mk(rng, ta, n=rng.choice([1, 2, 3]))
                lb, vb = mk(rng, tb, n=rng.choice([1, 2, 3]))
                add('concat', [1, 1], [la, lb], dict(nontrivial=True, types=[ta, tb], mb=1,
                                                     tags=dict(kind='dtype-pair', op='concat', pair=a + '+' + b)))
    # ---- numbers_to_type over all pairs
    for _ in range(reps):
        for a in DTS:
            for b in DTS:
                add_astype(rng, add, ('leaf', a), b, flat=True)

    n = 1250 if quick else 26000
    kinds = ['same'] * 3 + ['vary'] * 4 + ['boolnum'] * 2 + ['optmix'] * 2 + ['records'] * 2 + ['regular'] * 2 + \
            ['different'] * 3 + ['ndnumpy']
    for _ in range(n):
        r = rng.random()
        if r < 0.62:
            kind = rng.choice(kinds)
            ops, tg = operands(rng, kind)
            if kind != 'ndnumpy':
                ops = with_empties(rng, ops, 0.25)
            types = [o[0] for o in ops]
            lays = [o[1] for o in ops]
            nontriv = sum(1 for o in ops if o[2] is None or len(o[2]) > 0) >= 2
            q = rng.random()
            if q < 0.7:
                mb = rng.choice([1, 1, 0])
                mg = rng.choice([1, 1, 1, 0])
                add('concat', [mg, mb], lays, dict(nontrivial=nontriv, types=types, mb=mb,
                                                   tags=dict(kind=kind, op='concat', n=len(ops), mb=mb, merge=mg)))
            elif q < 0.85:
                add('mergemany', [], lays, dict(nontrivial=nontriv, types=types,
                                                tags=dict(kind=kind, op='mergemany', n=len(ops))))
            elif q < 0.95:
                mb = rng.choice([1, 0])
                add('mergeable', [mb], lays[:2], dict(nontrivial=True, types=types[:2],
                                                      tags=dict(kind=kind, op='mergeable', mb=mb)))
            else:
                add('mergeasunion', [], lays[:2], dict(nontrivial=nontriv, types=types[:2],
                                                       tags=dict(kind=kind, op='mergeasunion')))
        elif r < 0.635:
            # the open known finding: EmptyArray strictly between two operands that are not mergeable
            ta = base_type(rng, depth=0, allow_str=False)
            tb = ('list', base_type(rng, depth=rng.choice([0, 1])))
            if rng.random() < 0.5:
                ta, tb = tb, ta
            la, va = mk(rng, ta)
            lb, vb = mk(rng, tb)
            add('concat', [1, 1], [la, ['empty'], lb],
                dict(nontrivial=True, types=[ta, ('unk',), tb], mb=1, tags=dict(kind='empty-between', op='concat')))
        elif r < 0.80:
            lay = union_layout(rng)
            mg = rng.choice([1, 1, 1, 0])
            mb = rng.choice([1, 0])
            add('simplify_union', [mg, mb], [lay], dict(nontrivial=len(lay[2]) > 0,
                                                        tags=dict(kind='union', op='simplify_union', merge=mg, mb=mb)))
        elif r < 0.90:
            t = base_type(rng, depth=rng.choice([0, 1, 2]), allow_opt=False)
            inner, vals = mk(rng, t, enc_kw=dict(indexed=False))
            n0 = len(vals)
            ki = rng.choice(OPT_KINDS)
            mid, n1 = wrap_option(rng, ki, inner, n0)
            ko = rng.choice(OPT_KINDS)
            outer, n2 = wrap_option(rng, ko, mid, n1)
            add('simplify_option', [], [outer], dict(nontrivial=n2 > 0, tags=dict(kind='opt-in-opt', op='simplify_option',
                                                                              outer=ko, inner=ki)))
        else:
            t = base_type(rng, depth=rng.choice([1, 2, 3]))
            add_astype(rng, add, t, rng.choice(DTS), flat=False)
    return out


def _leaf_dts(t, acc):
    if t[0] == 'leaf':
        acc.add(t[1])
    elif t[0] in ('list', 'opt'):
        _leaf_dts(t[1], acc)
    elif t[0] == 'rec':
        for _, ft in t[1]:
            _leaf_dts(ft, acc)
    elif t[0] == 'union':
        for a in t[1]:
            _leaf_dts(a, acc)
    return acc


def _fix_range(v, unsigned):
    """float -> unsigned casts of negative numbers are undefined in C: make float leaves non-negative"""
    if isinstance(v, bool) or v is None:
        return v
    if isinstance(v, (int, float)):
        return abs(v) if unsigned else v
    if isinstance(v, list):
        return [_fix_range(x, unsigned) for x in v]
    if isinstance(v, tuple) and v and v[0] == '$rec':
        return ('$rec', [_fix_range(x, unsigned) for x in v[1]])
    if isinstance(v, tuple) and v and v[0] == '$un':
        return ('$un', v[1], _fix_range(v[2], unsigned))
    return v


def _abs_floats(lay):
    """every float buffer (also unreachable / masked-out items) becomes non-negative"""
    if isinstance(lay, list) and lay and lay[0] == 'np' and lay[1] in ('float32', 'float64'):
        return ['np', lay[1], lay[2], [abs(x) for x in lay[3]]]
    if isinstance(lay, list) and lay and isinstance(lay[0], str):
        return [lay[0]] + [_abs_floats(x) if (isinstance(x, list) and x and isinstance(x[0], str)) else x for x in lay[1:]]
    return lay


def _clip_ints(lay):
    """every integer buffer (also unreachable items) stays exactly representable as float32"""
    if isinstance(lay, list) and lay and lay[0] == 'np':
        return ['np', lay[1], lay[2], [small(x) for x in lay[3]]]
    if isinstance(lay, list) and lay and isinstance(lay[0], str):
        return [lay[0]] + [_clip_ints(x) if (isinstance(x, list) and x and isinstance(x[0], str)) else x for x in lay[1:]]
    return lay


def add_astype(rng, add, t, dst, flat):
    srcs = _leaf_dts(t, set())
    has_float = bool(srcs & {'float32', 'float64'})
    to_int = dst not in ('float32', 'float64', 'bool')
    special = not (has_float and to_int) and rng.random() < 0.5
    n = rng.choice([1, 2, 3, 4]) if flat else None
    n = rng.choice([0, 1, 2, 3, 3, 4]) if n is None else n
    vals = [G.gen_value(rng, t, 3, special) for _ in range(n)]
    if dst in ('float32', 'float64') or has_float:
        vals = [small(v) for v in vals]
    if has_float and dst in UNSIGNED:
        vals = [_fix_range(v, True) for v in vals]
    if has_float and dst == 'int8':
        pass   # float leaves are within -9..9
    enc = G.Enc(rng, nd=0, special=special)
    lay = G.encode(enc, t, vals)
    if has_float and dst in UNSIGNED:
        lay = _abs_floats(lay)
    if dst in ('float32', 'float64'):
        lay = _clip_ints(lay)
    if flat and rng.random() < 0.3:
        # n-d NumpyArray (regression for the shape[0]-only cast)
        dt = t[1]
        d = [rng.choice([1, 2, 3]) for _ in range(rng.choice([1, 2]))]
        cnt = n
        for x in d:
            cnt *= x
        data = [G.leaf_value(rng, dt, False) for _ in range(cnt)]
        if dt in ('float32', 'float64') and dst in UNSIGNED:
            data = [abs(x) for x in data]
        lay = ['np', dt, [n] + d, data]
    add('astype', [dst], [lay], dict(nontrivial=n > 0, tags=dict(kind='astype', op='astype', dst=dst,
                                                                src='+'.join(sorted(srcs)))))


# ---------------------------------------------------------------------------------------------- running
def run_mergerun(lines):
    exe = os.path.join(B, 'mergerun')
    p = subprocess.run('ulimit -s unlimited 2>/dev/null; exec ' + exe, shell=True, input='\n'.join(lines) + '\n',
                       stdout=subprocess.PIPE, stderr=subprocess.PIPE, text=True, timeout=3600)
    out = {}
    for ol in p.stdout.splitlines():
        m = C.LINE_ID.match(ol)
        if m:
            out[m.group(1)] = ol[len(m.group(1)) + 2:-1]
    if p.returncode != 0:
        raise RuntimeError('mergerun failed rc=%s: %s' % (p.returncode, p.stderr[-2000:]))
    return out


# the block of ak.concatenate that mergedrv.cpp transcribes (whitespace-normalised)
CONCAT_BLOCK = ('batch = [contents[0]] for x in contents[1:]: if batch[-1].mergeable(x, mergebool=mergebool): batch.append(x) '
                'else: collapsed = batch[0].mergemany(batch[1:]) batch = [collapsed.merge_as_union(x)] '
                'out = batch[0].mergemany(batch[1:]) if isinstance(out, ak._util.uniontypes): '
                'out = out.simplify(merge=merge, mergebool=mergebool)')


def concat_transcription_ok():
    try:
        src = open(os.path.join(C.REPO, 'src/awkward/operations/structure.py')).read()
    except OSError:
        return False, 'structure.py unreadable'
    m = re.search(r'\n    elif posaxis == 0:\n(.*?)\n    else:\n', src, re.S)
    if not m:
        return False, 'axis=0 branch of concatenate not found'
    block = ' '.join(m.group(1).split())
    i = block.find('batch = [contents[0]]')
    if i < 0:
        return False, 'batch loop not found'
    got = block[i:]
    return got == CONCAT_BLOCK, hashlib.sha1(got.encode()).hexdigest()[:12]


def numpy_voter(table):
    """table: list of (a, b, model, transcription); compares the transcription of NumPy's lattice with the installed numpy"""
    code = ('import numpy, json, sys\n'
            'd = %r\n'
            'print(json.dumps([numpy.__version__] + [[a, b, numpy.result_type(numpy.dtype(a), numpy.dtype(b)).name, '
            'numpy.concatenate([numpy.zeros(1, a), numpy.zeros(1, b)]).dtype.name] for a in d for b in d]))\n' % DTS)
    try:
        p = subprocess.run(['python3-vt', '-c', code], stdout=subprocess.PIPE, stderr=subprocess.PIPE, text=True, timeout=120)
        if p.returncode != 0:
            return None, 'python3-vt/numpy not usable: ' + p.stderr[-300:], None
        rows = json.loads(p.stdout)
    except Exception as e:   # noqa: BLE001
        return None, 'python3-vt/numpy not usable: %s' % e, None
    ver = rows[0]
    np_t = {(a, b): (rt, ct) for a, b, rt, ct in rows[1:]}
    bad = []
    for a, b, model, trans in table:
        rt, ct = np_t[(a, b)]
        if trans != rt or trans != ct:
            bad.append('%s+%s: transcription %s, numpy.result_type %s, numpy.concatenate %s' % (a, b, trans, rt, ct))
        if model != trans:
            bad.append('%s+%s: C++ table %s, NumPy %s' % (a, b, model, trans))
    return (not bad), '; '.join(bad[:5]), ver


def evaluate(cases, san=False):
    lines = [c.line() for c in cases]
    res, errs = C.run_driver(lines, drv='mergedrv', san=san)
    mlines, out = [], []
    for c in cases:
        r = res.get(c.id, 'crash missing')
        isx = C.impl_sx(r)
        if isx is not None:
            mlines.append('(%s %s %s)' % (c.id, c.body(), isx))
    verd = run_mergerun(mlines) if mlines else {}
    for c in cases:
        r = res.get(c.id, 'crash missing')
        v = verd.get(c.id)
        if v is None:
            v = 'bad (driver: %s)' % r[:200]
        out.append((c, r, v, errs.get(c.id, '')))
    return out


def parse_sx(text):
    """S-expression -> nested lists of atoms (strings)"""
    toks = re.findall(r'\(|\)|[^\s()]+', text)
    pos = [0]

    def go():
        t = toks[pos[0]]
        pos[0] += 1
        if t == '(':
            out = []
            while toks[pos[0]] != ')':
                out.append(go())
            pos[0] += 1
            return out
        return t
    return go()


def layout_type(t, par=None):
    """coarse type of a parsed layout (same shape as the generator's types)"""
    h = t[0]
    if h == 'par':
        if t[1] in ('string', 'bytestring'):
            return ('str', t[1] == 'string')
        return layout_type(t[3])
    if h == 'np':
        ty = ('leaf', t[1])
        for _ in t[2][1:]:
            ty = ('list', ty)
        return ty
    if h == 'empty':
        return ('unk',)
    if h == 'lo':
        return ('list', layout_type(t[3]))
    if h == 'la':
        return ('list', layout_type(t[4]))
    if h == 'reg':
        return ('list', layout_type(t[3]))
    if h == 'ix':
        return layout_type(t[3])
    if h == 'ixo':
        return ('opt', layout_type(t[3]))
    if h == 'bym':
        return ('opt', layout_type(t[3]))
    if h == 'bim':
        return ('opt', layout_type(t[5]))
    if h == 'unm':
        return ('opt', layout_type(t[1]))
    if h == 'un':
        return ('union', [layout_type(x) for x in t[4:]])
    if h == 'rec':
        if t[2] == 'tuple':
            return ('rec', [(str(i), layout_type(x)) for i, x in enumerate(t[3:])], True)
        return ('rec', [(k, layout_type(x)) for k, x in zip(t[2], t[3:])], False)
    raise ValueError(h)


def replay_cases(path):
    """cases of a replay / corpus file, with the operand types recomputed from the layouts (for signature())"""
    out = []
    for ln in open(path):
        ln = ln.strip()
        if not ln or ln.startswith('#'):
            continue
        m = re.match(r'^\((\S+) (\S+) (.*)\)$', ln)
        if not m:
            continue
        meta = dict(nontrivial=True, tags=dict(kind='replay', op=m.group(2)))
        try:
            items = parse_sx('(' + m.group(3) + ')')
            if m.group(2) == 'concat':
                meta['mb'] = int(items[1])
                meta['types'] = [layout_type(x) for x in items[2:]]
        except Exception:   # noqa: BLE001
            pass
        out.append(C.Case(m.group(1), m.group(2), [m.group(3)], [], meta))
    return out


WRAPPED_STRING = re.compile(r'\((?:ix|ixo) \w+ \([-\d ]*\) \(par (?:string|bytestring)|'
                            r'\(bym \([-\d ]*\) \d \(par (?:string|bytestring)|'
                            r'\(bim \([-\d ]*\) \d \d \d+ \(par (?:string|bytestring)|\(unm \(par (?:string|bytestring)')


def signature(c, impl, v):
    if c.op == 'concat' and c.meta.get('types') and v.startswith('viol'):
        # (the batch either fails to merge, or merges operands that must not be merged, e.g. bool into numbers
        # although mergebool=False)
        if empty_between_unmergeable(bool(c.meta.get('mb', 1)), c.meta['types']):
            return 'concat-emptyarray-between-unmergeable'
    if v.startswith('viol type') or v.startswith('viol mergeable') or v.startswith('viol closure'):
        b = c.body()
        strings = '(par string' in b or '(par bytestring' in b
        if strings and v.startswith('viol closure') and c.op == 'concat' and re.search(r'\(un i64 \([-\d ]*\) \([-\d ]*\) \(un ', impl):
            # the union built by merge_as_union is itself "not mergeable" with a string array (UnionArray::mergeable
            # compares its own, empty, parameters with __array__="string"), so it is wrapped in a further union
            return 'mergeable-parameters-of-wrapper-node'
        if strings and (WRAPPED_STRING.search(b) or '(empty)' in b or '(un ' in b):
            # mergeable() compares the __array__ parameter of the two top nodes even when one of them is a wrapper
            # (IndexedArray / option node / UnionArray) or an EmptyArray: a string array behind such a node is "not
            # mergeable" with a plain string array -> needless unions, and unions nested in unions
            return 'mergeable-parameters-of-wrapper-node'
    return None


def run(cases, tier, rng):
    import check as K
    t0 = time.time()
    res = evaluate(cases, san=False)
    n_eval = len(res)
    if tier == 'thorough':
        # the same inputs under ASan+UBSan (a sample: sanitizer runs are ~10x slower)
        sample = cases[:9000]
        res_san = evaluate(sample, san=True)
        n_eval += len(res_san)
        by_id = {c.id: (c, r, v, e) for c, r, v, e in res}
        for c, r, v, e in res_san:
            if v.split(' ', 1)[0] in ('crash',) or (r.startswith('crash') and not by_id[c.id][1].startswith('crash')):
                res.append((c, r, 'crash sanitizer ' + v, e))
    C.log('evaluated %d in %.1fs' % (n_eval, time.time() - t0))
    known = C.load_known()
    verd, dist, samples, findings = {}, {}, [], []
    distinct = set()
    per_op = {}
    for c, impl, v, err in res:
        kind = v.split(' ', 1)[0]
        verd[kind] = verd.get(kind, 0) + 1
        op = c.op
        per_op.setdefault('corr:' + op, True)
        for k2, v2 in (c.meta.get('tags') or {}).items():
            dist.setdefault(k2, {})
            dist[k2][str(v2)] = dist[k2].get(str(v2), 0) + 1
        if kind == 'agree':
            if ' nomodel' in v:
                verd['agree-nomodel'] = verd.get('agree-nomodel', 0) + 1
            if c.meta.get('nontrivial', True):
                distinct.add(c.body())
                if len(samples) < 6:
                    samples.append(c.line()[:400])
            continue
        if kind == 'skip':
            continue
        if kind == 'bad':
            per_op['corr:' + op] = False
            findings.append(dict(kind='bad', what='correspondence corr:%s could not be evaluated: %s' % (op, v[:300]),
                                 case_lines=[c.line()], signature=None, no_input=True, size=len(c.line())))
            continue
        sig = signature(c, impl, v)
        if sig is None or K.match_known(known, 'C08', dict(signature=sig)) is None:
            per_op['corr:' + op] = False
        if kind in ('viol', 'crash'):
            what = '%s: implementation %s  [%s]' % (op, 'crashed/hung (%s)' % impl[:80] if kind == 'crash'
                                                   else 'differs from specification', v[:600])
            findings.append(dict(kind=kind, what=what, signature=sig, size=len(c.line()),
                                 case_lines=[c.line(), '# impl: ' + impl[:1000], '# verdict: ' + v[:1500]] +
                                 (['# stderr: ' + err.replace('\n', '\n# ')] if err else [])))
        else:
            findings.append(dict(kind=kind, what='correspondence corr:%s broken (model differs from implementation and spec) [%s]'
                                 % (op, v[:600]), signature=sig, no_input=True, size=len(c.line()),
                                 case_lines=[c.line(), '# impl: ' + impl[:1000], '# verdict: ' + v[:1500]]))
    best = {}
    for f in findings:
        key = (f['kind'], f['what'].split(':')[0], str(f['signature']), f['what'].split('[')[-1][:40] if f['kind'] != 'crash' else '')
        if key not in best or f['size'] < best[key]['size']:
            best[key] = f
    fl = sorted(best.values(), key=lambda f: (f.get('no_input', False), f['size']))

    # ---- the promotion lattice: C++ table (model) vs transcription vs the installed numpy
    tab = run_mergerun(['(t promotion-table)']).get('t', '')
    rows = re.findall(r'\((\S+) (\S+) (\S+) (\S+)\)', tab)
    ok, why, ver = numpy_voter(rows) if len(rows) == 121 else (False, 'promotion table not produced', None)
    extra = dict(numpy_version=ver, promotion_pairs_compared=len(rows),
                 checker_cmd='cd /verif/c08/coq && make -f Makefile.coq (coqc -R /verif/coq AwkV -R . AwkMerge Props_C08.v); '
                             'make -C /verif/c08/ocaml; bin/check C08 --tier %s' % tier)
    if ok is None:
        # numpy unavailable: the obligation cannot be discharged on this run
        per_op['corr:numpy-lattice-transcription'] = False
        fl.append(dict(kind='bad', what='corr:numpy-lattice-transcription not checkable: ' + why, case_lines=['# ' + why],
                       signature=None, no_input=True, size=0))
    else:
        per_op['corr:numpy-lattice-transcription'] = bool(ok)
        if not ok:
            fl.append(dict(kind='modeldiff', what='corr:numpy-lattice-transcription broken: ' + why, case_lines=['# ' + why],
                           signature=None, no_input=True, size=0))
    tok, th = concat_transcription_ok()
    per_op['corr:concat-transcription'] = bool(tok)
    extra['concat_block_sha1'] = th
    if not tok:
        fl.append(dict(kind='modeldiff', what='corr:concat-transcription broken: the axis=0 block of ak.concatenate changed (%s); '
                       'mergedrv.cpp concat_axis0 must be re-transcribed' % th, case_lines=['# ' + str(th)], signature=None,
                       no_input=True, size=0))
    TRUSTED_BASE[-1] = TRUSTED_BASE[-1] % (ver,) if '%s' in TRUSTED_BASE[-1] else TRUSTED_BASE[-1]
    return dict(findings=fl, corr_obligations=per_op, evaluations=n_eval, distinct_nontrivial=len(distinct),
                samples=samples, distribution=dist, verdicts=verd, extra=extra)
