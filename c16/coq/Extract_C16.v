(** Extraction of the executable C16 model (ExtrOcamlBasic only; Z, positive, nat stay inductive). *)
From Coq Require Import Extraction ExtrOcamlBasic ZArith List.
From AwkV Require Import Base Layout Valid Types.
From AwkBuffers Require Import Buffers.
Extraction Language OCaml.
Extraction "c16model.ml" Z.add Z.mul Z.sub Z.div Z.modulo Z.eqb Z.ltb Z.leb Z.of_nat Z.to_nat Z.opp
  to_list value_eqb valid_b clen type_of has_union minmax
  to_ftree of_ftree label relabel to_buffers from_buffers_gen from_buffers needs
  from_numpy_model to_numpy_model nd_value nd_leaves rebase compact_offsets pack_lsb bitmap_bit arrow_list arrow_nullable.
