(** C14 — the round trip for ALL well-formed values: tuples and records included (proved here, restated in Props_C14.v).

    FULL STATEMENT, PROVED ([builder_roundtrip]):
      forall o vs, good_opts o -> forallb pywf vs = true ->
        exists b, run o ab_init (encode_all vs) = Ok b /\ observe b = Ok (unify vs).
    None, booleans, integers, reals, strings, bytestrings, lists, tuples of any arity, records named or unnamed with
    any field sets in any order, ARBITRARILY NESTED AND HETEROGENEOUS (tuples / records inside lists, lists and records
    inside fields and slots, different arities / names / kinds at one position forming unions, None anywhere), for all
    options that make GrowableBuffer grow.  The only hypothesis is [pywf]: the keys of one dict are distinct.

    HISTORY: on the pinned tree the statement was false — an unnamed record followed, at the same position, by a
    record named by the empty string "" were merged into one record type (an unnamed RecordBuilder stores
    name_ = "" and beginrecord_check compared `name_ == name`); repaired in /repo by 75cafad (the check path now also
    requires nameptr_ != nullptr) and the model (Builder.takes / the BRecord case of Builder.step) follows the repaired
    code.  [empty_name_agrees] / [empty_name_other_order] show the two orders now both agree with [unify].  The
    refutation theorem of the pinned variant (builder_roundtrip_full_refuted) no longer type-checks against the model
    and has been deleted.

    The staged fragments are corollaries:
      stage 1  [tuple_flat]   no_struct values and tuples (any arities, also mixed) whose slots are no_struct
      stage 2  [record_flat]  no_struct values and records (any field sets / orders / names) whose field values are
                              no_struct
      stage 3/4 [pywf]        everything. *)
From Coq Require Import ZArith List Bool Lia.
From AwkV Require Import Base Layout.
From AwkBuilder Require Import Builder Spec GbLemmas Invariant StepLemmas Proofs_C14
  RecInv RecRep RecFwd RecAtom RecOpen RecInner RecStatic RecRoundtrip.
Import ListNotations.
Open Scope Z_scope.

(* ------------------------------------------------------------------ the fragments *)
Lemma no_struct_pywf v : no_struct v = true -> pywf v = true.
Proof.
  induction v as [| | | | |l IH|l IH|nm fs IH] using pyval_indx; intro H; try reflexivity; try discriminate H.
  cbn [no_struct] in H. cbn [pywf]. rewrite forallb_forall in *. rewrite Forall_forall in IH. auto.
Qed.

(* stage 1: flat tuples *)
Definition tuple_flat (v : pyval) : bool :=
  no_struct v || match v with PTup l => forallb no_struct l | _ => false end.
(* stage 2: flat records *)
Definition record_flat (v : pyval) : bool :=
  no_struct v ||
  match v with
  | PRec nm fs =>
      keys_nodup (map fst fs) && forallb (fun kv => no_struct (snd kv)) fs
  | _ => false
  end.

Lemma tuple_flat_pywf v : tuple_flat v = true -> pywf v = true.
Proof.
  unfold tuple_flat. intro H. apply orb_true_iff in H. destruct H as [H|H]; [now apply no_struct_pywf|].
  destruct v; try discriminate H. cbn [pywf]. rewrite forallb_forall in *. intros x Hx. apply no_struct_pywf; auto.
Qed.

Lemma record_flat_pywf v : record_flat v = true -> pywf v = true.
Proof.
  unfold record_flat. intro H. apply orb_true_iff in H. destruct H as [H|H]; [now apply no_struct_pywf|].
  destruct v; try discriminate H. apply andb_true_iff in H. destruct H as [H H3]. cbn [pywf]. rewrite H. cbn [andb].
  clear H. induction fs as [|[k x] t IH]; [reflexivity|]. cbn [forallb snd] in H3. apply andb_true_iff in H3.
  destruct H3 as [Hx Ht]. rewrite (no_struct_pywf x Hx). cbn [andb]. auto.
Qed.

Lemma forallb_imp {A} (p q : A -> bool) l : (forall x, p x = true -> q x = true) -> forallb p l = true -> forallb q l = true.
Proof. intros H E. rewrite forallb_forall in *. auto. Qed.

(* ------------------------------------------------------------------ (a) round trip: the full statement *)
Theorem builder_roundtrip o vs :
  good_opts o -> forallb pywf vs = true ->
  exists b, run o ab_init (encode_all vs) = Ok b /\ observe b = Ok (unify vs).
Proof.
  intros Ho Hok. destruct (feed_values_x o Ho vs Hok) as (b & E & R).
  exists b. split; [exact E|]. now apply rep_observe_unify.
Qed.

(* stage 1 *)
Theorem builder_roundtrip_tuples_partial o vs :
  good_opts o -> forallb tuple_flat vs = true ->
  exists b, run o ab_init (encode_all vs) = Ok b /\ observe b = Ok (unify vs).
Proof. intros Ho H. apply builder_roundtrip; [exact Ho|]. eapply forallb_imp; [apply tuple_flat_pywf|exact H]. Qed.

(* stage 2 *)
Theorem builder_roundtrip_records_partial o vs :
  good_opts o -> forallb record_flat vs = true ->
  exists b, run o ab_init (encode_all vs) = Ok b /\ observe b = Ok (unify vs).
Proof. intros Ho H. apply builder_roundtrip; [exact Ho|]. eapply forallb_imp; [apply record_flat_pywf|exact H]. Qed.

(* the session form (as the correspondence runs it): no error event, one snapshot of length |vs| whose to_list is the
   specification *)
Theorem from_iter_session_full o vs :
  good_opts o -> forallb pywf vs = true ->
  exists c, fst (run_session o ab_init 0 (map SC (encode_all vs) ++ [SSnapshot]))
            = [EvSnap (length (encode_all vs)) (zlen vs) (Ok c)] /\ to_list c = Ok (unify vs).
Proof.
  intros Ho Hok. destruct (feed_values_x o Ho vs Hok) as (b & E & R).
  destruct (rep_observe b vs R) as (c & Es & Et). exists c.
  rewrite (run_session_SC o _ ab_init b 0 [SSnapshot] E). cbn [run_session fst Nat.add].
  rewrite Es, (rep_len b vs R). split; [reflexivity|exact Et].
Qed.

(* whatever the initial capacity, the resize policy and the contents of fresh memory *)
Theorem growth_irrelevant_values o1 o2 vs :
  good_opts o1 -> good_opts o2 -> forallb pywf vs = true ->
  exists b1 b2, run o1 ab_init (encode_all vs) = Ok b1 /\ run o2 ab_init (encode_all vs) = Ok b2 /\
                observe b1 = observe b2.
Proof.
  intros H1 H2 Hn.
  destruct (builder_roundtrip o1 vs H1 Hn) as (b1 & E1 & O1).
  destruct (builder_roundtrip o2 vs H2 Hn) as (b2 & E2 & O2).
  exists b1, b2. rewrite O1, O2. auto.
Qed.

(* ------------------------------------------------------------------ examples *)
Definition ex_opts : opts := {| initial := 1; grow := fun r => r + 1; junk := 7 |}.
Lemma ex_opts_good : good_opts ex_opts.
Proof. split; cbn; [lia|intros; lia]. Qed.

Definition kx : name := [120].
Definition ky : name := [121].
Definition kz : name := [122].

(* stage 1: [(1, 2.0), None, (None, "a"), (3,), (), 7, (4, [5])] *)
Example builder_roundtrip_tuples_example :
  let vs := [PTup [PInt 1; PFloat 2]; PNone; PTup [PNone; PStr true [97]]; PTup [PInt 3]; PTup []; PInt 7;
             PTup [PInt 4; PList [PInt 5]]] in
  good_opts ex_opts /\ forallb tuple_flat vs = true /\
  (do b <- run ex_opts ab_init (encode_all vs); observe b) = Ok (unify vs) /\
  unify vs = [VTup [VNum (DZ 1); VNum (DZ 2)]; VNone; VTup [VNone; VStr true [97]]; VTup [VNum (DZ 3)]; VTup [];
              VNum (DZ 7); VTup [VNum (DZ 4); VList [VNum (DZ 5)]]].
Proof. cbv zeta. split; [exact ex_opts_good|split; [reflexivity|split; vm_compute; reflexivity]]. Qed.

(* stage 2: [{"x":1,"y":[1.5]}, None, {"x":2}, {"z":"a","x":None}, A{"x":1}, {"y":[]}] *)
Example builder_roundtrip_records_example :
  let vs := [PRec None [(kx, PInt 1); (ky, PList [PFloat 1])]; PNone; PRec None [(kx, PInt 2)];
             PRec None [(kz, PStr true [97]); (kx, PNone)]; PRec (Some [65]) [(kx, PInt 1)];
             PRec None [(ky, PList [])]] in
  good_opts ex_opts /\ forallb record_flat vs = true /\
  (do b <- run ex_opts ab_init (encode_all vs); observe b) = Ok (unify vs) /\
  unify vs = [VRec [(kx, VNum (DZ 1)); (ky, VList [VNum (DZ 1)]); (kz, VNone)]; VNone;
              VRec [(kx, VNum (DZ 2)); (ky, VNone); (kz, VNone)];
              VRec [(kx, VNone); (ky, VNone); (kz, VStr true [97])];
              VRec [(kx, VNum (DZ 1))];
              VRec [(kx, VNone); (ky, VList []); (kz, VNone)]].
Proof. cbv zeta. split; [exact ex_opts_good|split; [reflexivity|split; vm_compute; reflexivity]]. Qed.

(* stages 3/4: [{"x":1,"y":[1.5]}, None, {"x":2}, [({"x":{"z":1}}, 2), ({"x":{"y":None}}, None)], (1,), "s",
                {"y":[{"z":(1,2)}, {"x":[]}]}] *)
Example builder_roundtrip_example_struct :
  let vs := [PRec None [(kx, PInt 1); (ky, PList [PFloat 1])]; PNone; PRec None [(kx, PInt 2)];
             PList [PTup [PRec None [(kx, PRec None [(kz, PInt 1)])]; PInt 2];
                    PTup [PRec None [(kx, PRec None [(ky, PNone)])]; PNone]];
             PTup [PInt 1]; PStr true [115];
             PRec None [(ky, PList [PRec None [(kz, PTup [PInt 1; PInt 2])]; PRec None [(kx, PList [])]])]] in
  good_opts ex_opts /\ forallb pywf vs = true /\
  (do b <- run ex_opts ab_init (encode_all vs); observe b) = Ok (unify vs).
Proof. cbv zeta. split; [exact ex_opts_good|repeat split; vm_compute; reflexivity]. Qed.

Example from_iter_session_full_example :
  let vs := [PRec None [(kx, PInt 1); (ky, PList [PFloat 1])]; PNone; PRec None [(kx, PInt 2)]] in
  forallb pywf vs = true /\
  exists c, fst (run_session ex_opts ab_init 0 (map SC (encode_all vs) ++ [SSnapshot]))
            = [EvSnap (length (encode_all vs)) 3 (Ok c)] /\
            to_list c = Ok [VRec [(kx, VNum (DZ 1)); (ky, VList [VNum (DZ 1)])]; VNone;
                            VRec [(kx, VNum (DZ 2)); (ky, VNone)]].
Proof. cbv zeta. split; [reflexivity|]. eexists. split; vm_compute; reflexivity. Qed.

(* ------------------------------------------------------------------ records named by the empty string *)
(* [{"x":1} (unnamed), ""{"y":1} (named by the empty string)]: on the pinned tree the two were merged into one record
   type {x,y}; with the repaired beginrecord (75cafad), which the model follows, they form a union, as documented. *)
Example empty_name_agrees :
  let vs := [PRec None [(kx, PInt 1)]; PRec (Some []) [(ky, PInt 1)]] in
  forallb pywf vs = true /\
  (do b <- run ex_opts ab_init (encode_all vs); observe b) = Ok (unify vs) /\
  unify vs = [VRec [(kx, VNum (DZ 1))]; VRec [(ky, VNum (DZ 1))]].
Proof. cbv zeta. repeat split; vm_compute; reflexivity. Qed.

Example empty_name_other_order :
  let vs := [PRec (Some []) [(kx, PInt 1)]; PRec None [(ky, PInt 1)]; PRec (Some []) [(kz, PInt 2)]; PRec None [(kx, PNone)]] in
  forallb pywf vs = true /\
  (do b <- run ex_opts ab_init (encode_all vs); observe b) = Ok (unify vs) /\
  unify vs = [VRec [(kx, VNum (DZ 1)); (kz, VNone)]; VRec [(ky, VNum (DZ 1)); (kx, VNone)];
              VRec [(kx, VNone); (kz, VNum (DZ 2))]; VRec [(ky, VNone); (kx, VNone)]].
Proof. cbv zeta. repeat split; vm_compute; reflexivity. Qed.
