From AwkV Require Import Layout LayoutInd Valid.
From Coq Require Import ZifyBool.

Lemma forallb_Forall {A} (f : A -> bool) (P : A -> Prop) l :
  (forall x, f x = true <-> P x) -> (forallb f l = true <-> Forall P l).
Proof.
  intros H. induction l as [|x xs IH]; cbn.
  - split; auto.
  - rewrite andb_true_iff, IH, H. split.
    + intros [? ?]. constructor; auto.
    + intros HF. inversion HF; auto.
Qed.

Lemma pair_okb_iff lc ab : pair_okb lc ab = true <-> pair_ok lc ab.
Proof. destruct ab as [a b]. unfold pair_okb, pair_ok. cbn. lia. Qed.

Lemma is_chars_iff k c :
  is_chars k c = true <->
  exists rn n d, c = Par (Some k) rn (Numpy DUInt8 [n] d) /\ (k = AChar \/ k = AByte).
Proof.
  split.
  - destruct c; cbn; try discriminate.
    destruct arr as [k'|]; try discriminate.
    destruct c; try discriminate. destruct dt; try discriminate.
    destruct shape as [|n [|? ?]]; try discriminate.
    destruct k, k'; try discriminate; intros _; do 3 eexists; split; eauto.
  - intros (rn & n & d & -> & [-> | ->]); reflexivity.
Qed.

Lemma paramcheck_iff p c : paramcheck p c = true <-> ParamOk p c.
Proof.
  destruct p as [[]|]; cbn; try (split; [discriminate|tauto]); try tauto.
  - destruct (list_content c) as [c'|].
    + rewrite is_chars_iff. split.
      * intros (rn & n & d & -> & _). do 4 eexists; split; eauto.
      * intros (c'' & rn & n & d & E & ->). inversion E; subst. do 3 eexists; split; eauto.
    + split; [discriminate|]. intros (? & ? & ? & ? & E & _). discriminate.
  - destruct (list_content c) as [c'|].
    + rewrite is_chars_iff. split.
      * intros (rn & n & d & -> & _). do 4 eexists; split; eauto.
      * intros (c'' & rn & n & d & E & ->). inversion E; subst. do 3 eexists; split; eauto.
    + split; [discriminate|]. intros (? & ? & ? & ? & E & _). discriminate.
Qed.

Lemma all_fix_forallb (f : content -> bool) cs :
  (fix all (l : list content) : bool :=
     match l with [] => true | x :: xs => f x && all xs end) cs = forallb f cs.
Proof. induction cs as [|x xs IH]; cbn; congruence. Qed.

Lemma union_okb_iff lens ti :
  union_okb lens ti = true <->
  (0 <= fst ti /\ 0 <= snd ti /\ exists lc, get lens (fst ti) = Ok lc /\ snd ti < lc).
Proof.
  destruct ti as [t i]; unfold union_okb; cbn.
  destruct (get lens t) as [lc|e].
  - split.
    + intros H. repeat split; try lia. exists lc. split; auto. lia.
    + intros (? & ? & lc' & E & ?). inversion E; subst. lia.
  - split; [lia|]. intros (_ & _ & lc & E & _). discriminate.
Qed.

Lemma strk_cases p (b : bool) (P : Prop) :
  (b = true <-> P) ->
  ((if is_strk p then true else b) = true <-> (is_strk p = false -> P)).
Proof.
  intros H. destruct (is_strk p).
  - split; [intros _ HF; discriminate | reflexivity].
  - split; [intros Hb _; apply H; exact Hb | intros HP; apply H; apply HP; reflexivity].
Qed.

Theorem validity_exact_gen c : forall p, validb p c = true <-> Valid p c.
Proof.
  induction c using content_ind'; intros p.
  - (* Numpy *)
    cbn [validb]. rewrite andb_true_iff, paramcheck_iff. split.
    + intros [Hp H]. destruct shape as [|n sh]; [discriminate|].
      rewrite andb_true_iff in H. destruct H as [H1 H2].
      constructor; auto; try discriminate.
      * rewrite (forallb_Forall _ (fun d => 0 <= d)) in H1; auto. intros; lia.
      * lia.
    + intros HV. inversion HV; subst. split; auto.
      destruct shape as [|n sh]; [congruence|].
      rewrite andb_true_iff. split.
      * rewrite (forallb_Forall _ (fun d => 0 <= d)); auto. intros; lia.
      * lia.
  - (* Empty *)
    cbn [validb]. rewrite paramcheck_iff. split; intros H; [constructor; auto|inversion H; auto].
  - (* ListOffset *)
    cbn [validb]. rewrite !andb_true_iff, paramcheck_iff.
    rewrite (forallb_Forall _ (pair_ok (clen c))) by (intros; apply pair_okb_iff).
    rewrite (strk_cases p _ (Valid None c)) by apply IHc.
    split.
    + intros [[[? ?] ?] ?]. constructor; auto. lia.
    + intros HV. inversion HV; subst. repeat split; auto. lia.
  - (* ListA *)
    cbn [validb]. rewrite !andb_true_iff, paramcheck_iff.
    rewrite (forallb_Forall _ (pair_ok (clen c))) by (intros; apply pair_okb_iff).
    rewrite (strk_cases p _ (Valid None c)) by apply IHc.
    split.
    + intros [[[? ?] ?] ?]. constructor; auto. lia.
    + intros HV. inversion HV; subst. repeat split; auto. lia.
  - (* Regular *)
    cbn [validb]. rewrite !andb_true_iff, paramcheck_iff.
    rewrite (strk_cases p _ (Valid None c)) by apply IHc.
    split.
    + intros [[[? ?] ?] ?]. constructor; auto; lia.
    + intros HV. inversion HV; subst. repeat split; auto; lia.
  - (* Indexed *)
    cbn [validb]. rewrite !andb_true_iff, paramcheck_iff, negb_true_iff, IHc.
    rewrite (forallb_Forall _ (fun i => 0 <= i < clen c)) by (intros; lia).
    split.
    + intros [[[? ?] ?] ?]. constructor; auto.
    + intros HV. inversion HV; subst. repeat split; auto.
  - (* IndexedOption *)
    cbn [validb]. rewrite !andb_true_iff, paramcheck_iff, negb_true_iff, IHc.
    rewrite (forallb_Forall _ (fun i => i < clen c)) by (intros; lia).
    split.
    + intros [[[? ?] ?] ?]. constructor; auto.
    + intros HV. inversion HV; subst. repeat split; auto.
  - (* ByteMasked *)
    cbn [validb]. rewrite !andb_true_iff, paramcheck_iff, negb_true_iff, IHc.
    split.
    + intros [[[? ?] ?] ?]. constructor; auto. lia.
    + intros HV. inversion HV; subst. repeat split; auto. lia.
  - (* BitMasked *)
    cbn [validb]. rewrite !andb_true_iff, paramcheck_iff, negb_true_iff, IHc.
    split.
    + intros [[[[[? ?] ?] ?] ?] ?]. constructor; auto; lia.
    + intros HV. inversion HV; subst. repeat split; auto; lia.
  - (* Unmasked *)
    cbn [validb]. rewrite !andb_true_iff, paramcheck_iff, negb_true_iff, IHc.
    split.
    + intros [[? ?] ?]. constructor; auto.
    + intros HV. inversion HV; subst. repeat split; auto.
  - (* Union *)
    cbn [validb]. rewrite all_fix_forallb.
    rewrite !andb_true_iff, paramcheck_iff, negb_true_iff.
    rewrite (forallb_Forall _ _ (zip t ix) (union_okb_iff (map clen cs))).
    assert (HV : forallb (validb None) cs = true <-> Forall (Valid None) cs).
    { clear -H. induction H as [|x xs Hx Hxs IH]; cbn.
      - split; auto.
      - rewrite andb_true_iff, IH, Hx. split.
        + intros [? ?]; constructor; auto.
        + intros HF; inversion HF; auto. }
    rewrite HV.
    assert (HU : existsb unionlike cs = false <-> Forall (fun x => unionlike x = false) cs).
    { clear. induction cs as [|x xs IH]; cbn.
      - split; auto.
      - rewrite orb_false_iff, IH. split.
        + intros [? ?]; constructor; auto.
        + intros HF; inversion HF; auto. }
    rewrite HU.
    split.
    + intros [[[[? ?] ?] ?] ?]. constructor; auto. lia.
    + intros HV'. inversion HV'; subst. repeat split; auto. lia.
  - (* Record *)
    cbn [validb]. rewrite all_fix_forallb.
    rewrite !andb_true_iff, paramcheck_iff.
    rewrite (forallb_Forall _ (fun x => n <= clen x)) by (intros; lia).
    assert (HV : forallb (validb None) cs = true <-> Forall (Valid None) cs).
    { clear -H. induction H as [|x xs Hx Hxs IH]; cbn.
      - split; auto.
      - rewrite andb_true_iff, IH, Hx. split.
        + intros [? ?]; constructor; auto.
        + intros HF; inversion HF; auto. }
    rewrite HV.
    split.
    + intros [[[[? ?] ?] Hk] ?]. constructor; auto; try lia.
      intros k ->. apply Nat.eqb_eq in Hk. auto.
    + intros HV'. inversion HV'; subst. repeat split; auto; try lia.
      destruct ks as [k|]; auto. apply Nat.eqb_eq. auto.
  - (* Par *)
    cbn [validb]. destruct p as [k|].
    + split; [discriminate|]. intros HV; inversion HV.
    + split.
      * intros H. destruct c; try (constructor; [intros; discriminate | apply IHc; exact H]).
        discriminate.
      * intros HV. inversion HV; subst.
        destruct c; try (apply IHc; assumption).
        exfalso. match goal with Hn : forall a r x, Par _ _ _ <> Par a r x |- _ => eapply Hn; reflexivity end.
Qed.
