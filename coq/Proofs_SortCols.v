(** Column sort ([sortcols]: ak.sort / ak.argsort along a non-innermost axis), part 1:
    unfolding lemmas, the row identifiers are kept (A), each output column is the sorted
    input column and the rows keep their lengths (B). *)
From Coq Require Import ZArith List Bool Lia ZifyBool Permutation.
From AwkV Require Import Base Layout Valid Types AtAxis Ops_Sort Proofs_Typing Proofs_Lists Proofs_Sort Proofs_C06.
Import ListNotations.
Open Scope Z_scope.

(* ---------------------------------------------------------------- definitions *)
(* column p of a list of rows: the (row id, entry) pairs of the rows that are lists longer than p *)
Definition colv1 (p : Z) (jv : Z * value) : list (Z * value) :=
  match snd jv with
  | VList l => (match get l p with Ok v => [(fst jv, v)] | Err _ => [] end)
  | _ => []
  end.
Definition colv (p : Z) (rows : list (Z * value)) : list (Z * value) :=
  flat_map (fun jv : Z * value =>
              match snd jv with
              | VList l => (match get l p with Ok v => [(fst jv, v)] | Err _ => [] end)
              | _ => []
              end) rows.
Lemma colv_eq p rows : colv p rows = flat_map (colv1 p) rows.
Proof. reflexivity. Qed.
Lemma colv_cons p r rows : colv p (r :: rows) = colv1 p r ++ colv p rows.
Proof. reflexivity. Qed.

(* names for the pieces of [sort_leaves] / [sortcols] *)
Definition notnone (jv : Z * value) : bool := match snd jv with VNone => false | _ => true end.
Definition isnone (jv : Z * value) : bool := match snd jv with VNone => true | _ => false end.
Definition keyrow (jv : Z * value) : res (Z * key) := do k <- key_of_value (snd jv); Ok (fst jv, k).
Definition kbefore (asc : bool) (a b : Z * key) : bool := key_before asc (snd a) (snd b).
Definition aslist (jv : Z * value) : res (Z * list value) :=
  match snd jv with VList l => Ok (fst jv, l) | _ => Err EValue end.
Definition maxlen (ls : list (Z * list value)) : Z :=
  fold_left Z.max (map (fun jl : Z * list value => zlen (snd jl)) ls) 0.
Definition coll1 (p : Z) (jl : Z * list value) : list (Z * value) :=
  match get (snd jl) p with Ok v => [(fst jl, v)] | Err _ => [] end.
Definition coll (p : Z) (ls : list (Z * list value)) : list (Z * value) := flat_map (coll1 p) ls.
Definition rebuild (cols : list (list (Z * value))) (jl : Z * list value) : res (Z * value) :=
  do vs <- mapM (fun pc : Z * list (Z * value) => assocZ (fst jl) (snd pc)) (zip (iota (zlen (snd jl))) cols);
  Ok (fst jl, VList vs).

(* ---------------------------------------------------------------- unfolding *)
Lemma sort_leaves_eq asc a l :
  sort_leaves asc a l =
  do keyed <- mapM keyrow (filter notnone l);
  Ok (if a
      then map (fun jk : Z * key => VNum (DZ (fst jk))) (sort_by (kbefore asc) keyed)
           ++ map (fun jv : Z * value => VNum (DZ (fst jv))) (filter isnone l)
      else map (fun jk : Z * key => value_of_key (snd jk)) (sort_by (kbefore asc) keyed)
           ++ map (fun _ : Z * value => VNone) (filter isnone l)).
Proof.
  unfold sort_leaves. fold notnone isnone keyrow (kbefore asc).
  destruct (mapM keyrow (filter notnone l)); cbn [bind]; [|reflexivity]. destruct a; reflexivity.
Qed.

Lemma sortcols_leaf asc a t rows :
  is_leaf_ty t = true ->
  sortcols asc a t rows = do vs <- sort_leaves asc a rows; Ok (zip (map fst rows) vs).
Proof. intros H. destruct t; cbn [sortcols]; rewrite H; reflexivity. Qed.

Lemma sortcols_opt asc a t' rows :
  is_leaf_ty t' = false ->
  sortcols asc a (TOpt t') rows =
  do out <- sortcols asc a t' (filter notnone rows);
  Ok (zip (map fst rows) (map snd out ++ map snd (filter isnone rows))).
Proof. intros H. cbn [sortcols is_leaf_ty]. rewrite H. reflexivity. Qed.

Lemma sortcols_list asc a sz t' rows :
  sortcols asc a (TList sz None t') rows =
  do ls <- mapM aslist rows;
  do cols <- mapM (fun p => sortcols asc a t' (coll p ls)) (iota (maxlen ls));
  mapM (rebuild cols) ls.
Proof. reflexivity. Qed.

Lemma sortcols_unk asc a rows :
  sortcols asc a TUnk rows = match rows with [] => Ok [] | _ => Err EValue end.
Proof. reflexivity. Qed.

Lemma sortcols_list_inv asc a sz t' rows out :
  sortcols asc a (TList sz None t') rows = Ok out ->
  exists ls cols,
    mapM aslist rows = Ok ls /\
    mapM (fun p => sortcols asc a t' (coll p ls)) (iota (maxlen ls)) = Ok cols /\
    mapM (rebuild cols) ls = Ok out.
Proof.
  rewrite sortcols_list. intros H. apply bind_Ok in H as (ls & Hls & H). apply bind_Ok in H as (cols & Hc & H).
  exists ls, cols. auto.
Qed.

(* ---------------------------------------------------------------- small list facts *)
Lemma mapM_map_eq {A B C} (f : A -> res B) (g : B -> C) (h : A -> C) l ys :
  mapM f l = Ok ys -> (forall x y, In x l -> f x = Ok y -> g y = h x) -> map g ys = map h l.
Proof.
  revert ys. induction l as [|x l IH]; intros ys H Hg; cbn [mapM] in H.
  - inversion H; subst. reflexivity.
  - apply bind_Ok in H as (y & Hy & H). apply bind_Ok in H as (ys' & Hys & H). inversion H; subst.
    cbn [map]. f_equal.
    + apply Hg; [left; reflexivity|exact Hy].
    + apply IH; [exact Hys|]. intros x0 y0 Hin. apply Hg. right. exact Hin.
Qed.

Lemma flat_map_nil {A B} (f : A -> list B) l : (forall x, In x l -> f x = []) -> flat_map f l = [].
Proof.
  induction l as [|x l IH]; intros H; cbn [flat_map]; [reflexivity|].
  rewrite (H x (or_introl eq_refl)), IH; [reflexivity|]. intros y Hy. apply H. right. exact Hy.
Qed.
Lemma flat_map_nil_inv {A B} (f : A -> list B) l x : flat_map f l = [] -> In x l -> f x = [].
Proof.
  induction l as [|y l IH]; intros H Hin; [contradiction|]. cbn [flat_map] in H.
  apply app_eq_nil in H as [H1 H2]. destruct Hin as [->|Hin]; auto.
Qed.

Lemma part_perm l : Permutation (filter notnone l ++ filter isnone l) l.
Proof.
  induction l as [|[j v] l IH]; [constructor|]. cbn [filter]. unfold notnone at 1, isnone at 1. cbn [snd].
  destruct v; try (cbn [app]; constructor; exact IH).
  apply Permutation_sym, Permutation_cons_app, Permutation_sym, IH.
Qed.
Lemma part_length l : (length (filter notnone l) + length (filter isnone l) = length l)%nat.
Proof. rewrite <- app_length. apply Permutation_length, part_perm. Qed.

Lemma filter_ids_sub (f : Z * value -> bool) l j : In j (map fst (filter f l)) -> In j (map fst l).
Proof.
  intros H. apply in_map_iff in H as (x & <- & Hx). apply filter_In in Hx as [Hx _]. apply in_map, Hx.
Qed.
Lemma filter_ids_NoDup (f : Z * value -> bool) l : NoDup (map fst l) -> NoDup (map fst (filter f l)).
Proof.
  induction l as [|x l IH]; intros H; [constructor|]. cbn [map] in H. inversion H as [|? ? Hn Hd]; subst.
  cbn [filter]. destruct (f x); [|auto]. cbn [map]. constructor; [|auto].
  intros Hin. apply Hn. eapply filter_ids_sub, Hin.
Qed.

(* a flat_map producing at most one entry per row, carrying the row's id *)
Lemma flat_map_ids_sub {A B} (f : A -> list (Z * B)) (id : A -> Z) l j :
  (forall x jv, In jv (f x) -> fst jv = id x) ->
  In j (map fst (flat_map f l)) -> In j (map id l).
Proof.
  intros Hid H. apply in_map_iff in H as (jv & <- & Hjv). apply in_flat_map in Hjv as (x & Hx & Hjv).
  rewrite (Hid _ _ Hjv). apply in_map, Hx.
Qed.
Lemma flat_map_ids_NoDup {A B} (f : A -> list (Z * B)) (id : A -> Z) l :
  (forall x jv, In jv (f x) -> fst jv = id x) -> (forall x, (length (f x) <= 1)%nat) ->
  NoDup (map id l) -> NoDup (map fst (flat_map f l)).
Proof.
  intros Hid Hone. induction l as [|x l IH]; intros H; [constructor|]. cbn [map] in H.
  inversion H as [|? ? Hn Hd]; subst. cbn [flat_map]. rewrite map_app.
  pose proof (Hone x) as H1. pose proof (Hid x) as H2.
  destruct (f x) as [|jv [|jv' r]]; cbn [map app].
  - auto.
  - constructor; [|auto]. intros Hin. apply Hn. rewrite (H2 jv (or_introl eq_refl)) in Hin.
    eapply flat_map_ids_sub; eauto.
  - cbn [length] in H1. lia.
Qed.

Lemma colv1_id p x jv : In jv (colv1 p x) -> fst jv = fst x.
Proof.
  unfold colv1. destruct (snd x); try contradiction. destruct (get l p); [|contradiction].
  intros [<-|[]]. reflexivity.
Qed.
Lemma colv1_one p x : (length (colv1 p x) <= 1)%nat.
Proof. unfold colv1. destruct (snd x); cbn; try lia. destruct (get l p); cbn; lia. Qed.
Lemma colv_NoDup p rows : NoDup (map fst rows) -> NoDup (map fst (colv p rows)).
Proof. rewrite colv_eq. apply flat_map_ids_NoDup; [apply colv1_id|apply colv1_one]. Qed.

Lemma coll1_id p x jv : In jv (coll1 p x) -> fst jv = fst x.
Proof. unfold coll1. destruct (get (snd x) p); [|contradiction]. intros [<-|[]]. reflexivity. Qed.
Lemma coll1_one p x : (length (coll1 p x) <= 1)%nat.
Proof. unfold coll1. destruct (get (snd x) p); cbn; lia. Qed.
Lemma coll_NoDup p ls : NoDup (map fst ls) -> NoDup (map fst (coll p ls)).
Proof. apply flat_map_ids_NoDup; [apply coll1_id|apply coll1_one]. Qed.

(* enumv *)
Lemma iota_nat_NoDup s n : NoDup (iota_nat s n).
Proof.
  revert s. induction n as [|n IH]; intros s; cbn [iota_nat]; constructor; [|apply IH].
  rewrite iota_nat_In'. lia.
Qed.
Lemma iota_NoDup n : NoDup (iota n).
Proof. apply iota_nat_NoDup. Qed.
Lemma length_iota_zlen {A} (l : list A) : length (iota (zlen l)) = length l.
Proof. unfold iota. rewrite iota_nat_length'. unfold zlen. lia. Qed.
Lemma enumv_ids l : map fst (enumv l) = iota (zlen l).
Proof. unfold enumv. apply map_fst_zip, length_iota_zlen. Qed.
Lemma enumv_vals l : map snd (enumv l) = l.
Proof. unfold enumv. apply map_snd_zip, length_iota_zlen. Qed.
Lemma enumv_NoDup l : NoDup (map fst (enumv l)).
Proof. rewrite enumv_ids. apply iota_NoDup. Qed.
Lemma enumv_get l j v : In (j, v) (enumv l) -> get l j = Ok v.
Proof.
  unfold enumv. pose proof (zlen_nonneg l) as Hn. remember (zlen l) as n eqn:En. clear En.
  intros Hin. apply In_nth_error in Hin as (k & Hk).
  assert (Hg : get (zip (iota n) l) (Z.of_nat k) = Ok (j, v)).
  { unfold get. destruct (Z.of_nat k <? 0) eqn:E; [lia|]. rewrite Nat2Z.id, Hk. reflexivity. }
  rewrite get_zip in Hg. apply bind_Ok in Hg as (x & Hx & Hg). apply bind_Ok in Hg as (y & Hy & Hg).
  inversion Hg; subst. pose proof (get_range _ _ _ Hx) as Hr. rewrite zlen_iota in Hr by lia.
  rewrite get_iota in Hx by lia. inversion Hx; subst. exact Hy.
Qed.

(* ---------------------------------------------------------------- sort_leaves: length *)
Lemma sort_leaves_inv asc a l vs :
  sort_leaves asc a l = Ok vs ->
  exists keyed, mapM keyrow (filter notnone l) = Ok keyed /\
    vs = (if a
          then map (fun jk : Z * key => VNum (DZ (fst jk))) (sort_by (kbefore asc) keyed)
               ++ map (fun jv : Z * value => VNum (DZ (fst jv))) (filter isnone l)
          else map (fun jk : Z * key => value_of_key (snd jk)) (sort_by (kbefore asc) keyed)
               ++ map (fun _ : Z * value => VNone) (filter isnone l)).
Proof.
  rewrite sort_leaves_eq. intros H. apply bind_Ok in H as (keyed & Hk & H). inversion H; subst.
  exists keyed. auto.
Qed.

Theorem sort_leaves_length asc a rows vs : sort_leaves asc a rows = Ok vs -> length vs = length rows.
Proof.
  intros H. apply sort_leaves_inv in H as (keyed & Hk & ->).
  apply mapM_length in Hk. pose proof (Permutation_length (sort_by_perm _ (kbefore asc) keyed)) as Hp.
  rewrite <- (part_length rows).
  destruct a; rewrite app_length, !map_length; lia.
Qed.

(* ---------------------------------------------------------------- A: the row ids are kept *)
Lemma aslist_ids rows ls : mapM aslist rows = Ok ls -> map fst ls = map fst rows.
Proof.
  intros H. eapply mapM_map_eq; [exact H|]. intros [j v] y _. unfold aslist. cbn [fst snd].
  destruct v; try discriminate. intros E. inversion E. reflexivity.
Qed.
Lemma rebuild_id cols jl o : rebuild cols jl = Ok o -> fst o = fst jl.
Proof. unfold rebuild. intros H. apply bind_Ok in H as (vs & _ & H). inversion H. reflexivity. Qed.

Lemma sortcols_ids_leaf asc a t rows out :
  is_leaf_ty t = true -> sortcols asc a t rows = Ok out -> map fst out = map fst rows.
Proof.
  intros L H. rewrite sortcols_leaf in H by exact L. apply bind_Ok in H as (vs & Hvs & H). inversion H; subst.
  apply map_fst_zip. rewrite map_length. symmetry. eapply sort_leaves_length, Hvs.
Qed.

Theorem sortcols_ids asc a t : forall rows out,
  sortcols asc a t rows = Ok out -> map fst out = map fst rows.
Proof.
  induction t as [dt| |sz str t IH|t IH|ks ts|ts]; intros rows out H.
  - refine (sortcols_ids_leaf _ _ _ _ _ _ H); reflexivity.
  - rewrite sortcols_unk in H. destruct rows; inversion H. reflexivity.
  - destruct str as [b|]; [refine (sortcols_ids_leaf _ _ _ _ _ _ H); reflexivity|].
    apply sortcols_list_inv in H as (ls & cols & Hls & _ & Ho).
    rewrite <- (aslist_ids _ _ Hls). eapply mapM_map_eq; [exact Ho|]. intros x y _. apply rebuild_id.
  - destruct (is_leaf_ty t) eqn:L; [refine (sortcols_ids_leaf _ _ _ _ _ _ H); exact L|].
    rewrite sortcols_opt in H by exact L. apply bind_Ok in H as (o & Ho & H). inversion H; subst.
    apply map_fst_zip. apply IH in Ho. apply (f_equal (@length Z)) in Ho. rewrite !map_length in Ho.
    rewrite app_length, !map_length, Ho. symmetry. apply part_length.
  - discriminate H.
  - discriminate H.
Qed.

Lemma sortcols_length asc a t rows out : sortcols asc a t rows = Ok out -> length out = length rows.
Proof. intros H. apply sortcols_ids in H. apply (f_equal (@length Z)) in H. rewrite !map_length in H. exact H. Qed.

(* sorting no rows gives no rows (for a sortable type) *)
Lemma sortcols_nil asc a t : sortable t = true -> sortcols asc a t [] = Ok [].
Proof.
  induction t as [dt| |sz str t IH|t IH|ks ts|ts]; intros S; try discriminate S.
  - destruct a; reflexivity.
  - reflexivity.
  - destruct str; destruct a; reflexivity.
  - destruct (is_leaf_ty t) eqn:L.
    + rewrite sortcols_leaf by exact L. destruct a; reflexivity.
    + rewrite sortcols_opt by exact L. cbn [filter]. rewrite (IH S). reflexivity.
Qed.

(* ---------------------------------------------------------------- B: columns *)
Lemma fold_max_ge l : forall a, a <= fold_left Z.max l a /\ (forall x, In x l -> x <= fold_left Z.max l a).
Proof.
  induction l as [|y l IH]; intros a; cbn [fold_left]; [split; [lia|contradiction]|].
  destruct (IH (Z.max a y)) as [H1 H2]. split; [lia|]. intros x [->|Hx]; [lia|auto].
Qed.
Lemma maxlen_nonneg ls : 0 <= maxlen ls.
Proof. unfold maxlen. apply (proj1 (fold_max_ge _ 0)). Qed.
Lemma maxlen_ge ls jl : In jl ls -> zlen (snd jl) <= maxlen ls.
Proof. intros H. unfold maxlen. apply (proj2 (fold_max_ge _ 0)). apply (in_map (fun jl : Z * list value => zlen (snd jl))), H. Qed.

Lemma aslist_rows rows ls :
  mapM aslist rows = Ok ls -> rows = map (fun jl : Z * list value => (fst jl, VList (snd jl))) ls.
Proof.
  intros H. symmetry. rewrite <- (map_id rows). eapply mapM_map_eq; [exact H|].
  intros [j v] y _. unfold aslist. cbn [fst snd]. destruct v; try discriminate. intros E. inversion E. reflexivity.
Qed.
Lemma aslist_colv p rows ls : mapM aslist rows = Ok ls -> coll p ls = colv p rows.
Proof.
  intros H. rewrite (aslist_rows _ _ H). clear H. induction ls as [|jl ls IH]; [reflexivity|].
  cbn [map]. rewrite colv_cons. unfold coll in *. cbn [flat_map]. rewrite IH. reflexivity.
Qed.

Lemma rebuild_inv cols jl o :
  rebuild cols jl = Ok o -> zlen (snd jl) <= zlen cols ->
  exists vs, o = (fst jl, VList vs) /\ zlen vs = zlen (snd jl) /\
    forall p cp, get cols p = Ok cp -> 0 <= p < zlen (snd jl) -> get vs p = assocZ (fst jl) cp.
Proof.
  unfold rebuild. intros H Hle. apply bind_Ok in H as (vs & Hm & H). inversion H; subst. exists vs.
  pose proof (zlen_nonneg (snd jl)) as Hn.
  split; [reflexivity|]. split.
  - rewrite (mapM_zlen _ _ _ Hm), zlen_zip, zlen_iota by lia. lia.
  - intros p cp Hc Hp. rewrite (mapM_get _ _ _ p Hm), get_zip, get_iota, Hc by lia. reflexivity.
Qed.

Definition look (p : Z) (cp : list (Z * value)) (jl : Z * list value) : list (Z * value) :=
  match get (snd jl) p with
  | Ok _ => (match assocZ (fst jl) cp with Ok v => [(fst jl, v)] | Err _ => [] end)
  | Err _ => []
  end.

Lemma colv_rebuilt cols p cp :
  get cols p = Ok cp -> forall ls out,
  mapM (rebuild cols) ls = Ok out -> (forall jl, In jl ls -> zlen (snd jl) <= zlen cols) ->
  colv p out = flat_map (look p cp) ls.
Proof.
  intros Hc. induction ls as [|jl ls IH]; intros out H Hle; cbn [mapM] in H.
  - inversion H; subst. reflexivity.
  - apply bind_Ok in H as (o & Ho & H). apply bind_Ok in H as (out' & Hout & H). inversion H; subst.
    rewrite colv_cons. cbn [flat_map]. rewrite (IH _ Hout) by (intros x Hx; apply Hle; right; exact Hx).
    f_equal. apply rebuild_inv in Ho as (vs & -> & Hlen & Hget); [|apply Hle; left; reflexivity].
    unfold colv1, look. cbn [fst snd]. destruct (get (snd jl) p) as [x|e] eqn:Eg.
    + apply get_range in Eg. rewrite (Hget p cp Hc Eg). reflexivity.
    + apply get_err in Eg as [_ Eg]. rewrite get_oob by lia. reflexivity.
Qed.

Lemma look_all p cp : forall ls S,
  (forall j v, In (j, v) S -> assocZ j cp = Ok v) -> map fst S = map fst (coll p ls) ->
  flat_map (look p cp) ls = S.
Proof.
  induction ls as [|jl ls IH]; intros S HS Hid.
  - cbn in Hid. apply map_eq_nil in Hid. subst. reflexivity.
  - change (coll p (jl :: ls)) with (coll1 p jl ++ coll p ls) in Hid. cbn [flat_map].
    unfold look at 1. unfold coll1 in Hid.
    destruct (get (snd jl) p) as [x|e].
    + cbn [app map fst] in Hid. destruct S as [|[j v] S]; [discriminate|]. cbn [map fst] in Hid.
      inversion Hid as [[Hj Hrest]]. subst j.
      rewrite (HS (fst jl) v (or_introl eq_refl)). cbn [app]. f_equal.
      apply IH; [|exact Hrest]. intros j' v' Hin. apply HS. right. exact Hin.
    + cbn [app] in *. apply IH; assumption.
Qed.

Lemma assocZ_In {A} j (v : A) L : NoDup (map fst L) -> In (j, v) L -> assocZ j L = Ok v.
Proof.
  induction L as [|[k w] L IH]; intros Hd Hin; [contradiction|]. cbn [map fst] in Hd.
  inversion Hd as [|? ? Hn Hd']; subst. cbn [assocZ]. destruct (j =? k) eqn:E.
  - apply Z.eqb_eq in E. subst k. destruct Hin as [Hin|Hin]; [inversion Hin; reflexivity|].
    exfalso. apply Hn. apply (in_map fst) in Hin. exact Hin.
  - destruct Hin as [Hin|Hin]; [inversion Hin; subst; lia|]. auto.
Qed.

(* the lengths of the rows *)
Definition same_row (r o : Z * value) : Prop :=
  fst r = fst o /\ exists l l', snd r = VList l /\ snd o = VList l' /\ length l = length l'.

Theorem sortcols_rows asc a sz t' rows out :
  sortcols asc a (TList sz None t') rows = Ok out -> Forall2 same_row rows out.
Proof.
  intros H. apply sortcols_list_inv in H as (ls & cols & Hls & Hc & Ho).
  rewrite (aslist_rows _ _ Hls).
  assert (Hlen : forall jl, In jl ls -> zlen (snd jl) <= zlen cols).
  { intros jl Hin. rewrite (mapM_zlen _ _ _ Hc), zlen_iota by apply maxlen_nonneg. apply maxlen_ge, Hin. }
  clear Hls Hc. revert out Ho Hlen. induction ls as [|jl ls IH]; intros out Ho Hlen; cbn [mapM] in Ho.
  - inversion Ho; subst. constructor.
  - apply bind_Ok in Ho as (o & Ho1 & Ho). apply bind_Ok in Ho as (out' & Hout & Ho). inversion Ho; subst.
    cbn [map]. constructor.
    + apply rebuild_inv in Ho1 as (vs & -> & Hl & _); [|apply Hlen; left; reflexivity].
      split; [reflexivity|]. exists (snd jl), vs. cbn [snd]. repeat split. apply zlen_eq_length. symmetry. exact Hl.
    + apply IH; [exact Hout|]. intros x Hx. apply Hlen. right. exact Hx.
Qed.

Lemma same_row_colv_nil p rows out : Forall2 same_row rows out -> colv p rows = [] -> colv p out = [].
Proof.
  induction 1 as [|r o rows out Hr Hrest IH]; intros Hn; [reflexivity|].
  rewrite colv_cons in Hn |- *. apply app_eq_nil in Hn as [H1 H2]. rewrite (IH H2), app_nil_r.
  destruct Hr as (_ & l & l' & Er & Eo & Hlen). unfold colv1 in *. rewrite Er in H1. rewrite Eo.
  destruct (get l p) as [x|e] eqn:Eg; [discriminate|]. apply get_err in Eg as [_ Eg].
  rewrite get_oob; [reflexivity|]. unfold zlen in *. lia.
Qed.

Lemma colv_nonnil_range p rows ls :
  mapM aslist rows = Ok ls -> colv p rows <> [] -> 0 <= p < maxlen ls.
Proof.
  intros Hls Hn. rewrite <- (aslist_colv p _ _ Hls) in Hn.
  destruct (coll p ls) as [|jv r] eqn:E; [congruence|].
  assert (Hin : In jv (coll p ls)) by (rewrite E; left; reflexivity).
  apply in_flat_map in Hin as (jl & Hjl & Hin). unfold coll1 in Hin.
  destruct (get (snd jl) p) as [x|e] eqn:Eg; [|contradiction]. apply get_range in Eg.
  pose proof (maxlen_ge _ _ Hjl). lia.
Qed.

(* each non-empty output column is the sorted input column *)
Theorem sortcols_columns_nonempty asc a sz t' rows out :
  NoDup (map fst rows) -> sortcols asc a (TList sz None t') rows = Ok out ->
  forall p, colv p rows <> [] -> sortcols asc a t' (colv p rows) = Ok (colv p out).
Proof.
  intros Hd H p Hn. apply sortcols_list_inv in H as (ls & cols & Hls & Hc & Ho).
  pose proof (colv_nonnil_range p _ _ Hls Hn) as Hp.
  assert (Hzc : zlen cols = maxlen ls) by (rewrite (mapM_zlen _ _ _ Hc), zlen_iota by lia; reflexivity).
  destruct (get_ok cols p) as [cp Hcp]; [lia|].
  pose proof (mapM_get _ _ _ p Hc) as Hg. rewrite Hcp, get_iota in Hg by lia. cbn [bind] in Hg. symmetry in Hg.
  rewrite <- (aslist_colv p _ _ Hls). rewrite Hg. f_equal. symmetry.
  rewrite (colv_rebuilt cols p cp Hcp ls out Ho) by (intros jl Hin; rewrite Hzc; apply maxlen_ge, Hin).
  pose proof (sortcols_ids _ _ _ _ _ Hg) as Hid.
  apply look_all; [|exact Hid].
  intros j v Hin. apply assocZ_In; [|exact Hin]. rewrite Hid. apply coll_NoDup.
  rewrite (aslist_ids _ _ Hls). exact Hd.
Qed.

(* an empty input column gives an empty output column *)
Theorem sortcols_columns_empty asc a sz t' rows out :
  sortcols asc a (TList sz None t') rows = Ok out -> forall p, colv p rows = [] -> colv p out = [].
Proof. intros H p. apply same_row_colv_nil. eapply sortcols_rows, H. Qed.

Theorem sortcols_columns asc a sz t' rows out :
  NoDup (map fst rows) -> sortcols asc a (TList sz None t') rows = Ok out -> sortable t' = true ->
  forall p, sortcols asc a t' (colv p rows) = Ok (colv p out).
Proof.
  intros Hd H S p. destruct (colv p rows) as [|r c] eqn:E.
  - rewrite (sortcols_columns_empty _ _ _ _ _ _ H p E). apply sortcols_nil, S.
  - rewrite <- E. eapply sortcols_columns_nonempty; eauto. congruence.
Qed.
