"""C04 implementation-side runner (executed with /venv/bin/python under pyshim).

Reads case lines        (id ufunc NAME (arr LAYOUT) (scalar N) ...)
prints one line each    (id ok DUMP (numpy agree|differ:..|na))  |  (id err value|runtime|other xTYPE:MSGHEX)  |  (id crash ...)

* LAYOUT / DUMP are in the S-expression layout syntax of /verif/impl/drv/drv_common.h.
* The layouts are built as pyshim node objects (real libawkward behind them), wrapped in ak.Array, and the ufunc /
  operator / ak.broadcast_arrays is applied through the REAL Python code of /repo/src/awkward
  (highlevel.py operators -> _connect/_numpy.array_ufunc -> _util.broadcast_and_apply).
* NAME: add subtract multiply negative absolute maximum minimum less less_equal greater greater_equal equal not_equal
  clip3 (the 3-input ufunc numpy clip)  |  op_add op_sub op_mul op_neg op_abs op_lt op_le op_gt op_ge op_eq op_ne
  (Python operators on ak.Array)  |  proj0 proj1 proj2 (= ak.broadcast_arrays(args)[k]).
* NumPy voter: when every array argument is built only from np / reg / ix nodes (purely regular, no option, no record)
  the same function is applied by plain NumPy to ndarrays computed from the case text by this file (no awkward code
  involved) and compared with ak.to_list / the regular shape of the implementation's result.
"""
import binascii
import math
import os
import sys

sys.path.insert(0, os.environ.get('VERIF_ROOT', '/verif'))
from pyshim.install import install  # noqa: E402

install()
import numpy as np  # noqa: E402
import awkward as ak  # noqa: E402
import pyshim.driver as pdriver  # noqa: E402

L = ak.layout


# ---------------------------------------------------------------- S-expressions
def parse(s):
    pos = [0]
    n = len(s)

    def go():
        while pos[0] < n and s[pos[0]].isspace():
            pos[0] += 1
        if pos[0] >= n:
            raise ValueError('unexpected end')
        if s[pos[0]] == '(':
            pos[0] += 1
            items = []
            while True:
                while pos[0] < n and s[pos[0]].isspace():
                    pos[0] += 1
                if pos[0] >= n:
                    raise ValueError('missing )')
                if s[pos[0]] == ')':
                    pos[0] += 1
                    return items
                items.append(go())
        q = pos[0]
        while q < n and not s[q].isspace() and s[q] not in '()':
            q += 1
        a = s[pos[0]:q]
        pos[0] = q
        return a
    return go()


# ---------------------------------------------------------------- text -> layout
NPDT = {'bool': np.bool_, 'int8': np.int8, 'int16': np.int16, 'int32': np.int32, 'int64': np.int64,
        'uint8': np.uint8, 'uint16': np.uint16, 'uint32': np.uint32, 'uint64': np.uint64,
        'float32': np.float32, 'float64': np.float64}
IDX = {'i32': np.int32, 'u32': np.uint32, 'i64': np.int64}


def datum(a):
    if a == 'nan':
        return float('nan')
    if a == 'inf':
        return float('inf')
    if a == '-inf':
        return float('-inf')
    if a == 'true':
        return 1
    if a == 'false':
        return 0
    return int(a)


def ints(t):
    return [int(x) for x in t]


def np_buffer(dt, data):
    vals = [datum(x) for x in data]
    if dt == 'bool':
        return np.array([v != 0 for v in vals], dtype=np.bool_)
    if dt.startswith('float'):
        return np.array([float(v) for v in vals], dtype=NPDT[dt])
    return np.array(vals, dtype=NPDT[dt]) if vals else np.zeros(0, dtype=NPDT[dt])


def layout_from_sx(t):
    h = t[0]
    if h == 'np':
        shape = ints(t[2])
        buf = np_buffer(t[1], t[3])
        need = 1
        for d in shape:
            need *= d
        return L.NumpyArray(buf[:need].reshape(shape) if len(shape) != 1 or need != len(buf) else buf)
    if h == 'npT':
        # the same values as (np ...), stored in Fortran order: a non-contiguous n-d NumpyArray (a transposed view)
        shape = ints(t[2])
        buf = np_buffer(t[1], t[3])
        need = 1
        for d in shape:
            need *= d
        return L.NumpyArray(np.asfortranarray(buf[:need].reshape(shape)))
    if h == 'empty':
        return L.EmptyArray()
    if h == 'lo':
        w = t[1]
        cls = {'i32': L.ListOffsetArray32, 'u32': L.ListOffsetArrayU32, 'i64': L.ListOffsetArray64}[w]
        icl = {'i32': L.Index32, 'u32': L.IndexU32, 'i64': L.Index64}[w]
        return cls(icl(np.array(ints(t[2]), dtype=IDX[w])), layout_from_sx(t[3]))
    if h == 'la':
        w = t[1]
        cls = {'i32': L.ListArray32, 'u32': L.ListArrayU32, 'i64': L.ListArray64}[w]
        icl = {'i32': L.Index32, 'u32': L.IndexU32, 'i64': L.Index64}[w]
        return cls(icl(np.array(ints(t[2]), dtype=IDX[w])), icl(np.array(ints(t[3]), dtype=IDX[w])),
                   layout_from_sx(t[4]))
    if h == 'reg':
        return L.RegularArray(layout_from_sx(t[3]), int(t[1]), int(t[2]))
    if h == 'ix':
        w = t[1]
        cls = {'i32': L.IndexedArray32, 'u32': L.IndexedArrayU32, 'i64': L.IndexedArray64}[w]
        icl = {'i32': L.Index32, 'u32': L.IndexU32, 'i64': L.Index64}[w]
        return cls(icl(np.array(ints(t[2]), dtype=IDX[w])), layout_from_sx(t[3]))
    if h == 'ixo':
        w = t[1]
        cls = {'i32': L.IndexedOptionArray32, 'i64': L.IndexedOptionArray64}[w]
        icl = {'i32': L.Index32, 'i64': L.Index64}[w]
        return cls(icl(np.array(ints(t[2]), dtype=IDX[w])), layout_from_sx(t[3]))
    if h == 'bym':
        return L.ByteMaskedArray(L.Index8(np.array(ints(t[1]), dtype=np.int8)), layout_from_sx(t[3]),
                                 valid_when=(int(t[2]) != 0))
    if h == 'bim':
        return L.BitMaskedArray(L.IndexU8(np.array(ints(t[1]), dtype=np.uint8)), layout_from_sx(t[5]),
                                valid_when=(int(t[2]) != 0), length=int(t[4]), lsb_order=(int(t[3]) != 0))
    if h == 'unm':
        return L.UnmaskedArray(layout_from_sx(t[1]))
    if h == 'un':
        w = t[1]
        cls = {'i32': L.UnionArray8_32, 'u32': L.UnionArray8_U32, 'i64': L.UnionArray8_64}[w]
        icl = {'i32': L.Index32, 'u32': L.IndexU32, 'i64': L.Index64}[w]
        return cls(L.Index8(np.array(ints(t[2]), dtype=np.int8)), icl(np.array(ints(t[3]), dtype=IDX[w])),
                   [layout_from_sx(c) for c in t[4:]])
    if h == 'rec':
        n = int(t[1])
        cs = [layout_from_sx(c) for c in t[3:]]
        if t[2] == 'tuple':
            return L.RecordArray(cs, None, n)
        return L.RecordArray(cs, list(t[2]), n)
    if h == 'par':
        c = layout_from_sx(t[3])
        if t[1] != 'none':
            c.setparameter('__array__', t[1])
        if t[2] != 'none':
            c.setparameter('__record__', t[2])
        return c
    raise ValueError('layout_from_sx: unknown node %r' % (h,))


# ---------------------------------------------------------------- layout -> text
DTNAME = {np.dtype(v).str: k for k, v in NPDT.items()}


def fmt_datum(dtname, v):
    if dtname == 'bool':
        return '1' if v else '0'
    if dtname.startswith('float'):
        v = float(v)
        if math.isnan(v):
            return 'nan'
        if math.isinf(v):
            return 'inf' if v > 0 else '-inf'
        if v == math.floor(v) and abs(v) < 9.0e18:
            return str(int(v))
        return 'f:' + v.hex()
    return str(int(v))


def idx(i):
    return '(' + ' '.join(str(int(x)) for x in np.asarray(i)) + ')'


def classname(x):
    return type(x).__name__


def sx_from_layout(x):
    raw = sx_raw(x)
    arr = x.parameter('__array__')
    rec = x.parameter('__record__')
    if arr is None and rec is None:
        return raw
    return '(par %s %s %s)' % (arr if arr is not None else 'none', rec if rec is not None else 'none', raw)


def sx_raw(x):
    cn = classname(x)
    if cn == 'NumpyArray':
        a = np.ascontiguousarray(np.asarray(x))
        key = a.dtype.str
        if key not in DTNAME:
            raise ValueError('dtype outside the model: %s' % a.dtype)
        dn = DTNAME[key]
        if a.ndim == 0:
            return '(scalar %s %s)' % (dn, fmt_datum(dn, a[()]))
        return '(np %s (%s) (%s))' % (dn, ' '.join(str(d) for d in a.shape),
                                      ' '.join(fmt_datum(dn, v) for v in a.reshape(-1).tolist()))
    if cn == 'EmptyArray':
        return '(empty)'
    for name, w in (('ListOffsetArray32', 'i32'), ('ListOffsetArrayU32', 'u32'), ('ListOffsetArray64', 'i64')):
        if cn == name:
            return '(lo %s %s %s)' % (w, idx(x.offsets), sx_from_layout(x.content))
    for name, w in (('ListArray32', 'i32'), ('ListArrayU32', 'u32'), ('ListArray64', 'i64')):
        if cn == name:
            return '(la %s %s %s %s)' % (w, idx(x.starts), idx(x.stops), sx_from_layout(x.content))
    if cn == 'RegularArray':
        return '(reg %d %d %s)' % (x.size, len(x), sx_from_layout(x.content))
    for name, w in (('IndexedArray32', 'i32'), ('IndexedArrayU32', 'u32'), ('IndexedArray64', 'i64')):
        if cn == name:
            return '(ix %s %s %s)' % (w, idx(x.index), sx_from_layout(x.content))
    for name, w in (('IndexedOptionArray32', 'i32'), ('IndexedOptionArray64', 'i64')):
        if cn == name:
            return '(ixo %s %s %s)' % (w, idx(x.index), sx_from_layout(x.content))
    if cn == 'ByteMaskedArray':
        return '(bym %s %d %s)' % (idx(x.mask), 1 if x.valid_when else 0, sx_from_layout(x.content))
    if cn == 'BitMaskedArray':
        return '(bim %s %d %d %d %s)' % (idx(x.mask), 1 if x.valid_when else 0, 1 if x.lsb_order else 0, len(x),
                                         sx_from_layout(x.content))
    if cn == 'UnmaskedArray':
        return '(unm %s)' % sx_from_layout(x.content)
    for name, w in (('UnionArray8_32', 'i32'), ('UnionArray8_U32', 'u32'), ('UnionArray8_64', 'i64')):
        if cn == name:
            return '(un %s %s %s %s)' % (w, idx(x.tags), idx(x.index), ' '.join(sx_from_layout(c) for c in x.contents))
    if cn == 'RecordArray':
        keys = 'tuple' if x.istuple else '(' + ' '.join(x.keys()) + ')'
        return '(rec %d %s%s)' % (len(x), keys, ''.join(' ' + sx_from_layout(c) for c in x.contents))
    if cn == 'VirtualArray':
        return sx_from_layout(x.array)
    raise ValueError('sx_from_layout: unknown node class %s' % cn)


# ---------------------------------------------------------------- the functions under test
UFUNCS = {
    'add': np.add, 'subtract': np.subtract, 'multiply': np.multiply, 'negative': np.negative,
    'absolute': np.absolute, 'maximum': np.maximum, 'minimum': np.minimum, 'less': np.less,
    'less_equal': np.less_equal, 'greater': np.greater, 'greater_equal': np.greater_equal, 'equal': np.equal,
    'not_equal': np.not_equal,
}
try:
    UFUNCS['clip3'] = np._core.umath.clip
except AttributeError:      # NumPy 1.x
    UFUNCS['clip3'] = np.core.umath.clip
OPERATORS = {
    'op_add': lambda a, b: a + b, 'op_sub': lambda a, b: a - b, 'op_mul': lambda a, b: a * b,
    'op_neg': lambda a: -a, 'op_abs': lambda a: abs(a), 'op_lt': lambda a, b: a < b, 'op_le': lambda a, b: a <= b,
    'op_gt': lambda a, b: a > b, 'op_ge': lambda a, b: a >= b, 'op_eq': lambda a, b: a == b,
    'op_ne': lambda a, b: a != b,
}
NP_OF_OP = {'op_add': np.add, 'op_sub': np.subtract, 'op_mul': np.multiply, 'op_neg': np.negative,
            'op_abs': np.absolute, 'op_lt': np.less, 'op_le': np.less_equal, 'op_gt': np.greater,
            'op_ge': np.greater_equal, 'op_eq': np.equal, 'op_ne': np.not_equal}


def apply_impl(name, args):
    if name in UFUNCS:
        return UFUNCS[name](*args)
    if name in OPERATORS:
        return OPERATORS[name](*args)
    if name.startswith('proj'):
        return ak.broadcast_arrays(*args)[int(name[4:])]
    raise KeyError('unknown function ' + name)


# ---------------------------------------------------------------- the NumPy voter (independent of awkward)
def nd_from_sx(t):
    """ndarray of a purely regular layout text (np / reg / ix nodes only); None when outside that set"""
    h = t[0]
    if h in ('np', 'npT'):
        shape = ints(t[2])
        buf = np_buffer(t[1], t[3])
        need = 1
        for d in shape:
            need *= d
        return buf[:need].reshape(shape)
    if h == 'reg':
        c = nd_from_sx(t[3])
        if c is None:
            return None
        size, zl = int(t[1]), int(t[2])
        return c[:zl * size].reshape((zl, size) + c.shape[1:])
    if h == 'ix':
        c = nd_from_sx(t[3])
        if c is None:
            return None
        return c[np.array(ints(t[2]), dtype=np.int64)] if len(t[2]) else c[:0]
    return None


def same_value(a, b):
    """structural equality of nested Python lists that keeps bool and numbers apart"""
    if isinstance(a, list) or isinstance(b, list):
        return (isinstance(a, list) and isinstance(b, list) and len(a) == len(b)
                and all(same_value(x, y) for x, y in zip(a, b)))
    if isinstance(a, bool) or isinstance(b, bool):
        return isinstance(a, bool) and isinstance(b, bool) and a == b
    if isinstance(a, float) and isinstance(b, float) and math.isnan(a) and math.isnan(b):
        return True
    return a == b


def numpy_voter(name, argtexts, result):
    nds = []
    for kind, t in argtexts:
        if kind == 'scalar':
            nds.append(t)
        else:
            nd = nd_from_sx(t)
            if nd is None:
                return 'na'
            nds.append(nd)
    try:
        if name in UFUNCS:
            expect = UFUNCS[name](*nds)
        elif name in NP_OF_OP:
            expect = NP_OF_OP[name](*nds)
        else:
            expect = np.broadcast_arrays(*nds)[int(name[4:])]
    except Exception as e:   # noqa: BLE001
        expect = e
    if isinstance(result, Exception):
        if isinstance(expect, Exception):
            return 'agree'
        return 'differ:impl-raised-numpy-ok'
    if isinstance(expect, Exception):
        return 'differ:numpy-raised-%s' % type(expect).__name__
    got = ak.to_list(result)
    if not same_value(got, expect.tolist()):
        return 'differ:value'
    try:
        shape = tuple(np.asarray(ak.to_numpy(result)).shape)
    except Exception:     # noqa: BLE001
        return 'differ:not-rectilinear'
    if shape != tuple(expect.shape):
        return 'differ:shape'
    return 'agree'


# ---------------------------------------------------------------- main loop
def hexmsg(e):
    s = '%s:%s' % (type(e).__name__, str(e).split('\n')[0][:300])
    return 'x' + binascii.hexlify(s.encode('utf-8', 'replace')).decode()


def scalar_of(t):
    if len(t) == 2:
        return int(t[1])
    if t[1] == 'float':
        return float(datum(t[2]))
    if t[1] == 'bool':
        return bool(int(t[2]))
    return int(t[2])


def run_case(t):
    cid, op, name = t[0], t[1], t[2]
    if op != 'ufunc':
        return '(%s bad unknown-op)' % cid
    args, argtexts = [], []
    for a in t[3:]:
        if a[0] == 'arr':
            args.append(ak.Array(layout_from_sx(a[1])))
            argtexts.append(('arr', a[1]))
        elif a[0] == 'scalar':
            v = scalar_of(a)
            args.append(v)
            argtexts.append(('scalar', v))
        else:
            return '(%s bad unknown-arg)' % cid
    try:
        res = apply_impl(name, args)
    except pdriver.DriverCrashed as e:
        return '(%s crash rc=%s)' % (cid, getattr(e, 'returncode', '?'))
    except ValueError as e:
        return '(%s err value %s (numpy %s))' % (cid, hexmsg(e), numpy_voter(name, argtexts, e))
    except RuntimeError as e:
        return '(%s err runtime %s (numpy %s))' % (cid, hexmsg(e), numpy_voter(name, argtexts, e))
    except Exception as e:    # noqa: BLE001
        return '(%s err other %s (numpy %s))' % (cid, hexmsg(e), numpy_voter(name, argtexts, e))
    try:
        if isinstance(res, ak.Array):
            d = sx_from_layout(res.layout)
        elif isinstance(res, ak.Record):
            d = '(record %d %s)' % (res.layout.at, sx_from_layout(res.layout.array))
        else:
            a = np.asarray(res)
            d = sx_raw(L.NumpyArray(a.reshape(1)))
            d = '(scalar ' + d.split(' ')[1] + ' ' + d.rstrip(')').split('(')[-1] + ')'
        nv = numpy_voter(name, argtexts, res)
    except pdriver.DriverCrashed as e:
        return '(%s crash rc=%s)' % (cid, getattr(e, 'returncode', '?'))
    except Exception as e:    # noqa: BLE001
        return '(%s bad dump %s)' % (cid, hexmsg(e))
    return '(%s ok %s (numpy %s))' % (cid, d, nv)


def main():
    out = sys.stdout
    for line in sys.stdin:
        line = line.strip()
        if not line or line.startswith('#'):
            continue
        try:
            t = parse(line)
        except Exception as e:    # noqa: BLE001
            out.write('(? bad parse %s)\n' % hexmsg(e))
            out.flush()
            continue
        try:
            r = run_case(t)
        except pdriver.DriverCrashed as e:
            r = '(%s crash rc=%s)' % (t[0], getattr(e, 'returncode', '?'))
        except Exception as e:    # noqa: BLE001
            r = '(%s bad %s)' % (t[0], hexmsg(e))
        out.write(r + '\n')
        out.flush()


if __name__ == '__main__':
    main()
