(** C08: RecordArray::mergemany on record / tuple operands (keys in any order): columns and rows. *)
From Coq Require Import ZArith List Bool Lia ZifyBool.
From AwkV Require Import Base Layout LayoutInd Valid Types Carry Proofs_C11 Proofs_ToList Proofs_Carry.
From AwkMerge Require Import Merge Lemmas_C08 Proofs_C08 Proofs_MM Proofs_Simplify Proofs_MML Proofs_Concat Proofs_MM2 Proofs_MM2t.
Import ListNotations.
Open Scope Z_scope.

(* ---------------------------------------------------------------- keys *)
Lemma nm_eqb_eq (a b : name) : nm_eqb a b = true <-> a = b.
Proof.
  unfold nm_eqb. revert b. induction a as [|x a IH]; destruct b as [|y b]; cbn; try (split; congruence).
  rewrite andb_true_iff, IH. split.
  - intros [H1 H2]. f_equal; [lia|assumption].
  - intros H. inversion H; subst. split; [lia|reflexivity].
Qed.
Lemma nm_eqb_refl a : nm_eqb a a = true.
Proof. now apply nm_eqb_eq. Qed.
Lemma keys_eqb_eq (a b : list name) : list_eqb nm_eqb a b = true -> a = b.
Proof.
  revert b. induction a as [|x a IH]; destruct b as [|y b]; cbn; try congruence.
  intros H. apply andb_true_iff in H. destruct H as [H1 H2]. apply nm_eqb_eq in H1. f_equal; auto.
Qed.
Lemma existsb_nm_false k l i : existsb (nm_eqb k) l = false -> (i < length l)%nat -> nm_eqb (nth i l []) k = false.
Proof.
  revert i. induction l as [|x l IH]; intros i H Hi; cbn in *; [lia|].
  apply orb_false_iff in H. destruct H as [H1 H2]. destruct i.
  - cbn [nth]. destruct (nm_eqb x k) eqn:E; [|exact E]. apply nm_eqb_eq in E. subst. rewrite nm_eqb_refl in H1. discriminate.
  - cbn [nth]. apply IH; [assumption|lia].
Qed.
Lemma find_field_nth k : forall cs i, nodupb k = true -> length k = length cs -> (i < length k)%nat ->
  find_field (nth i k []) k cs = Some (nth i cs Empty).
Proof.
  induction k as [|a k IH]; intros cs i Hn Hl Hi; [cbn in Hi; lia|].
  destruct cs as [|c cs]; [discriminate|]. cbn in Hn. apply andb_true_iff in Hn. destruct Hn as [Hn1 Hn2].
  apply negb_true_iff in Hn1. destruct i; cbn [nth find_field].
  - now rewrite nm_eqb_refl.
  - cbn in Hi. rewrite (existsb_nm_false a k i Hn1) by lia. apply IH; auto. cbn in Hl. lia.
Qed.
Lemma tlook_nth k : forall ts i, nodupb k = true -> length k = length ts -> (i < length k)%nat ->
  tlook (nth i k []) k ts = nth i ts (DL DBool).
Proof.
  induction k as [|a k IH]; intros ts i Hn Hl Hi; [cbn in Hi; lia|].
  destruct ts as [|t ts]; [discriminate|]. cbn in Hn. apply andb_true_iff in Hn. destruct Hn as [Hn1 Hn2].
  apply negb_true_iff in Hn1. destruct i; cbn [nth tlook].
  - now rewrite nm_eqb_refl.
  - cbn in Hi. rewrite (existsb_nm_false a k i Hn1) by lia. apply IH; auto. cbn in Hl. lia.
Qed.
Lemma find_field_In k : forall ks cs f, find_field k ks cs = Some f -> In f cs.
Proof.
  induction ks as [|k1 ks IH]; intros cs f H; [discriminate|]. destruct cs as [|c cs]; [discriminate|].
  cbn in H. destruct (nm_eqb k k1); [inversion H; now left|right; eauto].
Qed.

Lemma all2_nth {A B} (f : A -> B -> bool) : forall l m, all2 f l m = true ->
  length l = length m /\ forall i da db, (i < length l)%nat -> f (nth i l da) (nth i m db) = true.
Proof.
  induction l as [|x l IH]; destruct m as [|y m]; cbn; intros H; try discriminate.
  - split; [reflexivity|]. intros; lia.
  - apply andb_true_iff in H. destruct H as [H1 H2]. destruct (IH _ H2) as [Hl Hn]. split; [lia|].
    intros [|i] da db Hi; [exact H1|]. apply Hn. lia.
Qed.

(* ---------------------------------------------------------------- rows of column-wise concatenations *)
Definition capp (A B : list (list value)) : list (list value) := map (fun p => fst p ++ snd p) (zip A B).

Lemma row_capp_l ks A B p i : length A = length B -> Forall (fun l => zlen l = p) A -> 0 <= i < p ->
  row ks (capp A B) i = row ks A i.
Proof.
  intros HL HA Hi. unfold row.
  replace (mapM (fun col : list value => get col i) (capp A B)) with (mapM (fun col : list value => get col i) A); [reflexivity|].
  unfold capp. revert B HL. induction HA as [|a A Ha _ IH]; intros [|b B] HL; cbn in *; try discriminate; [reflexivity|].
  rewrite Proofs_Lists.get_app1 by lia. rewrite (IH B) by lia. reflexivity.
Qed.
Lemma row_capp_r ks A B p i : length A = length B -> Forall (fun l => zlen l = p) A -> 0 <= i ->
  row ks (capp A B) (i + p) = row ks B i.
Proof.
  intros HL HA Hi. unfold row.
  replace (mapM (fun col : list value => get col (i + p)) (capp A B)) with (mapM (fun col : list value => get col i) B); [reflexivity|].
  unfold capp. revert B HL. induction HA as [|a A Ha _ IH]; intros [|b B] HL; cbn in *; try discriminate; [reflexivity|].
  rewrite Proofs_Lists.get_app2 by lia. replace (i + p - zlen a) with i by lia. rewrite (IH B) by lia. reflexivity.
Qed.
Lemma iota_add p q : 0 <= p -> 0 <= q -> iota (p + q) = iota p ++ map (fun i => i + p) (iota q).
Proof.
  intros Hp Hq. unfold iota. rewrite Z2Nat.inj_add by lia. rewrite Lemmas_C08.iota_nat_app.
  f_equal. rewrite Z2Nat.id by lia. rewrite <- (Lemmas_C08.iota_nat_shift 0 p). reflexivity.
Qed.
Lemma rows_capp ks A B p q ra rb : length A = length B -> Forall (fun l => zlen l = p) A -> 0 <= p -> 0 <= q ->
  mapM (row ks A) (iota p) = Ok ra -> mapM (row ks B) (iota q) = Ok rb ->
  mapM (row ks (capp A B)) (iota (p + q)) = Ok (ra ++ rb).
Proof.
  intros HL HA Hp Hq Ha Hb. rewrite iota_add by lia. rewrite Lemmas_C08.mapM_app.
  rewrite (mapM_ext _ (row ks A)), Ha.
  2:{ intros i Hi. apply iota_In in Hi. eapply row_capp_l; eauto. }
  cbn [bind]. rewrite mapM_map. rewrite (mapM_ext _ (row ks B)), Hb; [reflexivity|].
  intros i Hi. apply iota_In in Hi. eapply row_capp_r; eauto. lia.
Qed.

Lemma capp_map {I} (f g : I -> list value) l : capp (map f l) (map g l) = map (fun i => f i ++ g i) l.
Proof. unfold capp. induction l; cbn; [reflexivity|]. now rewrite IHl. Qed.

(* columns given per index i (in [idx]) and per operand X: the rows of the column-wise concatenation over the
   operands are the concatenation of the operands' rows *)
Lemma rows_concat {X I} ks (idx : list I) (B : X -> I -> list value) (len : X -> Z) (R : X -> list value) (L : list X) :
  Forall (fun x => 0 <= len x /\ Forall (fun i => zlen (B x i) = len x) idx /\
                   mapM (row ks (map (B x) idx)) (iota (len x)) = Ok (R x)) L ->
  mapM (row ks (map (fun i => concat (map (fun x => B x i) L)) idx)) (iota (sumZ (map len L)))
  = Ok (concat (map R L)) /\ 0 <= sumZ (map len L).
Proof.
  induction 1 as [|x L (Hx1 & Hx2 & Hx3) _ [IH IH0]].
  - cbn. split; [|lia]. unfold iota. cbn. reflexivity.
  - cbn [map concat sumZ fold_right]. fold (sumZ (map len L)). split; [|lia].
    rewrite <- (capp_map (B x) (fun i => concat (map (fun x0 => B x0 i) L)) idx).
    apply rows_capp; auto.
    + now rewrite !map_length.
    + apply Forall_forall. intros l Hl. apply in_map_iff in Hl. destruct Hl as (i & <- & Hi).
      rewrite Forall_forall in Hx2. auto.
Qed.

(* ---------------------------------------------------------------- one operand: its rows, cast *)
Lemma mapM_map_ok {A B C} (h : A -> res B) (f : A -> res C) (g : B -> C) l ys :
  (forall x y, In x l -> h x = Ok y -> f x = Ok (g y)) -> mapM h l = Ok ys -> mapM f l = Ok (map g ys).
Proof.
  revert ys. induction l as [|x l IH]; intros ys Hf H; cbn in *.
  - inversion H. reflexivity.
  - destruct (h x) as [b0|] eqn:E; cbn in H; [|discriminate]. destruct (mapM h l) as [l0|] eqn:E2; cbn in H; [|discriminate].
    inversion H; subst. rewrite (Hf x b0) by auto. cbn. rewrite (IH l0) by auto. reflexivity.
Qed.
Lemma get_map_take {A B} (g : A -> B) (V : list A) n j v : j < n -> get V j = Ok v -> get (map g (take n V)) j = Ok (g v).
Proof. intros Hj H. rewrite Proofs_Lists.get_map, Proofs_Lists.get_take, H by lia. reflexivity. Qed.

Lemma assoc_find k j : forall ks' cs' vss rv f,
  length ks' = length cs' -> mapM to_list cs' = Ok vss -> mapM (fun col : list value => get col j) vss = Ok rv ->
  find_field k ks' cs' = Some f -> exists v, get (vals f) j = Ok v /\ assoc_name k (zip ks' rv) = Some v.
Proof.
  induction ks' as [|k1 ks' IH]; intros cs' vss rv f HL Hv Hr Hf; [discriminate|].
  destruct cs' as [|c cs']; [discriminate|]. cbn [mapM] in Hv.
  apply bind_ok in Hv. destruct Hv as (vc & Hvc & Hv). apply bind_ok in Hv. destruct Hv as (vr & Hvr & Hv).
  inversion Hv; subst vss. cbn [mapM] in Hr.
  apply bind_ok in Hr. destruct Hr as (r1 & Hr1 & Hr). apply bind_ok in Hr. destruct Hr as (rr & Hrr & Hr).
  inversion Hr; subst rv. cbn [find_field] in Hf. cbn [zip assoc_name]. destruct (nm_eqb k k1).
  - inversion Hf; subst. exists r1. rewrite (vals_ok _ _ Hvc). auto.
  - eapply IH; eauto.
Qed.
Lemma assoc_cast k ks ts : forall fs,
  assoc_name k (cast_fields ks ts fs) = option_map (dcast (tlook k ks ts)) (assoc_name k fs).
Proof.
  induction fs as [|[k1 x] fs IH]; cbn; [reflexivity|]. destruct (nm_eqb k k1) eqn:E; [|exact IH].
  apply nm_eqb_eq in E. subst. reflexivity.
Qed.
Lemma zip_keys_seq (F : nat -> value) (G : name -> value) : forall (k : list name) s,
  (forall i, (i < length k)%nat -> F (s + i)%nat = G (nth i k [])) ->
  zip k (map F (seq s (length k))) = map (fun kx => (kx, G kx)) k.
Proof.
  induction k as [|a k IH]; intros s H; [reflexivity|]. cbn [length seq map zip]. f_equal.
  - f_equal. specialize (H O ltac:(cbn; lia)). rewrite Nat.add_0_r in H. exact H.
  - apply IH. intros i Hi. specialize (H (S i) ltac:(cbn; lia)). rewrite Nat.add_succ_r in H. exact H.
Qed.
Lemma mapM_get_nth j : forall (vss : list (list value)) rv i, mapM (fun col : list value => get col j) vss = Ok rv ->
  (i < length vss)%nat -> get (nth i vss []) j = Ok (nth i rv VNone).
Proof.
  induction vss as [|c vss IH]; intros rv i H Hi; [cbn in Hi; lia|]. cbn [mapM] in H.
  apply bind_ok in H. destruct H as (r1 & Hr1 & H). apply bind_ok in H. destruct H as (rr & Hrr & H). inversion H; subst.
  destruct i; [exact Hr1|]. cbn [nth]. apply IH; [assumption|cbn in Hi; lia].
Qed.
Lemma cast_tup_seq : forall Ts rv s, length Ts = length rv ->
  cast_tup Ts rv = map (fun i => dcast (nth (i - s) Ts (DL DBool)) (nth (i - s) rv VNone)) (seq s (length rv)).
Proof.
  induction Ts as [|t Ts IH]; intros [|x rv] s HL; try discriminate; [reflexivity|].
  cbn [cast_tup length seq map]. rewrite Nat.sub_diag. cbn [nth]. f_equal.
  rewrite (IH rv (S s)) by (cbn in HL; lia). apply map_ext_in. intros i Hi. apply in_seq in Hi.
  replace (i - s)%nat with (S (i - S s)) by lia. reflexivity.
Qed.
Lemma mapM_nth_vals : forall cs vss i, mapM to_list cs = Ok vss -> (i < length cs)%nat ->
  to_list (nth i cs Empty) = Ok (nth i vss []).
Proof.
  induction cs as [|c cs IH]; intros vss i H Hi; [cbn in Hi; lia|]. cbn [mapM] in H.
  apply bind_ok in H. destruct H as (vc & Hvc & H). apply bind_ok in H. destruct H as (vr & Hvr & H). inversion H; subst.
  destruct i; [exact Hvc|]. cbn [nth]. apply IH; [assumption|cbn in Hi; lia].
Qed.

Definition rfields (x : content) : list content := match x with Record cs _ _ => cs | _ => [] end.
Definition rkeys (x : content) : option (list name) := match x with Record _ ks _ => ks | _ => None end.
(* column i of operand x, in the order of the result's keys [ks] *)
Definition colf (ks : option (list name)) (i : nat) (x : content) : content :=
  match ks, rkeys x with
  | Some k, Some k' => match find_field (nth i k []) k' (rfields x) with Some f => f | None => Empty end
  | _, _ => nth i (rfields x) Empty
  end.
Definition keys_ok (ks : option (list name)) (m : nat) : Prop :=
  match ks with Some k => nodupb k = true /\ length k = m | None => True end.

Lemma operand_cols ks ss x i :
  hasL (KRec ks ss) x = true -> valid_b x = true -> tl_ok x -> (i < length ss)%nat -> keys_ok ks (length ss) ->
  hasL (nth i ss (KOld SNum)) (colf ks i x) = true /\ In (colf ks i x) (rfields x) /\
  (exists cs ks' len, x = Record cs ks' len /\
     match ks, ks' with
     | None, None => length cs = length ss
     | Some k, Some k' => same_keys k k' = true /\ length k' = length cs
     | _, _ => False
     end).
Proof.
  intros HL Hv Ht Hi Hk. destruct x; cbn [hasL] in HL; try discriminate.
  apply andb_true_iff in HL. destruct HL as [Htr HL].
  destruct ks as [k|], keys as [k'|]; try discriminate; unfold colf; cbn [rkeys rfields].
  - apply andb_true_iff in HL. destruct HL as [HL Ha]. apply andb_true_iff in HL. destruct HL as [Hsk Hlk].
    destruct (all2_nth _ _ _ Ha) as [Hlen Hn]. specialize (Hn i (KOld SNum) [] Hi). cbn beta in Hn.
    destruct (find_field (nth i k []) k' cs) as [f|] eqn:E; [|discriminate].
    split; [exact Hn|]. split; [eapply find_field_In; eauto|].
    exists cs, (Some k'), len. split; [reflexivity|]. split; [exact Hsk|]. apply Nat.eqb_eq. exact Hlk.
  - destruct (all2_nth _ _ _ HL) as [Hlen Hn]. specialize (Hn i (KOld SNum) Empty Hi).
    split; [exact Hn|]. split; [apply nth_In; lia|].
    exists cs, None, len. split; [reflexivity|]. lia.
Qed.

Lemma operand_rows ks ss Ts x :
  hasL (KRec ks ss) x = true -> valid_b x = true -> tl_ok x -> length Ts = length ss -> keys_ok ks (length ss) ->
  mapM (row ks (map (fun i => map (dcast (nth i Ts (DL DBool))) (take (clen x) (vals (colf ks i x)))) (seq 0 (length ss))))
       (iota (clen x)) = Ok (map (dcast (DR ks Ts)) (vals x)).
Proof.
  intros HL Hv [vx Ht] HT Hk. rewrite (vals_ok _ _ Ht).
  destruct x; cbn [hasL] in HL; try discriminate.
  apply andb_true_iff in HL. destruct HL as [Htr HL].
  rewrite to_list_Record' in Ht. apply bind_ok in Ht. destruct Ht as (vss & Hvss & Ht).
  destruct (len <? 0) eqn:En; [discriminate|]. cbn [clen].
  rewrite valid_Record in Hv. apply andb4 in Hv. destruct Hv as (Hv1 & Hv2 & Hv3 & Hv4).
  pose proof (mapM_length _ _ _ Hvss) as Hlv.
  eapply mapM_map_ok; [|exact Ht]. intros j y Hj Hy. apply iota_In in Hj.
  unfold row in Hy. apply bind_ok in Hy. destruct Hy as (rv & Hrv & Hy).
  pose proof (mapM_length _ _ _ Hrv) as Hlr.
  unfold row. rewrite mapM_map.
  destruct ks as [k|], keys as [k'|]; try discriminate; unfold colf; cbn [rkeys rfields].
  - (* named *)
    apply andb_true_iff in HL. destruct HL as [HL Ha]. apply andb_true_iff in HL. destruct HL as [Hsk Hlk].
    apply Nat.eqb_eq in Hlk. destruct Hk as [Hnd Hkl].
    destruct (all2_nth _ _ _ Ha) as [Hlen Hn].
    destruct (Nat.eqb (length k') (length rv)) eqn:Ekr; [|discriminate]. inversion Hy; subst y. clear Hy.
    assert (HM : mapM (fun i => get (map (dcast (nth i Ts (DL DBool)))
                                       (take len (vals match find_field (nth i k []) k' cs with Some f => f | None => Empty end))) j)
                      (seq 0 (length ss))
                 = Ok (map (fun i => dcast (nth i Ts (DL DBool)) (assoc_or (nth i k []) (zip k' rv))) (seq 0 (length ss)))).
    { rewrite <- mapM_Ok. apply mapM_ext. intros i Hi. apply in_seq in Hi.
      specialize (Hn i (KOld SNum) [] ltac:(lia)). cbn beta in Hn.
      destruct (find_field (nth i k []) k' cs) as [f|] eqn:E; [|discriminate].
      destruct (assoc_find _ j _ _ _ _ _ Hlk Hvss Hrv E) as (v & Hg & Has).
      unfold assoc_or. rewrite Has. apply get_map_take; [lia|exact Hg]. }
    rewrite HM. cbn [bind]. rewrite map_length, seq_length, Hkl, Nat.eqb_refl.
    rewrite dcast_VRec. do 2 f_equal. unfold reorder. rewrite <- Hkl.
    apply zip_keys_seq. intros i Hi. cbn [Nat.add].
    unfold assoc_or at 2. rewrite assoc_cast. unfold assoc_or.
    rewrite tlook_nth by (auto; lia).
    destruct (assoc_name (nth i k []) (zip k' rv)); reflexivity.
  - (* tuple *)
    inversion Hy; subst y. clear Hy.
    destruct (all2_nth _ _ _ HL) as [Hlen Hn].
    assert (HM : mapM (fun i => get (map (dcast (nth i Ts (DL DBool))) (take len (vals (nth i cs Empty)))) j)
                      (seq 0 (length ss))
                 = Ok (map (fun i => dcast (nth i Ts (DL DBool)) (nth i rv VNone)) (seq 0 (length ss)))).
    { rewrite <- mapM_Ok. apply mapM_ext. intros i Hi. apply in_seq in Hi.
      rewrite (vals_ok _ _ (mapM_nth_vals _ _ i Hvss ltac:(lia))).
      apply get_map_take; [lia|]. apply mapM_get_nth; [exact Hrv|lia]. }
    rewrite HM. cbn [bind]. rewrite dcast_VTup. f_equal.
    rewrite (cast_tup_seq Ts rv O) by lia. replace (length rv) with (length ss) by lia. f_equal.
    apply map_ext. intros i. rewrite Nat.sub_0_r. reflexivity.
Qed.
