(** C08: simplify_optiontype / simplify_uniontype keep every value. *)
From Coq Require Import ZArith List Bool Lia ZifyBool.
From AwkV Require Import Base Layout LayoutInd Valid Types Carry Proofs_C11.
From AwkMerge Require Import Merge Lemmas_C08 Proofs_C08 Proofs_MM.
Import ListNotations.
Open Scope Z_scope.

Lemma to_list_nostr c : is_strk (fst (params c)) = false -> to_list c = to_list (body c).
Proof.
  destruct c; try reflexivity. cbn [params fst body to_list]. intros H.
  destruct (to_list c); cbn; [|reflexivity]. destruct arr as [[]|]; cbn in H; try discriminate; reflexivity.
Qed.
Lemma to_list_mkpar p x : is_strk (fst p) = false -> to_list (mkpar p x) = to_list x.
Proof.
  destruct p as [[a|] [r|]]; cbn [mkpar fst]; intros H; try reflexivity;
    cbn [to_list]; destruct (to_list x); cbn; try reflexivity; destruct a; cbn in H; try discriminate; reflexivity.
Qed.

Lemma get_mapM_inv {A B} (f : A -> res B) l ys i y :
  mapM f l = Ok ys -> get ys i = Ok y -> exists x, get l i = Ok x /\ f x = Ok y.
Proof.
  intros HM HG. destruct (get_ok _ _ _ HG) as [Hr N].
  pose proof (mapM_zlen _ _ _ HM) as HL.
  destruct (get_in_range l i) as [x Hx]; [lia|].
  destruct (get_mapM _ _ _ _ _ HM Hx) as (y' & Hy' & Hg'). exists x. split; auto. congruence.
Qed.

Lemma sem_ix_compose oo io vi vcc outer inner r vs :
  sem_ix oo vi outer = Ok vs -> sem_ix io vcc inner = Ok vi -> simplify_ix outer inner = Ok r ->
  sem_ix (oo || io) vcc r = Ok vs.
Proof.
  unfold sem_ix, simplify_ix. intros Ho Hi Hr.
  rewrite (mapM_comp _ _ _ _ Hr). rewrite <- Ho.
  apply mapM_ok_Forall2 in Ho.
  assert (HF : Forall (fun j => exists v, (if oo then pick_opt vi (0 <=? j) j else get vi j) = Ok v) outer).
  { clear -Ho. induction Ho; constructor; eauto. }
  clear Ho Hr. apply mapM_ext. intros j Hin. eapply Forall_forall in HF; eauto. destruct HF as [v Hv].
  rewrite Hv.
  destruct (j <? 0) eqn:Ej.
  - destruct oo.
    + unfold pick_opt in Hv. replace (0 <=? j) with false in Hv by lia. inversion Hv; subst. cbn. reflexivity.
    + apply get_ok in Hv. lia.
  - assert (Hg : get vi j = Ok v).
    { destruct oo; [|exact Hv]. unfold pick_opt in Hv. replace (0 <=? j) with true in Hv by lia. exact Hv. }
    destruct (get_mapM_inv _ _ _ _ _ Hi Hg) as (x & Hx & Hfx).
    destruct (get_ok _ _ _ Hx) as [Hrange _].
    replace (zlen inner <=? j) with false by lia. rewrite Hx. cbn [bind].
    destruct io.
    + rewrite orb_true_r. exact Hfx.
    + rewrite orb_false_r. destruct oo; [|exact Hfx].
      destruct (get_ok _ _ _ Hfx) as [Hxr _]. unfold pick_opt. replace (0 <=? x) with true by lia. exact Hfx.
Qed.

(* content under an indexed / option node *)
Definition opt_content (c : content) : option content :=
  match body c with
  | Indexed _ _ x | IndexedOption _ _ x | ByteMasked _ _ x | BitMasked _ _ _ _ x | Unmasked x => Some x
  | _ => None
  end.

Lemma ix_parts_content b p : ix_parts b = Ok p -> opt_content b = Some (snd p) /\ body b = b.
Proof.
  destruct b; cbn; try discriminate; intros H; try (inversion H; subst; split; reflexivity).
  apply bind_ok in H. destruct H as (oi & Hoi & H). inversion H; subst. cbn [snd].
  apply bind_ok in Hoi. destruct Hoi as (ixs & _ & Hoi). inversion Hoi; subst. split; reflexivity.
Qed.

Lemma valid_ixopt_nostr ci : valid_b ci = true -> is_ixopt ci = true -> is_strk (fst (params ci)) = false.
Proof.
  unfold valid_b, is_ixopt. destruct ci; cbn; try reflexivity.
  destruct ci; try discriminate; intros Hv _; destruct arr as [[]|]; try reflexivity; cbn in Hv; discriminate.
Qed.

Theorem simplify_option_value_pf c c' ci vs :
  opt_content c = Some ci -> valid_b ci = true -> is_strk (fst (params c)) = false ->
  to_list c = Ok vs -> simplify_option c = Ok c' -> to_list c' = Ok vs.
Proof.
  intros Hoc Hvi Hns Ht Hs. rewrite (to_list_nostr _ Hns) in Ht.
  unfold simplify_option in Hs. unfold opt_content in Hoc.
  destruct (is_ixopt ci) eqn:Eix.
  2:{ (* nothing nested: unchanged *)
    rewrite <- (to_list_nostr _ Hns) in Ht.
    destruct (body c); try discriminate; inversion Hoc; subst; rewrite Eix in Hs; inversion Hs; subst; exact Ht. }
  pose proof (valid_ixopt_nostr _ Hvi Eix) as Hnsi.
  assert (Hmain : forall po, ix_parts (body c) = Ok po -> snd po = ci ->
            (do pi <- ix_parts (body ci);
             let '(iopt, inner, cc) := pi in
             do r <- simplify_ix (snd (fst po)) inner;
             Ok (mkpar (params c) (if (fst (fst po) || iopt)%bool then IndexedOption I64 r cc else Indexed I64 r cc))) = Ok c' ->
            to_list c' = Ok vs).
  { intros [[oo outer] x] HP Hx Hbody. cbn [fst snd] in *. subst x.
    apply bind_ok in Hbody. destruct Hbody as ([[io inner] cc] & HPi & Hbody).
    apply bind_ok in Hbody. destruct Hbody as (r & Hr & Hbody). inversion Hbody; subst. clear Hbody.
    destruct (ix_parts_sem _ _ _ _ _ HP Ht) as (vi & Hvi' & Hso).
    rewrite (to_list_nostr _ Hnsi) in Hvi'.
    destruct (ix_parts_sem _ _ _ _ _ HPi Hvi') as (vcc & Hvcc & Hsi).
    pose proof (sem_ix_compose _ _ _ _ _ _ _ _ Hso Hsi Hr) as Hfin.
    rewrite to_list_mkpar by exact Hns.
    unfold sem_ix in Hfin. destruct (oo || io)%bool; cbn [to_list]; rewrite Hvcc; exact Hfin. }
  destruct (body c) eqn:Eb; try discriminate; inversion Hoc; subst; rewrite Eix in Hs.
  - apply (Hmain (false, index, ci)); auto.
  - apply bind_ok in Hs. destruct Hs as (po & HP & Hs). destruct po as [[oo outer] x].
    eapply (Hmain (oo, outer, x)); eauto. cbn in HP. inversion HP; reflexivity.
  - apply bind_ok in Hs. destruct Hs as (po & HP & Hs). destruct po as [[oo outer] x].
    eapply (Hmain (oo, outer, x)); eauto. cbn in HP. inversion HP; reflexivity.
  - apply bind_ok in Hs. destruct Hs as (po & HP & Hs). destruct po as [[oo outer] x].
    eapply (Hmain (oo, outer, x)); eauto. destruct (ix_parts_content _ _ HP) as [Hc _]. cbn in Hc. inversion Hc. reflexivity.
  - (* Unmasked over an indexed / option node: the node itself *)
    inversion Hs; subst. cbn [to_list] in Ht. exact Ht.
Qed.

(* the result has no option / indexed node directly inside it *)
Lemma valid_content_not_optionlike ci cc : valid_b ci = true -> opt_content ci = Some cc -> optionlike cc = false.
Proof.
  unfold valid_b, opt_content. intros Hv Ho.
  assert (H : forall p x, validb p x = true -> match x with
             | Indexed _ _ y | IndexedOption _ _ y | ByteMasked _ _ y | BitMasked _ _ _ _ y | Unmasked y => optionlike y = false
             | _ => True end).
  { intros p x Hx. destruct x; try exact I; cbn [validb] in Hx;
      repeat (apply andb_true_iff in Hx; destruct Hx as [Hx ?]);
      match goal with Hn : negb (optionlike _) = true |- _ => apply negb_true_iff in Hn; exact Hn end. }
  destruct ci; cbn [body] in Ho; try discriminate;
    try (specialize (H _ _ Hv); cbn in H; inversion Ho; subst; exact H).
  (* Par *)
  cbn [validb] in Hv. destruct ci; try discriminate; specialize (H _ _ Hv); cbn in H; inversion Ho; subst; exact H.
Qed.

Theorem simplify_option_flat_pf c c' ci :
  opt_content c = Some ci -> valid_b ci = true -> simplify_option c = Ok c' ->
  exists cc, opt_content c' = Some cc /\ optionlike cc = false.
Proof.
  intros Hoc Hvi Hs. unfold simplify_option in Hs. pose proof Hoc as Hoc'. unfold opt_content in Hoc.
  destruct (is_ixopt ci) eqn:Eix.
  2:{ exists ci. split.
      - destruct (body c); try discriminate; inversion Hoc; subst; rewrite Eix in Hs; inversion Hs; subst; exact Hoc'.
      - unfold is_ixopt in Eix. unfold valid_b in Hvi. unfold optionlike.
        destruct ci; cbn [body strip] in Eix |- *; try reflexivity; try discriminate.
        cbn [validb] in Hvi.
        destruct ci; cbn [strip] in *; try reflexivity; try discriminate. }
  assert (Hmain : forall (oo : bool) (outer : list Z),
            (do pi <- ix_parts (body ci);
             let '(iopt, inner, cc) := pi in
             do r <- simplify_ix outer inner;
             Ok (mkpar (params c) (if (oo || iopt)%bool then IndexedOption I64 r cc else Indexed I64 r cc))) = Ok c' ->
            exists cc, opt_content c' = Some cc /\ optionlike cc = false).
  { intros oo outer Hbody.
    apply bind_ok in Hbody. destruct Hbody as ([[io inner] cc] & HPi & Hbody).
    apply bind_ok in Hbody. destruct Hbody as (r & Hr & Hbody). inversion Hbody; subst. clear Hbody.
    destruct (ix_parts_content _ _ HPi) as [Hcc Hbb]. cbn [snd] in Hcc.
    exists cc. split.
    - unfold opt_content. destruct (params c) as [[a|] [rn|]]; destruct (oo || io)%bool; reflexivity.
    - eapply valid_content_not_optionlike; eauto. unfold opt_content in *. rewrite Hbb in Hcc. exact Hcc. }
  destruct (body c) eqn:Eb; try discriminate; inversion Hoc; subst; rewrite Eix in Hs.
  - eapply (Hmain false index); eauto.
  - apply bind_ok in Hs. destruct Hs as ([[oo outer] x] & HP & Hs). eapply (Hmain oo outer); eauto.
  - apply bind_ok in Hs. destruct Hs as ([[oo outer] x] & HP & Hs). eapply (Hmain oo outer); eauto.
  - apply bind_ok in Hs. destruct Hs as ([[oo outer] x] & HP & Hs). eapply (Hmain oo outer); eauto.
  - inversion Hs; subst. unfold is_ixopt in Eix.
    destruct (opt_content c') as [cc|] eqn:Ec.
    + exists cc. split; auto. eapply valid_content_not_optionlike; eauto.
    + unfold opt_content in Ec. destruct (body c'); discriminate.
Qed.

Example simplify_option_example :
  let c := IndexedOption I64 [0; -1; 2; 1] (ByteMasked [1; 0; 1] true (Numpy DInt64 [3] [DZ 5; DZ 6; DZ 7])) in
  to_list c = Ok [VNum (DZ 5); VNone; VNum (DZ 7); VNone] /\
  simplify_option c = Ok (IndexedOption I64 [0; -1; 2; -1] (Numpy DInt64 [3] [DZ 5; DZ 6; DZ 7])).
Proof. vm_compute. split; reflexivity. Qed.
