(** PySpec: value-level specifications of the PYTHON-layer functions of awkward-1.0 1.4.0
    (operations/structure.py, reducers.py) for C03 C05 C07 C08 C09 C10.

    Every function works on the logical view of an array used throughout AwkV:
      [t : ty]            the element type (Types.type_of of the layout)
      [vs : list value]   the elements (Layout.to_list of the layout)
    and returns [res value]: an array result is [VList elements], a scalar result is the
    scalar, a Python tuple of arrays is [VTup [VList ..; ..]].
      [Err EValue]  the function must raise (ValueError/RuntimeError/...)
      [Err EFuel]   outside the specified fragment (unions, records above the axis, ...):
                    the correspondence skips such cases and counts them.
    There is no algorithmic model here: these are Python functions, the specification is
    the oracle.  No proofs in this file. *)
From Coq Require Import ZArith List Bool Lia.
From AwkV Require Import Base Layout Valid Types AtAxis Ops_Struct Ops_Flatten Ops_Option Ops_Reduce
  Ops_Getitem Ops_Fields.
Import ListNotations.
Open Scope Z_scope.

Definition arr := (ty * list value)%type.
Definition unspecified {A} : res A := Err EFuel.

Definition is_none (v : value) : bool := match v with VNone => true | _ => false end.
Definition is_opt (t : ty) : bool := match t with TOpt _ => true | _ => false end.
Definition strip_opt1 (t : ty) : ty := match t with TOpt t' => t' | _ => t end.
Definition is_union (t : ty) : bool := match t with TUnion _ => true | _ => false end.
Definition is_rec (t : ty) : bool := match t with TRec _ _ => true | _ => false end.
Definition is_listty (t : ty) : bool := match t with TList _ _ _ => true | _ => false end.
(* element type of a list type; strings are lists of uint8 characters *)
Definition elem_ty (t : ty) : ty :=
  match t with TList _ None t' => t' | TList _ (Some _) _ => TNum DUInt8 | _ => t end.
(* the elements of a list value (a string is the list of its bytes) *)
Definition elems (v : value) : res (list value) :=
  match v with VList l => Ok l | VStr _ s => Ok (chars s) | _ => Err EValue end.

Fixpoint ty_size (t : ty) : nat :=
  match t with
  | TNum _ | TUnk => 1
  | TList _ _ t' => S (S (ty_size t'))
  | TOpt t' => S (ty_size t')
  | TRec _ ts => S (fold_right (fun x n => (ty_size x + n)%nat) O ts)
  | TUnion ts => S (fold_right (fun x n => (ty_size x + n)%nat) O ts)
  end.

Fixpoint has_rec (t : ty) : bool :=
  match t with
  | TNum _ | TUnk => false
  | TList _ _ t' | TOpt t' => has_rec t'
  | TRec _ _ => true
  | TUnion ts => existsb has_rec ts
  end.

(* number of list levels of a type (purelist_depth - 1); records and strings are leaves *)
Fixpoint pl_depth (t : ty) : Z :=
  match t with
  | TList _ (Some _) _ => 0
  | TList _ None t' => 1 + pl_depth t'
  | TOpt t' => pl_depth t'
  | _ => 0
  end.

(* Content::axis_wrap_if_negative called on the WHOLE array (what the Python functions do first): a negative axis
   is made absolute only when purelist_depth = min depth = max depth (so not through records with list-type
   fields: there it stays negative and each branch resolves it later); axis = -(min depth) is refused then. *)
Definition resolve_axis_top (t : ty) (axis : Z) : res Z :=
  if 0 <=? axis then Ok axis else
  let (mn, mx) := minmax t in
  let pd := 1 + pl_depth t in
  if (mn =? pd) && (mx =? pd) then (if pd + axis <? 0 then Err EValue else Ok (pd + axis))
  else if mn + axis =? 0 then Err EValue
  else Ok axis.

Fixpoint outer_is_string (t : ty) : bool :=
  match t with
  | TOpt t' => outer_is_string t'
  | TList _ (Some _) _ => true
  | _ => false
  end.

(* a record type met before [n] list levels have been passed *)
Fixpoint rec_above (n : nat) (t : ty) {struct t} : bool :=
  match t with
  | TRec _ _ => true
  | TOpt t' => rec_above n t'
  | TList _ None t' => match n with O => false | S k => rec_above k t' end
  | _ => false
  end.

(* ====================================================================== C05 *)

(* dtypes of the NumPy arrays that completely_flatten produces, in order *)
Fixpoint leaf_dts (t : ty) : list dtype :=
  match t with
  | TNum dt => [dt]
  | TUnk => [DBool]                       (* EmptyArray -> numpy.array([], bool) *)
  | TList _ (Some _) _ => [DUInt8]
  | TList _ None t' | TOpt t' => leaf_dts t'
  | TRec _ ts => flat_map leaf_dts ts
  | TUnion ts => flat_map leaf_dts ts
  end.

Definition field_of (i : Z) (v : value) : res value :=
  match v with
  | VRec fs => do kv <- get fs i; Ok (snd kv)
  | VTup xs => get xs i
  | _ => Err EValue
  end.

(* _util.completely_flatten: option -> project (None dropped), list -> flatten(axis=1),
   record -> one field after the other (FIELD-major, over the whole array), string -> its bytes *)
Fixpoint leaves_l (t : ty) (vs : list value) {struct t} : res (list value) :=
  match t with
  | TNum _ => Ok vs
  | TUnk => match vs with [] => Ok [] | _ => Err EValue end
  | TList _ (Some _) _ =>
      rmap (@concat value) (mapM (fun v => match v with VStr _ s => Ok (chars s) | _ => Err EValue end) vs)
  | TList _ None t' =>
      do ls <- mapM (fun v => match v with VList l => Ok l | _ => Err EValue end) vs;
      leaves_l t' (concat ls)
  | TOpt t' => leaves_l t' (filter (fun v => negb (is_none v)) vs)
  | TRec _ ts =>
      (fix go (i : Z) (ts : list ty) : res (list value) :=
         match ts with
         | [] => Ok []
         | t1 :: r =>
             do col <- mapM (field_of i) vs;
             do a <- leaves_l t1 col;
             do b <- go (i + 1) r;
             Ok (a ++ b)
         end) 0 ts
  | TUnion _ => unspecified
  end.

Definition is_bool_dt (d : dtype) : bool := match d with DBool => true | _ => false end.
(* numpy.concatenate of bool and numeric arrays gives numbers *)
Definition promote_leaf (keep_bool : bool) (v : value) : value :=
  match v with VBool b => if keep_bool then v else VNum (DZ (if b then 1 else 0)) | _ => v end.

Definition flatten_none_list (t : ty) (vs : list value) : res (list value) :=
  do ls <- leaves_l t vs;
  Ok (map (promote_leaf (forallb is_bool_dt (leaf_dts t))) ls).
(* ak.flatten(array, axis=None)  and  ak.ravel(array) *)
(* an array without any leaf array (only field-less records) has nothing to concatenate: NumPy raises *)
Definition spec_flatten_none (t : ty) (vs : list value) : res value :=
  if has_union t then unspecified else
  match leaf_dts t with
  | [] => Err EValue
  | _ => rmap VList (flatten_none_list t vs)
  end.

(* ak.flatten(array, axis): axis 0 drops the missing entries of the outer dimension, every other axis is
   Content::flatten (AwkV.Ops_Flatten.flatten_spec) *)
Definition spec_flatten (axis : option Z) (t : ty) (vs : list value) : res value :=
  match axis with
  | None => spec_flatten_none t vs
  | Some a =>
      do ax <- resolve_axis_top t a;
      if (a =? 0) || (ax =? 0) then
        match t with
        | TUnion _ => unspecified
        | TOpt _ => Ok (VList (filter (fun v => negb (is_none v)) vs))
        | _ => Ok (VList vs)
        end
      else rmap VList (flatten_spec a t vs)
  end.

(* ak.num(array, axis): axis 0 is the length *)
Definition spec_num (axis : Z) (t : ty) (vs : list value) : res value :=
  do ax <- resolve_axis_top t axis;
  if ax =? 0 then (match t with TUnion _ => unspecified | _ => Ok (VNum (DZ (zlen vs))) end)
  else rmap VList (num_spec axis t vs).

(* ak.local_index(array, axis) *)
Definition spec_local_index (axis : Z) (t : ty) (vs : list value) : res value :=
  do ax <- resolve_axis_top t axis;
  if ax =? 0 then Ok (VList (map (fun i => VNum (DZ i)) (iota (zlen vs))))
  else rmap VList (localindex_spec axis t vs).

(* ---- ak.unflatten ---- *)
Definition is_int_dt (d : dtype) : bool :=
  match d with DBool | DFloat32 | DFloat64 => false | _ => true end.
Definition count_of (v : value) : res (option Z) :=
  match v with VNum (DZ z) => Ok (Some z) | VNone => Ok None | _ => Err EValue end.
Definition cnt (c : option Z) : Z := match c with Some n => n | None => 0 end.
(* the new list made from [l] for one count: a missing count gives a missing list *)
Definition mk_counted (c : option Z) (l : list value) : value :=
  match c with Some _ => VList l | None => VNone end.

(* counts as Python sees them: a one-dimensional integer array, possibly with missing entries *)
Definition counts_of (tc : ty) (cs : list value) : res (list (option Z)) :=
  match strip_opt1 tc with
  | TNum dt => if is_int_dt dt then mapM count_of cs else Err EValue
  | TUnion _ => unspecified
  | _ => Err EValue
  end.

(* the elements [l] of ONE list are cut by the next counts: the counts must add up to its length exactly;
   zero counts at the boundary stay with this list.  Returns the new lists and the unused counts. *)
Fixpoint regroup1 (cs : list (option Z)) (l : list value) {struct cs}
  : res (list value * list (option Z)) :=
  match cs with
  | [] => match l with [] => Ok ([], []) | _ => Err EValue end
  | c :: r =>
      let n := cnt c in
      if n <? 0 then Err EValue else
      match l with
      | [] =>
          if n =? 0 then do x <- regroup1 r []; Ok (mk_counted c [] :: fst x, snd x)
          else Ok ([], cs)
      | _ =>
          if zlen l <? n then Err EValue else
          do x <- regroup1 r (drop n l); Ok (mk_counted c (take n l) :: fst x, snd x)
      end
  end.

(* descend [n] list levels (value-directed: missing lists stay missing), regrouping every list found there *)
Fixpoint unfl_n (n : nat) (v : value) (cs : list (option Z)) {struct n} : res (value * list (option Z)) :=
  match n with
  | O =>
      match v with
      | VList l => do x <- regroup1 cs l; Ok (VList (fst x), snd x)
      | VNone => Ok (VNone, cs)
      | VRec _ | VTup _ | VStr _ _ => unspecified
      | _ => Ok (v, cs)            (* no list at this depth: nothing happens here; leftover counts are an error *)
      end
  | S k =>
      match v with
      | VList l =>
          do x <- (fix go (l : list value) (cs : list (option Z)) : res (list value * list (option Z)) :=
                     match l with
                     | [] => Ok ([], cs)
                     | y :: ys => do a <- unfl_n k y cs; do b <- go ys (snd a); Ok (fst a :: fst b, snd b)
                     end) l cs;
          Ok (VList (fst x), snd x)
      | VNone => Ok (VNone, cs)
      | VRec _ | VTup _ | VStr _ _ => unspecified
      | _ => Ok (v, cs)
      end
  end.

Definition unflatten_vals (ax : Z) (vs : list value) (cs : list (option Z)) : res value :=
  if existsb (fun c => cnt c <? 0) cs then Err EValue else
  if ax =? 0 then
    do x <- regroup1 cs vs;
    match snd x with [] => Ok (VList (fst x)) | _ => Err EValue end
  else
    do x <- unfl_n (Z.to_nat ax) (VList vs) cs;
    match snd x with [] => Ok (fst x) | _ => Err EValue end.

(* is the list node [n] levels down a string (or is there a string above it)?  unflatten would cut characters *)
Fixpoint level_is_string (n : nat) (t : ty) {struct t} : bool :=
  match t with
  | TOpt t' => level_is_string n t'
  | TList _ (Some _) _ => true
  | TList _ None t' => match n with O => false | S k => level_is_string k t' end
  | _ => false
  end.

(* counts: an integer (regular lists: RegularArray(layout, counts), a remainder is dropped) or an array *)
Inductive counts_arg := CInt (n : Z) | CArr (tc : ty) (cs : list value).

Definition spec_unflatten (axis : Z) (t : ty) (vs : list value) (c : counts_arg) : res value :=
  do ax <- resolve_axis_top t axis;
  match c with
  | CInt n =>
      if ax =? 0 then
        if (n <? 0) || (zlen vs <? n) then Err EValue
        else rmap (fun ch => VList (map VList ch)) (chunks vs n 0)
      else unspecified
  | CArr tc cs =>
      if ax <? 0 then unspecified else
      if (1 <=? ax) && (level_is_string (Z.to_nat (ax - 1)) t || has_rec t) then unspecified else
      do cl <- counts_of tc cs;
      unflatten_vals ax vs cl
  end.

(* the law of C05 as a composite: unflatten(flatten(x, axis), num(x, axis) [flattened], axis - 1), axis >= 1 *)
Fixpoint int_leaves (v : value) : list (option Z) :=
  match v with
  | VNum (DZ z) => [Some z]
  | VList l => flat_map int_leaves l
  | _ => []                                  (* ak.flatten(counts, axis=None) drops None *)
  end.
Definition spec_rt_unflatten (axis : Z) (t : ty) (vs : list value) : res value :=
  if axis <? 1 then unspecified else
  do f <- flatten_spec axis t vs;
  do c <- num_spec axis t vs;
  (* axis 1: the counts keep their None entries (missing lists come back); deeper: flatten(counts, None) drops them *)
  do cs <- (if axis =? 1 then mapM count_of c else Ok (flat_map int_leaves c));
  unflatten_vals (axis - 1) f cs.

(* ====================================================================== C03 *)
Definition default_mask (r : reducer) : bool :=
  match r with RMin | RMax | RArgmin | RArgmax => true | _ => false end.

Definition dtype_eqb (a b : dtype) : bool :=
  match a, b with
  | DBool, DBool | DInt8, DInt8 | DInt16, DInt16 | DInt32, DInt32 | DInt64, DInt64
  | DUInt8, DUInt8 | DUInt16, DUInt16 | DUInt32, DUInt32 | DUInt64, DUInt64
  | DFloat32, DFloat32 | DFloat64, DFloat64 => true
  | _, _ => false
  end.
Definition single_dt (ds : list dtype) : option dtype :=
  match ds with
  | [] => None
  | d :: r => if forallb (dtype_eqb d) r then Some d else None
  end.

(* reducer over all leaves (axis=None): mask_identity is ignored by the Python code; min/max of nothing is None,
   argmin/argmax of nothing raise (NumPy), the others give the identity *)
Definition float_limit (dt : dtype) : Z := match dt with DFloat32 => 2 ^ 24 | _ => 2 ^ 53 end.
Definition reduce_leaves (r : reducer) (dt : dtype) (zs : list Z) : res value :=
  let l := enum zs in
  (* float sums/products beyond the exactly representable integers are not modelled *)
  if is_float dt && match r with
                    | RSum => float_limit dt <? fold_left Z.add (map Z.abs zs) 0
                    | RProd => float_limit dt <? fold_left Z.mul (map Z.abs (filter (fun z => negb (z =? 0)) zs)) 1
                    | _ => false
                    end
  then unspecified else
  match r with
  | RArgmin | RArgmax =>
      match zs with [] => Err EValue | _ => Ok (opt_val (leaf_reduce r false dt l)) end
  | RMin | RMax => Ok (opt_val (leaf_reduce r true dt l))
  | _ => Ok (opt_val (leaf_reduce r false dt l))
  end.

Definition spec_reduce_none (r : reducer) (t : ty) (vs : list value) : res value :=
  match single_dt (leaf_dts t) with
  | None => unspecified                        (* several leaf arrays of different dtypes *)
  | Some dt =>
      do ls <- leaves_l t vs;
      do zs <- mapM leaf_int ls;
      match r with
      | RArgmin | RArgmax => if has_rec t then unspecified else reduce_leaves r dt zs
      | _ => reduce_leaves r dt zs
      end
  end.

(* ak.<reducer>(array, axis, keepdims, mask_identity) *)
Definition spec_reduce_py (r : reducer) (axis : option Z) (mask : option bool) (keep : bool)
           (t : ty) (vs : list value) : res value :=
  match axis with
  | None => spec_reduce_none r t vs
  | Some a =>
      let m := match mask with Some m => m | None => default_mask r end in
      do out <- reduce_spec r a m keep t vs;
      do ax <- resolve_axis t 0 a;
      if (ax =? 0) && negb keep then
        match out with [v] => Ok v | _ => Err EOob end
      else Ok (VList out)
  end.

(* ====================================================================== C07 *)
Definition mk_tuple (fields : option (list name)) (xs : list value) : res value :=
  match fields with
  | None => Ok (VTup xs)
  | Some ks => if Nat.eqb (length ks) (length xs) then Ok (VRec (zip ks xs)) else Err EValue
  end.

Definition comb_ff (n : Z) (repl : bool) (fields : option (list name)) (_ : ty) (l : list value) : res value :=
  rmap VList (mapM (mk_tuple fields) (combos repl n l)).
Definition argcomb_ff (n : Z) (repl : bool) (fields : option (list name)) (_ : ty) (l : list value) : res value :=
  rmap VList (mapM (mk_tuple fields) (combos repl n (map (fun i => VNum (DZ i)) (iota (zlen l))))).

Definition fields_ok (n : Z) (fields : option (list name)) : bool :=
  match fields with None => true | Some ks => zlen ks =? n end.

(* ak.combinations(array, n, replacement, axis, fields) *)
Definition spec_combinations (n : Z) (repl : bool) (axis : Z) (fields : option (list name))
           (t : ty) (vs : list value) : res value :=
  if n <? 1 then Err EValue else
  if negb (fields_ok n fields) then Err EValue else
  do ax <- resolve_axis_top t axis;
  if ax =? 0 then comb_ff n repl fields t vs
  else rmap VList (spec_ax (comb_ff n repl fields) true (fun _ => true) false t axis vs).

(* ak.argcombinations: the same over local_index(axis) *)
Definition spec_argcombinations (n : Z) (repl : bool) (axis : Z) (fields : option (list name))
           (t : ty) (vs : list value) : res value :=
  if axis <? 0 then Err EValue else
  if n <? 1 then Err EValue else
  if negb (fields_ok n fields) then Err EValue else
  if axis =? 0 then argcomb_ff n repl fields t vs
  else rmap VList (spec_ax (argcomb_ff n repl fields) true (fun _ => true) false t axis vs).

(* ---- cartesian ---- *)
(* itertools.product of the lists [ls] in order; level [i] is kept as a nested list iff [i] is in [nested].
   A MISSING list (None where the list of array [i] should be) makes the product missing at the depth where it
   arises: the whole entry for the first array, one None per combination of the earlier arrays otherwise
   (the code wraps the option node, not the list under it, in the new axes); an un-nested None level
   contributes nothing. *)
Definition unopt_l (o : option (list value)) : list value := match o with Some l => l | None => [] end.
Fixpoint cart (fields : option (list name)) (nested : list Z) (i : Z) (ls : list (option (list value)))
         (prefix : list value) {struct ls} : res (option (list value)) :=
  match ls with
  | [] => do t <- mk_tuple fields (rev prefix); Ok (Some [t])
  | None :: _ => Ok None
  | Some l :: rest =>
      do groups <- mapM (fun a => cart fields nested (i + 1) rest (a :: prefix)) l;
      match rest with
      | [] => Ok (Some (concat (map unopt_l groups)))
      | _ =>
          if existsb (Z.eqb i) nested
          then Ok (Some (map (fun g => match g with Some x => VList x | None => VNone end) groups))
          else Ok (Some (concat (map unopt_l groups)))
      end
  end.
Definition cart_entry (fields : option (list name)) (nested : list Z) (ls : list (option (list value))) : res value :=
  do r <- cart fields nested 0 ls [];
  Ok (match r with Some l => VList l | None => VNone end).

Inductive nested_arg := NNone | NAll | NList (l : list Z).
(* a list of arrays: slot numbers in [0, k-1); a dict of arrays: any of its keys (here: positions in [0, k)), the
   last one has no effect *)
Definition nested_list (k : Z) (isdict : bool) (n : nested_arg) : res (list Z) :=
  match n with
  | NNone => Ok []
  | NAll => Ok (iota (k - 1))
  | NList l =>
      let top := if isdict then k else k - 1 in
      if forallb (fun x => (0 <=? x) && (x <? top)) l then Ok l else Err EValue
  end.

Definition list_lengths_differ (ls : list (list value)) : bool :=
  match ls with [] => false | l :: r => negb (forallb (fun x => zlen x =? zlen l) r) end.

Fixpoint transpose_n (n : nat) (cols : list (list value)) : list (list value) :=
  match n with
  | O => []
  | S k => map (fun c => hd VNone c) cols :: transpose_n k (map (@tl value) cols)
  end.
(* rows of equally long columns *)
Definition rows_of (cols : list (list value)) : list (list value) :=
  match cols with [] => [] | c :: _ => transpose_n (length c) cols end.

Definition is_reg1 (t : ty) : bool :=
  match t with TList (Some 1) _ _ => true | _ => false end.

(* the list of one array at the axis: None when missing *)
Definition axis_list (p : ty * value) : res (option (list value)) :=
  if is_opt (fst p) && is_none (snd p) then Ok None else
  match strip_opt1 (fst p) with
  | TList _ None _ => rmap Some (elems (snd p))
  | _ => Err EValue
  end.

(* corresponding entries of the k arrays, [n] list levels above the axis *)
Fixpoint cart_v (fields : option (list name)) (nested : list Z) (n : nat) (ps : list (ty * value)) {struct n}
  : res value :=
  if existsb (fun p => is_union (fst p)) ps then unspecified else
  match n with
  | O =>
      let ts := map (fun p => strip_opt1 (fst p)) ps in
      if existsb (fun t => is_rec t || is_opt t || is_union t) ts then unspecified else
      (* the axis is exactly the depth of some array: the code wraps its leaves without complaint *)
      if negb (forallb is_listty ts) then unspecified else
      if existsb (fun t => match t with TList _ (Some _) _ => true | _ => false end) ts then Err EValue else
      do ls <- mapM axis_list ps;
      cart_entry fields nested ls
  | S k =>
      if existsb (fun p => is_opt (fst p) && is_none (snd p)) ps then Ok VNone else
      let ps := map (fun p => (strip_opt1 (fst p), snd p)) ps in
      if existsb (fun p => is_rec (fst p) || is_opt (fst p)) ps then unspecified else
      if negb (forallb (fun p => is_listty (fst p)) ps) then
        (if existsb (fun p => is_listty (fst p)) ps then unspecified else Err EValue)
      else
      do ls <- mapM (fun p => elems (snd p)) ps;
      if list_lengths_differ ls then
        (if existsb (fun p => is_reg1 (fst p)) ps then unspecified else Err EValue)
      else
        let ets := map (fun p => elem_ty (fst p)) ps in
        rmap VList (mapM (fun row => cart_v fields nested k (zip ets row)) (rows_of ls))
  end.

(* what the broadcasting code decides from the node types alone (it runs even when there are no elements):
   all lists at one level RegularArrays of incompatible sizes is an error *)
Definition reg_sizes_ok (ts : list ty) : res unit :=
  let sizes := flat_map (fun t => match t with TList (Some s) _ _ => [s] | _ => [] end) ts in
  if negb (Nat.eqb (length sizes) (length ts)) then Ok tt else
  let m := fold_right Z.max 0 sizes in
  if forallb (fun s => s =? m) sizes then Ok tt
  else if forallb (fun s => (s =? m) || (s =? 1)) sizes then unspecified
  else Err EValue.

Fixpoint has_empty_rec (t : ty) : bool :=
  match t with
  | TNum _ | TUnk => false
  | TList _ _ t' | TOpt t' => has_empty_rec t'
  | TRec _ ts => match ts with [] => true | _ => existsb has_empty_rec ts end
  | TUnion ts => existsb has_empty_rec ts
  end.

Fixpoint cart_ty (n : nat) (ts : list ty) {struct n} : res unit :=
  if existsb is_union ts then unspecified else
  let ts := map strip_opt1 ts in
  if existsb (fun t => is_rec t || is_opt t || is_union t) ts then unspecified else
  match n with
  | O =>
      if negb (forallb is_listty ts) then unspecified else
      if existsb (fun t => match t with TList _ (Some _) _ => true | _ => false end) ts then Err EValue else Ok tt
  | S k =>
      if negb (forallb is_listty ts) then (if existsb is_listty ts then unspecified else Err EValue) else
      do _ <- reg_sizes_ok ts; cart_ty k (map elem_ty ts)
  end.

Definition same_axis (t0 : ty) (axis : Z) (ts : list ty) : res Z :=
  do ax <- resolve_axis_top t0 axis;
  if ax <? 0 then Err EValue else
  if forallb (fun t => match resolve_axis_top t axis with Ok a => a =? ax | Err _ => false end) ts
  then Ok ax else Err EValue.

(* ak.cartesian(arrays, axis, nested): [fields] = dict keys, None for a list of arrays *)
Definition spec_cartesian (axis : Z) (nested : nested_arg) (fields : option (list name)) (arrs : list arr)
  : res value :=
  match arrs with
  | [] => unspecified
  | (t0, _) :: _ =>
      do ax <- same_axis t0 axis (map fst arrs);
      do nl <- nested_list (zlen arrs) (match fields with Some _ => true | None => false end) nested;
      if negb (fields_ok (zlen arrs) fields) then Err EValue else
      if ax =? 0 then cart_entry fields nl (map (fun a : arr => Some (snd a)) arrs)
      else
        do _ <- cart_ty (Z.to_nat (ax - 1)) (map fst arrs);
        let cols := map snd arrs in
        if list_lengths_differ cols then
          (if existsb (fun c : list value => zlen c =? 1) cols then unspecified else Err EValue)
        else
          rmap VList (mapM (fun row => cart_v fields nl (Z.to_nat (ax - 1)) (zip (map fst arrs) row)) (rows_of cols))
  end.

(* type of local_index(axis): the list structure down to the axis, int64 below *)
Fixpoint li_ty (n : nat) (t : ty) {struct t} : ty :=
  match t with
  | TOpt t' => TOpt (li_ty n t')
  | TList sz _ t' => match n with O => TNum DInt64 | S k => TList sz None (li_ty k t') end
  | TRec ks ts => TRec ks (map (li_ty n) ts)
  | _ => TNum DInt64
  end.

(* ak.argcartesian = cartesian of local_index(axis) of every array; axis must be >= 0 *)
Definition spec_argcartesian (axis : Z) (nested : nested_arg) (fields : option (list name)) (arrs : list arr)
  : res value :=
  if axis <? 0 then Err EValue else
  do lis <- mapM (fun a : arr =>
                    do r <- spec_local_index axis (fst a) (snd a);
                    match r with
                    | VList l => Ok (li_ty (Z.to_nat axis) (fst a), l)
                    | _ => Err EValue
                    end) arrs;
  spec_cartesian axis nested fields lis.

(* ====================================================================== broadcasting (zip, concatenate) *)
(* how one participant looks at a list level *)
Inductive bpart := BVar (l : list value) | BReg (size : Z) (l : list value) | BNon (v : value).

Definition classify (p : ty * value) : res bpart :=
  match fst p with
  | TList (Some s) _ _ => do l <- elems (snd p); Ok (BReg s l)
  | TList None _ _ => do l <- elems (snd p); Ok (BVar l)
  | _ => Ok (BNon (snd p))
  end.

Definition first_var (bs : list bpart) : option Z :=
  (fix go (l : list bpart) : option Z :=
     match l with
     | [] => None
     | BVar x :: _ => Some (zlen x)
     | _ :: r => go r
     end) bs.
Definition max_reg (bs : list bpart) : Z :=
  fold_right (fun b m => match b with BReg s _ => Z.max s m | _ => m end) 0 bs.

(* broadcast one participant to [target] elements (_util.broadcast_and_apply, list case) *)
Definition stretch (allreg : bool) (target : Z) (b : bpart) : res (list value) :=
  match b with
  | BVar l => if zlen l =? target then Ok l else Err EValue
  | BReg s l =>
      if zlen l =? target then Ok l
      else if s =? 1 then match l with [x] => Ok (repeatZ x target) | _ => Err EValue end
      else Err EValue
  | BNon v => Ok (repeatZ v target)             (* left-broadcasting of a shallower participant *)
  end.

Section Bcast.
  (* the getfunction: [stop depth types] = it fires at this depth; [fin] = what it builds, per element *)
  Variable stop : Z -> list ty -> res bool.
  Variable fin : list (ty * value) -> res value.

  Fixpoint bc (fuel : nat) (depth : Z) (ps : list (ty * value)) {struct fuel} : res value :=
    match fuel with
    | O => Err EFuel
    | S f =>
        let ts := map fst ps in
        do st <- stop depth ts;
        if st then fin ps else
        if existsb is_union ts then unspecified else
        if existsb is_opt ts then
          if existsb (fun p => is_opt (fst p) && is_none (snd p)) ps then Ok VNone
          else bc f depth (map (fun p => (strip_opt1 (fst p), snd p)) ps)
        else if existsb is_listty ts then
          (* a string next to another list is broadcast as a unit or as characters, depending on the offsets *)
          if existsb outer_is_string ts then unspecified else
          do bs <- mapM classify ps;
          let allreg := match first_var bs with None => true | Some _ => false end in
          let target := match first_var bs with Some n => n | None => max_reg bs end in
          do cols <- mapM (stretch allreg target) bs;
          let ets := map elem_ty ts in
          rmap VList (mapM (fun row => bc f (depth + 1) (zip ets row)) (rows_of cols))
        else if existsb is_rec ts then unspecified
        else Err EValue
    end.
End Bcast.

(* the same walk on the node types alone: what the code decides (and refuses) even when there are no elements *)
Section BcastTy.
  Variable stop : Z -> list ty -> res bool.
  Fixpoint bct (fuel : nat) (depth : Z) (ts : list ty) {struct fuel} : res unit :=
    match fuel with
    | O => Err EFuel
    | S f =>
        do st <- stop depth ts;
        if st then Ok tt else
        if existsb is_union ts then unspecified else
        if existsb is_opt ts then bct f depth (map strip_opt1 ts)
        else if existsb is_listty ts then
          if existsb outer_is_string ts then unspecified else
          do _ <- reg_sizes_ok (filter is_listty ts);
          bct f (depth + 1) (map elem_ty ts)
        else if existsb is_rec ts then unspecified
        else Err EValue
    end.
End BcastTy.

Definition bc_fuel (ts : list ty) : nat := S (fold_right (fun t n => (ty_size t + n)%nat) O ts).

(* the outer dimension: broadcast_pack wraps every array in RegularArray(x, len(x), 1) *)
Definition top_rows (cols : list (list value)) : res (list (list value)) :=
  let target := fold_right (fun c m => Z.max (zlen c) m) 0 cols in
  do cs <- mapM (fun c => stretch true target (BReg (zlen c) c)) cols;
  Ok (rows_of cs).


(* ====================================================================== C10 *)
(* purelist_depth = 2 with purelist_parameter("__array__") = string: a list of strings *)
Definition list_of_strings (t : ty) : bool :=
  match strip_opt t with
  | TList _ None t' => outer_is_string t'
  | _ => false
  end.
Definition zip_stop (depth_limit : option Z) (depth : Z) (ts : list ty) : res bool :=
  if existsb is_union ts then unspecified else
  match depth_limit with
  | Some dl => Ok (dl =? depth)
  | None => Ok (forallb (fun t => (pl_depth t =? 0) || ((pl_depth t =? 1) && list_of_strings t)) ts)
  end.

(* ak.zip(arrays, depth_limit): [fields] = dict keys / None for a tuple *)
Definition spec_zip (depth_limit : option Z) (fields : option (list name)) (arrs : list arr) : res value :=
  do _ <- match depth_limit with
          | Some dl => if dl <=? 0 then Err EValue else Ok tt
          | None => Ok tt
          end;
  if negb (fields_ok (zlen arrs) fields) then Err EValue else
  match arrs with
  | [] => unspecified
  | _ =>
      let ts := map fst arrs in
      do _ <- bct (zip_stop depth_limit) (bc_fuel ts) 1 ts;
      do rows <- top_rows (map snd arrs);
      rmap VList (mapM (fun row => bc (zip_stop depth_limit) (fun ps => mk_tuple fields (map snd ps))
                                      (bc_fuel ts) 1 (zip ts row)) rows)
  end.

(* ak.fields: keys of the outermost record below lists and options (tuples: "0", "1", ...) *)
Fixpoint keys_of (t : ty) : list name :=
  match t with
  | TRec (Some ks) _ => ks
  | TRec None ts => map digit_name (iota (zlen ts))
  | TList _ None t' | TOpt t' => keys_of t'
  | _ => []
  end.
Fixpoint has_record_node (t : ty) : bool :=
  match t with
  | TRec _ _ => true
  | TList _ None t' | TOpt t' => has_record_node t'
  | _ => false
  end.

Definition spec_fields (t : ty) : res (list name) :=
  if has_union t then unspecified else Ok (keys_of t).

(* ak.unzip: one array per field, (array,) when there are no fields *)
Definition spec_unzip (t : ty) (vs : list value) : res value :=
  if has_union t then unspecified else
  match keys_of t with
  | [] => Ok (VTup [VList vs])
  | ks => rmap VTup (mapM (fun k => rmap VList (mapM (proj_v k t) vs)) ks)
  end.

(* field number [i] of every record of a zipped value, value-directed (lists and None are passed through) *)
Fixpoint pick_field (i : Z) (fuel : nat) (v : value) {struct fuel} : res value :=
  match fuel with
  | O => Err EFuel
  | S f =>
      match v with
      | VRec fs => do kv <- get fs i; Ok (snd kv)
      | VTup xs => get xs i
      | VList l => rmap VList (mapM (pick_field i f) l)
      | VNone => Ok VNone
      | _ => Err EValue
      end
  end.

(* unzip(zip(...)) as a composite, checked against the implementation *)
Definition spec_unzip_zip (depth_limit : option Z) (fields : option (list name)) (arrs : list arr) : res value :=
  do z <- spec_zip depth_limit fields arrs;
  match z with
  | VList rows =>
      let ks := match fields with Some ks => ks | None => map digit_name (iota (zlen arrs)) end in
      match ks with
      | [] => unspecified
      | _ =>
          rmap VTup (mapM (fun i => rmap VList (mapM (pick_field i (bc_fuel (map fst arrs))) rows)) (iota (zlen ks)))
      end
  | _ => Err EValue
  end.

(* ---- ak.with_field ---- *)
Fixpoint remove_at {A} (i : Z) (l : list A) : list A :=
  match l with
  | [] => []
  | x :: r => if i =? 0 then r else x :: remove_at (i - 1) r
  end.
Definition find_key (k : option name) (ks : list name) : option Z :=
  match k with
  | None => None
  | Some k => match index_of k ks 0 with Ok i => Some i | Err _ => None end
  end.

(* the record [b] (type TRec keys ts) with the field [where_] set to [w]: the other fields keep their order,
   the new one comes last; a tuple stays a tuple only when no name is given *)
Definition set_field (where_ : option name) (keys : option (list name)) (nfields : Z) (b w : value) : res value :=
  let ks := match keys with Some ks => ks | None => map digit_name (iota nfields) end in
  do xs <- match b with
           | VRec fs => if zlen fs =? nfields then Ok (map snd fs) else Err EValue
           | VTup xs => if zlen xs =? nfields then Ok xs else Err EValue
           | _ => Err EValue
           end;
  let (ks', xs') := match find_key where_ ks with
                    | Some i => (remove_at i ks, remove_at i xs)
                    | None => (ks, xs)
                    end in
  match keys, where_ with
  | None, None => Ok (VTup (xs' ++ [w]))
  | _, Some k => Ok (VRec (zip (ks' ++ [k]) (xs' ++ [w])))
  | Some _, None => Ok (VRec (zip (ks' ++ [digit_name (zlen ks')]) (xs' ++ [w])))
  end.

Definition set_field_ty (where_ : option name) (keys : option (list name)) (ts : list ty) (tw : ty) : ty :=
  let ks := match keys with Some ks => ks | None => map digit_name (iota (zlen ts)) end in
  let (ks', ts') := match find_key where_ ks with
                    | Some i => (remove_at i ks, remove_at i ts)
                    | None => (ks, ts)
                    end in
  match keys, where_ with
  | None, None => TRec None (ts' ++ [tw])
  | _, Some k => TRec (Some (ks' ++ [k])) (ts' ++ [tw])
  | Some _, None => TRec (Some (ks' ++ [digit_name (zlen ks')])) (ts' ++ [tw])
  end.

(* [scalar]: [what] is a Python number, broadcast everywhere *)
Fixpoint wf_v (where_ : option name) (scalar : bool) (tb : ty) (b : value) (tw : ty) (w : value) {struct tb}
  : res value :=
  match tb with
  | TRec keys ts => set_field where_ keys (zlen ts) b w
  | TOpt tb' =>
      match b with
      | VNone => Ok VNone
      | _ =>
          match tw with
          | TOpt tw' => match w with VNone => Ok VNone | _ => wf_v where_ scalar tb' b tw' w end
          | _ => wf_v where_ scalar tb' b tw w
          end
      end
  | TList szb None tb' =>
      if is_opt tw && is_none w then Ok VNone else
      let tw1 := strip_opt1 tw in
      match tw1 with
      | TUnion _ | TOpt _ => unspecified
      | TList _ (Some _) _ => unspecified      (* a string next to a list: broadcast as a unit or as characters *)
      | TList _ _ _ =>
          do bs <- mapM classify [(tb, b); (tw1, w)];
          let allreg := match first_var bs with None => true | Some _ => false end in
          let target := match first_var bs with Some n => n | None => max_reg bs end in
          do cols <- mapM (stretch allreg target) bs;
          match cols with
          | [bcol; wcol] =>
              rmap VList (mapM (fun bw : value * value => wf_v where_ scalar tb' (fst bw) (elem_ty tw1) (snd bw))
                               (zip bcol wcol))
          | _ => Err EValue
          end
      | _ =>
          match b with
          | VList bl =>
              rmap VList (mapM (fun bi => wf_v where_ scalar tb' bi tw1 w) bl)
          | _ => Err EValue
          end
      end
  | TUnion _ => unspecified
  | _ => Err EValue
  end.

Fixpoint wf_ty (where_ : option name) (tb tw : ty) {struct tb} : ty :=
  match tb with
  | TRec keys ts => set_field_ty where_ keys ts tw
  | TOpt tb' => TOpt (wf_ty where_ tb' (strip_opt1 tw))
  | TList sz None tb' =>
      let tw1 := strip_opt1 tw in
      (* a regular dimension stays regular only next to a regular (or shallower) partner of the same size *)
      let sz' := match tw1 with
                 | TList szw _ _ =>
                     match sz, szw with
                     | Some a, Some b => if a =? b then Some a else None
                     | _, _ => None
                     end
                 | _ => sz
                 end in
      let inner := TList sz' None (wf_ty where_ tb' (if is_listty tw1 then elem_ty tw1 else tw1)) in
      if is_opt tw then TOpt inner else inner
  | _ => tb
  end.

(* what the broadcasting decides from the node types alone (also when there are no elements) *)
Fixpoint wf_tyck (tb tw : ty) {struct tb} : res unit :=
  match tb with
  | TOpt tb' => wf_tyck tb' (strip_opt1 tw)
  | TList _ None tb' =>
      let tw1 := strip_opt1 tw in
      match tw1 with
      | TList _ None tw' => do _ <- reg_sizes_ok [tb; tw1]; wf_tyck tb' tw'
      | TList _ (Some _) _ | TUnion _ | TOpt _ => unspecified
      | _ => wf_tyck tb' tw1
      end
  | _ => Ok tt
  end.

Inductive what_arg := WArr (tw : ty) (ws : list value) | WScalar (tw : ty) (v : value).

(* one step: ak.with_field(base, what, where) with [where] a single name or None *)
Definition with_field1 (where_ : option name) (tb : ty) (bs : list value) (what : what_arg)
  : res (ty * list value) :=
  if has_union tb then unspecified else
  if negb (has_record_node tb) then Err EValue else
  match what with
  | WScalar tw v =>
      do out <- mapM (fun b => wf_v where_ true tb b tw v) bs;
      Ok (wf_ty where_ tb tw, out)
  | WArr tw ws =>
      if has_union tw then unspecified else
      do _ <- wf_tyck tb tw;
      do rows <- top_rows [bs; ws];
      do out <- mapM (fun row => match row with
                                 | [b; w] => wf_v where_ false tb b tw w
                                 | _ => Err EValue
                                 end) rows;
      Ok (wf_ty where_ tb tw, out)
  end.

(* a path of names: with_field(base, with_field(base[k1], what, rest), k1) *)
Fixpoint with_field_path (path : list name) (tb : ty) (bs : list value) (what : what_arg) {struct path}
  : res (ty * list value) :=
  match path with
  | [] => with_field1 None tb bs what
  | [k] => with_field1 (Some k) tb bs what
  | k :: rest =>
      do ti <- proj_ty k tb;
      do vi <- mapM (proj_v k tb) bs;
      do inner <- with_field_path rest ti vi what;
      with_field1 (Some k) tb bs (WArr (fst inner) (snd inner))
  end.

Definition spec_with_field (path : list name) (tb : ty) (bs : list value) (what : what_arg) : res value :=
  do r <- with_field_path path tb bs what; Ok (VList (snd r)).

(* reading the new field back: ak.with_field(base, what, path)[k1][k2]... *)
Fixpoint proj_path (path : list name) (t : ty) (vs : list value) : res (list value) :=
  match path with
  | [] => Ok vs
  | k :: rest => do t' <- proj_ty k t; do vs' <- mapM (proj_v k t) vs; proj_path rest t' vs'
  end.
Definition spec_get_with_field (path : list name) (tb : ty) (bs : list value) (what : what_arg) : res value :=
  match path with
  | [] => unspecified
  | _ => do r <- with_field_path path tb bs what; rmap VList (proj_path path (fst r) (snd r))
  end.

(* ak.with_name: names of the outermost records on every path of a LAYOUT (the value does not change) *)
Fixpoint outer_record_names (rn : option name) (c : content) {struct c} : list (option name) :=
  match c with
  | Par _ r c' => outer_record_names r c'
  | Record _ _ _ => [rn]
  | ListOffset _ _ c' | ListA _ _ _ c' | Regular c' _ _ | Indexed _ _ c' | IndexedOption _ _ c'
  | ByteMasked _ _ c' | BitMasked _ _ _ _ c' | Unmasked c' => outer_record_names None c'
  | Union _ _ _ cs => flat_map (outer_record_names None) cs
  | _ => []
  end.
Definition with_name_ok (nm : option name) (result : content) : bool :=
  forallb (opt_eqb name_eqb nm) (outer_record_names None result).

(* ====================================================================== C08 *)
Fixpoint num_kinds (t : ty) : list bool :=        (* true = boolean leaf, false = numeric leaf *)
  match t with
  | TNum DBool => [true]
  | TNum _ => [false]
  | TUnk => []
  | TList _ (Some _) _ => []
  | TList _ None t' | TOpt t' => num_kinds t'
  | TRec _ ts => flat_map num_kinds ts
  | TUnion ts => flat_map num_kinds ts
  end.
Definition mixes_bool_num (ts : list ty) : bool :=
  let ks := flat_map num_kinds ts in existsb (fun b => b) ks && existsb negb ks.

Definition is_flat (t : ty) : bool := let (a, b) := minmax t in (a =? 1) && (b =? 1).

(* corresponding entries, [n] list levels above the lists that are concatenated *)
Fixpoint conc_v (n : nat) (ps : list (ty * value)) {struct n} : res value :=
  if existsb (fun p => is_union (fst p)) ps then unspecified else
  match n with
  | O =>
      let lists := map (fun p => match strip_opt1 (fst p) with
                                 | TList _ None _ =>
                                     if is_opt (fst p) && is_none (snd p) then Some (Ok []) else Some (elems (snd p))
                                 | _ => None
                                 end) ps in
      if forallb (fun o => match o with Some _ => true | None => false end) lists then
        do ls <- mapM (fun o => match o with Some r => r | None => Err EValue end) lists;
        Ok (VList (concat ls))
      else if existsb (fun p => is_flat (fst p)) ps then Err EValue
      else unspecified
  | S k =>
      if existsb (fun p => is_flat (fst p)) ps then Err EValue else
      if existsb (fun p => is_opt (fst p) && is_none (snd p)) ps then Ok VNone else
      let ps := map (fun p => (strip_opt1 (fst p), snd p)) ps in
      if negb (forallb (fun p => match fst p with TList _ None _ => true | _ => false end) ps) then unspecified else
      do ls <- mapM (fun p => elems (snd p)) ps;
      if list_lengths_differ ls then
        (if existsb (fun p => is_reg1 (fst p)) ps then unspecified else Err EValue)
      else
        let ets := map (fun p => elem_ty (fst p)) ps in
        rmap VList (mapM (fun row => conc_v k (zip ets row)) (rows_of ls))
  end.

Definition is_flat_t (t : ty) : bool := let (a, b) := minmax t in (a =? 1) && (b =? 1).
Fixpoint conc_ty (n : nat) (ts : list ty) {struct n} : res unit :=
  if existsb is_union ts then unspecified else
  match n with
  | O =>
      if forallb (fun t => match strip_opt1 t with TList _ None _ => true | _ => false end) ts then Ok tt
      else if existsb is_flat_t ts then Err EValue else unspecified
  | S k =>
      if existsb is_flat_t ts then Err EValue else
      let ts := map strip_opt1 ts in
      if negb (forallb (fun t => match t with TList _ None _ => true | _ => false end) ts) then unspecified else
      do _ <- reg_sizes_ok ts;
      conc_ty k (map elem_ty ts)
  end.

(* ak.concatenate(arrays, axis): axis 0 = one array after the other; axis k >= 1 = corresponding lists at that depth *)
Definition spec_concat_axis (axis : Z) (arrs : list arr) : res value :=
  match arrs with
  | [] => Err EValue
  | (t0, _) :: _ =>
      let ts := map fst arrs in
      if existsb has_union ts then unspecified else
      do ax <- resolve_axis_top t0 axis;
      let maxdepth := fold_right (fun t m => Z.max (snd (minmax t)) m) 0 ts in
      if negb ((0 <=? ax) && (ax <? maxdepth)) then Err EValue else
      if negb (forallb (fun t => match resolve_axis_top t axis with Ok a => a =? ax | Err _ => false end) ts)
      then Err EValue else
      if mixes_bool_num ts then unspecified else
      if ax =? 0 then Ok (VList (concat (map snd arrs)))
      else
        if existsb has_empty_rec ts then unspecified else     (* a list of field-less records counts as depth 1 *)
        do _ <- conc_ty (Z.to_nat (ax - 1)) ts;
        let cols := map snd arrs in
        if list_lengths_differ cols then
          (if existsb (fun c : list value => zlen c =? 1) cols then unspecified else Err EValue)
        else rmap VList (mapM (fun row => conc_v (Z.to_nat (ax - 1)) (zip ts row)) (rows_of cols))
  end.

(* ---- ak.values_astype ---- *)
Definition dt_bits (d : dtype) : Z :=
  match d with
  | DBool | DInt8 | DUInt8 => 8 | DInt16 | DUInt16 => 16 | DInt32 | DUInt32 | DFloat32 => 32 | _ => 64
  end.
Definition cast_int (to : dtype) (z : Z) : Z :=
  let m := 2 ^ dt_bits to in
  if is_unsigned to then z mod m else (z + m / 2) mod m - m / 2.
Definition in_range (to : dtype) (z : Z) : bool := cast_int to z =? z.

Definition cast_leaf (to from : dtype) (v : value) : res value :=
  match to with
  | DBool =>
      match v with
      | VBool _ => Ok v
      | VNum (DZ z) => Ok (VBool (negb (z =? 0)))
      | VNum _ => Ok (VBool true)
      | _ => Err EValue
      end
  | DFloat32 | DFloat64 =>
      let lim := if dt_bits to =? 32 then 2 ^ 24 else 2 ^ 53 in
      match v with
      | VBool b => Ok (VNum (DZ (if b then 1 else 0)))
      | VNum (DZ z) => if Z.abs z <=? lim then Ok v else unspecified
      | VNum _ => Ok v
      | _ => Err EValue
      end
  | _ =>
      match v with
      | VBool b => Ok (VNum (DZ (if b then 1 else 0)))
      | VNum (DZ z) =>
          if is_float from then (if in_range to z then Ok v else unspecified)
          else Ok (VNum (DZ (cast_int to z)))
      | VNum _ => unspecified
      | _ => Err EValue
      end
  end.

Fixpoint astype_v (to : dtype) (t : ty) (v : value) {struct t} : res value :=
  match t with
  | TNum from => cast_leaf to from v
  | TUnk => Ok v
  | TList _ (Some _) _ => Ok v                      (* strings are not numbers *)
  | TList _ None t' => match v with VList l => rmap VList (mapM (astype_v to t') l) | _ => Err EValue end
  | TOpt t' => match v with VNone => Ok VNone | _ => astype_v to t' v end
  | TRec _ ts =>
      match v with
      | VRec fs =>
          rmap VRec
            ((fix go (ts : list ty) (fs : list (name * value)) : res (list (name * value)) :=
                match ts, fs with
                | [], [] => Ok []
                | t1 :: ts', (k, x) :: fs' => do y <- astype_v to t1 x; do ys <- go ts' fs'; Ok ((k, y) :: ys)
                | _, _ => Err EValue
                end) ts fs)
      | VTup xs =>
          rmap VTup
            ((fix go (ts : list ty) (xs : list value) : res (list value) :=
                match ts, xs with
                | [], [] => Ok []
                | t1 :: ts', x :: xs' => do y <- astype_v to t1 x; do ys <- go ts' xs'; Ok (y :: ys)
                | _, _ => Err EValue
                end) ts xs)
      | _ => Err EValue
      end
  | TUnion _ => unspecified
  end.
Definition spec_values_astype (to : dtype) (t : ty) (vs : list value) : res value :=
  rmap VList (mapM (astype_v to t) vs).

(* result type of a concatenation of arrays of one and the same type has no union (simplify) *)
Fixpoint ty_eqb (a b : ty) {struct a} : bool :=
  match a, b with
  | TNum x, TNum y => dtype_eqb x y
  | TUnk, TUnk => true
  | TList s1 p1 x, TList s2 p2 y => opt_eqb Z.eqb s1 s2 && opt_eqb Bool.eqb p1 p2 && ty_eqb x y
  | TOpt x, TOpt y => ty_eqb x y
  | TRec k1 xs, TRec k2 ys =>
      opt_eqb (list_eqb name_eqb) k1 k2 &&
      (fix go (l : list ty) (m : list ty) : bool :=
         match l, m with
         | [], [] => true
         | x :: l', y :: m' => ty_eqb x y && go l' m'
         | _, _ => false
         end) xs ys
  | TUnion xs, TUnion ys =>
      (fix go (l : list ty) (m : list ty) : bool :=
         match l, m with
         | [], [] => true
         | x :: l', y :: m' => ty_eqb x y && go l' m'
         | _, _ => false
         end) xs ys
  | _, _ => false
  end.
Definition concat_type_ok (in_tys : list ty) (out_ty : ty) : bool :=
  match in_tys with
  | [] => true
  | t0 :: r => if forallb (ty_eqb t0) r && negb (has_union t0) then negb (has_union out_ty) else true
  end.

(* ====================================================================== C09 *)
(* ak.pad_none(array, target, axis, clip) *)
Definition spec_pad_none (target axis : Z) (clip : bool) (t : ty) (vs : list value) : res value :=
  do ax <- resolve_axis_top t axis;
  if ax =? 0 then
    if clip then
      (if target <? 0 then Err EValue else Ok (VList (take target (vs ++ repeatZ VNone (target - zlen vs)))))
    else Ok (VList (vs ++ repeatZ VNone (target - zlen vs)))
  else if clip then rmap VList (rpadclip_spec target axis t vs)
  else rmap VList (rpad_spec target axis t vs).

(* ak.is_none(array, axis): True exactly at the None entries of the lists at depth [axis] *)
Definition is_none_f (_ : ty) (l : list value) : res value := Ok (VList (map (fun v => VBool (is_none v)) l)).
(* through a union (whose alternatives need not have the same depth) the levels are counted on the values themselves:
   [d] list levels are still to be descended; a missing list stays missing; a non-list met above the addressed level
   is an error; strings above the addressed level are left unspecified (they are lists of characters to the library) *)
Fixpoint is_none_at (d : nat) (v : value) {struct d} : res value :=
  match d with
  | O => Ok (VBool (is_none v))
  | S d' => match v with
            | VNone => Ok VNone
            | VList l => rmap VList (mapM (is_none_at d') l)
            | VStr _ _ => unspecified
            | _ => Err EValue
            end
  end.
Definition spec_is_none_union (axis : Z) (vs : list value) : res value :=
  if axis <? 0 then unspecified else rmap VList (mapM (is_none_at (Z.to_nat axis)) vs).
Definition spec_is_none (axis : Z) (t : ty) (vs : list value) : res value :=
  match t with
  | TUnion _ => spec_is_none_union axis vs
  | _ =>
    do ax <- resolve_axis_top t axis;
    if ax =? 0 then is_none_f t vs
    else rmap VList (spec_ax is_none_f true (fun _ => true) false t axis vs)
  end.

(* ak.fill_none(array, value, axis) *)
Section Fill.
  Variable v0 : value.
  (* [d] = number of list levels above; replaces the None entries of the option nodes found at depth [axis] *)
  Fixpoint fill_v (t : ty) (d axis : Z) (v : value) {struct t} : res value :=
    match resolve_axis t d axis with
    | Err e => if has_empty_rec t then Ok v else Err e     (* field-less records have no depth: nothing happens *)
    | Ok ax =>
    if ax <? d then Ok v else
    match t with
    | TNum _ | TUnk => Ok v
    | TList _ (Some _) _ => Ok v
    | TList _ None t' =>
        match v with
        | VList l => rmap VList (mapM (fill_v t' (d + 1) ax) l)
        | _ => Err EValue
        end
    | TOpt t' =>
        match v with
        | VNone => if ax =? d then Ok v0 else Ok VNone
        | _ => fill_v t' d ax v
        end
    | TRec _ ts =>
        match v with
        | VRec fs =>
            rmap VRec
              ((fix go (ts : list ty) (fs : list (name * value)) : res (list (name * value)) :=
                  match ts, fs with
                  | [], [] => Ok []
                  | t1 :: ts', (k, x) :: fs' => do y <- fill_v t1 d ax x; do ys <- go ts' fs'; Ok ((k, y) :: ys)
                  | _, _ => Err EValue
                  end) ts fs)
        | VTup xs =>
            rmap VTup
              ((fix go (ts : list ty) (xs : list value) : res (list value) :=
                  match ts, xs with
                  | [], [] => Ok []
                  | t1 :: ts', x :: xs' => do y <- fill_v t1 d ax x; do ys <- go ts' xs'; Ok (y :: ys)
                  | _, _ => Err EValue
                  end) ts xs)
        | _ => Err EValue
        end
    | TUnion _ => unspecified
    end
    end.

  (* axis=None: every None at every level *)
  Fixpoint fill_all_v (t : ty) (v : value) {struct t} : res value :=
    match t with
    | TNum _ | TUnk => Ok v
    | TList _ (Some _) _ => Ok v
    | TList _ None t' =>
        match v with VList l => rmap VList (mapM (fill_all_v t') l) | _ => Err EValue end
    | TOpt t' => match v with VNone => Ok v0 | _ => fill_all_v t' v end
    | TRec _ ts =>
        match v with
        | VRec fs =>
            rmap VRec
              ((fix go (ts : list ty) (fs : list (name * value)) : res (list (name * value)) :=
                  match ts, fs with
                  | [], [] => Ok []
                  | t1 :: ts', (k, x) :: fs' => do y <- fill_all_v t1 x; do ys <- go ts' fs'; Ok ((k, y) :: ys)
                  | _, _ => Err EValue
                  end) ts fs)
        | VTup xs =>
            rmap VTup
              ((fix go (ts : list ty) (xs : list value) : res (list value) :=
                  match ts, xs with
                  | [], [] => Ok []
                  | t1 :: ts', x :: xs' => do y <- fill_all_v t1 x; do ys <- go ts' xs'; Ok (y :: ys)
                  | _, _ => Err EValue
                  end) ts xs)
        | _ => Err EValue
        end
    | TUnion _ => unspecified
    end.
End Fill.

Inductive fill_axis := FAxis (a : Z) | FAll | FDefault.
Definition spec_fill_none (axis : fill_axis) (v0 : value) (t : ty) (vs : list value) : res value :=
  if mixes_bool_num [t; TNum DInt64] then unspecified else      (* a number merged into booleans: True becomes 1 *)
  match axis with
  | FAxis a => do _ <- resolve_axis_top t a; rmap VList (mapM (fill_v v0 t 0 a) vs)
  | FAll => rmap VList (mapM (fill_all_v v0 t) vs)
  | FDefault =>
      if is_flat t then rmap VList (mapM (fill_v v0 t 0 0) vs)
      else rmap VList (fillna_spec [v0] t vs)          (* deprecated form = Content::fillna *)
  end.

(* ak.mask(array, mask, valid_when): driven by the mask *)
Fixpoint mask_v (vw : bool) (tm : ty) (m : value) (ta : ty) (a : value) {struct tm} : res value :=
  match tm with
  | TNum DBool => match m with VBool b => Ok (if Bool.eqb b vw then a else VNone) | _ => Err EValue end
  | TOpt tm' =>
      match m with
      | VNone => Ok VNone
      | _ =>
          match ta with
          | TOpt ta' => match a with VNone => Ok VNone | _ => mask_v vw tm' m ta' a end
          | _ => mask_v vw tm' m ta a
          end
      end
  | TList szm None tm' =>
      if is_opt ta && is_none a then Ok VNone else
      let ta1 := strip_opt1 ta in
      match ta1 with
      | TUnion _ | TOpt _ => unspecified
      | TList _ (Some _) _ => unspecified      (* a string next to a list: broadcast as a unit or as characters *)
      | TList _ _ _ =>
          do bs <- mapM classify [(tm, m); (ta1, a)];
          let allreg := match first_var bs with None => true | Some _ => false end in
          let target := match first_var bs with Some n => n | None => max_reg bs end in
          do cols <- mapM (stretch allreg target) bs;
          match cols with
          | [mcol; acol] =>
              rmap VList (mapM (fun ma : value * value => mask_v vw tm' (fst ma) (elem_ty ta1) (snd ma)) (zip mcol acol))
          | _ => Err EValue
          end
      | TRec _ _ => unspecified
      | _ =>
          match m with
          | VList ml =>
              rmap VList (mapM (fun mi => mask_v vw tm' mi ta1 a) ml)
          | _ => Err EValue
          end
      end
  | TUnion _ | TRec _ _ => unspecified
  | _ => Err EValue                                 (* "mask must have boolean type" *)
  end.

Fixpoint mask_leaf_ok (tm : ty) : bool :=
  match tm with
  | TNum DBool | TUnk => true
  | TList _ None t' | TOpt t' => mask_leaf_ok t'
  | TRec _ _ | TUnion _ => true
  | _ => false
  end.
Fixpoint mask_tyck (tm ta : ty) {struct tm} : res unit :=
  match tm with
  | TOpt tm' => mask_tyck tm' (strip_opt1 ta)
  | TList _ None tm' =>
      let ta1 := strip_opt1 ta in
      match ta1 with
      | TList _ None ta' => do _ <- reg_sizes_ok [tm; ta1]; mask_tyck tm' ta'
      | TList _ (Some _) _ | TUnion _ | TOpt _ | TRec _ _ => unspecified
      | _ => mask_tyck tm' ta1
      end
  | _ => Ok tt
  end.
Definition spec_mask (vw : bool) (ta : ty) (avs : list value) (tm : ty) (ms : list value) : res value :=
  if has_union ta || has_union tm then unspecified else
  if negb (mask_leaf_ok tm) then Err EValue else
  do _ <- mask_tyck tm ta;
  do rows <- top_rows [avs; ms];
  rmap VList (mapM (fun row => match row with
                               | [a; m] => mask_v vw tm m ta a
                               | _ => Err EValue
                               end) rows).

(* ak.firsts(array, axis): the first element of every list at [axis], None for an empty list *)
Definition firsts_f (_ : ty) (l : list value) : res value :=
  Ok (match l with [] => VNone | x :: _ => x end).
Definition spec_firsts (axis : Z) (t : ty) (vs : list value) : res value :=
  do ax <- resolve_axis_top t axis;
  if ax =? 0 then Ok (match vs with [] => VNone | x :: _ => x end)
  else if ax <? 0 then Err EValue
  else if rec_above (Z.to_nat (ax - 1)) t then Err EValue      (* ak.num(..) > 0 on records: "cannot broadcast records" *)
  else rmap VList (spec_ax firsts_f false (fun _ => true) true t ax vs).

(* ak.singletons(array): at the outermost option of every path, None -> [] and x -> [x] *)
Fixpoint singletons_v (t : ty) (v : value) {struct t} : res value :=
  match t with
  | TNum _ | TUnk => Ok v
  | TList _ (Some _) _ => Ok v
  | TList _ None t' => match v with VList l => rmap VList (mapM (singletons_v t') l) | _ => Err EValue end
  | TOpt _ => Ok (match v with VNone => VList [] | _ => VList [v] end)
  | TRec _ ts =>
      match v with
      | VRec fs =>
          rmap VRec
            ((fix go (ts : list ty) (fs : list (name * value)) : res (list (name * value)) :=
                match ts, fs with
                | [], [] => Ok []
                | t1 :: ts', (k, x) :: fs' => do y <- singletons_v t1 x; do ys <- go ts' fs'; Ok ((k, y) :: ys)
                | _, _ => Err EValue
                end) ts fs)
      | VTup xs =>
          rmap VTup
            ((fix go (ts : list ty) (xs : list value) : res (list value) :=
                match ts, xs with
                | [], [] => Ok []
                | t1 :: ts', x :: xs' => do y <- singletons_v t1 x; do ys <- go ts' xs'; Ok (y :: ys)
                | _, _ => Err EValue
                end) ts xs)
      | _ => Err EValue
      end
  | TUnion _ => unspecified
  end.
Definition spec_singletons (t : ty) (vs : list value) : res value := rmap VList (mapM (singletons_v t) vs).

Fixpoint singletons_ty (t : ty) : ty :=
  match t with
  | TList sz None t' => TList sz None (singletons_ty t')
  | TOpt t' => TList None None t'
  | TRec ks ts => TRec ks (map singletons_ty ts)
  | _ => t
  end.
(* firsts(singletons(x), axis=1) as a composite *)
Definition spec_firsts_singletons (t : ty) (vs : list value) : res value :=
  do s <- mapM (singletons_v t) vs;
  spec_firsts 1 (singletons_ty t) s.
