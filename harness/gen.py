"""Generators: value-first layouts.  A type is drawn, then Python values of that type,
then a random *encoding* of those values as an awkward layout (S-expression tree),
together with the canonical encoding of the same values (for C02).

Layout trees are Python lists mirroring the case syntax:  ['lo','i64',[0,2,3], child].
All randomness comes from the random.Random instance passed in.
"""
import math

INT_DTYPES = ['int8', 'int16', 'int32', 'int64', 'uint8', 'uint16', 'uint32', 'uint64']
FLOAT_DTYPES = ['float32', 'float64']
WIDTHS = ['i32', 'u32', 'i64']


def sx(t):
    """serialise a tree to the case syntax"""
    if isinstance(t, (list, tuple)):
        return '(' + ' '.join(sx(x) for x in t) + ')'
    if t is True:
        return '1'
    if t is False:
        return '0'
    if isinstance(t, float):
        if math.isnan(t):
            return 'nan'
        if math.isinf(t):
            return 'inf' if t > 0 else '-inf'
        assert t == int(t)
        return str(int(t))
    return str(t)


# ------------------------------------------------------------------ types
# ('leaf', dtype) | ('list', T) | ('opt', T) | ('rec', [(name, T)...] , istuple) | ('union', [T...])
# | ('str', isstr)

def gen_type(rng, depth, allow_rec=True, allow_union=True, allow_opt=True, allow_str=True, leaf_dtypes=None):
    r = rng.random()
    if depth <= 0 or r < 0.22:
        if allow_str and rng.random() < 0.12:
            return ('str', rng.random() < 0.7)
        dts = leaf_dtypes or (['int64'] * 4 + ['float64'] * 2 + ['bool'] + INT_DTYPES + FLOAT_DTYPES)
        return ('leaf', rng.choice(dts))
    kw = dict(allow_rec=allow_rec, allow_union=allow_union, allow_opt=allow_opt, allow_str=allow_str,
              leaf_dtypes=leaf_dtypes)
    if r < 0.62:
        return ('list', gen_type(rng, depth - 1, **kw))
    if r < 0.78 and allow_opt:
        t = gen_type(rng, depth - 1, **dict(kw, allow_opt=False))
        return ('opt', t)
    if r < 0.90 and allow_rec:
        n = rng.choice([0, 1, 2, 2, 3])
        istuple = rng.random() < 0.25
        names = rng.sample(['a', 'b', 'c', 'x', 'y', 'pt'], n)
        return ('rec', [(names[i], gen_type(rng, depth - 1, **kw)) for i in range(n)], istuple)
    if allow_union:
        k = rng.choice([2, 2, 3])
        alts = []
        for _ in range(k):
            alts.append(gen_type(rng, depth - 1, **dict(kw, allow_union=False)))
        # alternatives must be pairwise different "kinds" so the union is genuine
        seen = []
        out = []
        for a in alts:
            key = type_key(a)
            if key not in seen:
                seen.append(key)
                out.append(a)
        if len(out) >= 2:
            return ('union', out)
        return out[0]
    return ('list', gen_type(rng, depth - 1, **kw))


def type_key(t):
    """coarse kind used to keep union alternatives non-mergeable"""
    if t[0] == 'leaf':
        return 'bool' if t[1] == 'bool' else 'num'
    if t[0] == 'opt':
        return type_key(t[1])
    if t[0] == 'list':
        return ('list',)
    if t[0] == 'rec':
        return ('rec', tuple(n for n, _ in t[1]), t[2])
    return t[0]


def leaf_value(rng, dt, special=True):
    if dt == 'bool':
        return rng.random() < 0.5
    if dt in FLOAT_DTYPES:
        r = rng.random()
        if special and r < 0.06:
            return float('nan')
        if special and r < 0.09:
            return float('inf') if rng.random() < 0.5 else float('-inf')
        return rng.randint(-9, 9)
    lo, hi = {'int8': (-128, 127), 'int16': (-2 ** 15, 2 ** 15 - 1), 'int32': (-2 ** 31, 2 ** 31 - 1),
              'int64': (-2 ** 63, 2 ** 63 - 1), 'uint8': (0, 255), 'uint16': (0, 2 ** 16 - 1),
              'uint32': (0, 2 ** 32 - 1), 'uint64': (0, 2 ** 64 - 1)}[dt]
    r = rng.random()
    if special and r < 0.03:
        return rng.choice([lo, hi])
    return rng.randint(max(lo, -9), min(hi, 9))


def gen_value(rng, t, maxlen=4, special=True):
    k = t[0]
    if k == 'leaf':
        return leaf_value(rng, t[1], special)
    if k == 'str':
        n = rng.choice([0, 1, 2, 3])
        return ('$str', t[1], [rng.choice([97, 98, 99, 65, 0, 200, 32, 34, 92]) for _ in range(n)])
    if k == 'list':
        n = rng.choice([0, 0, 1, 2, 2, 3, maxlen])
        return [gen_value(rng, t[1], maxlen, special) for _ in range(n)]
    if k == 'opt':
        if rng.random() < 0.3:
            return None
        return gen_value(rng, t[1], maxlen, special)
    if k == 'rec':
        return ('$rec', [gen_value(rng, ft, maxlen, special) for _, ft in t[1]])
    if k == 'union':
        i = rng.randrange(len(t[1]))
        return ('$un', i, gen_value(rng, t[1][i], maxlen, special))
    raise ValueError(t)


def _list_nodes(t, out):
    k = t[0]
    if k == 'list':
        out.append(t)
        _list_nodes(t[1], out)
    elif k == 'opt':
        _list_nodes(t[1], out)
    elif k == 'rec':
        for _, ft in t[1]:
            _list_nodes(ft, out)
    elif k == 'union':
        for a in t[1]:
            _list_nodes(a, out)


def _lens_at(t, v, node, out):
    if v is None:
        return
    k = t[0]
    if k == 'list':
        if t is node:
            out.append(len(v))
        else:
            for x in v:
                _lens_at(t[1], x, node, out)
    elif k == 'opt':
        _lens_at(t[1], v, node, out)
    elif k == 'rec':
        for (_, ft), x in zip(t[1], v[1]):
            _lens_at(ft, x, node, out)
    elif k == 'union':
        _lens_at(t[1][v[1]], v[2], node, out)


def _cut_at(t, v, node, n):
    if v is None:
        return v
    k = t[0]
    if k == 'list':
        if t is node:
            return v[:n]
        return [_cut_at(t[1], x, node, n) for x in v]
    if k == 'opt':
        return _cut_at(t[1], v, node, n)
    if k == 'rec':
        return ('$rec', [_cut_at(ft, x, node, n) for (_, ft), x in zip(t[1], v[1])])
    if k == 'union':
        return ('$un', v[1], _cut_at(t[1][v[1]], v[2], node, n))
    return v


def rectangularise(rng, t, vals, p=0.22):
    """with probability p per list level of the type: cut every list found at that level to one common length (the
    shortest one, or shorter; quite often 0), so that regular encodings - including size 0 with several rows - of
    nested data with records / options below them are generated with real content"""
    ns = []
    _list_nodes(t, ns)
    for node in ns:
        if rng.random() >= p:
            continue
        lens = []
        for v in vals:
            _lens_at(t, v, node, lens)
        if len(lens) < 2:
            continue
        m = min(lens)
        n = m if rng.random() < 0.7 else rng.randint(0, m)
        vals = [_cut_at(t, v, node, n) for v in vals]
    return vals


# ------------------------------------------------------------------ encodings
DEFAULT_ND = 0.2      # see Enc.nd; the Python halves generate with 0 (pyhalves._with_corpus)


class Enc:
    """encoding options; canonical=True gives the compact canonical encoding"""

    def __init__(self, rng, canonical=False, junk=True, indexed=True, list_kinds=('lo', 'la', 'reg'),
                 opt_kinds=('ixo', 'bym', 'bim', 'unm'), widths=WIDTHS, weird_empty=0.0, special=True, strided=0.0, ix_prob=0.12,
                 nd=None):
        self.rng = rng
        self.ix_prob = ix_prob      # probability of an IndexedArray indirection at a node (0.3 over record nodes)
        self.canonical = canonical
        self.junk = junk and not canonical
        self.indexed = indexed and not canonical
        self.list_kinds = list_kinds
        self.opt_kinds = opt_kinds
        self.widths = widths
        self.weird_empty = weird_empty
        self.special = special
        self.strided = strided
        # (per array: never / sometimes / nearly always -- so that records with several n-d fields occur)
        self.nd = (rng.choice([0, DEFAULT_ND, DEFAULT_ND, 0.9]) if DEFAULT_ND else 0) if nd is None else nd              # probability that a regular level over a plain leaf array becomes an n-d NumpyArray dimension
        self.decisions = []      # (is_regular, size) per list level, in encoding order
        self.replay = None       # when set: list of decisions to follow (canonical re-encoding keeps the type)
        self.stats = {}

    def count(self, k):
        self.stats[k] = self.stats.get(k, 0) + 1


def junkvals(enc, t, nmax=2):
    if not enc.junk:
        return []
    n = enc.rng.choice([0, 0, 1, nmax])
    return [gen_value(enc.rng, t_noopt_none(t), 3, enc.special) for _ in range(n)]


def t_noopt_none(t):
    return t


def junk_leaf(enc, t):
    return gen_value(enc.rng, t, 3, enc.special)


def encode(enc, t, vals, under_option=False):
    """layout of length len(vals) whose to_list is vals"""
    rng = enc.rng
    k = t[0]
    # optional IndexedArray indirection (not directly under or over an option node)
    if enc.indexed and not under_option and k != 'opt' and rng.random() < (max(enc.ix_prob, 0.3) if k == 'rec' else enc.ix_prob):
        n = len(vals)
        pre = junkvals(enc, t)
        perm = list(range(n))
        rng.shuffle(perm)
        stored = pre + [vals[p] for p in perm] + junkvals(enc, t)
        pos = {p: len(pre) + i for i, p in enumerate(perm)}
        index = [pos[i] for i in range(n)]
        enc.count('ix')
        w = rng.choice(enc.widths)
        return ['ix', w, index, encode_plain(enc, t, stored, True)]
    return encode_plain(enc, t, vals, under_option)


def encode_plain(enc, t, vals, under_option):
    rng = enc.rng
    k = t[0]
    if k == 'leaf':
        if enc.strided and not enc.canonical and len(vals) > 0 and rng.random() < enc.strided:
            # a strided 1-d view (a column of a table, x[::2], x[::-1]): same value, other physical layout
            n = len(vals)
            st = rng.choice([2, 3, -1, -2, 2])
            pre = rng.randint(0, 2)
            span = (n - 1) * abs(st) + 1
            buf = [junk_leaf(enc, t) for _ in range(pre + span + rng.randint(0, 2))]
            off = pre if st > 0 else pre + span - 1
            for i, v in enumerate(vals):
                buf[off + i * st] = v
            enc.count('nps')
            return ['nps', t[1], [n], [st], off, buf]
        enc.count('np')
        return ['np', t[1], [len(vals)], list(vals)]
    if k == 'str':
        isstr = t[1]
        lists = [v[2] for v in vals]
        inner = ('leaf', 'uint8')
        lay = encode_list(enc, inner, lists, chars=('char' if isstr else 'byte'))
        return ['par', 'string' if isstr else 'bytestring', 'none', lay]
    if k == 'list':
        return encode_list(enc, t[1], vals)
    if k == 'opt':
        return encode_opt(enc, t[1], vals)
    if k == 'rec':
        fields, istuple = t[1], t[2]
        enc.count('rec')
        children = []
        for i, (_, ft) in enumerate(fields):
            col = [v[1][i] for v in vals] + junkvals(enc, ft)
            children.append(encode(enc, ft, col))
        keys = 'tuple' if istuple else [n for n, _ in fields]
        return ['rec', len(vals), keys] + children
    if k == 'union':
        alts = t[1]
        enc.count('un')
        stored = [[] for _ in alts]
        if enc.junk:
            for i, a in enumerate(alts):
                stored[i].extend(junkvals(enc, a, 1))
        tags, index = [], []
        for v in vals:
            _, i, x = v
            tags.append(i)
            index.append(len(stored[i]))
            stored[i].append(x)
        # shuffle storage order inside each alternative
        if not enc.canonical:
            for i in range(len(alts)):
                n = len(stored[i])
                perm = list(range(n))
                rng.shuffle(perm)
                inv = {old: new for new, old in enumerate(perm)}
                stored[i] = [stored[i][p] for p in perm]
                index = [inv[ix] if tags[j] == i else ix for j, ix in enumerate(index)]
        w = 'i64' if enc.canonical else rng.choice(enc.widths)
        extra = [0] * (rng.choice([0, 0, 1]) if enc.junk else 0)
        return ['un', w, tags, index + extra] + [encode(enc, a, stored[i]) for i, a in enumerate(alts)]
    raise ValueError(t)


def encode_list(enc, it, lists, chars=None):
    rng = enc.rng
    n = len(lists)

    def content(vs):
        if chars:
            return ['par', chars, 'none', ['np', 'uint8', [len(vs)], list(vs)]]
        return encode(enc, it, vs)

    def jv(nmax=2):
        if chars:
            return [rng.randint(0, 255) for _ in range(rng.choice([0, 0, 1, nmax]))] if enc.junk else []
        return junkvals(enc, it, nmax)

    kinds = list(enc.list_kinds)
    sizes = set(len(l) for l in lists)
    regular_ok = len(sizes) <= 1 and 'reg' in kinds
    forced_size = None
    if enc.replay is not None:
        isreg, forced_size = enc.replay.pop(0)
        kind = 'reg' if isreg else 'lo'
    elif enc.canonical:
        kind = 'lo'
    else:
        if regular_ok and rng.random() < 0.4:
            kind = 'reg'
        else:
            ks = [x for x in kinds if x != 'reg'] or ['lo']
            kind = rng.choice(ks)
    w = 'i64' if enc.canonical else rng.choice(enc.widths)
    enc.count(kind)
    if kind == 'reg':
        size = forced_size if forced_size is not None else (sizes.pop() if sizes else rng.choice([0, 1, 2]))
        enc.decisions.append((True, size))
        flat = [x for l in lists for x in l]
        if not chars and not enc.canonical and enc.nd and rng.random() < enc.nd:
            # the regular level as a dimension of an n-d NumpyArray (same type and value as the RegularArray chain):
            # contiguous, or a strided view (transposed storage, steps, an offset) -- n-d leaves below lists and as
            # record fields, which from_iter never builds but ak.Array(np.ndarray) / from_numpy do
            inner = encode(enc, it, flat)
            if inner[0] == 'np' and inner[2][0] == len(flat):
                enc.count('ndnp')
                shape = [n, size] + list(inner[2][1:])
                data = list(inner[3])
                if rng.random() < 0.5 or not data or not enc.strided:
                    # (strided n-d views only where the check opted into strided leaves: its readers know 'nps')
                    return ['np', inner[1], shape, data]
                return strided_nd(enc, inner[1], shape, data)
            return ['reg', size, n, inner]
        extra = jv(max(size - 1, 0))[:max(size - 1, 0)] if size > 0 else jv()
        return ['reg', size, n, content(flat + extra)]
    enc.decisions.append((False, None))
    if kind == 'lo':
        if n > 0 and not any(lists) and not chars and rng.random() < enc.weird_empty:
            # all lists empty: the offsets may sit anywhere, also beyond the content (valid)
            flat = list(jv())
            k = len(flat) + rng.choice([1, 4, 7])
            return ['lo', w, [k] * (n + 1), content(flat)]
        pre = jv()
        flat = list(pre)
        offsets = [len(flat)]
        for l in lists:
            flat.extend(l)
            offsets.append(len(flat))
        flat.extend(jv())
        return ['lo', w, offsets, content(flat)]
    # ListArray: lists stored in shuffled order with gaps; empty lists get arbitrary start=stop
    order = list(range(n))
    rng.shuffle(order)
    flat = list(jv())
    starts, stops = [0] * n, [0] * n
    for i in order:
        l = lists[i]
        if len(l) == 0:
            if rng.random() < enc.weird_empty:
                s = rng.choice([len(flat) + 7, 1000]) if w != 'u32' else len(flat) + 7
                if w != 'u32' and rng.random() < 0.3:
                    s = -3
            else:
                s = rng.randint(0, len(flat))
            starts[i] = stops[i] = s
            continue
        # overlap: reuse an existing run when it matches
        starts[i] = len(flat)
        flat.extend(l)
        stops[i] = len(flat)
        flat.extend(jv(1))
    extra_stops = [0] * (rng.choice([0, 0, 1]) if enc.junk else 0)
    return ['la', w, starts, stops + extra_stops, content(flat)]


def strided_nd(enc, dt, shape, data):
    """the C-ordered [data] of [shape] stored as a strided view: axes stored in a permuted order, with steps and an offset"""
    rng = enc.rng
    nd = len(shape)
    perm = list(range(nd))
    rng.shuffle(perm)                       # storage order of the axes (perm[0] slowest)
    step = [rng.choice([1, 1, 2]) for _ in range(nd)]
    pshape = [max(shape[a], 1) * step[a] for a in perm]          # physical extents in storage order
    pstr = [0] * nd                        # stride (in items) of each stored axis
    acc = 1
    for j in range(nd - 1, -1, -1):
        pstr[j] = acc
        acc *= pshape[j]
    strides = [0] * nd
    for j, a in enumerate(perm):
        strides[a] = pstr[j] * step[a]
    pre = rng.randint(0, 2)
    total = pre + acc + rng.randint(0, 2)
    t = ('leaf', dt)
    buf = [junk_leaf(enc, t) for _ in range(total)]
    # place the items
    idx = [0] * nd
    k = 0
    count = 1
    for d in shape:
        count *= d
    for k in range(count):
        rem = k
        pos = pre
        for a in range(nd - 1, -1, -1):
            i = rem % shape[a]
            rem //= shape[a]
            pos += i * strides[a]
        buf[pos] = data[k]
    enc.count('ndnps')
    return ['nps', dt, list(shape), strides, pre, buf]


def encode_opt(enc, it, vals):
    rng = enc.rng
    n = len(vals)
    has_none = any(v is None for v in vals)
    if enc.canonical:
        kind = 'ixo'
    else:
        ks = [k for k in enc.opt_kinds if k != 'unm' or not has_none] or ['ixo']
        kind = rng.choice(ks)
    enc.count(kind)
    if kind == 'unm':
        return ['unm', encode(enc, it, list(vals), True)]
    if kind == 'ixo':
        w = 'i64' if enc.canonical else rng.choice(['i32', 'i64'])
        present = [i for i, v in enumerate(vals) if v is not None]
        pre = junkvals(enc, it)
        order = list(present)
        if not enc.canonical:
            rng.shuffle(order)
        stored = pre + [vals[i] for i in order] + junkvals(enc, it)
        pos = {i: len(pre) + j for j, i in enumerate(order)}
        index = []
        for i, v in enumerate(vals):
            if v is None:
                index.append(-1 if enc.canonical else rng.choice([-1, -1, -2, -7]))
            else:
                index.append(pos[i])
        return ['ixo', w, index, encode(enc, it, stored, True)]
    # masked: content has a (junk) value at every position
    full = [v if v is not None else gen_value(rng, it, 3, enc.special) for v in vals]
    if kind == 'bym':
        vw = rng.random() < 0.5
        mask = []
        for v in vals:
            valid = v is not None
            if valid == vw:
                mask.append(rng.choice([1, 1, 1, 2, -1, 127]))
            else:
                mask.append(0)
        return ['bym', mask, vw, encode(enc, it, full + junkvals(enc, it), True)]
    if kind == 'bim':
        vw = rng.random() < 0.5
        lsb = rng.random() < 0.5
        nbytes = (n + 7) // 8 + (rng.choice([0, 0, 1]) if enc.junk else 0)
        bits = []
        for v in vals:
            valid = v is not None
            bits.append(1 if valid == vw else 0)
        while len(bits) < nbytes * 8:
            bits.append(rng.randint(0, 1))   # padding bits are arbitrary
        mask = []
        for b in range(nbytes):
            byte = 0
            for k in range(8):
                if bits[b * 8 + k]:
                    byte |= (1 << k) if lsb else (1 << (7 - k))
            mask.append(byte)
        return ['bim', mask, vw, lsb, n, encode(enc, it, full + junkvals(enc, it), True)]
    raise ValueError(kind)


# ------------------------------------------------------------------ Python-side view of values
def pyvalue(t, v):
    """the value as ak.to_list would give it (lists, None, dict/tuple, str/bytes, numbers)"""
    k = t[0]
    if v is None:
        return None
    if k == 'leaf':
        return v
    if k == 'str':
        return ('s' if v[1] else 'b', tuple(v[2]))
    if k == 'list':
        return [pyvalue(t[1], x) for x in v]
    if k == 'opt':
        return pyvalue(t[1], v)
    if k == 'rec':
        if t[2]:
            return tuple(pyvalue(ft, x) for (_, ft), x in zip(t[1], v[1]))
        return {n: pyvalue(ft, x) for (n, ft), x in zip(t[1], v[1])}
    if k == 'union':
        return pyvalue(t[1][v[1]], v[2])
    raise ValueError(t)


def list_depth(t):
    """(min,max) number of list levels below (and including) the top-level array dimension"""
    k = t[0]
    if k in ('leaf',):
        return (1, 1)
    if k == 'str':
        return (1, 1)
    if k == 'list':
        a, b = list_depth(t[1])
        return (a + 1, b + 1)
    if k == 'opt':
        return list_depth(t[1])
    if k == 'rec':
        if not t[1]:
            return (1, 1)
        ds = [list_depth(ft) for _, ft in t[1]]
        return (min(d[0] for d in ds), max(d[1] for d in ds))
    if k == 'union':
        ds = [list_depth(a) for a in t[1]]
        return (min(d[0] for d in ds), max(d[1] for d in ds))
    raise ValueError(t)


def gen_union_type(rng, depth, under_list=None, **kw):
    """a union whose alternatives are (mostly) list types of different depths / list vs option-list vs record of lists,
    optionally under one list level: the shape in which slicing, counting, padding ... descend *below* a union node"""
    kw = dict(kw, allow_union=False)
    for _ in range(50):
        k = rng.choice([2, 2, 3])
        alts, seen = [], []
        for j in range(k):
            r = rng.random()
            if r < 0.75:
                a = ('list', gen_type(rng, max(depth - 2, 0), **kw))
                if rng.random() < 0.5:
                    a = ('list', a)
                if kw.get('allow_opt', True) and rng.random() < 0.2:
                    a = ('opt', a)
            else:
                a = gen_type(rng, max(depth - 1, 0), **kw)
            # lists of different depth are different kinds here (they do not merge)
            key = ('list', list_depth(a)) if a[0] in ('list', 'opt') and type_key(a) == ('list',) else type_key(a)
            if key not in seen:
                seen.append(key)
                alts.append(a)
        if len(alts) >= 2:
            t = ('union', alts)
            if under_list if under_list is not None else rng.random() < 0.3:
                t = ('list', t)
            return t
    return ('union', [('list', ('leaf', 'int64')), ('list', ('list', ('leaf', 'int64')))])


def gen_array(rng, depth=3, toplen=None, canonical_too=True, enc_kw=None, type_kw=None, special=True, type_=None):
    """returns dict(type, vals, layout, canon)"""
    t = type_ if type_ is not None else gen_type(rng, depth, **(type_kw or {}))
    n = toplen if toplen is not None else rng.choice([0, 1, 2, 3, 3, 4, 5])
    vals = rectangularise(rng, t, [gen_value(rng, t, 4, special) for _ in range(n)])
    enc = Enc(rng, **dict(dict(special=special), **(enc_kw or {})))
    lay = encode(enc, t, vals)
    out = dict(type=t, vals=vals, layout=lay, stats=enc.stats)
    if canonical_too:
        cenc = Enc(rng, canonical=True)
        cenc.replay = [d for d in enc.decisions]
        out['canon'] = encode(cenc, t, vals)
    return out


# ------------------------------------------------------------------ invalid stream (C11 / C12)
def nodes(tree, path=()):
    """all layout nodes of a tree with their paths"""
    out = []
    if isinstance(tree, list) and tree and isinstance(tree[0], str):
        out.append((path, tree))
        for i, ch in enumerate(tree):
            if isinstance(ch, list) and ch and isinstance(ch[0], str) and i > 0:
                out.extend(nodes(ch, path + (i,)))
    return out


def child_len(node):
    """length of a layout node, computed structurally (None when unknown)"""
    h = node[0]
    if h in ('np', 'nps'):
        return node[2][0]
    if h == 'empty':
        return 0
    if h == 'lo':
        return len(node[2]) - 1
    if h == 'la':
        return len(node[2])
    if h == 'reg':
        return node[2]
    if h in ('ix', 'ixo'):
        return len(node[2])
    if h == 'bym':
        return len(node[1])
    if h == 'bim':
        return node[4]
    if h == 'unm':
        return child_len(node[1])
    if h == 'un':
        return len(node[2])
    if h == 'rec':
        return node[1]
    if h == 'par':
        return child_len(node[3])
    return None


def deep_copy(t):
    return [deep_copy(x) for x in t] if isinstance(t, list) else t


def set_path(tree, path, new):
    if not path:
        return new
    t = tree
    for p in path[:-1]:
        t = t[p]
    t[path[-1]] = new
    return tree


def break_rule(rng, layout):
    """returns (rule_name, broken_layout) or None: one documented rule violated at one node"""
    tree = deep_copy(layout)
    cands = nodes(tree)
    rng.shuffle(cands)
    for path, node in cands:
        h = node[0]
        muts = []
        if h == 'lo' and len(node[2]) >= 2:
            lc = child_len(node[3])
            o = node[2]

            def m_dec(node=node, o=o):
                i = rng.randrange(len(o) - 1)
                o[i] = o[i + 1] + rng.choice([1, 2])
                return 'offsets-decreasing'

            def m_beyond(node=node, o=o, lc=lc):
                if o[-1] == o[-2]:
                    # make the last list non-empty and overshooting
                    pass
                o[-1] = lc + rng.choice([1, 3])
                return 'offsets-beyond-content'
            muts += [m_dec, m_beyond]
            if node[1] != 'u32':
                def m_neg(node=node, o=o):
                    if o[0] == o[1]:
                        return None
                    o[0] = -1
                    return 'offsets-negative'
                muts.append(m_neg)
        if h == 'lo' and len(node[2]) == 1:
            def m_empty_offsets(node=node):
                node[2] = []
                return 'offsets-empty'
            muts.append(m_empty_offsets)
        if h == 'la' and len(node[2]) >= 1:
            lc = child_len(node[4])

            def m_stop(node=node, lc=lc):
                i = rng.randrange(len(node[2]))
                node[3][i] = lc + 2
                if node[2][i] == node[3][i]:
                    return None
                return 'stop-beyond-content'

            def m_swap(node=node):
                i = rng.randrange(len(node[2]))
                if node[2][i] == node[3][i]:
                    return None
                node[2][i], node[3][i] = node[3][i], node[2][i]
                return 'start-after-stop'

            def m_short(node=node):
                node[3] = node[3][:len(node[2]) - 1]
                return 'stops-shorter-than-starts'
            muts += [m_stop, m_swap, m_short]
        if h in ('ix', 'ixo') and len(node[2]) >= 1:
            lc = child_len(node[3])

            def m_oor(node=node, lc=lc):
                i = rng.randrange(len(node[2]))
                node[2][i] = lc + rng.choice([0, 1, 5])
                return 'index-out-of-range'
            muts.append(m_oor)
            if h == 'ix' and node[1] != 'u32':
                def m_negix(node=node):
                    i = rng.randrange(len(node[2]))
                    node[2][i] = -1
                    return 'index-negative'
                muts.append(m_negix)
        if h in ('ix', 'ixo', 'bym', 'bim', 'unm'):
            ci = {'ix': 3, 'ixo': 3, 'bym': 3, 'bim': 5, 'unm': 1}[h]

            def m_nest(node=node, ci=ci):
                inner = node[ci]
                n = child_len(inner)
                if n is None:
                    return None
                kind = rng.choice(['ixo', 'unm', 'bym', 'ix'])
                if kind == 'ixo':
                    node[ci] = ['ixo', 'i64', list(range(n)), inner]
                elif kind == 'ix':
                    node[ci] = ['ix', 'i64', list(range(n)), inner]
                elif kind == 'bym':
                    node[ci] = ['bym', [1] * n, 1, inner]
                else:
                    node[ci] = ['unm', inner]
                return 'option-in-option'
            muts.append(m_nest)
        if h == 'bym':
            def m_bym(node=node):
                lc = child_len(node[3])
                node[1] = node[1] + [0] * (lc - len(node[1]) + 1)
                return 'mask-longer-than-content'
            muts.append(m_bym)
        if h == 'bim':
            def m_bim1(node=node):
                node[4] = 8 * len(node[1]) + 1
                return 'length-beyond-bitmask'

            def m_bim2(node=node):
                lc = child_len(node[5])
                need = lc + 1
                while 8 * len(node[1]) < need:
                    node[1].append(0)
                node[4] = need
                return 'length-beyond-content'
            muts += [m_bim1, m_bim2]
        if h == 'un' and len(node[2]) >= 1:
            nalt = len(node) - 4

            def m_tag(node=node, nalt=nalt):
                i = rng.randrange(len(node[2]))
                node[2][i] = rng.choice([nalt, nalt + 1, -1])
                return 'tag-out-of-range'

            def m_uix(node=node):
                i = rng.randrange(len(node[2]))
                tg = node[2][i]
                lc = child_len(node[4 + tg])
                node[3][i] = lc + rng.choice([0, 2])
                return 'union-index-out-of-range'

            def m_ushort(node=node):
                node[3] = node[3][:len(node[2]) - 1]
                return 'union-index-shorter-than-tags'
            muts += [m_tag, m_uix, m_ushort]
            if node[1] != 'u32':
                def m_uneg(node=node):
                    i = rng.randrange(len(node[2]))
                    node[3][i] = -1
                    return 'union-index-negative'
                muts.append(m_uneg)
        if h == 'un':
            def m_uu(node=node):
                k = rng.randrange(len(node) - 4)
                inner = node[4 + k]
                n = child_len(inner)
                if n is None:
                    return None
                node[4 + k] = ['un', 'i64', [0] * n, list(range(n)), inner, ['np', 'bool', [0], []]]
                return 'union-in-union'
            muts.append(m_uu)
        if h == 'rec' and len(node) > 3:
            def m_rec(node=node):
                lens = [child_len(ch) for ch in node[3:]]
                if any(l is None for l in lens):
                    return None
                node[1] = min(lens) + 1
                return 'record-field-shorter-than-length'
            muts.append(m_rec)
        if h == 'par' and node[1] in ('string', 'bytestring'):
            def m_dt(node=node):
                inner = node[3]
                ci = {'lo': 3, 'la': 4, 'reg': 3}[inner[0]]
                ch = inner[ci]
                ch[3][1] = 'int8' if rng.random() < 0.5 else 'int64'
                ch[3][3] = [min(x, 127) for x in ch[3][3]]
                return 'char-not-uint8'

            def m_nochar(node=node):
                inner = node[3]
                ci = {'lo': 3, 'la': 4, 'reg': 3}[inner[0]]
                inner[ci] = inner[ci][3]
                return 'string-without-char'

            def m_wrongkind(node=node):
                inner = node[3]
                ci = {'lo': 3, 'la': 4, 'reg': 3}[inner[0]]
                inner[ci][1] = 'byte' if inner[ci][1] == 'char' else 'char'
                return 'string-char-kind-mismatch'
            def m_charnotnumpy(node=node):
                inner = node[3]
                ci = {'lo': 3, 'la': 4, 'reg': 3}[inner[0]]
                ch = inner[ci]            # (par char none (np uint8 ...))
                n = ch[3][2][0]
                ch[3] = ['ix', 'i64', list(range(n)), ch[3]]
                return 'char-content-not-numpy'
            muts += [m_dt, m_nochar, m_wrongkind, m_charnotnumpy]
        if h == 'np' and len(path) >= 1:
            def m_char(node=node, path=path):
                return None
            # a bare char outside a string
        if h in ('np', 'lo', 'reg') and rng.random() < 0.15:
            def m_barechar(node=node, path=path):
                new = ['par', rng.choice(['char', 'byte']), 'none', deep_copy(node)]
                # not directly under a string list: only apply when parent is not a par string content
                parent = tree
                for p in path[:-1]:
                    parent = parent[p]
                if path and isinstance(parent, list) and parent and parent[0] == 'par':
                    return None
                if path:
                    pp = tree
                    chain = [tree]
                    for p in path[:-1]:
                        pp = pp[p]
                        chain.append(pp)
                    if len(chain) >= 2 and chain[-2][0] == 'par' and chain[-2][1] in ('string', 'bytestring'):
                        return None
                node_copy = new
                set_path(tree, path, node_copy) if path else None
                if not path:
                    return ('__replace_root__', node_copy, 'char-outside-string')
                return 'char-outside-string'
            muts.append(m_barechar)
        if h in ('np', 'rec', 'ixo', 'un') and rng.random() < 0.1:
            def m_strnonlist(node=node, path=path):
                new = ['par', rng.choice(['string', 'bytestring']), 'none', deep_copy(node)]
                parent = tree
                for p in path[:-1]:
                    parent = parent[p]
                if path and parent[0] == 'par':
                    return None
                if not path:
                    return ('__replace_root__', new, 'string-on-non-list')
                set_path(tree, path, new)
                return 'string-on-non-list'
            muts.append(m_strnonlist)
        rng.shuffle(muts)
        for m in muts:
            r = m()
            if r is None:
                continue
            if isinstance(r, tuple):
                return (r[2], r[1])
            return (r, tree)
    return None


# ------------------------------------------------------------------ helpers for axis operations
def has_rec_under_list(t, under=False):
    k = t[0]
    if k in ('leaf', 'str'):
        return False
    if k == 'list':
        return has_rec_under_list(t[1], True)
    if k == 'opt':
        return has_rec_under_list(t[1], under)
    if k == 'rec':
        return under or any(has_rec_under_list(ft, under) for _, ft in t[1])
    if k == 'union':
        return any(has_rec_under_list(a, under) for a in t[1])
    return False


def has_mixed_union_under_list(t, under=False):
    """a union whose alternatives have different list depths, below at least one list level: a negative axis cannot be
    resolved above it and every alternative then resolves it relative to itself (known finding)"""
    k = t[0]
    if k in ('leaf', 'str'):
        return False
    if k == 'list':
        return has_mixed_union_under_list(t[1], True)
    if k == 'opt':
        return has_mixed_union_under_list(t[1], under)
    if k == 'rec':
        return any(has_mixed_union_under_list(ft, under) for _, ft in t[1])
    if k == 'union':
        ds = set(list_depth(a) for a in t[1])
        return (under and (len(ds) > 1 or any(d[0] != d[1] for d in ds))) or any(has_mixed_union_under_list(a, under) for a in t[1])
    return False


def has_kind(t, kind):
    if t[0] == kind:
        return True
    if t[0] in ('list', 'opt'):
        return has_kind(t[1], kind)
    if t[0] == 'rec':
        return any(has_kind(ft, kind) for _, ft in t[1])
    if t[0] == 'union':
        return any(has_kind(a, kind) for a in t[1])
    return False


def has_empty_rec(t):
    if t[0] == 'rec':
        return not t[1] or any(has_empty_rec(ft) for _, ft in t[1])
    if t[0] in ('list', 'opt'):
        return has_empty_rec(t[1])
    if t[0] == 'union':
        return any(has_empty_rec(a) for a in t[1])
    return False


def pick_axis(rng, t, allow_zero=False):
    """an axis for an at-axis operation: mostly legal (1..max depth-1, or negative counted from the leaves of
    every branch), sometimes out of range (error half).  Axes that would reach into the characters of a string
    (possible in records whose fields differ in depth) are avoided."""
    mn, mx = list_depth(t)
    lo = 0 if allow_zero else 1
    strs = has_kind(t, 'str')
    top = (mn if strs else mx) - 1          # deepest legal positive axis
    r = rng.random()
    neg_ok = mn - 1 >= (0 if allow_zero else 1) and not has_empty_rec(t)
    fallback = lo if not strs else -mx - 4
    if r < 0.5 or (r < 0.88 and not neg_ok):
        return rng.randint(lo, top) if top >= lo else fallback
    if r < 0.88:
        return -rng.randint(1, mn - 1 + (1 if allow_zero else 0))
    if strs or has_empty_rec(t):
        return rng.randint(lo, top) if top >= lo else fallback
    return rng.choice([mx, mx + 1, -mx - 1])
