(** C12 (memory safety half), part 1.  In the models every buffer access is a checked [get] / [slice]
    ([Err EOob] outside the extent) and non-structural recursion runs on fuel ([Err EFuel]).
    [clean r]: the run [r] ends in a value or in the ordinary refusal [Err EValue].
    This file: the generic at-axis descent and its instances (num, local_index, pad_none, combinations) on
    EVERY layout (valid or not); setfield; fill_none, fields projection on every valid layout; field projection,
    reducers, sort / argsort, slicing as corollaries of the refinement theorems; the validity check itself. *)
From Coq Require Import ZArith List Bool Lia ZifyBool.
From AwkV Require Import Base Layout LayoutInd Valid Types AtAxis Carry Ops_Struct Ops_Flatten Ops_Option
                         Ops_Reduce Ops_Sort Ops_Getitem Ops_Fields
                         Typing Proofs_Typing Proofs_C11 Proofs_Lists Proofs_ToList Proofs_Carry
                         Proofs_AtAxis Proofs_AtAxisOps Proofs_C12.
Import ListNotations.
Open Scope Z_scope.

(* ---------------------------------------------------------------- [clean] *)
Lemma clean_iff {A} (r : res A) : clean r <-> r <> Err EOob /\ r <> Err EFuel.
Proof.
  unfold clean. destruct r as [a|[]]; split; try (intros _; split; discriminate); try (intros; exact I).
  - intros []. - intros [H _]. apply H. reflexivity.
  - intros []. - intros [_ H]. apply H. reflexivity.
Qed.
Lemma clean_Ok {A} (a : A) : clean (Ok a). Proof. exact I. Qed.
Lemma clean_EValue {A} : clean (@Err A EValue). Proof. exact I. Qed.
Lemma clean_err {A} (r : res A) : (forall e, r = Err e -> e = EValue) -> clean r.
Proof. intros H. destruct r as [a|e]; [exact I|]. rewrite (H e eq_refl). exact I. Qed.
Lemma clean_err_inv {A} (r : res A) e : clean r -> r = Err e -> e = EValue.
Proof. intros H ->. destruct e; [reflexivity|destruct H|destruct H]. Qed.
Lemma clean_bind {A B} (r : res A) (f : A -> res B) :
  clean r -> (forall a, r = Ok a -> clean (f a)) -> clean (bind r f).
Proof. intros Hr Hf. destruct r as [a|e]; cbn [bind]; [apply Hf; reflexivity|exact Hr]. Qed.
Lemma clean_rmap {A B} (g : A -> B) (r : res A) : clean r -> clean (rmap g r).
Proof. destruct r as [a|e]; cbn [rmap]; auto. Qed.
Lemma clean_obs r : clean (obs r) -> clean r.
Proof. destruct r as [c|e]; [intros _; exact I|exact (fun H => H)]. Qed.
Lemma clean_eq {A B} (r : res A) (s : res B) :
  (forall e, r = Err e -> s = Err e) -> clean s -> clean r.
Proof. intros H Hs. destruct r as [a|e]; [exact I|]. specialize (H e eq_refl). rewrite H in Hs. exact Hs. Qed.

Lemma clean_mapM {A B} (f : A -> res B) l : (forall x, In x l -> clean (f x)) -> clean (mapM f l).
Proof.
  induction l as [|x xs IH]; intros H; cbn [mapM]; [exact I|].
  apply clean_bind; [apply H; left; reflexivity|]. intros y _.
  apply clean_bind; [apply IH; intros z Hz; apply H; right; exact Hz|]. intros ys _. exact I.
Qed.

Lemma clean_resolve t d axis : clean (resolve_axis t d axis).
Proof. apply clean_err. intros e. apply resolve_err. Qed.

(* ---------------------------------------------------------------- the at-axis descent, on EVERY layout *)
(* the descent itself performs no buffer access and is structural: whatever the layout (valid or not, unions
   included), it is as clean as the action [g] at the axis and the answer [unk] below an EmptyArray *)
Section AtAxisClean.
  Variable g : option akind -> content -> res content.
  Variable unk : res content.
  Variable str_ok : bool.
  Hypothesis Hg : forall p c, clean (g p c).
  Hypothesis Hunk : clean unk.

  Lemma gs_clean p c : clean (gs g str_ok p c).
  Proof. unfold gs. destruct (is_strk p && negb str_ok); [exact I|apply Hg]. Qed.

  Lemma all_axp_clean cs d ax :
    Forall (fun x => forall p d axis, clean (model_axp g unk str_ok p x d axis)) cs ->
    clean ((fix all (l : list content) : res (list content) :=
              match l with
              | [] => Ok []
              | x :: xs => do y <- model_axp g unk str_ok None x d ax; do ys <- all xs; Ok (y :: ys)
              end) cs).
  Proof.
    induction 1 as [|x xs Hx _ IH]; [exact I|].
    apply clean_bind; [apply Hx|]. intros y _. apply clean_bind; [exact IH|]. intros ys _. exact I.
  Qed.

  Lemma model_axp_clean c : forall p d axis, clean (model_axp g unk str_ok p c d axis).
  Proof.
    induction c as [dt shape data| |w o c IHc|w s e c IHc|c size zl IHc|w ix c IHc|w ix c IHc|m vw c IHc
                   |m vw lsb n c IHc|c IHc|w t ix cs IHcs|cs ks n IHcs|arr rn c IHc] using content_ind';
      intros p d axis; cbn [model_axp]; (apply clean_bind; [apply clean_resolve|]); intros ax _;
      try exact I; try exact Hunk; try (apply clean_rmap; apply IHc).
    - destruct (ax =? d + 1); [apply gs_clean|apply clean_rmap, IHc].
    - destruct (ax =? d + 1); [apply gs_clean|apply clean_rmap, IHc].
    - destruct (ax =? d + 1); [apply gs_clean|apply clean_rmap, IHc].
    - apply clean_rmap, all_axp_clean, IHcs.
    - apply clean_rmap, all_axp_clean, IHcs.
    - apply IHc.
  Qed.

  Theorem model_ax_clean c axis : clean (model_ax g unk str_ok c axis).
  Proof. apply model_axp_clean. Qed.
End AtAxisClean.

Lemma list_bounds_clean c : clean (list_bounds c).
Proof.
  destruct c; try exact I; cbn [list_bounds].
  - destruct offsets; exact I.
  - destruct (zlen stops <? zlen starts); exact I.
  - destruct (size <? 0); exact I.
Qed.

Lemma num_g_clean p c : clean (num_g p c).
Proof. unfold num_g. apply clean_bind; [apply list_bounds_clean|]. intros; exact I. Qed.
Lemma localindex_g_clean p c : clean (localindex_g p c).
Proof. unfold localindex_g. apply clean_bind; [apply list_bounds_clean|]. intros; exact I. Qed.
Lemma rpad_g_clean t p c : clean (rpad_g t p c).
Proof. unfold rpad_g. apply clean_bind; [apply list_bounds_clean|]. intros; exact I. Qed.
Lemma rpadclip_g_clean t p c : clean (rpadclip_g t p c).
Proof. unfold rpadclip_g. apply clean_bind; [apply list_bounds_clean|]. intros; exact I. Qed.
Lemma comb_g_clean n repl p c : clean (comb_g n repl p c).
Proof. unfold comb_g. apply clean_bind; [apply list_bounds_clean|]. intros; exact I. Qed.

(* num / local_index / pad_none / combinations: no hypothesis at all *)
Theorem at_axis_ops_clean_any_layout : forall c,
  (forall axis, clean (num_model axis c)) /\
  (forall axis, clean (localindex_model axis c)) /\
  (forall target axis, clean (rpad_model target axis c)) /\
  (forall target axis, clean (rpadclip_model target axis c)) /\
  (forall n repl axis, clean (comb_model n repl axis c)).
Proof.
  intros c. repeat split; intros.
  - apply model_ax_clean; [apply num_g_clean|exact I].
  - apply model_ax_clean; [apply localindex_g_clean|exact I].
  - apply model_ax_clean; [apply rpad_g_clean|exact I].
  - unfold rpadclip_model. destruct (target <? 0); [exact I|]. apply model_ax_clean; [apply rpadclip_g_clean|exact I].
  - unfold comb_model. destruct (n <? 1); [exact I|]. apply model_ax_clean; [apply comb_g_clean|exact I].
Qed.

Theorem combinations_never_out_of_bounds : forall n repl axis c,
  comb_model n repl axis c <> Err EOob /\ comb_model n repl axis c <> Err EFuel.
Proof. intros. apply clean_iff. apply at_axis_ops_clean_any_layout. Qed.

(* nested lists + option + record (+ a union, + a string): three tuples per inner list of three *)
Example combinations_clean_ex :
  let c := ListOffset I64 [0; 2; 3]
             (IndexedOption I64 [1; -1; 0]
                (ListA I64 [0; 3] [3; 5]
                   (Record [Numpy DInt64 [5] [DZ 1; DZ 2; DZ 3; DZ 4; DZ 5];
                            Union I64 [0; 1; 0; 1; 0] [0; 0; 1; 1; 2]
                              [Numpy DFloat64 [3] [DZ 7; DNaN; DZ 9]; Numpy DBool [2] [DZ 0; DZ 1]]]
                           (Some [[120]; [121]]) 5))) in
  valid_b c = true /\ frag c = false /\
  (do r <- comb_model 2 false 2 c; do vs <- to_list r; Ok (map (fun v => match v with VList l => zlen l | _ => -1 end) vs))
  = Ok [2; 1] /\
  (do r <- comb_model 2 true (-1) c; Ok (valid_b r)) = Ok true.
Proof. vm_compute. repeat split. Qed.

(* ---------------------------------------------------------------- setfield: no buffer access at all *)
Theorem setfield_clean_any_layout : forall k c what, clean (setfield_model k c what).
Proof. intros k c what. unfold setfield_model. destruct c; try exact I. destruct (negb (clen what =? len)); exact I. Qed.

Example setfield_clean_ex :
  let c := Record [ListOffset I64 [0; 2; 3] (IndexedOption I64 [1; -1; 0] (Numpy DInt64 [2] [DZ 5; DZ 4]));
                   Numpy DInt64 [2] [DZ 1; DZ 2]] None 2 in
  valid_b c = true /\
  obs (setfield_model [122] c (ByteMasked [1; 0] true (Numpy DBool [2] [DZ 1; DZ 1])))
  = Ok [VRec [([48], VList [VNum (DZ 4); VNone]); ([49], VNum (DZ 1)); ([122], VBool true)];
        VRec [([48], VList [VNum (DZ 5)]); ([49], VNum (DZ 2)); ([122], VNone)]].
Proof. vm_compute. repeat split. Qed.

(* ---------------------------------------------------------------- option nodes: the mask is long enough *)
Lemma option_index_clean p c : Valid p c -> clean (option_index c).
Proof.
  intros HV. destruct c; try exact I. cbn [option_index].
  inversion HV; subst.
  apply clean_bind; [|intros; exact I]. apply clean_mapM. intros i Hi. apply iota_In' in Hi.
  unfold bit_at. destruct (get_ok mask (i / 8)) as [x Hx]; [|rewrite Hx; exact I].
  split; [apply Z.div_pos; lia|]. apply Z.div_lt_upper_bound; lia.
Qed.

(* ---------------------------------------------------------------- fill_none: every valid layout (unions included) *)
Lemma all_fillna_clean value cs :
  Forall (fun x => forall p, Valid p x -> clean (fillna_p p value x)) cs -> Forall (Valid None) cs ->
  clean ((fix all (l : list content) : res (list content) :=
            match l with
            | [] => Ok []
            | x :: xs => do y <- fillna_p None value x; do ys <- all xs; Ok (y :: ys)
            end) cs).
Proof.
  induction 1 as [|x xs Hx _ IH]; intros HV; [exact I|]. inversion HV; subst.
  apply clean_bind; [apply Hx; assumption|]. intros y _. apply clean_bind; [apply IH; assumption|]. intros; exact I.
Qed.

Lemma fillna_p_clean value c : forall p, Valid p c -> clean (fillna_p p value c).
Proof.
  induction c as [dt shape data| |w o c IHc|w s e c IHc|c size zl IHc|w ix c IHc|w ix c IHc|m vw c IHc
                 |m vw lsb n c IHc|c IHc|w t ix cs IHcs|cs ks n IHcs|arr rn c IHc] using content_ind';
    intros p HV; pose proof HV as HV0; inversion HV; subst; cbn [fillna_p]; try exact I;
    first [ destruct (is_strk p) eqn:Es; [exact I|apply clean_rmap, IHc; auto]
          | apply clean_bind; [apply (option_index_clean _ _ HV0)|intros [ix' c'] _; exact I]
          | apply clean_rmap, all_fillna_clean; assumption
          | apply clean_rmap, IHc; assumption ].
Qed.

Theorem fillna_never_out_of_bounds : forall value c,
  Valid None c -> fillna_model value c <> Err EOob /\ fillna_model value c <> Err EFuel.
Proof.
  intros value c HV. apply clean_iff. unfold fillna_model. destruct (clen value =? 1); [|exact I].
  apply fillna_p_clean, HV.
Qed.

Example fillna_clean_ex :
  let c := ListOffset I64 [0; 2; 3]
             (Record [BitMasked [5] true true 3 (Numpy DInt64 [3] [DZ 1; DZ 2; DZ 3]);
                      Union I64 [0; 1; 0] [0; 0; 1]
                        [IndexedOption I64 [-1; 0] (Numpy DFloat64 [1] [DZ 7]); Numpy DBool [1] [DZ 1]]]
                     (Some [[120]; [121]]) 3) in
  valid_b c = true /\ frag c = false /\
  obs (fillna_model (Numpy DInt64 [1] [DZ 0]) c)
  = Ok [VList [VRec [([120], VNum (DZ 1)); ([121], VNum (DZ 0))]; VRec [([120], VNum (DZ 0)); ([121], VBool true)]];
        VList [VRec [([120], VNum (DZ 3)); ([121], VNum (DZ 7))]]].
Proof. vm_compute. repeat split. Qed.

(* ---------------------------------------------------------------- field / fields projection *)
From AwkV Require Import Proofs_Field.

(* field: every valid layout that has a value (corollary of Proofs_Field.field_error_is_value_error) *)
Theorem field_never_out_of_bounds : forall k c vs,
  Valid None c -> to_list c = Ok vs -> field_content k c <> Err EOob /\ field_content k c <> Err EFuel.
Proof.
  intros k c vs HV Hl. apply clean_iff. apply clean_err. intros e He.
  exact (proj1 (field_error_is_value_error k c vs e HV Hl He)).
Qed.

(* fields: direct, every valid layout (no value needed: the projection only re-arranges the record's fields) *)
Lemma fields_content_clean ks c : forall p, Valid p c -> clean (fields_content ks c).
Proof.
  induction c as [dt shape data| |w o c IHc|w s e c IHc|c size zl IHc|w ix c IHc|w ix c IHc|m vw c IHc
                 |m vw lsb n c IHc|c IHc|w t ix cs IHcs|cs keys n IHcs|arr rn c IHc] using content_ind';
    intros p HV; inversion HV; subst; cbn [fields_content]; try exact I;
    try (apply clean_rmap; eapply IHc; eassumption).
  - (* list nodes: below a string the content is a character leaf: clean refusal *)
    destruct (is_strk p) eqn:Es; [|apply clean_rmap; eapply IHc; eauto].
    match goal with Hp : ParamOk p _ |- _ => destruct (ParamOk_str _ _ Hp Es) as (c0 & k0 & rn & n0 & dd & Hc0 & -> & _) end.
    cbn [list_content] in Hc0. inversion Hc0; subst. destruct k0; exact I.
  - destruct (is_strk p) eqn:Es; [|apply clean_rmap; eapply IHc; eauto].
    match goal with Hp : ParamOk p _ |- _ => destruct (ParamOk_str _ _ Hp Es) as (c0 & k0 & rn & n0 & dd & Hc0 & -> & _) end.
    cbn [list_content] in Hc0. inversion Hc0; subst. destruct k0; exact I.
  - destruct (is_strk p) eqn:Es; [|apply clean_rmap; eapply IHc; eauto].
    match goal with Hp : ParamOk p _ |- _ => destruct (ParamOk_str _ _ Hp Es) as (c0 & k0 & rn & n0 & dd & Hc0 & -> & _) end.
    cbn [list_content] in Hc0. inversion Hc0; subst. destruct k0; exact I.
  - (* Record *)
    apply clean_bind; [|intros; exact I]. apply clean_mapM. intros k _.
    destruct (field_pos keys (zlen cs) k) as [i|e] eqn:Ei; cbn [bind].
    + apply Proofs_Field.field_pos_range in Ei.
      * destruct (get_ok cs i Ei) as [x Hx]. rewrite Hx. exact I.
      * intros ks0 ->. apply zlen_length_eq. auto.
    + rewrite (Proofs_Field.field_pos_err _ _ _ _ Ei). exact I.
  - (* Par *)
    destruct arr; [exact I|]. eapply IHc; eassumption.
Qed.

Theorem fields_never_out_of_bounds : forall ks c,
  Valid None c -> fields_content ks c <> Err EOob /\ fields_content ks c <> Err EFuel.
Proof. intros ks c HV. apply clean_iff. eapply fields_content_clean, HV. Qed.

Example fields_clean_ex :
  let c := ListOffset I64 [0; 2; 3]
             (IndexedOption I64 [1; -1; 0]
                (Record [Numpy DInt64 [2] [DZ 5; DZ 4]; ListA I64 [0; 1] [1; 1] (Numpy DBool [1] [DZ 1]);
                         Union I64 [0; 1] [0; 0] [Numpy DFloat64 [1] [DNaN]; Numpy DInt8 [1] [DZ 3]]]
                        (Some [[120]; [121]; [122]]) 2)) in
  valid_b c = true /\
  obs (fields_content [[122]; [120]] c)
  = Ok [VList [VRec [([122], VNum (DZ 3)); ([120], VNum (DZ 4))]; VNone]; VList [VRec [([122], VNum DNaN); ([120], VNum (DZ 5))]]] /\
  obs (field_content [121] c) = Ok [VList [VList []; VNone]; VList [VList [VBool true]]] /\
  fields_content [[119]] c = Err EValue.
Proof. vm_compute. repeat split. Qed.

(* ---------------------------------------------------------------- reducers *)
From AwkV Require Import Proofs_Reduce Proofs_Reduce2.

(* every reducer, axis, mask_identity, keepdims; every valid layout (unions, strings, records included) whose leaf
   data is finite.  [fin] cannot be dropped: the model deliberately answers [Err EOob] when it meets NaN / inf
   ("outside the modelled fragment of the reducers", Ops_Reduce.datum_int), see [reduce_nan_is_unmodelled] *)
Theorem reduce_never_out_of_bounds_partial : forall r axis mask keepdims c vs,
  Valid None c -> fin c = true -> to_list c = Ok vs ->
  reduce_model r axis mask keepdims c <> Err EOob /\ reduce_model r axis mask keepdims c <> Err EFuel.
Proof.
  intros r axis mask keepdims c vs HV Hf Hl. apply clean_iff.
  pose proof (reduce_refines_cases_partial r axis mask keepdims c vs HV Hf Hl) as H.
  destruct (reduce_model r axis mask keepdims c) as [c'|[]]; try exact I; exact H.
Qed.

Example reduce_clean_ex :
  let c := ListOffset I64 [0; 2; 3]
             (Record [ListA I64 [0; 3; 3] [3; 3; 5]
                        (ByteMasked [1; 0; 1; 1; 1] true (Numpy DInt64 [5] [DZ 3; DZ 9; DZ 4; DZ (-1); DZ 2]));
                      ListOffset I32 [0; 1; 1; 2] (Numpy DBool [2] [DZ 1; DZ 0])] (Some [[120]; [121]]) 3) in
  valid_b c = true /\ fin c = true /\
  obs (reduce_model RSum (-1) false false c)
  = Ok [VList [VRec [([120], VNum (DZ 7)); ([121], VNum (DZ 1))]; VRec [([120], VNum (DZ 0)); ([121], VNum (DZ 0))]];
        VList [VRec [([120], VNum (DZ 1)); ([121], VNum (DZ 0))]]] /\
  obs (reduce_model RMax 1 true false c)
  = Ok [VRec [([120], VList [VNum (DZ 3); VNone; VNum (DZ 4)]); ([121], VList [VBool true])];
        VRec [([120], VList [VNum (DZ (-1)); VNum (DZ 2)]); ([121], VList [VBool false])]].
Proof. vm_compute. repeat split. Qed.

(* why [fin]: a NaN makes the MODEL give up with EOob (a limitation of the model, not an access of the C++) *)
Example reduce_nan_is_unmodelled :
  let c := ListOffset I64 [0; 2] (Numpy DFloat64 [2] [DZ 1; DNaN]) in
  valid_b c = true /\ fin c = false /\ reduce_model RSum (-1) false false c = Err EOob.
Proof. vm_compute. repeat split. Qed.

(* ---------------------------------------------------------------- sort / argsort *)
From AwkV Require Import Proofs_SortRef Proofs_SortRef2 Proofs_FlattenB.

(* a valid layout of sortable type contains no union (and no record): it lies in [frag] *)
Lemma sortable_frag c : forall p, Valid p c -> sortable (type_of_p p c) = true -> frag c = true.
Proof.
  induction c as [dt shape data| |w o c IHc|w s e c IHc|c size zl IHc|w ix c IHc|w ix c IHc|m vw c IHc
                 |m vw lsb n c IHc|c IHc|w t ix cs IHcs|cs ks n IHcs|arr rn c IHc] using content_ind';
    intros p HV Hs; inversion HV; subst; cbn [type_of_p sortable frag] in *; try discriminate; try reflexivity;
    try (eapply IHc; eassumption).
  - destruct shape; [congruence|reflexivity].
  - destruct (is_strk p) eqn:Es.
    + match goal with Hp : ParamOk p _ |- _ => destruct (ParamOk_str _ _ Hp Es) as (c0 & k0 & rn & n0 & dd & Hc0 & -> & _) end.
      cbn [list_content] in Hc0. inversion Hc0; subst. reflexivity.
    + eapply (IHc None); [auto|]. destruct p as [[]|]; cbn in Es, Hs; try discriminate; exact Hs.
  - destruct (is_strk p) eqn:Es.
    + match goal with Hp : ParamOk p _ |- _ => destruct (ParamOk_str _ _ Hp Es) as (c0 & k0 & rn & n0 & dd & Hc0 & -> & _) end.
      cbn [list_content] in Hc0. inversion Hc0; subst. reflexivity.
    + eapply (IHc None); [auto|]. destruct p as [[]|]; cbn in Es, Hs; try discriminate; exact Hs.
  - destruct (is_strk p) eqn:Es.
    + match goal with Hp : ParamOk p _ |- _ => destruct (ParamOk_str _ _ Hp Es) as (c0 & k0 & rn & n0 & dd & Hc0 & -> & _) end.
      cbn [list_content] in Hc0. inversion Hc0; subst. reflexivity.
    + eapply (IHc None); [auto|]. destruct p as [[]|]; cbn in Es, Hs; try discriminate; exact Hs.
Qed.

(* sort and argsort, ascending and descending, EVERY axis, EVERY valid layout that has a value (unions and records are
   refused before any access): never an out-of-bounds access.  [Err EFuel] is, by design, the model's way of declining
   a legal but non-innermost axis ([sort_modelled ... = false]); it never comes from exhausted fuel (the model has none). *)
Theorem sort_never_out_of_bounds : forall asc argsort axis c vs,
  Valid None c -> to_list c = Ok vs ->
  sort_model asc argsort axis c <> Err EOob /\
  (sort_modelled asc argsort axis c = true -> sort_model asc argsort axis c <> Err EFuel).
Proof.
  intros asc argsort axis c vs HV Hl. split.
  2:{ unfold sort_modelled. intros H E. rewrite E in H. discriminate. }
  unfold sort_model.
  destruct (resolve_axis (type_of c) 0 axis) as [ax|e] eqn:Er; cbn [bind].
  2:{ rewrite (resolve_err _ _ _ _ Er). discriminate. }
  destruct (sortable (type_of c)) eqn:Hs; cbn [negb]; [|discriminate].
  pose proof (sortable_frag c None HV Hs) as Hfr.
  destruct (ax =? 0).
  - destruct (is_leaf_ty (type_of c)) eqn:Hlf; [|discriminate].
    destruct (leaf_keys_spec (expand c) vs) as (ks & Hks & _).
    + apply expand_valid; assumption.
    + rewrite expand_type_of by assumption. apply is_leaf_leafish, Hlf.
    + rewrite expand_to_list; assumption.
    + rewrite Hks. discriminate.
  - pose proof (sort_ax_refines asc argsort c ax vs HV Hfr Hl) as HR.
    destruct (model_ax (sort_g asc argsort) (Ok Empty) true c ax) as [r|[]]; cbn [refines] in HR; try contradiction;
      [discriminate|].
    destruct (check_ax true is_leaf_ty true (type_of c) 0 ax); [discriminate|].
    destruct (check_ax true (fun _ => true) true (type_of c) 0 ax) as [u|e2] eqn:Ec; [discriminate|].
    rewrite (check_ax_err _ _ _ _ _ _ _ Ec). discriminate.
Qed.

(* ... and on the innermost axis (in particular axis = -1) of the sort fragment the model does answer *)
Theorem sort_innermost_never_declines : forall asc argsort axis c vs,
  Valid None c -> sfrag c = true -> to_list c = Ok vs -> innermost axis (type_of c) = true ->
  sort_model asc argsort axis c <> Err EOob /\ sort_model asc argsort axis c <> Err EFuel.
Proof.
  intros asc argsort axis c vs HV Hsf Hl Hin.
  destruct (sort_never_out_of_bounds asc argsort axis c vs HV Hl) as [A B]. split; [exact A|].
  apply B. eapply innermost_modelled; eassumption.
Qed.

Example sort_clean_ex :
  let c := ListOffset I64 [0; 2; 3]
             (IndexedOption I64 [1; -1; 0]
                (ListA I64 [0; 3] [3; 5]
                   (ByteMasked [1; 0; 1; 1; 1] true (Numpy DFloat64 [5] [DZ 3; DZ 9; DNaN; DZ (-1); DZ 2])))) in
  valid_b c = true /\ sfrag c = true /\ innermost (-1) (type_of c) = true /\
  obs (sort_model true false (-1) c)
  = Ok [VList [VList [VNum (DZ (-1)); VNum (DZ 2)]; VNone]; VList [VList [VNum DNaN; VNum (DZ 3); VNone]]] /\
  sort_modelled true false 1 c = false /\ sort_model true false 1 c = Err EFuel.
Proof. vm_compute. repeat split. Qed.
(* records and unions: the clean refusal *)
Example sort_refuses_records_ex :
  let c := ListOffset I64 [0; 2] (Record [Numpy DInt64 [2] [DZ 5; DZ 4];
                                           Union I64 [0; 1] [0; 0] [Numpy DFloat64 [1] [DNaN]; Numpy DInt8 [1] [DZ 3]]] None 2) in
  valid_b c = true /\ sort_model true true (-1) c = Err EValue.
Proof. vm_compute. repeat split. Qed.

(* ---------------------------------------------------------------- slicing *)
From AwkV Require Import Proofs_Getitem Proofs_Getitem2 Proofs_Getitem3 Proofs_Getitem4 Proofs_Getitem5 Proofs_Getitem6
                         Proofs_Getitem7 Proofs_Getitem8 Proofs_Getitem9.

(* all item kinds of the refinement theorem (integer, range, newaxis, ellipsis, field, fields; any number, any order) on
   its fragment [gfrag] (no unions / strings / n-d leaves: on a UnionArray the model declines with [Err EFuel] by
   design, Ops_Getitem.gn) under its side conditions (Props_C01): corollary of Proofs_Getitem7.getitem_never_out_of_fuel *)
Theorem getitem_never_out_of_bounds_partial : forall items c vs,
  forallb item_ok items = true -> Valid None c -> gfrag c = true -> to_list c = Ok vs ->
  slice_ok items c = true -> fuel_ok items c = true ->
  getitem_model items c <> Err EOob /\ getitem_model items c <> Err EFuel.
Proof.
  intros items c vs Hb HV Hfr Hl Hsc Hf.
  destruct (Proofs_Getitem7.getitem_never_out_of_fuel items c vs Hb HV Hfr Hl Hsc Hf) as (A & _ & B & _).
  split; intros E; rewrite E in *; [apply B|apply A]; reflexivity.
Qed.

Lemma wrap_at_clean n i : clean (wrap_at n i).
Proof. unfold wrap_at. destruct (_ && _); exact I. Qed.

Lemma getitem_spec_array_clean ix t vs : clean (getitem_spec [IArray ix] t vs).
Proof.
  unfold getitem_spec. change (items_fuel [IArray ix]) with (S 35). rewrite sg_IArray.
  cbn [has_none existsb orb]. apply clean_bind; [|intros; exact I].
  apply clean_bind.
  { unfold szchk_all. apply clean_rmap, clean_mapM. intros; apply wrap_at_clean. }
  intros _ _. apply clean_bind.
  { apply clean_mapM. intros o _. destruct o as [l|]; [|exact I]. cbn [pick_array]. apply clean_rmap, clean_mapM.
    intros i _. unfold at_spec. destruct (wrap_at (zlen l) i) as [j|e] eqn:Ej; cbn [bind].
    - destruct (get_ok l j (wrap_at_range _ _ _ Ej)) as [x Hx]. rewrite Hx. exact I.
    - pose proof (wrap_at_clean (zlen l) i) as H. rewrite Ej in H. exact H. }
  intros picked _. cbv zeta. rewrite se_nil. exact I.
Qed.

(* an integer array alone: EVERY valid layout that has a value (unions, strings, n-d leaves included) *)
Theorem getitem_array_never_out_of_bounds : forall ix c vs,
  Valid None c -> to_list c = Ok vs ->
  getitem_model [IArray ix] c <> Err EOob /\ getitem_model [IArray ix] c <> Err EFuel.
Proof.
  intros ix c vs HV Hl. apply clean_iff. apply clean_obs.
  rewrite (getitem_array_alone ix c vs HV Hl). apply getitem_spec_array_clean.
Qed.

Example getitem_clean_ex :
  let c := ListOffset I64 [0; 2; 3]
             (IndexedOption I64 [1; -1; 0]
                (Record [ListA I64 [0; 3] [3; 5] (Numpy DInt64 [5] [DZ 1; DZ 2; DZ 3; DZ 4; DZ 5]);
                         ListOffset I32 [0; 1; 2] (ByteMasked [1; 0] true (Numpy DBool [2] [DZ 1; DZ 0]))]
                        (Some [[120]; [121]]) 2)) in
  let items := [IRange None None (Some (-1)); IAt 0; IField [120]; IRange (Some 1) None None] in
  valid_b c = true /\ gfrag c = true /\ forallb item_ok items = true /\ slice_ok items c = true /\ fuel_ok items c = true /\
  obs (getitem_model items c) = Ok [VList [VList [VNum (DZ 2); VNum (DZ 3)]; VList [VNum (DZ 5)]]] /\
  obs (getitem_model [IArray [-1; 0]] c)
  = Ok [VList [VList [VRec [([120], VList [VNum (DZ 1); VNum (DZ 2); VNum (DZ 3)]); ([121], VList [VBool true])]];
               VList [VRec [([120], VList [VNum (DZ 4); VNum (DZ 5)]); ([121], VList [VNone])]; VNone]]] /\
  getitem_model [IAt 5] c = Err EValue.
Proof. vm_compute. repeat split. Qed.

(* range slicing c[a:b] of any valid layout with a value *)
Theorem crange_never_out_of_bounds : forall c vs a b,
  Valid None c -> to_list c = Ok vs -> 0 <= a -> a <= b -> b <= clen c -> exists c', crange c a b = Ok c'.
Proof. intros c vs a b HV Hl Ha Hab Hb. destruct (crange_spec c vs a b HV Hl Ha Hab Hb) as (c' & H & _). exists c'. exact H. Qed.

(* ---------------------------------------------------------------- the validity check itself, on ANY layout *)
(* [validb] (the model of validityerror, checks in the C++ order) is a structurally recursive boolean function:
   it uses no fuel, and its one checked read (the length of the tagged content of a union) turns an out-of-range
   tag into the verdict "invalid" instead of an error.  So on every layout -- valid or not -- it returns a verdict,
   and the verdict is exact. *)
Theorem validity_check_total_any_layout : forall c,
  (valid_b c = true /\ Valid None c) \/ (valid_b c = false /\ ~ Valid None c).
Proof.
  intros c. pose proof (validity_exact_gen c None) as H. unfold valid_b. destruct (validb None c).
  - left. split; [reflexivity|apply H; reflexivity].
  - right. split; [reflexivity|]. intros HV. apply H in HV. discriminate.
Qed.

(* out-of-range tags / indexes / offsets, too-short masks and buffers: all answered "invalid", none crashes the check *)
Example validity_check_on_invalid_ex :
  valid_b (Union I64 [0; 7; -1] [0; 0; 0] [Numpy DInt64 [1] [DZ 1]]) = false /\
  valid_b (ListOffset I64 [0; 9] (Numpy DInt64 [2] [DZ 1; DZ 2])) = false /\
  valid_b (BitMasked [] true true 9 (Numpy DInt64 [9] [])) = false /\
  valid_b (Record [IndexedOption I64 [5] Empty; ListA I64 [3] [] Empty] (Some [[120]]) 4) = false /\
  valid_b (Par (Some AString) None (ListOffset I64 [0; 1] (Numpy DUInt8 [1] [DZ 97]))) = false.
Proof. vm_compute. repeat split. Qed.
