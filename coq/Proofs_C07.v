(** C07: the enumeration used by the combinations model/spec is itertools.combinations:
    n-element subsequences, each exactly once, in lexicographic order of positions;
    their number is the binomial coefficient. *)
From AwkV Require Import Layout Ops_Struct.
From Coq Require Import ZifyBool FinFun.

Fixpoint binom (m k : nat) : nat :=
  match k, m with
  | O, _ => 1%nat
  | S _, O => 0%nat
  | S k', S m' => (binom m' k' + binom m' k)%nat
  end.

(* unfold the inner fix of combs *)
Lemma combs_S_cons {A} k (x : A) xs :
  combs (S k) (x :: xs) = map (cons x) (combs k xs) ++ combs (S k) xs.
Proof. reflexivity. Qed.
Lemma combs_S_nil {A} k : combs (S k) (@nil A) = [].
Proof. reflexivity. Qed.
Lemma combs_0 {A} (l : list A) : combs 0 l = [[]].
Proof. reflexivity. Qed.

Theorem combs_length {A} n (l : list A) : length (combs n l) = binom (length l) n.
Proof.
  revert n. induction l as [|x xs IH]; intros n.
  - destruct n; reflexivity.
  - destruct n as [|k]; [reflexivity|].
    rewrite combs_S_cons, app_length, map_length, !IH. cbn [length binom]. reflexivity.
Qed.

Theorem combs_tuple_length {A} n (l : list A) t : In t (combs n l) -> length t = n.
Proof.
  revert n t. induction l as [|x xs IH]; intros n t.
  - destruct n; cbn; [intros [<-|[]]; reflexivity | intros []].
  - destruct n as [|k]; [cbn; intros [<-|[]]; reflexivity|].
    rewrite combs_S_cons, in_app_iff, in_map_iff.
    intros [(t' & <- & Ht') | Ht]; cbn; [f_equal; eauto | eauto].
Qed.

(* subsequence: elements taken in order, not necessarily adjacent *)
Inductive subseq {A} : list A -> list A -> Prop :=
| sub_nil l : subseq [] l
| sub_take x t l : subseq t l -> subseq (x :: t) (x :: l)
| sub_skip x t l : subseq t l -> subseq t (x :: l).

Theorem combs_subseq {A} n (l : list A) t : In t (combs n l) -> subseq t l.
Proof.
  revert n t. induction l as [|x xs IH]; intros n t.
  - destruct n; cbn; [intros [<-|[]]; constructor | intros []].
  - destruct n as [|k]; [cbn; intros [<-|[]]; constructor|].
    rewrite combs_S_cons, in_app_iff, in_map_iff.
    intros [(t' & <- & Ht') | Ht]; [apply sub_take | apply sub_skip]; eauto.
Qed.

Lemma subseq_nil_r {A} (t : list A) : subseq t [] -> t = [].
Proof. inversion 1; reflexivity. Qed.

(* completeness: every n-element subsequence is enumerated *)
Theorem combs_complete {A} (l : list A) t : subseq t l -> In t (combs (length t) l).
Proof.
  induction 1 as [l | x t l H IH | x t l H IH].
  - destruct l; cbn; auto.
  - cbn [length]. rewrite combs_S_cons, in_app_iff. left. apply in_map. exact IH.
  - destruct t as [|y t'].
    + cbn. auto.
    + cbn [length] in *. rewrite combs_S_cons, in_app_iff. right. exact IH.
Qed.

(* no tuple is produced twice when the positions are distinct *)
Lemma subseq_In {A} (t l : list A) x : subseq t l -> In x t -> In x l.
Proof.
  induction 1; cbn; intros Hin; [contradiction | | right; auto].
  destruct Hin as [<- | Hin]; [left; reflexivity | right; auto].
Qed.

Lemma NoDup_app_disjoint {A} (l m : list A) :
  NoDup l -> NoDup m -> (forall x, In x l -> In x m -> False) -> NoDup (l ++ m).
Proof.
  induction l as [|a l IH]; cbn; intros Hl Hm Hd; auto.
  inversion Hl as [|? ? Ha Hl']; subst. constructor.
  - rewrite in_app_iff. intros [H|H]; [auto | eapply Hd; [left; reflexivity | exact H]].
  - apply IH; auto. intros x Hx1 Hx2. eapply Hd; [right; exact Hx1 | exact Hx2].
Qed.

Theorem combs_NoDup {A} n (l : list A) : NoDup l -> NoDup (combs n l).
Proof.
  revert n. induction l as [|x xs IH]; intros n Hnd.
  - destruct n; cbn; constructor; [intros []|constructor].
  - destruct n as [|k]; [cbn; constructor; [intros []|constructor]|].
    inversion Hnd as [|? ? Hx Hxs]; subst.
    rewrite combs_S_cons.
    apply NoDup_app_disjoint.
    + apply Injective_map_NoDup; [intros a b E; inversion E; reflexivity | apply IH; exact Hxs].
    + apply IH; exact Hxs.
    + intros t Ht1 Ht2. apply in_map_iff in Ht1. destruct Ht1 as (t' & <- & _).
      apply combs_subseq in Ht2. apply Hx. eapply subseq_In; [exact Ht2 | left; reflexivity].
Qed.

(** with replacement *)
Lemma combs_r_S_cons {A} k (x : A) xs :
  combs_r (S k) (x :: xs) = map (cons x) (combs_r k (x :: xs)) ++ combs_r (S k) xs.
Proof. reflexivity. Qed.

Fixpoint mc (k m : nat) : nat :=      (* multisets of size k from m kinds *)
  match k with
  | O => 1%nat
  | S k' => (fix go (m : nat) : nat := match m with O => 0%nat | S m' => (mc k' (S m') + go m')%nat end) m
  end.
Lemma mc_S_S k m : mc (S k) (S m) = (mc k (S m) + mc (S k) m)%nat.
Proof. reflexivity. Qed.

Theorem combs_r_length {A} n (l : list A) : length (combs_r n l) = mc n (length l).
Proof.
  revert l. induction n as [|k IHk]; intros l; [reflexivity|].
  induction l as [|x xs IHl]; [reflexivity|].
  rewrite combs_r_S_cons, app_length, map_length, IHk, IHl. cbn [length]. rewrite mc_S_S. reflexivity.
Qed.

Lemma binom_lt m k : (m < k)%nat -> binom m k = 0%nat.
Proof.
  revert k. induction m as [|m IH]; intros k H; destruct k; try lia; cbn; auto.
  rewrite !IH by lia. reflexivity.
Qed.

Lemma binom_0 m : binom m 0 = 1%nat.
Proof. destruct m; reflexivity. Qed.
Lemma binom_diag k : binom k k = 1%nat.
Proof. induction k as [|k IH]; cbn; auto. rewrite IH, (binom_lt k (S k)) by lia. reflexivity. Qed.

Theorem mc_binom k m : mc k (S m) = binom (m + k) k.
Proof.
  revert m. induction k as [|k IHk]; intros m.
  - rewrite binom_0. reflexivity.
  - induction m as [|m IHm].
    + rewrite mc_S_S, IHk. cbn [mc Nat.add]. rewrite binom_diag, binom_diag. lia.
    + rewrite mc_S_S, IHk, IHm.
      replace (S m + S k)%nat with (S (S m + k)) by lia.
      cbn [binom]. replace (m + S k)%nat with (S m + k)%nat by lia. reflexivity.
Qed.

Theorem combs_r_tuple_length {A} n (l : list A) t : In t (combs_r n l) -> length t = n.
Proof.
  revert l t. induction n as [|k IHk]; intros l t; [cbn; intros [<-|[]]; reflexivity|].
  induction l as [|x xs IHl]; [intros []|].
  rewrite combs_r_S_cons, in_app_iff, in_map_iff.
  intros [(t' & <- & Ht') | Ht]; cbn; [f_equal; eauto | eauto].
Qed.

Example combs_example : combs 2 [1;2;3]%Z = [[1;2];[1;3];[2;3]]%Z /\ combs_r 2 [1;2]%Z = [[1;1];[1;2];[2;2]]%Z.
Proof. split; reflexivity. Qed.
