// typedrv: C17 driver -- types and forms of /repo's libawkward on textual cases.
//
//   (id describe TYPESTRS LAYOUT)   -> everything the property talks about for one array
//   (id formjson TYPESTRS (b...))   -> Form::fromjson on a JSON text given as bytes, then tojson etc.
//   (id scalarform)                 -> probe: form()/type() of a zero-dimensional NumpyArray
//
// TYPESTRS ::= ((KEYBYTES VALBYTES)...) with KEYBYTES/VALBYTES = (b...) byte lists.
// LAYOUT is drv_common.h's layout syntax extended with
//   (parx (((keybytes) (jsontextbytes))...) LAYOUT)   arbitrary parameters (JSON text normalised through rj::Writer)
//   (ident LAYOUT)                                     attach Identities to this node (and, as the C++ does, below)
// All texts are printed as byte lists so that the S-expression layer never has to quote anything.
#include "drv_common.h"
#include "awkward/type/Type.h"
#include "awkward/Identities.h"
#include "rapidjson/document.h"
#include "rapidjson/writer.h"
#include "rapidjson/stringbuffer.h"

using namespace drv;
namespace rj = rapidjson;

static std::string bytes_of(const Sx& x) {
  std::string o;
  if (x.atom) throw std::logic_error("bytes expected: " + x.str());
  for (auto& e : x.l) o.push_back((char)(unsigned char)to_i64(e));
  return o;
}
static std::string sxbytes(const std::string& t) {
  std::string o = "(";
  bool first = true;
  for (unsigned char ch : t) { if (!first) o += " "; first = false; o += std::to_string((int)ch); }
  return o + ")";
}

// JSON text -> the text rj::Writer gives for the parsed value (what Form::fromjson stores for parameters)
static std::string normalise_json(const std::string& text) {
  rj::Document doc;
  doc.Parse<rj::kParseNanAndInfFlag>(text.c_str());
  if (doc.HasParseError()) throw std::logic_error("parx: parameter value is not JSON");
  rj::StringBuffer sb;
  rj::Writer<rj::StringBuffer> w(sb);
  doc.Accept(w);
  return sb.GetString();
}

static ContentPtr xbuild(const Sx& x);
static ContentPtrVec xbuild_many(const Sx& x, size_t from) {
  ContentPtrVec out;
  for (size_t i = from; i < x.size(); i++) out.push_back(xbuild(x[i]));
  return out;
}

// same node syntax as drv::build, children built by xbuild (so extended nodes may occur anywhere)
static ContentPtr xbuild(const Sx& x) {
  const std::string h = x.head();
  const util::Parameters np;
  IdentitiesPtr noid = Identities::none();
  if (h == "np" || h == "nps" || h == "empty") return build(x);
  if (h == "lo") {
    const std::string w = x[1].a;
    auto o = to_i64s(x[2]);
    ContentPtr c = xbuild(x[3]);
    if (w == "i32") return std::make_shared<ListOffsetArray32>(noid, np, mkindex<int32_t>(o), c);
    if (w == "u32") return std::make_shared<ListOffsetArrayU32>(noid, np, mkindex<uint32_t>(o), c);
    return std::make_shared<ListOffsetArray64>(noid, np, mkindex<int64_t>(o), c);
  }
  if (h == "la") {
    const std::string w = x[1].a;
    auto s = to_i64s(x[2]);
    auto e = to_i64s(x[3]);
    ContentPtr c = xbuild(x[4]);
    if (w == "i32") return std::make_shared<ListArray32>(noid, np, mkindex<int32_t>(s), mkindex<int32_t>(e), c);
    if (w == "u32") return std::make_shared<ListArrayU32>(noid, np, mkindex<uint32_t>(s), mkindex<uint32_t>(e), c);
    return std::make_shared<ListArray64>(noid, np, mkindex<int64_t>(s), mkindex<int64_t>(e), c);
  }
  if (h == "reg") return std::make_shared<RegularArray>(noid, np, xbuild(x[3]), to_i64(x[1]), to_i64(x[2]));
  if (h == "ix") {
    const std::string w = x[1].a;
    auto ix = to_i64s(x[2]);
    ContentPtr c = xbuild(x[3]);
    if (w == "i32") return std::make_shared<IndexedArray32>(noid, np, mkindex<int32_t>(ix), c);
    if (w == "u32") return std::make_shared<IndexedArrayU32>(noid, np, mkindex<uint32_t>(ix), c);
    return std::make_shared<IndexedArray64>(noid, np, mkindex<int64_t>(ix), c);
  }
  if (h == "ixo") {
    const std::string w = x[1].a;
    auto ix = to_i64s(x[2]);
    ContentPtr c = xbuild(x[3]);
    if (w == "i32") return std::make_shared<IndexedOptionArray32>(noid, np, mkindex<int32_t>(ix), c);
    return std::make_shared<IndexedOptionArray64>(noid, np, mkindex<int64_t>(ix), c);
  }
  if (h == "bym")
    return std::make_shared<ByteMaskedArray>(noid, np, mkindex<int8_t>(to_i64s(x[1])), xbuild(x[3]), to_i64(x[2]) != 0);
  if (h == "bim")
    return std::make_shared<BitMaskedArray>(noid, np, mkindex<uint8_t>(to_i64s(x[1])), xbuild(x[5]),
                                            to_i64(x[2]) != 0, to_i64(x[4]), to_i64(x[3]) != 0);
  if (h == "unm") return std::make_shared<UnmaskedArray>(noid, np, xbuild(x[1]));
  if (h == "un") {
    const std::string w = x[1].a;
    auto tags = mkindex<int8_t>(to_i64s(x[2]));
    auto ix = to_i64s(x[3]);
    ContentPtrVec cs = xbuild_many(x, 4);
    if (w == "i32") return std::make_shared<UnionArray8_32>(noid, np, tags, mkindex<int32_t>(ix), cs);
    if (w == "u32") return std::make_shared<UnionArray8_U32>(noid, np, tags, mkindex<uint32_t>(ix), cs);
    return std::make_shared<UnionArray8_64>(noid, np, tags, mkindex<int64_t>(ix), cs);
  }
  if (h == "rec") {
    int64_t len = to_i64(x[1]);
    util::RecordLookupPtr lookup(nullptr);
    if (!x[2].is("tuple")) {
      lookup = std::make_shared<util::RecordLookup>();
      for (auto& k : x[2].l) lookup->push_back(k.a);
    }
    return std::make_shared<RecordArray>(noid, np, xbuild_many(x, 3), lookup, len);
  }
  if (h == "recb") {   // (recb LEN ((keybytes)...) layout*) : record keys as byte lists
    int64_t len = to_i64(x[1]);
    util::RecordLookupPtr lookup = std::make_shared<util::RecordLookup>();
    for (auto& k : x[2].l) lookup->push_back(bytes_of(k));
    return std::make_shared<RecordArray>(noid, np, xbuild_many(x, 3), lookup, len);
  }
  if (h == "par") {
    ContentPtr c = xbuild(x[3]);
    util::Parameters ps = c->parameters();
    if (!x[1].is("none")) ps["__array__"] = quoted(x[1].a);
    if (!x[2].is("none")) ps["__record__"] = quoted(x[2].a);
    c->setparameters(ps);
    return c;
  }
  if (h == "parx") {
    ContentPtr c = xbuild(x[2]);
    util::Parameters ps = c->parameters();
    for (auto& kv : x[1].l) ps[bytes_of(kv[0])] = normalise_json(bytes_of(kv[1]));
    c->setparameters(ps);
    return c;
  }
  if (h == "ident") {
    ContentPtr c = xbuild(x[1]);
    // setidentities insists on consistent lengths below (no unreachable content); leave such layouts without
    try { c->setidentities(); } catch (std::invalid_argument&) { }
    return c;
  }
  throw std::logic_error("xbuild: unknown node " + x.str());
}

static util::TypeStrs typestrs_of(const Sx& x) {
  util::TypeStrs ts;
  if (x.atom) throw std::logic_error("typestrs: list expected");
  for (auto& kv : x.l) ts[bytes_of(kv[0])] = bytes_of(kv[1]);
  return ts;
}

static std::string b01(bool b) { return b ? "1" : "0"; }

template <typename T>
static std::string depth_block(const T* q, const char* tag) {
  // every query separately guarded: a query that raises is reported as "err"
  std::string o = std::string("(") + tag;
  try { o += " " + std::to_string(q->purelist_depth()); } catch (std::exception&) { o += " err"; }
  try { auto mm = q->minmax_depth(); o += " " + std::to_string(mm.first) + " " + std::to_string(mm.second); }
  catch (std::exception&) { o += " err err"; }
  try { auto bd = q->branch_depth(); o += " " + b01(bd.first) + " " + std::to_string(bd.second); }
  catch (std::exception&) { o += " err err"; }
  try { o += " " + b01(q->purelist_isregular()); } catch (std::exception&) { o += " err"; }
  try { o += " " + std::to_string(q->numfields()); } catch (std::exception&) { o += " err"; }
  try {
    std::string k = "(";
    bool first = true;
    for (auto& s : q->keys()) { if (!first) k += " "; first = false; k += sxbytes(s); }
    o += " " + k + ")";
  } catch (std::exception&) { o += " err"; }
  return o + ")";
}

static std::string type_or_err(const FormPtr& f, const util::TypeStrs& ts) {
  try { return sxbytes(f->type(ts)->tostring()); }
  catch (std::invalid_argument&) { return "err"; }
}

// the part shared by describe and formjson: everything derivable from a Form
static std::string form_block(const FormPtr& form, const util::TypeStrs& ts) {
  std::string o;
  std::string j = form->tojson(false, false);
  std::string jv = form->tojson(false, true);
  o += " (ftype " + type_or_err(form, ts) + ")";
  o += " (form " + sxbytes(j) + ")";
  o += " (formv " + sxbytes(jv) + ")";
  // Form -> JSON -> Form -> JSON, and Form::equal with every check switched on
  try {
    FormPtr back = Form::fromjson(j);
    o += " (form2 " + sxbytes(back->tojson(false, false)) + ")";
    // Form.__eq__ of the Python layer: every check on, compatibility_check off (an equivalence relation)
    o += " (equal " + b01(form->equal(back, true, true, true, false)) + b01(back->equal(form, true, true, true, false)) + ")";
    o += " (equalc " + b01(form->equal(back, true, true, true, true)) + ")";
    o += " (ftype2 " + type_or_err(back, ts) + ")";
  } catch (std::invalid_argument&) { o += " (form2 err) (equal err) (equalc err) (ftype2 err)"; }
  try {
    FormPtr backv = Form::fromjson(jv);
    o += " (formv2 " + sxbytes(backv->tojson(false, false)) + ")";
    o += " (equalv " + b01(form->equal(backv, true, true, true, false)) + ")";
  } catch (std::invalid_argument&) { o += " (formv2 err) (equalv err)"; }
  o += " " + depth_block(form.get(), "fdepth");
  return o;
}

static std::string elem_desc(const ContentPtr& e, const util::TypeStrs& ts) {
  if (dynamic_cast<const None*>(e.get())) return "none";
  if (const NumpyArray* r = dynamic_cast<const NumpyArray*>(e.get())) {
    if (r->ndim() == 0) return "(scalar " + sxbytes(util::dtype_to_name(r->dtype())) + ")";
  }
  if (dynamic_cast<const Record*>(e.get())) return "(record " + sxbytes(e->type(ts)->tostring()) + ")";
  return "(array " + sxbytes(e->type(ts)->tostring()) + ")";
}

static std::string handle(const Sx& cs) {
  const std::string op = cs[1].a;
  if (op == "describe") {
    util::TypeStrs ts = typestrs_of(cs[2]);
    ContentPtr c = xbuild(cs[3]);
    std::string o = "(";
    // validityerror is C11's subject; here it only tells which cases the element-typing theorem speaks about
    // (an optional 4th argument "novalid" skips it: for __array__ = "categorical" validityerror runs is_unique, which
    // is outside this property and has defects of its own)
    if (cs.size() > 4 && cs[4].is("novalid")) o += "(valid skipped)";
    else {
      try { o += "(valid " + b01(c->validityerror("").empty()) + ")"; }
      catch (std::exception&) { o += "(valid err)"; }
    }
    o += " (type " + sxbytes(c->type(ts)->tostring()) + ")";
    o += " (type0 " + sxbytes(c->type(util::TypeStrs())->tostring()) + ")";
    FormPtr form = c->form(true);
    o += form_block(form, ts);
    o += " " + depth_block(c.get(), "depth");
    int64_t n = c->length();
    o += " (len " + std::to_string(n) + ")";
    // range slices: type must not change
    o += " (ranges";
    const int64_t probes[][2] = {{0, n}, {0, 0}, {1, n}, {0, n - 1}, {1, 2}, {-2, n + 3}, {n, n}, {-1, 1}, {2, 1}};
    for (auto& p : probes) {
      ContentPtr s = c->getitem_range(p[0], p[1]);
      o += " (" + std::to_string(p[0]) + " " + std::to_string(p[1]) + " " + std::to_string(s->length()) + " "
           + sxbytes(s->type(ts)->tostring()) + ")";
    }
    o += ")";
    // elements
    o += " (elems";
    for (int64_t i = 0; i < n && i < 8; i++) o += " " + elem_desc(c->getitem_at(i), ts);
    if (n > 0) o += " " + elem_desc(c->getitem_at(-1), ts);
    o += ")";
    return o + ")";
  }
  if (op == "formjson") {
    util::TypeStrs ts = typestrs_of(cs[2]);
    std::string text = bytes_of(cs[3]);
    FormPtr form = Form::fromjson(text);     // raises std::invalid_argument on anything it does not accept
    return "(" + form_block(form, ts).substr(1) + ")";
  }
  if (op == "scalarform") {
    // probe outside the property's quantifier: a zero-dimensional NumpyArray (what getitem_at returns)
    ContentPtr c = build(parse_line("(np int64 (3) (1 2 3))"));
    ContentPtr s = c->getitem_at(0);
    std::string o = "(depth " + std::to_string(s->purelist_depth()) + ")";
    FormPtr f = s->form(true);
    o += " (fdepth " + std::to_string(f->purelist_depth()) + ")";
    o += " (type " + sxbytes(s->type(util::TypeStrs())->tostring()) + ")";
    return "(" + o + ")";
  }
  throw std::logic_error("unknown op " + op);
}

int main() { return run_cases(handle); }
