(** C17 proofs, part 3: every element of a valid layout has the item type the layout's type promises
    ([to_list_typed]); the leaves of a typed value sit within the minmax depth of the type. *)
From Coq Require Import ZArith List Bool Lia.
From AwkV Require Import Base Layout LayoutInd Valid Types.
From AwkV Require Import Typing.
Import ListNotations.
Open Scope Z_scope.

Lemma Forall_impl2 {A} (P Q R : A -> Prop) l :
  (forall x, P x -> Q x -> R x) -> Forall P l -> Forall Q l -> Forall R l.
Proof. intros H HP. induction HP; intros HQ; inversion HQ; subst; constructor; auto. Qed.

(* ---------------------------------------------------------------- the error monad and checked accesses *)
Lemma mapM_Forall {A B} (f : A -> res B) (P : B -> Prop) l ys :
  mapM f l = Ok ys -> (forall x y, In x l -> f x = Ok y -> P y) -> Forall P ys.
Proof.
  revert ys. induction l as [|x l IH]; intros ys H HP; simpl in H.
  - inversion H. constructor.
  - destruct (f x) as [y|] eqn:Ey; [|discriminate]. simpl in H.
    destruct (mapM f l) as [ys'|]; [|discriminate]. simpl in H. inversion H; subst.
    constructor; [eapply HP; [left; reflexivity|exact Ey]|].
    apply IH; [reflexivity|]. intros x0 y0 Hin. apply HP. right. exact Hin.
Qed.

Lemma mapM_Forall2 {A B} (f : A -> res B) l ys :
  mapM f l = Ok ys -> Forall2 (fun x y => f x = Ok y) l ys.
Proof.
  revert ys. induction l as [|x l IH]; intros ys H; simpl in H.
  - inversion H. constructor.
  - destruct (f x) as [y|] eqn:Ey; [|discriminate]. simpl in H.
    destruct (mapM f l) as [ys'|]; [|discriminate]. simpl in H. inversion H; subst.
    constructor; auto.
Qed.

Lemma mapM_length {A B} (f : A -> res B) l ys : mapM f l = Ok ys -> length ys = length l.
Proof. intros H. apply mapM_Forall2 in H. induction H; simpl; auto. Qed.

Lemma get_In {A} (l : list A) i x : get l i = Ok x -> In x l.
Proof.
  unfold get. destruct (i <? 0); [discriminate|].
  destruct (nth_error l (Z.to_nat i)) eqn:E; [|discriminate]. intros H. inversion H; subst.
  eapply nth_error_In, E.
Qed.

Lemma In_firstn {A} (x : A) n l : In x (firstn n l) -> In x l.
Proof.
  revert l. induction n; intros l H; simpl in H; [contradiction|].
  destruct l; simpl in H; [contradiction|]. destruct H; [left; auto|right; auto].
Qed.
Lemma In_skipn {A} (x : A) n l : In x (skipn n l) -> In x l.
Proof.
  revert l. induction n; intros l H; simpl in H; [exact H|].
  destruct l; simpl in H; [contradiction|]. right. auto.
Qed.

Lemma slice_In {A} (l : list A) a b m x : slice l a b = Ok m -> In x m -> In x l.
Proof.
  unfold slice. destruct (_ && _); [|discriminate]. intros H. inversion H; subst.
  unfold take, drop. intros Hin. eapply In_skipn, In_firstn, Hin.
Qed.

Lemma cut1_In {A} (vs : list A) ab m x : cut1 vs ab = Ok m -> In x m -> In x vs.
Proof.
  unfold cut1. destruct ab as [a b]. destruct (a =? b).
  - intros H. inversion H. contradiction.
  - apply slice_In.
Qed.

Lemma cut_sub {A} (vs : list A) o ls : cut vs o = Ok ls -> Forall (fun l => forall x, In x l -> In x vs) ls.
Proof.
  unfold cut. destruct o; [discriminate|]. intros H.
  eapply mapM_Forall; [exact H|]. intros ab m _ Hm x. eapply cut1_In, Hm.
Qed.

Lemma cut2_sub {A} (vs : list A) s e ls : cut2 vs s e = Ok ls -> Forall (fun l => forall x, In x l -> In x vs) ls.
Proof.
  unfold cut2. destruct (zlen e <? zlen s); [discriminate|]. intros H.
  eapply mapM_Forall; [exact H|]. intros ab m _ Hm x. eapply cut1_In, Hm.
Qed.

(* ---------------------------------------------------------------- chunks *)
Lemma zlen_firstn_full {A} (l : list A) n : 0 <= n -> n <= zlen l -> zlen (take n l) = n.
Proof.
  intros H0 Hn. unfold take, zlen in *. rewrite firstn_length. lia.
Qed.
Lemma zlen_drop {A} (l : list A) n : 0 <= n -> n <= zlen l -> zlen (drop n l) = zlen l - n.
Proof. intros H0 Hn. unfold drop, zlen in *. rewrite skipn_length. lia. Qed.

Lemma chunks_nat_spec {A} (n : Z) : 0 < n -> forall k (vs : list A),
  Z.of_nat k * n <= zlen vs ->
  Forall (fun l => zlen l = n /\ forall x, In x l -> In x vs) (chunks_nat vs n k).
Proof.
  intros Hn. induction k as [|k IH]; intros vs Hk; simpl; [constructor|].
  assert (n <= zlen vs) by nia.
  constructor.
  - split; [apply zlen_firstn_full; lia|]. intros x Hx. unfold take in Hx. eapply In_firstn, Hx.
  - assert (Hd : Z.of_nat k * n <= zlen (drop n vs)) by (rewrite zlen_drop; nia).
    specialize (IH (drop n vs) Hd).
    eapply Forall_impl; [|exact IH]. intros l [Hl Hin]. split; [exact Hl|].
    intros x Hx. unfold drop in Hin. eapply In_skipn, Hin, Hx.
Qed.

Lemma chunks_spec {A} (vs : list A) size zl ch :
  chunks vs size zl = Ok ch -> Forall (fun l => zlen l = size /\ forall x, In x l -> In x vs) ch.
Proof.
  unfold chunks. destruct (size <? 0) eqn:E0; [discriminate|].
  destruct (size =? 0) eqn:E1.
  - destruct (zl <? 0); [discriminate|]. intros H. inversion H; subst.
    apply Z.eqb_eq in E1. subst. apply Forall_forall. intros l Hl. apply in_map_iff in Hl as (i & <- & _).
    split; [reflexivity|]. intros x [].
  - intros H. inversion H; subst. apply Z.ltb_ge in E0. apply Z.eqb_neq in E1.
    apply chunks_nat_spec; [lia|].
    assert (0 <= zlen vs) by (unfold zlen; lia).
    rewrite Z2Nat.id by (apply Z.div_pos; lia).
    rewrite Z.mul_comm. apply Z.mul_div_le. lia.
Qed.

(* ---------------------------------------------------------------- typing of the pieces *)
Lemma has_type_list t sz l :
  Forall (has_type t) l -> match sz with Some n => zlen l = n | None => True end ->
  has_type (TList sz None t) (VList l).
Proof.
  intros Hl Hs. unfold has_type. simpl. apply andb_true_iff. split.
  - apply forallb_forall. intros x Hx. rewrite Forall_forall in Hl. apply Hl, Hx.
  - destruct sz; [apply Z.eqb_eq; exact Hs|reflexivity].
Qed.

Lemma Forall_sub {A} (P : A -> Prop) (vs l : list A) :
  Forall P vs -> (forall x, In x l -> In x vs) -> Forall P l.
Proof. intros H Hs. apply Forall_forall. intros x Hx. rewrite Forall_forall in H. auto. Qed.

Lemma leaf_typed dt d : has_type (TNum dt) (leaf dt d).
Proof. unfold has_type. destruct dt; simpl; try reflexivity. destruct d; reflexivity. Qed.

Lemma nest_typed dt : forall dims count vs out,
  nest dims count vs = Ok out -> Forall (has_type (TNum dt)) vs -> Forall (has_type (numpy_ty dt dims)) out.
Proof.
  induction dims as [|d ds IH]; intros count vs out H Hvs; simpl in H.
  - inversion H; subst. exact Hvs.
  - destruct (nest ds (count * d) vs) as [inner|] eqn:Ei; [|discriminate]. simpl in H.
    destruct (chunks inner d count) as [ch|] eqn:Ec; [|discriminate]. simpl in H. inversion H; subst.
    specialize (IH _ _ _ Ei Hvs). apply chunks_spec in Ec.
    apply Forall_forall. intros v Hv. apply in_map_iff in Hv as (l & <- & Hl).
    rewrite Forall_forall in Ec. destruct (Ec l Hl) as [Hlen Hsub].
    simpl. apply has_type_list; [eapply Forall_sub; eauto|exact Hlen].
Qed.

Lemma pick_opt_typed t vs valid i v :
  Forall (has_type t) vs -> pick_opt vs valid i = Ok v -> has_type (TOpt t) v.
Proof.
  intros Hvs. unfold pick_opt. destruct valid.
  - intros H. apply get_In in H. rewrite Forall_forall in Hvs. specialize (Hvs v H).
    unfold has_type in *. simpl. destruct v; auto.
  - intros H. inversion H. reflexivity.
Qed.

Lemma all_to_list (cs : list content) vss :
  (fix all (l : list content) : res (list (list value)) :=
     match l with
     | [] => Ok []
     | x :: xs => do v <- to_list x; do vs <- all xs; Ok (v :: vs)
     end) cs = Ok vss ->
  Forall2 (fun c vs => to_list c = Ok vs) cs vss.
Proof.
  revert vss. induction cs as [|c cs IH]; intros vss H.
  - inversion H. constructor.
  - destruct (to_list c) as [v|] eqn:Ev; [|discriminate]. simpl in H.
    match type of H with bind ?X _ = _ => destruct X as [vs|] eqn:Evs end; [|discriminate].
    simpl in H. inversion H; subst. constructor; auto.
Qed.

Lemma union_ex ts v t : In t ts -> has_typeb t v = true ->
  (fix ex (ts : list ty) : bool := match ts with [] => false | t0 :: ts' => has_typeb t0 v || ex ts' end) ts = true.
Proof.
  induction ts as [|t0 ts IH]; intros Hin Ht; [contradiction|].
  destruct Hin as [->|Hin].
  - rewrite Ht. reflexivity.
  - rewrite (IH Hin Ht). apply orb_true_r.
Qed.

Lemma name_eqb_refl (k : name) : name_eqb k k = true.
Proof. unfold name_eqb. induction k; simpl; [reflexivity|]. rewrite Z.eqb_refl. exact IHk. Qed.
Lemma names_eqb_refl (ks : list name) : list_eqb name_eqb ks ks = true.
Proof. induction ks; simpl; [reflexivity|]. rewrite name_eqb_refl. exact IHks. Qed.

Lemma map_fst_zip {A B} (l : list A) (m : list B) : length l = length m -> map fst (zip l m) = l.
Proof. revert m. induction l; intros [|y m] H; simpl in *; try discriminate; [reflexivity|]. f_equal. auto. Qed.
Lemma map_snd_zip {A B} (l : list A) (m : list B) : length l = length m -> map snd (zip l m) = m.
Proof. revert m. induction l; intros [|y m] H; simpl in *; try discriminate; [reflexivity|]. f_equal. auto. Qed.

(* the fields of one row: column j gives a value typed by the j-th content *)
Lemma row_fields (cs : list content) : forall vss vs i,
  Forall2 (fun c col => to_list c = Ok col) cs vss ->
  Forall (fun c => forall col, to_list c = Ok col -> Forall (has_type (type_of_p None c)) col) cs ->
  mapM (fun col => get col i) vss = Ok vs ->
  (fix go (ts : list ty) (vs : list value) {struct ts} : bool :=
     match ts, vs with
     | [], [] => true
     | t0 :: ts', v0 :: vs' => has_typeb t0 v0 && go ts' vs'
     | _, _ => false
     end) (map (type_of_p None) cs) vs = true.
Proof.
  induction cs as [|c cs IH]; intros vss vs i H2 HF Hm.
  - inversion H2; subst. simpl in Hm. inversion Hm. reflexivity.
  - inversion H2 as [|? col ? vss' Hc H2']; subst. inversion HF as [|? ? Hty HF']; subst.
    simpl in Hm. destruct (get col i) as [v|] eqn:Eg; [|discriminate]. simpl in Hm.
    destruct (mapM (fun col0 => get col0 i) vss') as [vs'|] eqn:Em; [|discriminate]. simpl in Hm.
    inversion Hm; subst. simpl. apply andb_true_iff. split.
    + specialize (Hty col Hc). rewrite Forall_forall in Hty. apply Hty. eapply get_In, Eg.
    + eapply IH; eauto.
Qed.

Lemma bytes_of_length v s : bytes_of v = Ok s ->
  match v with VList l => length s = length l | _ => False end.
Proof. destruct v; simpl; try discriminate. apply mapM_length. Qed.

(* ---------------------------------------------------------------- the theorem *)
Definition typed (c : content) : Prop :=
  forall vs, Valid None c -> to_list c = Ok vs -> Forall (has_type (type_of_p None c)) vs.

Ltac none_param HV :=
  match goal with Hp : ParamOk ?p _ |- _ => idtac end.

(* string / bytestring node: the list node below turns into VStr values *)
Lemma string_typed (isstr : bool) vs0 vs sz t :
  (forall l, In (VList l) vs0 -> match sz with Some n => zlen l = n | None => True end) ->
  (forall v, In v vs0 -> exists l, v = VList l) ->
  mapM (fun v => rmap (VStr isstr) (bytes_of v)) vs0 = Ok vs ->
  Forall (has_type (TList sz (Some isstr) t)) vs.
Proof.
  intros Hlen Hshape Hm. eapply mapM_Forall; [exact Hm|].
  intros v y Hin Hy. cbv beta in Hy. destruct (bytes_of v) as [s|] eqn:Eb; simpl in Hy; [|discriminate]. inversion Hy; subst.
  destruct (Hshape v Hin) as (l & ->). unfold has_type. simpl. rewrite eqb_reflx. simpl.
  destruct sz as [n|]; [|reflexivity]. apply Z.eqb_eq.
  specialize (Hlen l Hin). apply bytes_of_length in Eb. unfold zlen in *. rewrite Eb. exact Hlen.
Qed.

Lemma to_list_typed_all c : typed c.
Proof.
  induction c as [dt shape data| |w o c IHc|w s e c IHc|c size zl IHc|w ix c IHc|w ix c IHc|m vw c IHc
                 |m vw lsb n c IHc|c IHc|w t ix cs IHcs|cs ks n IHcs|arr rn c IHc] using content_ind';
    intros vs HV Hl; inversion HV; subst.
  - (* Numpy *)
    simpl in Hl. destruct shape as [|n dims]; [discriminate|].
    destruct (existsb _ _); [discriminate|]. destruct (_ <? _); [discriminate|].
    match type of Hl with bind ?X _ = _ => destruct X as [out|] eqn:En end; [|discriminate].
    simpl in Hl. inversion Hl; subst. simpl.
    eapply nest_typed; [exact En|]. apply Forall_forall. intros v Hv.
    apply in_map_iff in Hv as (d & <- & _). apply leaf_typed.
  - (* Empty *)
    simpl in Hl. inversion Hl. constructor.
  - (* ListOffset *)
    simpl in Hl. destruct (to_list c) as [vs0|] eqn:E0; [|discriminate]. simpl in Hl.
    destruct (cut vs0 o) as [ls|] eqn:Ec; [|discriminate]. simpl in Hl. inversion Hl; subst.
    match goal with Hs : _ -> Valid None c |- _ => specialize (IHc vs0 (Hs eq_refl) E0) end.
    apply cut_sub in Ec. simpl. apply Forall_forall. intros v Hv. apply in_map_iff in Hv as (l & <- & Hin).
    rewrite Forall_forall in Ec. apply has_type_list; [eapply Forall_sub; eauto|exact I].
  - (* ListA *)
    simpl in Hl. destruct (to_list c) as [vs0|] eqn:E0; [|discriminate]. simpl in Hl.
    destruct (cut2 vs0 s e) as [ls|] eqn:Ec; [|discriminate]. simpl in Hl. inversion Hl; subst.
    match goal with Hs : _ -> Valid None c |- _ => specialize (IHc vs0 (Hs eq_refl) E0) end.
    apply cut2_sub in Ec. simpl. apply Forall_forall. intros v Hv. apply in_map_iff in Hv as (l & <- & Hin).
    rewrite Forall_forall in Ec. apply has_type_list; [eapply Forall_sub; eauto|exact I].
  - (* Regular *)
    simpl in Hl. destruct (to_list c) as [vs0|] eqn:E0; [|discriminate]. simpl in Hl.
    destruct (chunks vs0 size zl) as [ls|] eqn:Ec; [|discriminate]. simpl in Hl. inversion Hl; subst.
    match goal with Hs : _ -> Valid None c |- _ => specialize (IHc vs0 (Hs eq_refl) E0) end.
    apply chunks_spec in Ec. simpl. apply Forall_forall. intros v Hv. apply in_map_iff in Hv as (l & <- & Hin).
    rewrite Forall_forall in Ec. destruct (Ec l Hin) as [Hlen Hsub].
    apply has_type_list; [eapply Forall_sub; eauto|exact Hlen].
  - (* Indexed *)
    simpl in Hl. destruct (to_list c) as [vs0|] eqn:E0; [|discriminate]. simpl in Hl.
    match goal with Hv : Valid None c |- _ => specialize (IHc vs0 Hv E0) end.
    simpl. eapply mapM_Forall; [exact Hl|]. intros i y _ Hy. cbv beta in Hy. apply get_In in Hy.
    rewrite Forall_forall in IHc. auto.
  - (* IndexedOption *)
    simpl in Hl. destruct (to_list c) as [vs0|] eqn:E0; [|discriminate]. simpl in Hl.
    match goal with Hv : Valid None c |- _ => specialize (IHc vs0 Hv E0) end.
    simpl. eapply mapM_Forall; [exact Hl|]. intros i y _ Hy. cbv beta in Hy. eapply pick_opt_typed; eauto.
  - (* ByteMasked *)
    simpl in Hl. destruct (to_list c) as [vs0|] eqn:E0; [|discriminate]. simpl in Hl.
    match goal with Hv : Valid None c |- _ => specialize (IHc vs0 Hv E0) end.
    simpl. eapply mapM_Forall; [exact Hl|]. intros [i b] y _ Hy. cbv beta in Hy. eapply pick_opt_typed; eauto.
  - (* BitMasked *)
    simpl in Hl. destruct (to_list c) as [vs0|] eqn:E0; [|discriminate]. simpl in Hl.
    destruct (n <? 0); [discriminate|].
    match goal with Hv : Valid None c |- _ => specialize (IHc vs0 Hv E0) end.
    simpl. eapply mapM_Forall; [exact Hl|]. intros i y _ Hy. cbv beta in Hy.
    destruct (bit_at m lsb i) as [b|]; [|discriminate]. simpl in Hy. eapply pick_opt_typed; eauto.
  - (* Unmasked *)
    simpl in Hl.
    match goal with Hv : Valid None c |- _ => specialize (IHc vs Hv Hl) end.
    simpl. eapply Forall_impl; [|exact IHc]. intros v Hv. unfold has_type in *. simpl. destruct v; auto.
  - (* Union *)
    simpl in Hl.
    match type of Hl with bind ?X _ = _ => destruct X as [vss|] eqn:Ea end; [|discriminate].
    simpl in Hl. destruct (zlen ix <? zlen t); [discriminate|].
    apply all_to_list in Ea. simpl.
    eapply mapM_Forall; [exact Hl|]. intros [tg i] y _ Hy. cbv beta in Hy.
    destruct (get vss tg) as [col|] eqn:Eg; [|discriminate]. simpl in Hy.
    apply get_In in Eg. apply get_In in Hy.
    (* the content col comes from *)
    assert (Hc : exists c, In c cs /\ to_list c = Ok col).
    { clear -Ea Eg. induction Ea as [|c col' cs vss Hc Ha IH]; [contradiction|].
      destruct Eg as [->|Eg]; [exists c; split; [left; reflexivity|exact Hc]|].
      destruct (IH Eg) as (c0 & Hin & H0). exists c0. split; [right; exact Hin|exact H0]. }
    destruct Hc as (c0 & Hin & H0).
    rewrite Forall_forall in IHcs.
    match goal with HF : Forall (Valid None) cs |- _ => rewrite Forall_forall in HF; specialize (IHcs c0 Hin col (HF c0 Hin) H0) end.
    rewrite Forall_forall in IHcs. specialize (IHcs y Hy).
    unfold has_type. simpl. eapply union_ex; [|exact IHcs]. apply in_map, Hin.
  - (* Record *)
    simpl in Hl.
    match type of Hl with bind ?X _ = _ => destruct X as [vss|] eqn:Ea end; [|discriminate].
    simpl in Hl. destruct (n <? 0); [discriminate|].
    apply all_to_list in Ea. simpl.
    assert (HF : Forall (fun c => forall col, to_list c = Ok col -> Forall (has_type (type_of_p None c)) col) cs).
    { match goal with HV' : Forall (Valid None) cs |- _ =>
        eapply Forall_impl2; [|exact IHcs|exact HV']; intros x Hx Hv col Hcol; apply (Hx col Hv Hcol) end. }
    eapply mapM_Forall; [exact Hl|]. intros i y _ Hy. cbv beta in Hy. unfold row in Hy.
    destruct (mapM (fun col => get col i) vss) as [fs|] eqn:Em; [|discriminate]. simpl in Hy.
    pose proof (row_fields cs vss fs i Ea HF Em) as Hgo.
    destruct ks as [ks|].
    + destruct (Nat.eqb (length ks) (length fs)) eqn:El; [|discriminate]. inversion Hy; subst.
      apply Nat.eqb_eq in El. unfold has_type. simpl.
      rewrite map_fst_zip, map_snd_zip by exact El. rewrite names_eqb_refl. exact Hgo.
    + inversion Hy; subst. exact Hgo.
  - (* Par *)
    match goal with Hv : Valid arr c |- _ => rename Hv into HVc end.
    simpl in Hl. destruct (to_list c) as [vs0|] eqn:E0; [|discriminate]. simpl in Hl.
    destruct arr as [[]|].
    + (* string *)
      inversion HVc; subst;
        match goal with Hp : ParamOk (Some AString) _ |- _ => simpl in Hp; try contradiction;
          try (destruct Hp as (c' & rn' & n' & d' & Hc & _); discriminate Hc) end.
      * simpl in E0. destruct (to_list c0) as [vs1|]; [|discriminate]. simpl in E0.
        destruct (cut vs1 o) as [ls|]; [|discriminate]. simpl in E0. inversion E0; subst.
        simpl. eapply string_typed; [| |exact Hl].
        -- intros; exact I.
        -- intros v Hv. apply in_map_iff in Hv as (l & <- & _). eauto.
      * simpl in E0. destruct (to_list c0) as [vs1|]; [|discriminate]. simpl in E0.
        destruct (cut2 vs1 s e) as [ls|]; [|discriminate]. simpl in E0. inversion E0; subst.
        simpl. eapply string_typed; [| |exact Hl].
        -- intros; exact I.
        -- intros v Hv. apply in_map_iff in Hv as (l & <- & _). eauto.
      * simpl in E0. destruct (to_list c0) as [vs1|]; [|discriminate]. simpl in E0.
        destruct (chunks vs1 size zl) as [ls|] eqn:Ec; [|discriminate]. simpl in E0. inversion E0; subst.
        apply chunks_spec in Ec. rewrite Forall_forall in Ec.
        simpl. eapply string_typed; [| |exact Hl].
        -- intros l Hin. apply in_map_iff in Hin as (l' & Heq & Hin). inversion Heq; subst. apply Ec, Hin.
        -- intros v Hv. apply in_map_iff in Hv as (l & <- & _). eauto.
    + (* bytestring *)
      inversion HVc; subst;
        match goal with Hp : ParamOk (Some ABytestring) _ |- _ => simpl in Hp; try contradiction;
          try (destruct Hp as (c' & rn' & n' & d' & Hc & _); discriminate Hc) end.
      * simpl in E0. destruct (to_list c0) as [vs1|]; [|discriminate]. simpl in E0.
        destruct (cut vs1 o) as [ls|]; [|discriminate]. simpl in E0. inversion E0; subst.
        simpl. eapply string_typed; [| |exact Hl].
        -- intros; exact I.
        -- intros v Hv. apply in_map_iff in Hv as (l & <- & _). eauto.
      * simpl in E0. destruct (to_list c0) as [vs1|]; [|discriminate]. simpl in E0.
        destruct (cut2 vs1 s e) as [ls|]; [|discriminate]. simpl in E0. inversion E0; subst.
        simpl. eapply string_typed; [| |exact Hl].
        -- intros; exact I.
        -- intros v Hv. apply in_map_iff in Hv as (l & <- & _). eauto.
      * simpl in E0. destruct (to_list c0) as [vs1|]; [|discriminate]. simpl in E0.
        destruct (chunks vs1 size zl) as [ls|] eqn:Ec; [|discriminate]. simpl in E0. inversion E0; subst.
        apply chunks_spec in Ec. rewrite Forall_forall in Ec.
        simpl. eapply string_typed; [| |exact Hl].
        -- intros l Hin. apply in_map_iff in Hin as (l' & Heq & Hin). inversion Heq; subst. apply Ec, Hin.
        -- intros v Hv. apply in_map_iff in Hv as (l & <- & _). eauto.
    + (* char *)
      exfalso. inversion HVc; subst; match goal with Hp : ParamOk (Some AChar) _ |- _ => exact Hp end.
    + exfalso. inversion HVc; subst; match goal with Hp : ParamOk (Some AByte) _ |- _ => exact Hp end.
    + exfalso. inversion HVc; subst; match goal with Hp : ParamOk (Some ACategorical) _ |- _ => exact Hp end.
    + (* no __array__ *)
      inversion Hl; subst. simpl. apply IHc; [exact HVc|exact E0].
Qed.

Theorem to_list_typed_thm c vs :
  Valid None c -> to_list c = Ok vs -> Forall (has_type (type_of c)) vs.
Proof. intros HV Hl. exact (to_list_typed_all c vs HV Hl). Qed.

