(** C17b: the extended reference parser agrees with the frozen one wherever the latter succeeds
    ([type_parse s = Ok t -> type_parse_x s = Ok t]); what [type_parse_x] accepts beyond its round-trip fragment. *)
From Coq Require Import ZArith List Bool Lia String.
From AwkV Require Import Base Layout.
From AwkTypes Require Import Json Forms TypeStr Proofs_Json Proofs_Parse
  Proofs_C17b_ParseX_Json Proofs_C17b_ParseX_Defs Proofs_C17b_ParseX_Ty Proofs_C17b_ParseX.
Import ListNotations.
Open Scope Z_scope.

Definition sub_le (sub subx : bytes -> res (rty * bytes)) : Prop := forall s r, sub s = Ok r -> subx s = Ok r.
(* the frozen parser never reads a type off "parameters={..." *)
Definition no_params (sub : bytes -> res (rty * bytes)) : Prop := forall s r, starts_params s = true -> sub s <> Ok r.

Lemma strip_prefix_some p : forall s x, strip_prefix p s = Some x -> s = p ++ x.
Proof.
  induction p as [|c p IH]; intros s x H; simpl in H; [inversion H; reflexivity|].
  destruct s as [|d s]; [discriminate|]. destruct (c =? d) eqn:E; [|discriminate].
  apply Z.eqb_eq in E. subst d. rewrite (IH s x H). reflexivity.
Qed.

Lemma parse_ty_no_params fuel : no_params (parse_ty fuel).
Proof.
  intros s r H. unfold starts_params in H. destruct (strip_prefix p_parameters_eq s) as [x|] eqn:E; [|discriminate].
  apply strip_prefix_some in E. subst s. destruct fuel; [discriminate|]. discriminate.
Qed.

Section Mono.
  Variables sub subx : bytes -> res (rty * bytes).
  Hypothesis Hle : sub_le sub subx.

  Lemma parse_list_mono close : forall fuel fuel' s r, (fuel <= fuel')%nat ->
    parse_list sub fuel close s = Ok r -> parse_list subx fuel' close s = Ok r.
  Proof.
    induction fuel as [|fuel IH]; intros fuel' s r Hf H; [discriminate|].
    destruct fuel' as [|fuel']; [lia|]. cbn [parse_list] in H |- *.
    destruct (sub s) as [tr|e] eqn:Es; [|discriminate]. rewrite (Hle s tr Es). cbn [bind] in H |- *.
    destruct (snd tr) as [|c' r']; [discriminate|]. destruct (c' =? close); [exact H|].
    destruct (strip_prefix p_comma (c' :: r')) as [rest|]; [|discriminate].
    destruct (parse_list sub fuel close rest) as [lr|e] eqn:El; [|discriminate].
    rewrite (IH fuel' rest lr ltac:(lia) El). exact H.
  Qed.

  Lemma parse_items_mono close fuel fuel' s r : (fuel <= fuel')%nat ->
    parse_items sub fuel close s = Ok r -> parse_items subx fuel' close s = Ok r.
  Proof.
    intros Hf. unfold parse_items. destruct s as [|c s']; [discriminate|]. destruct (c =? close); [auto|].
    apply parse_list_mono, Hf.
  Qed.

  Lemma parse_fields_mono close : forall fuel fuel' s r, (fuel <= fuel')%nat ->
    parse_fields sub fuel close s = Ok r -> parse_fields subx fuel' close s = Ok r.
  Proof.
    induction fuel as [|fuel IH]; intros fuel' s r Hf H; [discriminate|].
    destruct fuel' as [|fuel']; [lia|]. cbn [parse_fields] in H |- *.
    destruct (unquote s) as [kr|e]; [|discriminate]. cbn [bind] in H |- *.
    destruct (strip_prefix p_colon (snd kr)) as [s1|]; [|discriminate].
    destruct (sub s1) as [tr|e] eqn:Es; [|discriminate]. rewrite (Hle s1 tr Es). cbn [bind] in H |- *.
    destruct (snd tr) as [|c' r']; [discriminate|]. destruct (c' =? close); [exact H|].
    destruct (strip_prefix p_comma (c' :: r')) as [rest|]; [|discriminate].
    destruct (parse_fields sub fuel close rest) as [lr|e] eqn:El; [|discriminate].
    rewrite (IH fuel' rest lr ltac:(lia) El). exact H.
  Qed.

  Lemma parse_fielditems_mono close fuel fuel' s r : (fuel <= fuel')%nat ->
    parse_fielditems sub fuel close s = Ok r -> parse_fielditems subx fuel' close s = Ok r.
  Proof.
    intros Hf. unfold parse_fielditems. destruct s as [|c s']; [discriminate|]. destruct (c =? close); [auto|].
    apply parse_fields_mono, Hf.
  Qed.

  Hypothesis Hnp : no_params sub.

  (* the union contents: the frozen parser's list is the extended parser's list without parameters *)
  Lemma parse_listp_of_list : forall fuel fuel' s l r, (fuel <= fuel')%nat ->
    parse_list sub fuel 93 s = Ok (l, r) -> parse_listp subx fuel' s = Ok ((l, []), r).
  Proof.
    induction fuel as [|fuel IH]; intros fuel' s l r Hf H; [discriminate|].
    destruct fuel' as [|fuel']; [lia|]. cbn [parse_list] in H. cbn [parse_listp].
    destruct (sub s) as [tr|e] eqn:Es; [|discriminate]. rewrite (Hle s tr Es). cbn [bind] in H |- *.
    destruct (snd tr) as [|c' r']; [discriminate|]. destruct (c' =? 93); [inversion H; reflexivity|].
    destruct (strip_prefix p_comma (c' :: r')) as [rest|]; [|discriminate].
    destruct (parse_list sub fuel 93 rest) as [[l' r'']|e] eqn:El; [|discriminate]. cbn [bind fst snd] in H.
    destruct (starts_params rest) eqn:Esp.
    - exfalso. destruct fuel; [discriminate El|]. cbn [parse_list] in El.
      destruct (sub rest) as [tr'|e'] eqn:Er; [|discriminate El]. exact (Hnp rest tr' Esp Er).
    - rewrite (IH fuel' rest l' r'' ltac:(lia) El). cbn [bind fst snd]. inversion H. reflexivity.
  Qed.

  Lemma bracket_branch_mono fuel fuel' w rest1 r : (fuel <= fuel')%nat ->
    bracket_branch sub fuel w rest1 = Ok r -> bracket_branchx subx fuel' w rest1 = Ok r.
  Proof.
    intros Hf H. unfold bracket_branch in H.
    destruct (bytes_eqb w w_option) eqn:Eo.
    - apply bytes_eqb_eq in Eo. subst w. rewrite bracket_option.
      destruct (sub rest1) as [tr|e] eqn:Es; [|discriminate]. rewrite (Hle _ _ Es). cbn [bind] in H |- *.
      destruct (snd tr) as [|c rest2]; [discriminate|]. destruct (c =? 93); [exact H|discriminate].
    - destruct (bytes_eqb w w_union) eqn:Eu.
      + apply bytes_eqb_eq in Eu. subst w. rewrite bracket_union.
        destruct (parse_items sub fuel 93 rest1) as [[l r']|e] eqn:El; [|discriminate]. cbn [bind fst snd] in H.
        assert (Hp : parse_itemsp subx fuel' rest1 = Ok ((l, []), r')).
        { unfold parse_items in El. unfold parse_itemsp. destruct rest1 as [|c s']; [discriminate|].
          destruct (c =? 93); [inversion El; reflexivity|]. apply (parse_listp_of_list fuel); assumption. }
        rewrite Hp. exact H.
      + destruct (existsb (bytes_eqb w) reserved_words) eqn:Er; [discriminate|].
        rewrite (bracket_named subx fuel' w rest1 Er). unfold bracket_branch. rewrite Eo, Eu, Er.
        destruct rest1 as [|c rest2]; [discriminate|].
        destruct (c =? 34).
        * destruct (parse_fields sub fuel 93 (c :: rest2)) as [fr|e] eqn:Ef; [|discriminate].
          rewrite (parse_fields_mono 93 fuel fuel' _ _ Hf Ef). exact H.
        * destruct (c =? 93); [exact H|].
          destruct (parse_list sub fuel 93 (c :: rest2)) as [lr|e] eqn:El; [|discriminate].
          rewrite (parse_list_mono 93 fuel fuel' _ _ Hf El). exact H.
  Qed.

  Lemma plain_word_mono w rest r : plain_word sub w rest = Ok r -> plain_word subx w rest = Ok r.
  Proof.
    unfold plain_word. destruct (bytes_eqb w w_var); [|auto].
    destruct (strip_prefix p_star rest) as [rest'|]; [|discriminate].
    destruct (sub rest') as [tr|e] eqn:Es; [|discriminate]. rewrite (Hle _ _ Es). auto.
  Qed.
End Mono.

Lemma parse_ty_le_x : forall fuel fuel', (fuel <= fuel')%nat -> sub_le (parse_ty fuel) (parse_tyx fuel').
Proof.
  induction fuel as [|fuel IH]; intros fuel' Hf s r H; [discriminate|].
  destruct fuel' as [|fuel']; [lia|].
  assert (Hle : sub_le (parse_ty fuel) (parse_tyx fuel')) by (apply IH; lia).
  pose proof (parse_ty_no_params fuel) as Hnp.
  cbn [parse_ty] in H. cbn [parse_tyx]. destruct s as [|c s']; [discriminate|].
  destruct (c =? 63) eqn:E63.
  { unfold opt_branch in H |- *. destruct (parse_ty fuel s') as [tr|e] eqn:Es; [|discriminate]. rewrite (Hle _ _ Es). exact H. }
  destruct (c =? 123) eqn:E123.
  { unfold brace_branch in H |- *. destruct (parse_fielditems (parse_ty fuel) fuel 125 s') as [fr|e] eqn:Ef; [|discriminate].
    rewrite (parse_fielditems_mono _ _ Hle 125 fuel fuel' _ _ ltac:(lia) Ef). exact H. }
  destruct (c =? 40) eqn:E40.
  { unfold paren_branch in H |- *. destruct (parse_items (parse_ty fuel) fuel 41 s') as [lr|e] eqn:El; [|discriminate].
    rewrite (parse_items_mono _ _ Hle 41 fuel fuel' _ _ ltac:(lia) El). exact H. }
  destruct (c =? 91) eqn:E91.
  { apply Z.eqb_eq in E91. subst c. discriminate H. }
  destruct (is_digit c) eqn:Ed.
  { unfold num_branch in H |- *. destruct (span is_digit (c :: s')) as [ds rest].
    destruct (strip_prefix p_star rest) as [rest'|]; [|discriminate].
    destruct (parse_ty fuel rest') as [tr|e] eqn:Es; [|discriminate]. rewrite (Hle _ _ Es). exact H. }
  destruct (is_alpha_ c) eqn:Ea; [|discriminate].
  destruct (span is_alnum_ (c :: s')) as [w rest].
  unfold word_branch in H. unfold word_branchx. destruct rest as [|c1 rest1].
  - apply (plain_word_mono _ _ Hle), H.
  - destruct (c1 =? 91).
    + apply (bracket_branch_mono _ _ Hle Hnp fuel fuel'); [lia|exact H].
    + apply (plain_word_mono _ _ Hle), H.
Qed.

Theorem type_parse_x_agrees s t : type_parse s = Ok t -> type_parse_x s = Ok t.
Proof.
  unfold type_parse, type_parse_x. intros H.
  destruct (parse_ty (S (List.length s)) s) as [tr|e] eqn:E; [|discriminate].
  rewrite (parse_ty_le_x (S (List.length s)) (2 * S (List.length s))%nat ltac:(lia) s tr E). exact H.
Qed.

(* ---------------------------------------------------------------- beyond the fragment: texts type_parse_x accepts whose
   type is NOT in printable_x (so "everything type_parse_x returns is printable_x" is false as it stands): the name
   inside parameters={} of a tuple[[...]] / struct[[...]] is not checked against the Name[...] spelling the printer
   would choose for it, nor is the number of keys against the number of fields *)
Example image_not_printable_x_refuted :
  let s1 := bytes_of_string "tuple[[], parameters={""__record__"": ""Pt""}]"%string in
  let s2 := bytes_of_string "struct[[""a""], [int64, bool], parameters={""z"": 1}]"%string in
  let s3 := bytes_of_string "tuple[[int64, bool], parameters={""__record__"": ""union""}]"%string in
  rmap (fun t => (printable_x t, type_tostring t)) (type_parse_x s1) = Ok (false, bytes_of_string "Pt[]"%string) /\
  rmap printable_x (type_parse_x s2) = Ok false /\
  rmap (fun t => (printable_x t, type_tostring t)) (type_parse_x s3) = Ok (false, bytes_of_string "union[int64, bool]"%string).
Proof. cbv zeta. repeat split; vm_compute; reflexivity. Qed.
