(** Field projection: the layout-level [field_content] (used by the [IField] item of getitem and by the
    [field] operation) refines the value-level [proj_ty] / [proj_v]: same values, same error status,
    for EVERY valid layout (no fragment: unions, n-d leaves, strings included). *)
From Coq Require Import ZArith List Bool Lia ZifyBool.
From AwkV Require Import Base Layout LayoutInd Valid Types Carry AtAxis Ops_Getitem Typing Proofs_Typing
                         Proofs_Lists Proofs_ToList Proofs_Carry Proofs_AtAxis.
Import ListNotations.
Open Scope Z_scope.

(* ---------------------------------------------------------------- field positions *)
Lemma index_of_range k : forall ks s i, index_of k ks s = Ok i -> s <= i < s + zlen ks.
Proof.
  induction ks as [|x r IH]; intros s i H; cbn [index_of] in H; [discriminate|].
  rewrite zlen_cons. pose proof (zlen_nonneg r). destruct (Ops_Getitem.name_eqb k x).
  - inversion H; subst. lia.
  - apply IH in H. lia.
Qed.
Lemma index_of_err k : forall ks s e, index_of k ks s = Err e -> e = EValue.
Proof.
  induction ks as [|x r IH]; intros s e H; cbn [index_of] in H; [congruence|].
  destruct (Ops_Getitem.name_eqb k x); [discriminate|]. eapply IH, H.
Qed.
Lemma tuple_index_range k i : tuple_index k = Ok i -> 0 <= i.
Proof.
  unfold tuple_index. destruct k as [|c [|? ?]]; try discriminate.
  destruct ((48 <=? c) && (c <=? 57)) eqn:E; [|discriminate]. intros H. inversion H; subst. lia.
Qed.
Lemma tuple_index_err k e : tuple_index k = Err e -> e = EValue.
Proof.
  unfold tuple_index. destruct k as [|c [|? ?]]; try congruence.
  destruct ((48 <=? c) && (c <=? 57)); [discriminate|congruence].
Qed.
Lemma positional_range n k i :
  (do i <- tuple_index k; if i <? n then Ok i else Err EValue) = Ok i -> 0 <= i < n.
Proof.
  intros H. apply bind_Ok in H as (j & Hj & H). apply tuple_index_range in Hj.
  destruct (j <? n) eqn:E; [|discriminate]. inversion H; subst. lia.
Qed.
Lemma positional_err n k e :
  (do i <- tuple_index k; if i <? n then Ok i else Err EValue) = Err e -> e = EValue.
Proof.
  destruct (tuple_index k) as [j|e'] eqn:Et; cbn [bind].
  - destruct (j <? n); [discriminate|congruence].
  - intros H. inversion H; subst. eapply tuple_index_err, Et.
Qed.
Lemma field_pos_range keys n k i :
  (forall ks, keys = Some ks -> zlen ks = n) -> field_pos keys n k = Ok i -> 0 <= i < n.
Proof.
  intros Hk. unfold field_pos. destruct keys as [ks|].
  - destruct (index_of k ks 0) as [j|] eqn:Ej.
    + intros H. inversion H; subst. apply index_of_range in Ej. rewrite (Hk ks eq_refl) in Ej. lia.
    + apply positional_range.
  - apply positional_range.
Qed.
Lemma field_pos_err keys n k e : field_pos keys n k = Err e -> e = EValue.
Proof.
  unfold field_pos. destruct keys as [ks|].
  - destruct (index_of k ks 0); [discriminate|]. apply positional_err.
  - apply positional_err.
Qed.

(* ---------------------------------------------------------------- the specification on well-typed values *)
Lemma proj_ty_numpy k dt : forall dims, proj_ty k (numpy_ty dt dims) = Err EValue.
Proof. induction dims as [|d ds IH]; cbn [numpy_ty proj_ty]; [reflexivity|]. rewrite IH. reflexivity. Qed.

Lemma proj_ty_err k : forall t e, proj_ty k t = Err e -> e = EValue \/ e = EOob.
Proof.
  induction t as [| |sz str t IH|t IH|keys ts|ts]; intros e H; cbn [proj_ty] in H; try (left; congruence).
  - destruct str; [left; congruence|]. destruct (proj_ty k t) eqn:E; [discriminate|]. inversion H; subst. eapply IH. reflexivity.
  - destruct (proj_ty k t) eqn:E; [discriminate|]. inversion H; subst. eapply IH. reflexivity.
  - destruct (field_pos keys (zlen ts) k) as [i|e'] eqn:Ef; cbn [bind] in H.
    + apply get_err in H. tauto.
    + inversion H; subst. left. eapply field_pos_err, Ef.
Qed.

Lemma go_typed_length : forall ts vs,
  (fix go (ts : list ty) (vs : list value) {struct ts} : bool :=
     match ts, vs with
     | [], [] => true
     | t0 :: ts', v0 :: vs' => has_typeb t0 v0 && go ts' vs'
     | _, _ => false
     end) ts vs = true -> zlen vs = zlen ts.
Proof.
  induction ts as [|t ts IH]; intros [|v vs] H; try discriminate; [reflexivity|].
  apply andb_true_iff in H as [_ H]. rewrite !zlen_cons, (IH _ H). reflexivity.
Qed.

(* where the projected type exists, projecting a well-typed value succeeds *)
Lemma proj_total k : forall t t' v, proj_ty k t = Ok t' -> has_type t v -> exists w, proj_v k t v = Ok w.
Proof.
  induction t as [| |sz str t IH|t IH|keys ts|ts]; intros t' v Hp Hv; cbn [proj_ty] in Hp; try discriminate.
  - destruct str; [discriminate|]. apply rmap_Ok in Hp as (t0 & Hp & _).
    destruct (has_type_list_inv _ _ _ Hv) as (l & -> & Hl). cbn [proj_v].
    destruct (mapM_total (proj_v k t) l) as [ws Hws].
    { intros x Hx. rewrite Forall_forall in Hl. eapply IH; [exact Hp|apply Hl, Hx]. }
    rewrite Hws. eexists. reflexivity.
  - apply rmap_Ok in Hp as (t0 & Hp & _). cbn [proj_v]. destruct v; try (eapply IH; [exact Hp|exact Hv]).
    eexists. reflexivity.
  - apply bind_Ok in Hp as (i & Hi & Hg). apply get_range in Hg. cbn [proj_v]. rewrite Hi. cbn [bind].
    unfold has_type in Hv. destruct keys as [ks|]; cbn [has_typeb] in Hv; destruct v; try discriminate.
    + apply andb_true_iff in Hv as [_ Hv]. apply go_typed_length in Hv. rewrite zlen_map in Hv.
      destruct (get_ok fs i) as [kv Hkv]; [lia|]. rewrite Hkv. eexists. reflexivity.
    + apply go_typed_length in Hv. apply get_ok. lia.
Qed.

Lemma proj_total_list k t t' vs :
  proj_ty k t = Ok t' -> Forall (has_type t) vs -> exists ws, mapM (proj_v k t) vs = Ok ws.
Proof.
  intros Hp Hv. apply mapM_total. intros x Hx. rewrite Forall_forall in Hv. eapply proj_total; [exact Hp|apply Hv, Hx].
Qed.

(* a projected value of a non-option type is not None *)
Lemma proj_v_nonone k t v w : match t with TOpt _ => False | _ => True end -> proj_v k t v = Ok w -> v <> VNone.
Proof.
  intros Ht H ->. destruct t as [| |sz [b|] t|t|keys ts|ts]; cbn [proj_v] in H; try discriminate; try contradiction.
  destruct (field_pos keys (zlen ts) k); discriminate.
Qed.
Lemma not_option_type c : forall p, optionlike c = false -> match type_of_p p c with TOpt _ => False | _ => True end.
Proof.
  induction c using content_ind'; intros p Ho; cbn [type_of_p]; try exact I; try discriminate.
  - destruct (tl shape); exact I.
  - rewrite optionlike_Par in Ho. apply IHc, Ho.
Qed.

(* ---------------------------------------------------------------- the refinement relation *)
Definition frefines (k : name) (m : res content) (t : ty) (vs : list value) : Prop :=
  match m with
  | Ok c' => exists t' ws, proj_ty k t = Ok t' /\ mapM (proj_v k t) vs = Ok ws /\ to_list c' = Ok ws
  | Err e => e = EValue /\ proj_ty k t = Err EValue
  end.

Lemma frefines_rmap k (K : content -> content) (T : ty -> ty) m t0 vs0 t vs :
  frefines k m t0 vs0 ->
  proj_ty k t = rmap T (proj_ty k t0) ->
  (forall c' ws0, to_list c' = Ok ws0 -> mapM (proj_v k t0) vs0 = Ok ws0 ->
                  exists ws, mapM (proj_v k t) vs = Ok ws /\ to_list (K c') = Ok ws) ->
  frefines k (rmap K m) t vs.
Proof.
  intros H Ht HK. destruct m as [c'|e]; cbn [rmap frefines] in *.
  - destruct H as (t' & ws0 & Hp & Hm & Hl). destruct (HK c' ws0 Hl Hm) as (ws & Hws & Hlk).
    exists (T t'), ws. rewrite Ht, Hp. auto.
  - destruct H as [-> H]. split; [reflexivity|]. rewrite Ht, H. reflexivity.
Qed.

Section Field.
  Variable k : name.
  Notation PV := (proj_v k).

  Lemma list_wrap (K : content -> content) m t0 vs0 sz bs ls :
    (forall c' ws0 ls', to_list c' = Ok ws0 -> zlen ws0 = zlen vs0 -> mapM (cut1 ws0) bs = Ok ls' ->
                        to_list (K c') = Ok (map VList ls')) ->
    mapM (cut1 vs0) bs = Ok ls ->
    frefines k m t0 vs0 -> frefines k (rmap K m) (TList sz None t0) (map VList ls).
  Proof.
    intros HK Hcut H. eapply frefines_rmap; [exact H|reflexivity|].
    intros c' ws0 Hc' HF. destruct (cuts_mapM (PV t0) vs0 ws0 bs ls HF Hcut) as (ls' & Hls' & Hm).
    exists (map VList ls'). split.
    - rewrite mapM_map, <- Hm. apply mapM_ext_in. intros l _. reflexivity.
    - eapply HK; [exact Hc'|apply (mapM_zlen _ _ _ HF)|exact Hls'].
  Qed.

  Lemma option_wrap (K : content -> content) {I} m t0 vs0 vs (ixs : list I) (b : I -> bool) (idx : I -> Z) :
    match t0 with TOpt _ => False | _ => True end ->
    (forall c' ws0 ws, to_list c' = Ok ws0 -> mapM (fun i => pick_opt ws0 (b i) (idx i)) ixs = Ok ws ->
                       to_list (K c') = Ok ws) ->
    mapM (fun i => pick_opt vs0 (b i) (idx i)) ixs = Ok vs ->
    frefines k m t0 vs0 -> frefines k (rmap K m) (TOpt t0) vs.
  Proof.
    intros Hno HK Hvs H. eapply frefines_rmap; [exact H|reflexivity|].
    intros c' ws0 Hc' HF.
    assert (Hnn : forall x, In x vs0 -> x <> VNone).
    { intros x Hx. destruct (mapM_Ok_In _ _ _ _ HF Hx) as (w & Hw & _). eapply proj_v_nonone; eassumption. }
    destruct (mapM_square (fun i => pick_opt vs0 (b i) (idx i)) (fun i => pick_opt ws0 (b i) (idx i))
                          (optF (PV t0)) ixs vs) as (ws & Hq & Hs); [|exact Hvs|].
    { intros i v _ Hp. eapply pick_square; eassumption. }
    exists ws. split; [|eapply HK; eassumption].
    rewrite <- Hs. apply mapM_ext_in. intros v _. destruct v; reflexivity.
  Qed.

  (* one row of a record, projected *)
  Lemma row_proj ks (ts : list ty) vss i col j r :
    0 <= i < zlen ts -> field_pos ks (zlen ts) k = Ok i -> get vss i = Ok col -> row ks vss j = Ok r ->
    PV (TRec ks ts) r = get col j.
  Proof.
    intros Hi Hf Hcol Hr. unfold row in Hr. apply bind_Ok in Hr as (xs & Hxs & Hr).
    assert (Hg : get xs i = get col j) by (rewrite (mapM_get _ _ _ i Hxs), Hcol; reflexivity).
    destruct ks as [ks|].
    - destruct (Nat.eqb (length ks) (length xs)) eqn:E; [|discriminate]. inversion Hr; subst.
      cbn [proj_v]. rewrite Hf. cbn [bind]. rewrite get_zip, <- Hg.
      destruct (get xs i) as [y|e] eqn:Ey.
      + apply get_range in Ey. destruct (get_ok ks i) as [x Hx]; [unfold zlen in *; lia|]. rewrite Hx. reflexivity.
      + apply get_err in Ey as [-> Hn]. rewrite get_oob; [reflexivity|]. unfold zlen in *. lia.
    - inversion Hr; subst. cbn [proj_v]. rewrite Hf. cbn [bind]. exact Hg.
  Qed.

  Definition fld_at (c : content) : Prop :=
    forall vs, Valid None c -> to_list c = Ok vs -> frefines k (field_content k c) (type_of_p None c) vs.

  Lemma field_refines_all c : fld_at c.
  Proof.
    induction c as [dt shape data| |w o c IHc|w s e c IHc|c size zl IHc|w ix c IHc|w ix c IHc|m vw c IHc
                   |m vw lsb n c IHc|c IHc|w t ix cs IHcs|cs ks n IHcs|arr rn c IHc] using content_ind';
      intros vs HV Hl; pose proof HV as HV0.
    - (* Numpy *) cbn [field_content frefines type_of_p]. split; [reflexivity|apply proj_ty_numpy].
    - (* Empty *) split; reflexivity.
    - (* ListOffset *)
      inversion HV; subst.
      match goal with H : is_strk None = false -> Valid None c |- _ => specialize (H eq_refl); rename H into HVc end.
      rewrite to_list_ListOffset in Hl. apply bind_Ok in Hl as (vs0 & Hl0 & Hl). apply rmap_Ok in Hl as (ls & Hcut & ->).
      unfold cut in Hcut. destruct o as [|a o]; [discriminate|].
      cbn [field_content type_of_p strflag].
      eapply list_wrap with (bs := pairs (a :: o)); [|exact Hcut|apply IHc; assumption].
      intros c' ws0 ls' Hc' _ Hls'. rewrite to_list_ListOffset, Hc'. cbn [bind]. unfold cut. rewrite Hls'. reflexivity.
    - (* ListA *)
      inversion HV; subst.
      match goal with H : is_strk None = false -> Valid None c |- _ => specialize (H eq_refl); rename H into HVc end.
      rewrite to_list_ListA in Hl. apply bind_Ok in Hl as (vs0 & Hl0 & Hl). apply rmap_Ok in Hl as (ls & Hcut & ->).
      unfold cut2 in Hcut. destruct (zlen e <? zlen s) eqn:Ese; [discriminate|].
      cbn [field_content type_of_p strflag].
      eapply list_wrap with (bs := zip s e); [|exact Hcut|apply IHc; assumption].
      intros c' ws0 ls' Hc' _ Hls'. rewrite to_list_ListA, Hc'. cbn [bind]. unfold cut2. rewrite Ese, Hls'. reflexivity.
    - (* Regular *)
      inversion HV; subst.
      match goal with H : is_strk None = false -> Valid None c |- _ => specialize (H eq_refl); rename H into HVc end.
      rewrite to_list_Regular in Hl. apply bind_Ok in Hl as (vs0 & Hl0 & Hl). apply rmap_Ok in Hl as (ch & Hch & ->).
      cbn [field_content type_of_p strflag].
      eapply list_wrap with (bs := map (fun i => (i * size, (i + 1) * size)) (iota (zlen ch)));
        [|apply (chunks_as_cuts _ _ _ _ Hch)|apply IHc; assumption].
      intros c' ws0 ls' Hc' Hz Hls'. rewrite to_list_Regular, Hc'. cbn [bind].
      destruct (chunks_indep vs0 ws0 size zl ch Hch Hz) as (ch' & Hch' & Hzc).
      rewrite Hch'. cbn [rmap]. pose proof (chunks_as_cuts _ _ _ _ Hch') as Hc2. rewrite Hzc, Hls' in Hc2.
      inversion Hc2; subst. reflexivity.
    - (* Indexed *)
      inversion HV; subst.
      rewrite to_list_Indexed in Hl. apply bind_Ok in Hl as (vs0 & Hl0 & Hl).
      cbn [field_content type_of_p].
      eapply frefines_rmap with (T := fun t => t); [apply IHc; eassumption|destruct (proj_ty k _); reflexivity|].
      intros c' ws0 Hc' HF.
      destruct (gather_same_len vs0 ws0 ix) as [ws Hws]; [symmetry; apply (mapM_zlen _ _ _ HF)|eauto|].
      exists ws. split.
      + rewrite (mapM_gather_ok _ _ _ _ _ HF Hl). exact Hws.
      + rewrite to_list_Indexed, Hc'. exact Hws.
    - (* IndexedOption *)
      inversion HV; subst.
      rewrite to_list_IndexedOption in Hl. apply bind_Ok in Hl as (vs0 & Hl0 & Hl).
      cbn [field_content type_of_p].
      eapply (option_wrap (IndexedOption w ix) _ _ vs0 vs ix (fun i => 0 <=? i) (fun i => i));
        [apply not_option_type; assumption| |exact Hl|apply IHc; eassumption].
      intros c' ws0 ws Hc' Hq. rewrite to_list_IndexedOption, Hc'. exact Hq.
    - (* ByteMasked *)
      inversion HV; subst.
      rewrite to_list_ByteMasked in Hl. apply bind_Ok in Hl as (vs0 & Hl0 & Hl).
      cbn [field_content type_of_p].
      eapply (option_wrap (ByteMasked m vw) _ _ vs0 vs (zip (iota (zlen m)) m)
                (fun im : Z * Z => Bool.eqb (negb (snd im =? 0)) vw) (fun im : Z * Z => fst im));
        [apply not_option_type; assumption| | |apply IHc; eassumption].
      + intros c' ws0 ws Hc' Hq. rewrite to_list_ByteMasked, Hc'. cbn [bind]. rewrite <- Hq.
        apply mapM_ext_in. intros [i b] _. reflexivity.
      + rewrite <- Hl. apply mapM_ext_in. intros [i b] _. reflexivity.
    - (* BitMasked *)
      inversion HV; subst.
      rewrite to_list_BitMasked in Hl. apply bind_Ok in Hl as (vs0 & Hl0 & Hl).
      destruct (n <? 0) eqn:En; [discriminate|].
      assert (Hbits : forall i, In i (iota n) -> exists b, bit_at m lsb i = Ok b).
      { intros i Hi. destruct (mapM_Ok_In _ _ _ _ Hl Hi) as (y & Hy & _). destruct (bit_at m lsb i); [eauto|discriminate]. }
      cbn [field_content type_of_p].
      eapply (option_wrap (BitMasked m vw lsb n) _ _ vs0 vs (iota n)
                (fun i => match bit_at m lsb i with Ok b => Bool.eqb b vw | Err _ => false end) (fun i => i));
        [apply not_option_type; assumption| | |apply IHc; eassumption].
      + intros c' ws0 ws Hc' Hq. rewrite to_list_BitMasked, Hc'. cbn [bind]. rewrite En, <- Hq.
        apply mapM_ext_in. intros i Hi. destruct (Hbits i Hi) as [b ->]. reflexivity.
      + rewrite <- Hl. apply mapM_ext_in. intros i Hi. destruct (Hbits i Hi) as [b ->]. reflexivity.
    - (* Unmasked *)
      inversion HV; subst. rewrite to_list_Unmasked in Hl.
      cbn [field_content type_of_p].
      eapply frefines_rmap with (T := TOpt); [apply IHc; eassumption|reflexivity|].
      intros c' ws0 Hc' HF. exists ws0. split; [|rewrite to_list_Unmasked; exact Hc'].
      rewrite <- HF. apply mapM_ext_in. intros v Hv. destruct (mapM_Ok_In _ _ _ _ HF Hv) as (w' & Hw & _).
      pose proof (proj_v_nonone k _ v w' (not_option_type c None ltac:(assumption)) Hw) as Hn.
      cbn [proj_v]. destruct v; try reflexivity. congruence.
    - (* Union *) split; reflexivity.
    - (* Record *)
      inversion HV; subst.
      match goal with H : Forall (Valid None) cs |- _ => rename H into HVs end.
      match goal with H : Forall (fun x => n <= clen x) cs |- _ => rename H into Hlens end.
      match goal with H : forall k0, ks = Some k0 -> length k0 = length cs |- _ => rename H into Hks end.
      rewrite to_list_Record in Hl. apply bind_Ok in Hl as (vss & Hvss & Hl). rewrite all_lists_mapM in Hvss.
      destruct (n <? 0) eqn:En; [discriminate|].
      cbn [field_content type_of_p]. unfold frefines. cbn [proj_ty]. rewrite zlen_map.
      destruct (field_pos ks (zlen cs) k) as [i|e] eqn:Ef; cbn [bind];
        [|apply field_pos_err in Ef; subst e; split; reflexivity].
      assert (Hi : 0 <= i < zlen cs).
      { eapply field_pos_range; [|exact Ef]. intros k0 ->. apply zlen_length_eq. auto. }
      destruct (get_ok cs i Hi) as [f Hf]. rewrite Hf. cbn [bind].
      pose proof (get_In _ _ _ Hf) as Hin. rewrite Forall_forall in HVs, Hlens.
      assert (Hcol : exists col, get vss i = Ok col /\ to_list f = Ok col).
      { pose proof (mapM_get _ _ _ i Hvss) as Hg. rewrite Hf in Hg. cbn [bind] in Hg.
        destruct (get vss i) as [col|] eqn:E; [eauto|]. apply get_err in E as [_ E].
        rewrite (mapM_zlen _ _ _ Hvss) in E. contradiction. }
      destruct Hcol as (col & Hgc & Hlf).
      destruct (crange_spec f col 0 n (HVs f Hin) Hlf) as (c' & Hcr & Hlc & _); [lia|lia|apply Hlens, Hin|].
      rewrite Hcr. rewrite get_map, Hf. cbn [rmap].
      pose proof (to_list_len _ _ Hlf) as Hzc. specialize (Hlens f Hin).
      assert (Hsl : exists ws, slice col 0 n = Ok ws) by (rewrite slice_ok by lia; eauto).
      destruct Hsl as (ws & Hws). exists (type_of_p None f), ws. split; [reflexivity|]. split; [|congruence].
      rewrite (mapM_mapM _ _ _ _ Hl). rewrite <- Hws, <- gather_range by lia.
      replace (range 0 n) with (iota n) by (unfold range, iota; rewrite Z.sub_0_r; reflexivity).
      apply mapM_ext_in. intros j Hj. destruct (mapM_Ok_In _ _ _ _ Hl Hj) as (r & Hr & _). rewrite Hr. cbn [bind].
      eapply row_proj; [rewrite zlen_map; exact Hi|rewrite zlen_map; exact Ef|exact Hgc|exact Hr].
    - (* Par *)
      inversion HV; subst.
      match goal with H : Valid arr c |- _ => rename H into HVc end.
      destruct (Valid_param arr c HVc) as [-> | Es].
      + rewrite to_list_Par in Hl. apply bind_Ok in Hl as (vs0 & Hl0 & Hl). inversion Hl; subst.
        cbn [field_content type_of_p]. apply IHc; assumption.
      + assert (Hp : ParamOk arr c) by (inversion HVc; subst; try assumption; discriminate).
        destruct (ParamOk_str arr c Hp Es) as (cc & k' & rn' & n & dd & Hcc & _ & _).
        destruct arr as [[]|]; try discriminate; destruct c; try discriminate; split; reflexivity.
  Qed.
End Field.

(* ---------------------------------------------------------------- the theorems *)
Theorem field_refines_spec : forall k c vs,
  Valid None c -> to_list c = Ok vs ->
  obs (field_content k c) = (do _ <- proj_ty k (type_of c); mapM (proj_v k (type_of c)) vs).
Proof.
  intros k c vs HV Hl. pose proof (field_refines_all k c vs HV Hl) as H. unfold type_of.
  destruct (field_content k c) as [c'|e]; cbn [frefines obs] in *.
  - destruct H as (t' & ws & Hp & Hm & Hlc). rewrite Hp, Hm, Hlc. reflexivity.
  - destruct H as [-> H]. rewrite H. reflexivity.
Qed.

(* the only error is "no such field" (never an out-of-bounds read, never fuel) *)
Theorem field_error_is_value_error : forall k c vs e,
  Valid None c -> to_list c = Ok vs -> field_content k c = Err e -> e = EValue /\ proj_ty k (type_of c) = Err EValue.
Proof.
  intros k c vs e HV Hl He. pose proof (field_refines_all k c vs HV Hl) as H. rewrite He in H. exact H.
Qed.

(* where the field exists the value-level projection never fails on the array's own values *)
Corollary field_ok_when_typed : forall k c vs t',
  Valid None c -> to_list c = Ok vs -> proj_ty k (type_of c) = Ok t' ->
  exists c' ws, field_content k c = Ok c' /\ to_list c' = Ok ws /\ mapM (proj_v k (type_of c)) vs = Ok ws.
Proof.
  intros k c vs t' HV Hl Hp. pose proof (field_refines_all k c vs HV Hl) as H. unfold type_of in Hp.
  destruct (field_content k c) as [c'|e]; cbn [frefines] in *; [|destruct H; congruence].
  destruct H as (_ & ws & _ & Hm & Hlc). exists c', ws. auto.
Qed.

(* The statement WITHOUT the type-level check, [obs (field_content k c) = mapM (proj_v k (type_of c)) vs],
   is false on zero-length arrays: the layout-level projection (like the C++) refuses a missing field
   whatever the length, a [mapM] over no values cannot.  [getitem_spec] ([sg], items IField) runs
   [proj_ty] first for this reason. *)
Example field_refines_spec_noty_refuted :
  let c := Numpy DInt64 [0] [] in
  validb None c = true /\ to_list c = Ok [] /\
  obs (field_content [97] c) = Err EValue /\ mapM (proj_v [97] (type_of c)) [] = Ok [].
Proof. vm_compute. repeat split. Qed.

(* a non-trivial instance: list of option of records (one field a list, one n-d), a key, the positional
   fall-back, a missing key *)
Example field_refines_ex :
  let c := ListOffset I64 [0; 2; 2; 3]
             (IndexedOption I64 [1; -1; 0]
                (Record [ListA I64 [0; 3] [3; 4] (Numpy DInt64 [5] [DZ 1; DZ 2; DZ 3; DZ 4; DZ 5]);
                         Numpy DFloat64 [3; 2] [DZ 1; DZ 2; DZ 3; DZ 4; DZ 5; DZ 6]] (Some [[120]; [121]]) 2)) in
  validb None c = true /\
  obs (field_content [120] c) = Ok [VList [VList [VNum (DZ 4)]; VNone]; VList []; VList [VList [VNum (DZ 1); VNum (DZ 2); VNum (DZ 3)]]] /\
  obs (field_content [49] c) = Ok [VList [VList [VNum (DZ 3); VNum (DZ 4)]; VNone]; VList []; VList [VList [VNum (DZ 1); VNum (DZ 2)]]] /\
  obs (field_content [122] c) = Err EValue.
Proof. vm_compute. repeat split. Qed.

(* ---------------------------------------------------------------- layout independence (C02) *)
Theorem layout_independent_field_partial : forall k a b vs,
  Valid None a -> Valid None b -> to_list a = Ok vs -> to_list b = Ok vs -> type_of a = type_of b ->
  obs (field_content k a) = obs (field_content k b).
Proof.
  intros k a b vs HVa HVb Hla Hlb Hty.
  rewrite (field_refines_spec k a vs HVa Hla), (field_refines_spec k b vs HVb Hlb), Hty. reflexivity.
Qed.
