// awkdrv: runs layout-level operations of /repo's libawkward on textual cases.
// One case per line on stdin: (id op args... layout...)  ->  (id ok RESULT) | (id err CLASS)
#include "drv_common.h"
#include "awkward/type/Type.h"

using namespace drv;

static const Reducer* reducer_of(const std::string& n) {
  static ReducerCount count; static ReducerCountNonzero countnonzero; static ReducerSum sum;
  static ReducerProd prod; static ReducerAny any; static ReducerAll all;
  static ReducerMin mn; static ReducerMax mx; static ReducerArgmin argmin; static ReducerArgmax argmax;
  if (n == "count") return &count;
  if (n == "count_nonzero") return &countnonzero;
  if (n == "sum") return &sum;
  if (n == "prod") return &prod;
  if (n == "any") return &any;
  if (n == "all") return &all;
  if (n == "min") return &mn;
  if (n == "max") return &mx;
  if (n == "argmin") return &argmin;
  if (n == "argmax") return &argmax;
  throw std::logic_error("unknown reducer " + n);
}

// purity bookkeeping (C12): every input layout is dumped when built and again after the call;
// the result is dumped again after the inputs have been released
static std::vector<ContentPtr> g_inputs;
static std::vector<std::string> g_input_dumps;
static ContentPtr g_result;

static std::string D(const ContentPtr& x) { g_result = x; return dump(x); }

static std::string handle(const Sx& cs) {
  const std::string op = cs[1].a;
  auto L = [&](size_t i) {
    ContentPtr c = build(cs[i]);
    g_inputs.push_back(c);
    g_input_dumps.push_back(dump(c));
    return c;
  };
  if (op == "id") return D(L(2));
  if (op == "survive") {
    // entry points that must survive ANY array, valid or not: check, print, describe
    ContentPtr c = L(2);
    size_t n = 0;
    n += c->validityerror("").size();
    n += c->tostring().size();
    try { n += c->type(util::TypeStrs())->tostring().size(); } catch (std::exception&) { }
    try { n += c->form(true)->tojson(false, false).size(); } catch (std::exception&) { }
    return std::to_string(n > 0 ? 1 : 0);
  }
  if (op == "survivejson") {   // ... and convert
    ContentPtr c = L(2);
    size_t n = 0;
    try { n += c->tojson(false, -1, "nan", "inf", "-inf", "r", "i").size(); } catch (std::exception&) { }
    return std::to_string(n > 0 ? 1 : 0);
  }
  if (op == "valid") return L(2)->validityerror("").empty() ? "1" : "0";
  if (op == "len") return std::to_string(L(2)->length());
  if (op == "num") return D(L(3)->num(to_i64(cs[2]), 0));
  if (op == "flatten") {
    ContentPtr c = L(3);
    int64_t axis = to_i64(cs[2]);
    // what ak.flatten does for axis != 0 (axis == 0 is handled in Python)
    std::pair<Index64, ContentPtr> p = c->offsets_and_flattened(axis, 0);
    return D(p.second);
  }
  if (op == "localindex") return D(L(3)->localindex(to_i64(cs[2]), 0));
  if (op == "getitem") return D(L(3)->getitem(build_slice(cs[2])));
  if (op == "at") return D(L(3)->getitem_at(to_i64(cs[2])));
  if (op == "range") return D(L(4)->getitem_range(to_i64(cs[2]), to_i64(cs[3])));
  if (op == "carry") return D(L(3)->carry(mkindex<int64_t>(to_i64s(cs[2])), false));
  if (op == "field") return D(L(3)->getitem_field(cs[2].a));
  if (op == "fields") {
    std::vector<std::string> ks;
    for (auto& k : cs[2].l) ks.push_back(k.a);
    return D(L(3)->getitem_fields(ks));
  }
  if (op == "setfield") {  // (id setfield KEY recordlayout what)
    ContentPtr c = L(3);
    if (const RecordArray* r = dynamic_cast<const RecordArray*>(c.get())) return D(r->setitem_field(cs[2].a, L(4)));
    throw std::invalid_argument("setfield: not a RecordArray");
  }
  if (op == "setfieldat") {  // (id setfieldat WHERE recordlayout what): the position variant
    ContentPtr c = L(3);
    if (const RecordArray* r = dynamic_cast<const RecordArray*>(c.get())) return D(r->setitem_field(to_i64(cs[2]), L(4)));
    throw std::invalid_argument("setfieldat: not a RecordArray");
  }
  if (op == "reduce") {  // (id reduce NAME AXIS MASK KEEPDIMS layout)
    return D(L(6)->reduce(*reducer_of(cs[2].a), to_i64(cs[3]), to_i64(cs[4]) != 0, to_i64(cs[5]) != 0));
  }
  if (op == "sort") return D(L(5)->sort(to_i64(cs[2]), to_i64(cs[3]) != 0, to_i64(cs[4]) != 0));
  if (op == "argsort") return D(L(5)->argsort(to_i64(cs[2]), to_i64(cs[3]) != 0, to_i64(cs[4]) != 0));
  if (op == "combinations") {  // (id combinations N REPL AXIS layout)
    return D(L(5)->combinations(to_i64(cs[2]), to_i64(cs[3]) != 0, nullptr, util::Parameters(), to_i64(cs[4]), 0));
  }
  if (op == "rpad") return D(L(4)->rpad(to_i64(cs[2]), to_i64(cs[3]), 0));
  if (op == "rpadclip") return D(L(4)->rpad_and_clip(to_i64(cs[2]), to_i64(cs[3]), 0));
  if (op == "fillna") return D(L(2)->fillna(L(3)));
  if (op == "mergemany") {
    ContentPtr first = L(2);
    ContentPtrVec others;
    for (size_t i = 3; i < cs.size(); i++) others.push_back(L(i));
    return D(first->mergemany(others));
  }
  if (op == "merge") return D(L(2)->merge(L(3)));
  if (op == "simplify") return D(L(2)->shallow_simplify());
  if (op == "type") {
    std::string t = L(2)->type(util::TypeStrs())->tostring();
    std::string o = "(";
    for (unsigned char ch : t) { if (o.size() > 1) o += " "; o += std::to_string((int)ch); }
    return o + ")";
  }
  if (op == "depth") {
    ContentPtr c = L(2);
    auto mm = c->minmax_depth();
    auto bd = c->branch_depth();
    return "(" + std::to_string(c->purelist_depth()) + " " + std::to_string(mm.first) + " " + std::to_string(mm.second)
           + " " + (bd.first ? "1" : "0") + " " + std::to_string(bd.second) + " " + (c->purelist_isregular() ? "1" : "0") + ")";
  }
  if (op == "tolist64") {
    ContentPtr c = L(3);
    bool start_at_zero = to_i64(cs[2]) != 0;
#define TL(T) if (const T* r = dynamic_cast<const T*>(c.get())) return D(r->toListOffsetArray64(start_at_zero));
    TL(ListOffsetArray32) TL(ListOffsetArrayU32) TL(ListOffsetArray64) TL(ListArray32) TL(ListArrayU32) TL(ListArray64) TL(RegularArray)
    throw std::logic_error("tolist64: not a list node");
  }
  throw std::logic_error("unknown op " + op);
}

static std::string checked(const Sx& cs) {
  g_inputs.clear(); g_input_dumps.clear(); g_result.reset();
  std::string out = handle(cs);
  for (size_t k = 0; k < g_inputs.size(); k++) {
    if (dump(g_inputs[k]) != g_input_dumps[k]) {
      g_inputs.clear(); g_result.reset();
      throw std::domain_error("impure: input " + std::to_string(k) + " changed");
    }
  }
  g_inputs.clear(); g_input_dumps.clear();
  if (g_result.get() != nullptr) {
    // the inputs are gone: the result must still read the same (scribble over freed memory first)
    {
      std::vector<std::vector<int64_t>> junk;
      for (int n = 0; n < 8; n++) junk.push_back(std::vector<int64_t>(64 + 37 * n, (int64_t)0x5a5a5a5a5a5a5a5aLL));
    }
    std::string again = dump(g_result);
    g_result.reset();
    if (again != out) throw std::domain_error("impure: result changed after its inputs were released");
  }
  return out;
}

int main() { return run_cases(checked); }
