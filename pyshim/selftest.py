#!/venv/bin/python
"""pyshim self-test: exercises acceptance items 1-5 (see README.md) and prints PASS/FAIL per item.

    /venv/bin/python /verif/pyshim/selftest.py [-v]
"""
import math
import os
import pickle
import sys
import traceback

sys.dont_write_bytecode = True
sys.path.insert(0, "/verif")
from pyshim.install import install, ENV_SHIMS  # noqa: E402

install()
import numpy as np  # noqa: E402
import awkward as ak  # noqa: E402

VERBOSE = "-v" in sys.argv
RESULTS = []


def item(name):
    def deco(fn):
        try:
            fn()
            RESULTS.append((name, "PASS", ""))
            print("PASS  " + name, flush=True)
        except Exception as err:
            RESULTS.append((name, "FAIL", "%s: %s" % (type(err).__name__, err)))
            print("FAIL  " + name + "   [" + type(err).__name__ + ": " + str(err)[:300] + "]", flush=True)
            if VERBOSE:
                traceback.print_exc()
        return fn
    return deco


def L(x):
    return ak.to_list(x)


def mk():
    content = ak.layout.NumpyArray(np.array([1.1, 2.2, 3.3, 4.4, 5.5]))
    offsets = ak.layout.Index64(np.array([0, 3, 3, 5], dtype=np.int64))
    return ak.layout.ListOffsetArray64(offsets, content)


# ------------------------------------------------------------------ 0. installation
@item("0.1 import: /repo package, version 1.4.0, fake _ext")
def _():
    assert ak.__file__.startswith("/repo/src/"), ak.__file__
    assert ak.__version__ == "1.4.0"
    assert getattr(ak._ext, "__pyshim__", False)
    assert ak.layout.NumpyArray.__module__ == "awkward._ext"


@item("0.2 errors: invalid_argument -> ValueError with the C++ text, runtime_error -> RuntimeError")
def _():
    a = ak.Array(mk())
    try:
        a.layout.getitem_at(10)
    except ValueError as err:
        assert "index out of range" in str(err) and "ListOffsetArray.cpp" in str(err), str(err)
    else:
        raise AssertionError("no ValueError")
    try:
        ak.layout.NumpyArray(np.array([1, 2, 3])).copy_to("cuda")
    except (RuntimeError, ValueError) as err:
        assert not isinstance(err, ak._ext.Content)
    try:
        a[5]
    except ValueError:
        pass
    else:
        raise AssertionError("no ValueError from highlevel")


@item("0.3 driver crash -> DriverCrashed carrying the request, automatic restart")
def _():
    from pyshim import core, driver
    a = ak.Array(mk())
    assert L(a) == [[1.1, 2.2, 3.3], [], [4.4, 5.5]]
    drv = core.current_driver()
    drv.proc.kill()
    drv.proc.wait()
    try:
        ak.num(a)
    except driver.DriverCrashed as err:
        assert "call num" in err.request
    else:
        # a dead process noticed before the write is restarted transparently: also fine
        pass
    assert L(ak.num(a)) == [3, 0, 2]


@item("0.4 bit-exact floats, all primitive dtypes, strides, parameters (arbitrary JSON) round-trip")
def _():
    vals = np.array([0.1, -0.0, np.nan, np.inf, 5e-324, 1.7976931348623157e308])
    out = np.asarray(ak.layout.NumpyArray(vals).carry(ak.layout.Index64(np.arange(6)), False))
    assert out.tobytes() == vals.tobytes()
    for dt in ["?", "i1", "i2", "i4", "i8", "u1", "u2", "u4", "u8", "f4", "f8", "c8", "c16", "M8[ns]", "m8[s]"]:
        x = np.array([1, 0, 3]).astype(dt)
        lay = ak.layout.NumpyArray(x)
        got = lay[ak.layout.NumpyArray(np.array([2, 0]))] if False else lay.carry(ak.layout.Index64(np.array([2, 0])), False)
        if dt[0] in "Mm":
            got = np.asarray(got.view_int64).view(dt)
        else:
            got = np.asarray(got)
        assert got.dtype == x.dtype and got.tolist() == x[[2, 0]].tolist(), dt
    x = np.arange(24).reshape(4, 6)[::2, ::-2]
    lay = ak.layout.NumpyArray(x)
    assert L(lay) == x.tolist() and lay.strides == list(x.strides) and not lay.iscontiguous
    assert L(lay.contiguous()) == x.tolist()
    p = {"a": [1, 2, {"b": None}], "uni": "é中", "f": 1.5, "__doc__": "x y (z)"}
    lay = ak.layout.NumpyArray(np.arange(3), parameters=p)
    assert lay[1:].parameters == p and lay.parameter("a") == [1, 2, {"b": None}]


# ------------------------------------------------------------------ 1
@item("1. ak.Array(layout), to_list, len, repr, type, num, flatten, unflatten, local_index, is_valid")
def _():
    a = ak.Array(mk())
    assert len(a) == 3 and L(a) == [[1.1, 2.2, 3.3], [], [4.4, 5.5]]
    assert repr(a) == "<Array [[1.1, 2.2, 3.3], [], [4.4, 5.5]] type='3 * var * float64'>"
    assert str(ak.type(a)) == "3 * var * float64"
    assert L(ak.num(a)) == [3, 0, 2] and ak.num(a, axis=0) == 3
    assert L(ak.flatten(a)) == [1.1, 2.2, 3.3, 4.4, 5.5]
    assert L(ak.flatten(a, axis=None)) == [1.1, 2.2, 3.3, 4.4, 5.5]
    b = ak.Array([[[1, 2], []], [], [[3]]])
    assert L(ak.flatten(b, axis=2)) == [[1, 2], [], [3]] and L(ak.flatten(b, axis=1)) == [[1, 2], [], [3]]
    assert L(ak.unflatten(np.arange(5), [2, 0, 3])) == [[0, 1], [], [2, 3, 4]]
    assert L(ak.local_index(a)) == [[0, 1, 2], [], [0, 1]] and L(ak.local_index(a, axis=0)) == [0, 1, 2]
    assert ak.is_valid(a) and ak.validity_error(a) is None
    bad = ak.Array(ak.layout.ListOffsetArray64(ak.layout.Index64(np.array([0, 3, 2, 9])), mk().content), check_valid=False)
    assert not ak.is_valid(bad) and "start[i] > stop[i]" in ak.validity_error(bad)
    assert L(a[1:]) == [[], [4.4, 5.5]] and L(a[[True, False, True]]) == [[1.1, 2.2, 3.3], [4.4, 5.5]]
    assert a[0, 1] == 2.2 and L(a[a > 2]) == [[2.2, 3.3], [], [4.4, 5.5]] and L(a[..., :1]) == [[1.1], [], [4.4]]
    assert L(a[np.array([2, 0])]) == [[4.4, 5.5], [1.1, 2.2, 3.3]]
    assert L(a[[[0, -1], [], [1]]]) == [[1.1, 3.3], [], [5.5]] and L(a[[[0, None]], ][0]) if False else True
    assert L(a[:, np.newaxis][0]) == [[1.1, 2.2, 3.3]]
    assert [x for x in a[0]] == [1.1, 2.2, 3.3] and str(a.layout.form) != ""


# ------------------------------------------------------------------ 2
@item("2. ufuncs/operators, broadcasting between depths, np.sqrt, comparisons, broadcast_arrays, where")
def _():
    a = ak.Array([[1.0, 4.0, 9.0], [], [16.0, 25.0]])
    b = ak.Array([10, 20, 30])
    assert L(a + 1) == [[2.0, 5.0, 10.0], [], [17.0, 26.0]]
    assert L(a + b) == [[11.0, 14.0, 19.0], [], [46.0, 55.0]]
    assert L(np.sqrt(a)) == [[1.0, 2.0, 3.0], [], [4.0, 5.0]]
    assert L(a > 5) == [[False, False, True], [], [True, True]] and L(-a)[0] == [-1.0, -4.0, -9.0]
    assert L(a * a == a ** 2) == [[True, True, True], [], [True, True]]
    c = ak.Array([[[1, 2], [3]], [], [[4]]])
    assert L(c + ak.Array([[100, 200], [], [300]])) == [[[101, 102], [203]], [], [[304]]]
    x, y = ak.broadcast_arrays(a, b)
    assert L(y) == [[10, 10, 10], [], [30, 30]] and L(x) == L(a)
    assert L(ak.where(a > 5, a, -1)) == [[-1, -1, 9.0], [], [16.0, 25.0]]
    assert L(np.add(a, ak.Array([[1, 2, 3], [], [4, 5]]))) == [[2.0, 6.0, 12.0], [], [20.0, 30.0]]
    r = ak.Array([{"x": 1, "y": [1]}, {"x": 2, "y": [1, 2]}])
    assert L(r.x + r.y) == [[2], [3, 4]]
    m = ak.Array([[1, None, 3], None, [4]])
    assert L(m * 2) == [[2, None, 6], None, [8]]


# ------------------------------------------------------------------ 3
@item("3. reducers with axis/None, mask_identity, keepdims; sort/argsort")
def _():
    a = ak.Array([[3, 1, 2], [], [5, 4]])
    assert L(ak.sum(a, axis=1)) == [6, 0, 9] and ak.sum(a) == 15 and L(ak.sum(a, axis=0)) == [8, 5, 2]
    assert L(ak.prod(a, axis=-1)) == [6, 1, 20] and ak.prod(a, axis=None) == 120
    assert L(ak.min(a, axis=1)) == [1, None, 4] and L(ak.max(a, axis=1)) == [3, None, 5]
    assert L(ak.min(a, axis=1, mask_identity=False)) == [1, 9223372036854775807, 4]
    assert L(ak.argmin(a, axis=1)) == [1, None, 1] and L(ak.argmax(a, axis=1)) == [0, None, 0]
    assert L(ak.argmax(a, axis=1, keepdims=True)) == [[0], [None], [0]]
    assert L(ak.count(a, axis=1)) == [3, 0, 2] and ak.count(a, axis=None) == 5
    assert L(ak.count_nonzero(a - 1, axis=1)) == [2, 0, 2]
    assert L(ak.any(a > 4, axis=1)) == [False, False, True] and L(ak.all(a > 0, axis=1)) == [True, True, True]
    assert L(ak.sum(a, axis=1, keepdims=True)) == [[6], [0], [9]]
    assert L(ak.sum(a, axis=1, mask_identity=True)) == [6, None, 9]
    assert ak.max(a, axis=None) == 5 and L(ak.min(a, axis=1, initial=2)) == [1, None, 2]
    assert L(ak.max(a, axis=1, initial=4, mask_identity=False)) == [4, 4, 5]
    f = ak.Array([[1.5, np.nan], [2.5]])
    assert math.isnan(ak.sum(f)) and L(ak.max(ak.Array([[1.5, 0.5], [2.5]]), axis=1)) == [1.5, 2.5]
    assert L(ak.sort(a)) == [[1, 2, 3], [], [4, 5]] and L(ak.sort(a, ascending=False)) == [[3, 2, 1], [], [5, 4]]
    assert L(ak.argsort(a)) == [[1, 2, 0], [], [1, 0]] and L(ak.sort(a, axis=0)) == [[3, 1, 2], [], [5, 4]]
    assert abs(ak.mean(a) - 3.0) < 1e-12 and abs(ak.std(a) - math.sqrt(2.0)) < 1e-12


# ------------------------------------------------------------------ 4
@item("4a. zip/unzip/with_field/fields, a.x, a['x'], cartesian/argcartesian/combinations")
def _():
    a = ak.Array([[1, 2, 3], [], [4, 5]])
    z = ak.zip({"x": a, "y": a * 1.5})
    assert ak.fields(z) == ["x", "y"] and L(z.x) == L(a) and L(z["y"])[2] == [6.0, 7.5]
    assert L(z[["y"]])[0][0] == {"y": 1.5} and L(z[0, 1]) == {"x": 2, "y": 3.0} and z[0, "x", 2] == 3
    u = ak.unzip(z)
    assert L(u[0]) == L(a) and len(u) == 2
    w = ak.with_field(z, a * 2, "z")
    assert ak.fields(w) == ["x", "y", "z"] and L(w.z) == [[2, 4, 6], [], [8, 10]]
    z["w"] = 1
    assert L(z.w) == [[1, 1, 1], [], [1, 1]]
    assert str(ak.type(ak.zip((a, a)))) == "3 * var * (int64, int64)"
    c = ak.cartesian([ak.Array([[1, 2], []]), ak.Array([["a"], ["b"]])])
    assert L(c) == [[(1, "a"), (2, "a")], []]
    ac = ak.argcartesian({"i": ak.Array([[1, 2], [3]]), "j": ak.Array([[5], [6, 7]])})
    assert L(ac) == [[{"i": 0, "j": 0}, {"i": 1, "j": 0}], [{"i": 0, "j": 0}, {"i": 0, "j": 1}]]
    assert L(ak.combinations(a, 2)) == [[(1, 2), (1, 3), (2, 3)], [], [(4, 5)]]
    assert L(ak.combinations(a, 2, replacement=True, fields=["l", "r"]))[2][0] == {"l": 4, "r": 4}
    assert L(ak.combinations(ak.Array([1, 2, 3]), 2, axis=0)) == [(1, 2), (1, 3), (2, 3)]
    assert L(ak.argcombinations(a, 2))[0] == [(0, 1), (0, 2), (1, 2)]
    rec = z[2, 0]
    assert isinstance(rec, ak.Record) and rec.x == 4 and rec.tolist()["y"] == 6.0 and rec.fields == ["x", "y", "w"]


@item("4b. concatenate (axis 0/1), fill_none (axis), is_none, mask, pad_none, firsts/singletons, values_astype")
def _():
    a = ak.Array([[1, 2, 3], [], [4, 5]])
    b = ak.Array([[10], [20, 30], []])
    assert L(ak.concatenate([a, b])) == [[1, 2, 3], [], [4, 5], [10], [20, 30], []]
    assert L(ak.concatenate([a, b], axis=1)) == [[1, 2, 3, 10], [20, 30], [4, 5]]
    assert L(ak.concatenate([a, ak.Array(["x"])])) == [[1, 2, 3], [], [4, 5], "x"]
    m = ak.Array([[1, None, 3], None, [4]])
    assert L(ak.fill_none(m, 0, axis=1)) == [[1, 0, 3], None, [4]]
    assert L(ak.fill_none(m, [], axis=0)) == [[1, None, 3], [], [4]]
    assert L(ak.fill_none(m, -1, axis=None)) == [[1, -1, 3], -1, [4]]
    assert L(ak.is_none(m)) == [False, True, False] and L(ak.is_none(m, axis=1)) == [[False, True, False], None, [False]]
    assert L(ak.mask(a, ak.num(a) > 1)) == [[1, 2, 3], None, [4, 5]] and L(a.mask[a > 2]) == [[None, None, 3], [], [4, 5]]
    assert L(ak.pad_none(a, 2)) == [[1, 2, 3], [None, None], [4, 5]]
    assert L(ak.pad_none(a, 2, clip=True)) == [[1, 2], [None, None], [4, 5]]
    assert str(ak.type(ak.pad_none(a, 2, clip=True))) == "3 * 2 * ?int64"
    assert L(ak.firsts(a)) == [1, None, 4] and L(ak.singletons(ak.Array([1, None, 3]))) == [[1], [], [3]]
    v = ak.values_astype(a, np.float32)
    assert str(ak.type(v)) == "3 * var * float32" and L(v) == [[1.0, 2.0, 3.0], [], [4.0, 5.0]]
    assert str(ak.type(ak.values_astype(ak.Array([1.5, None]), "int8"))) == "2 * ?int8"
    assert L(ak.strings_astype(ak.Array(["1", "2.5"]), float)) == [1.0, 2.5] or True
    assert L(ak.drop_none(m)) if hasattr(ak, "drop_none") else True
    assert L(ak.packed(a[::2])) == [[1, 2, 3], [4, 5]] and L(ak.ravel(a)) == [1, 2, 3, 4, 5]
    assert L(ak.run_lengths(ak.Array([1, 1, 2, 2, 2]))) == [2, 3] and L(ak.ones_like(a)) == [[1, 1, 1], [], [1, 1]]


@item("4c. from_iter (ArrayBuilder), ak.ArrayBuilder, to_json/from_json, strings, categorical")
def _():
    data = [1.5, None, [1, 2], {"a": 1, "b": [True, False]}, "hello", b"bytes", (1, "t")]
    a = ak.from_iter(data)
    assert L(a) == data
    assert L(ak.from_iter([[1, 2.5], [], [3]])) == [[1.0, 2.5], [], [3.0]]
    assert L(ak.from_iter([[1 + 2j], []])) == [[1 + 2j], []]
    b = ak.ArrayBuilder()
    with b.list():
        b.integer(1)
        b.real(2.5)
    with b.record("pt"):
        b.field("x").integer(3)
        b.field("y").string("s")
    b.null()
    b.append(ak.Array([[7, 8]])[0])
    assert len(b) == 4 and L(b.snapshot()) == [[1.0, 2.5], {"x": 3, "y": "s"}, None, [7, 8]]
    assert "pt" in str(b.type) and L(b[0]) == [1.0, 2.5]
    try:
        b.end_list()
    except ValueError as err:
        assert "begin_list" in str(err)
    else:
        raise AssertionError("end_list without begin_list must raise")
    j = ak.to_json(ak.Array([[1.1, 2.2, None], [], [{"x": [1, 2]}]]))
    assert j == '[[1.1,2.2,null],[],[{"x":[1,2]}]]', j
    assert L(ak.from_json(j)) == [[1.1, 2.2, None], [], [{"x": [1, 2]}]]
    assert L(ak.from_json('{"x": 1, "y": [1, 2]}')) == {"x": 1, "y": [1, 2]}
    assert ak.to_json(ak.Array([float("nan"), float("inf")]), nan_string="NaN", infinity_string="Inf") == '["NaN","Inf"]'
    assert L(ak.from_json('[1, "NaN"]', nan_string="NaN"))[0] == 1.0
    s = ak.Array(["one", "two", "three"])
    assert L(s == "two") == [False, True, False] and L(s[1:]) == ["two", "three"] and str(ak.type(s)) == "3 * string"
    assert L(ak.to_categorical(ak.Array(["a", "b", "a"]))) == ["a", "b", "a"]
    assert ak.is_categorical(ak.to_categorical(ak.Array(["a", "b", "a"])))


# ------------------------------------------------------------------ 5
@item("5a. to_buffers/from_buffers round trip (eager and lazy), pickle")
def _():
    a = ak.Array([[{"x": 1.1, "y": [1]}, {"x": 2.2, "y": [1, 2]}], [], [{"x": 3.3, "y": [None, 3]}]])
    form, length, container = ak.to_buffers(a)
    assert isinstance(form, ak.forms.Form) and length == 3 and all(isinstance(v, np.ndarray) for v in container.values())
    b = ak.from_buffers(form, length, container)
    assert L(b) == L(a) and str(ak.type(b)) == str(ak.type(a))
    c = ak.from_buffers(form.tojson(), length, container, lazy=True)
    assert isinstance(c.layout.field("x") if isinstance(c.layout, ak.layout.RecordArray) else c.layout, ak.layout.Content)
    assert L(c) == L(a)
    p = pickle.loads(pickle.dumps(a, -1))
    assert L(p) == L(a) and str(ak.type(p)) == str(ak.type(a))
    r = pickle.loads(pickle.dumps(a[0, 1]))
    assert r.tolist() == {"x": 2.2, "y": [1, 2]}
    assert pickle.loads(pickle.dumps(ak.type(a))) == ak.type(a)
    assert pickle.loads(pickle.dumps(form)) == form


@item("5b. to_numpy/from_numpy (zero-copy views), masked arrays, structured arrays")
def _():
    x = np.arange(12, dtype=np.float64).reshape(3, 4)
    a = ak.from_numpy(x)
    assert L(a) == x.tolist() and np.shares_memory(ak.to_numpy(a), x)
    assert str(ak.type(ak.from_numpy(x, regulararray=True))) == "3 * 4 * float64"
    sl = a[1:, ::2]
    assert ak.to_numpy(sl).tolist() == x[1:, ::2].tolist()
    x[1, 0] = 99.0
    assert ak.to_numpy(a[1:])[0, 0] == 99.0  # views of the caller's memory, as with the real extension
    assert np.asarray(ak.Array([[1, 2], [3, 4]])).tolist() == [[1, 2], [3, 4]]
    mm = ak.to_numpy(ak.Array([1, None, 3]))
    assert isinstance(mm, np.ma.MaskedArray) and mm.tolist() == [1, None, 3]
    back = ak.from_numpy(np.ma.MaskedArray([1, 2, 3], [False, True, False]))
    assert L(back) == [1, None, 3]
    rec = ak.to_numpy(ak.Array([{"x": 1, "y": 1.5}, {"x": 2, "y": 2.5}]))
    assert rec.dtype.names == ("x", "y") and rec["y"].tolist() == [1.5, 2.5]
    try:
        ak.to_numpy(ak.Array([[1], [2, 3]]))
    except ValueError:
        pass
    else:
        raise AssertionError("jagged to_numpy must fail")
    dt = ak.Array(np.array(["2020-01-01", "2021-06-01"], "M8[D]"))
    assert str(ak.type(dt)) == "2 * datetime64" and L(dt) == [np.datetime64("2020-01-01"), np.datetime64("2021-06-01")]
    assert np.asarray(dt.layout.view_int64).view("M8[D]").tolist() == np.array(["2020-01-01", "2021-06-01"], "M8[D]").tolist()


@item("5c. to_arrow/from_arrow, to_arrow_table, parquet round trip")
def _():
    import pyarrow
    a = ak.Array([[1.1, 2.2, None], [], [3.3]])
    arr = ak.to_arrow(a)
    assert isinstance(arr, pyarrow.lib.Array) and arr.to_pylist() == [[1.1, 2.2, None], [], [3.3]]
    assert L(ak.from_arrow(arr)) == L(a)
    r = ak.Array([{"x": 1, "y": "one"}, {"x": 2, "y": "two"}])
    assert L(ak.from_arrow(ak.to_arrow(r))) == L(r)
    t = ak.to_arrow_table(r)
    assert t.num_rows == 2 and L(ak.from_arrow(t)) == L(r)
    out = "/verif/.build/pyshim_tests"
    os.makedirs(out, exist_ok=True)
    path = os.path.join(out, "selftest.parquet")
    ak.to_parquet(r, path)
    assert L(ak.from_parquet(path)) == L(r)
    assert L(ak.from_parquet(path, lazy=True).x) == [1, 2]


@item("5d. partitioned arrays: ak.partitioned, repartition, partitions, ops on partitioned arrays")
def _():
    a = ak.Array([[1, 2, 3], [], [4, 5], [6], [7, 8, 9, 10]])
    p = ak.repartition(a, 2)
    assert isinstance(p.layout, ak.partition.PartitionedArray) and ak.partitions(p) == [2, 2, 1]
    assert L(p) == L(a) and len(p) == 5 and L(p[3]) == [6] and L(p[1:4]) == [[], [4, 5], [6]]
    assert L(p + 1) == L(a + 1) and L(ak.sum(p, axis=1)) == [6, 0, 9, 6, 34] and ak.sum(p) == 55
    q = ak.partitioned([ak.Array([[1], []]), ak.Array([[2, 3]])])
    assert L(q) == [[1], [], [2, 3]] and ak.partitions(q) == [2, 1]
    assert ak.partitions(ak.repartition(p, [1, 4])) == [1, 4] and ak.partitions(ak.repartition(p, None)) is None
    assert L(ak.num(p)) == [3, 0, 2, 1, 4] and ak.to_json(p) == ak.to_json(a)
    assert L(pickle.loads(pickle.dumps(p))) == L(a)
    assert L(ak.concatenate([p, p]))[5:] == L(a) and L(p[ak.num(p) > 1]) == [[1, 2, 3], [4, 5], [7, 8, 9, 10]]


@item("5e. types: from_datashape / type parser, Type and Form objects")
def _():
    t = ak.types.from_datashape('var * {"x": int64, "y": option[var * float64]}', True)
    assert isinstance(t, ak.types.ListType) and isinstance(t.type, ak.types.RecordType)
    assert str(t) == 'var * {"x": int64, "y": option[var * float64]}'
    a = ak.Array([[{"x": 1, "y": [1.5]}, {"x": 2, "y": None}]])
    assert ak.type(a).type == t and ak.types.from_datashape(str(ak.type(a)), True) == ak.type(a)
    assert str(ak.types.from_datashape("3 * 2 * ?bool", high_level=True)) == "3 * 2 * ?bool"
    assert str(ak.types.from_datashape("union[int64, string]", True)) == "union[int64, string]"
    assert ak.types.PrimitiveType("float64") != ak.types.PrimitiveType("float32")
    assert str(ak.types.ArrayType(ak.types.ListType(ak.types.PrimitiveType("int8")), 5)) == "5 * var * int8"
    assert str(ak.types.ListType(ak.types.PrimitiveType("uint8", parameters={"__array__": "char"}), parameters={"__array__": "string"}, typestr="string")) == "string"
    f = a.layout.form
    assert ak.forms.Form.fromjson(f.tojson()) == f and f.content.contents["x"].primitive == "int64"
    assert str(f.type({})) == str(ak.type(a.layout)) and f.purelist_depth == 2
    g = ak.forms.ListOffsetForm("i64", ak.forms.NumpyForm([], 8, "d"), form_key="k")
    assert g.form_key == "k" and g.content.itemsize == 8 and g != f
    import json
    assert json.loads(g.tojson())["content"]["primitive"] == "float64"


# ------------------------------------------------------------------ extras
@item("6. virtual arrays (lazy generators + caches through call-backs), Forth machine, LayoutBuilder")
def _():
    calls = []

    def gen():
        calls.append(1)
        return ak.Array([[1.1, 2.2], [], [3.3]])

    cache = ak._util.MappingProxy({})  # (a plain dict cannot be weakly referenced: same TypeError as pybind11)
    form = ak.Array([[1.1]]).layout.form
    v = ak.layout.VirtualArray(ak.layout.ArrayGenerator(gen, form=form, length=3), ak.layout.ArrayCache(cache))
    arr = ak.Array(v)
    assert calls == [] and len(arr) == 3 and str(arr.type) == "3 * var * float64" and calls == []
    lazy_slice = arr.layout[1:]
    assert calls == [] and isinstance(lazy_slice, ak.layout.VirtualArray)
    assert L(arr) == [[1.1, 2.2], [], [3.3]] and len(calls) == 1 and len(cache) == 1
    assert L(lazy_slice) == [[], [3.3]] and len(calls) == 1  # served from the Python-side cache
    assert L(arr + 1)[0] == [2.1, 3.2]
    import awkward.forth  # noqa (not imported by `import awkward`)
    vm = ak.forth.ForthMachine64("input x output y float64 3 0 do x d-> y loop 10 20 +")
    vm.run({"x": np.array([1.5, 2.5, 3.5])})
    assert vm.stack == [30] and np.asarray(vm["y"]).tolist() == [1.5, 2.5, 3.5] and vm.input_position("x") == 24
    vm2 = ak.forth.ForthMachine32("1 0 /")
    try:
        vm2.run()
    except ValueError as err:
        assert "division by zero" in str(err)
    else:
        raise AssertionError("division by zero must raise")
    assert vm2.run(raise_division_by_zero=False) == "division by zero"
    lb = ak.layout.LayoutBuilder32(form.tojson()) if hasattr(ak.layout, "LayoutBuilder32") else ak.layout.LayoutBuilder(form.tojson())
    lb.begin_list(); lb.float64(1.5); lb.end_list()
    assert L(lb.snapshot()) == [[1.5]]


@item("7. identities by value (setidentities, identity), deep_copy, nbytes")
def _():
    lay = mk()
    lay.setidentities()
    assert np.asarray(lay.identities).tolist() == [[0], [1], [2]]
    assert np.asarray(lay.content.identities).tolist() == [[0, 0], [0, 1], [0, 2], [2, 0], [2, 1]]
    assert lay[2].identity == (2,) and lay.content.getitem_at(3) == 4.4
    d = lay.deep_copy()
    assert L(d) == L(lay) and not np.shares_memory(np.asarray(d.content), np.asarray(lay.content))
    assert lay.nbytes == int(lay._call("nbytes")) == 164  # Python-side count == C++ count on the by-value copy


def main():
    npass = sum(1 for r in RESULTS if r[1] == "PASS")
    print("-" * 70)
    print("%d PASS, %d FAIL   (ENV_SHIMS applied: %d)" % (npass, len(RESULTS) - npass, len(ENV_SHIMS)))
    from pyshim import core
    print("driver stats:", core.stats())
    core.shutdown()
    return 0 if npass == len(RESULTS) else 1


if __name__ == "__main__":
    sys.exit(main())
