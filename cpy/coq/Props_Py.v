(** Property theorems about the PYTHON-layer specifications (PySpec.v) of C03 C05 C07 C08 C09 C10.
    Only [Theorem .. Proof. exact lemma. Qed.] + [Print Assumptions]; an [Example] beside each shows that the
    hypotheses are satisfiable / what the statement says on a concrete array. *)
From Coq Require Import ZArith List Bool Lia.
From AwkV Require Import Base Layout Valid Types AtAxis Ops_Struct Ops_Flatten Ops_Option Ops_Reduce
  Ops_Getitem Ops_Fields.
From AwkPy Require Import PySpec Proofs_Py.
Import ListNotations.
Open Scope Z_scope.

Definition i64 (z : Z) : value := VNum (DZ z).
Definition tint : ty := TNum DInt64.

(* ====================================================================== C05 *)
(* unflatten(flatten(x), num(x)) = x with the default axes (flatten axis=1, num axis=1, unflatten axis=0), for
   every array x of lists - missing lists included (they contribute nothing to flatten, their count is None and
   unflatten gives None back).  No bound on sizes; the element type [te] is arbitrary. *)
Theorem unflatten_flatten : forall sz te (ls : list (option (list value))) f c,
  let t := TOpt (TList sz None te) in
  let x := map olist ls in
  spec_flatten (Some 1) t x = Ok (VList f) ->
  spec_num 1 t x = Ok (VList c) ->
  spec_unflatten 0 te f (CArr (TOpt (TNum DInt64)) c) = Ok (VList x).
Proof. exact unflatten_flatten_lemma. Qed.
Print Assumptions unflatten_flatten.
Example unflatten_flatten_ex :
  let x := [VList [i64 1; i64 2]; VNone; VList []; VList [i64 3]] in
  spec_flatten (Some 1) (TOpt (TList None None tint)) x = Ok (VList [i64 1; i64 2; i64 3]) /\
  spec_num 1 (TOpt (TList None None tint)) x = Ok (VList [i64 2; VNone; i64 0; i64 1]) /\
  spec_unflatten 0 tint [i64 1; i64 2; i64 3] (CArr (TOpt tint) [i64 2; VNone; i64 0; i64 1]) = Ok (VList x).
Proof. vm_compute. repeat split. Qed.

Theorem unflatten_flatten_plain : forall sz te (ls : list (list value)) f c,
  let t := TList sz None te in
  let x := map VList ls in
  spec_flatten (Some 1) t x = Ok (VList f) ->
  spec_num 1 t x = Ok (VList c) ->
  spec_unflatten 0 te f (CArr (TNum DInt64) c) = Ok (VList x).
Proof. exact unflatten_flatten_plain_lemma. Qed.
Print Assumptions unflatten_flatten_plain.

(* flatten(axis=None) of an array of lists = flatten(axis=None) of the concatenation of the lists (in order) *)
Theorem flatten_none_app : forall sz te (ls : list (list value)),
  leaves_l (TList sz None te) (map VList ls) = leaves_l te (concat ls).
Proof. exact flatten_none_app_lemma. Qed.
Print Assumptions flatten_none_app.
Example flatten_none_ex :
  spec_flatten_none (TList None None (TOpt (TList None None tint)))
    [VList [VList [i64 1; i64 2]; VNone]; VList []; VList [VList [i64 3]]] = Ok (VList [i64 1; i64 2; i64 3]).
Proof. reflexivity. Qed.

(* ====================================================================== C03 *)
(* ak.<reducer>(x, axis=None) = the reducer applied to all leaves of ak.flatten(x, axis=None) *)
Theorem reduce_none_is_reduce_of_flatten : forall r t vs dt ls,
  single_dt (leaf_dts t) = Some dt ->
  (match r with RArgmin | RArgmax => has_rec t = false | _ => True end) ->
  spec_flatten_none t vs = Ok (VList ls) ->
  spec_reduce_none r t vs = (do zs <- mapM leaf_int ls; reduce_leaves r dt zs).
Proof. exact reduce_none_is_reduce_of_flatten_lemma. Qed.
Print Assumptions reduce_none_is_reduce_of_flatten.
Example reduce_none_ex :
  spec_reduce_none RSum (TList None None (TOpt tint)) [VList [i64 1; VNone]; VList []; VList [i64 5]] = Ok (i64 6) /\
  spec_reduce_none RMax (TList None None tint) [VList []] = Ok VNone /\
  spec_reduce_none RArgmax (TList None None tint) [VList [i64 3; i64 9]; VList [i64 9]] = Ok (i64 1).
Proof. vm_compute. repeat split. Qed.

(* ====================================================================== C07 *)
(* ak.cartesian(arrays, axis=0): exactly the tuples of itertools.product, in its order *)
Theorem cartesian_is_product : forall (a0 : arr) (arrs : list arr),
  spec_cartesian 0 NNone None (a0 :: arrs) = Ok (VList (map VTup (product (map snd (a0 :: arrs))))).
Proof. exact cartesian_is_product_lemma. Qed.
Print Assumptions cartesian_is_product.
Example cartesian_ex :
  spec_cartesian 0 NNone None [(tint, [i64 1; i64 2]); (tint, [i64 7; i64 8; i64 9])] =
  Ok (VList [VTup [i64 1; i64 7]; VTup [i64 1; i64 8]; VTup [i64 1; i64 9];
             VTup [i64 2; i64 7]; VTup [i64 2; i64 8]; VTup [i64 2; i64 9]]).
Proof. reflexivity. Qed.

(* per entry (any axis): the number of tuples is the product of the list lengths *)
Theorem cartesian_length : forall (ls : list (list value)) out,
  cart_entry None [] (map Some ls) = Ok (VList out) ->
  length out = fold_right Nat.mul 1%nat (map (@length value) ls).
Proof. exact cartesian_length_lemma. Qed.
Print Assumptions cartesian_length.

(* element (i, j) of the product of two lists is (a_i, b_j): position i * len(b) + j *)
Theorem cartesian_pair_index : forall (a b : list value) (d : value) i j,
  (i < length a)%nat -> (j < length b)%nat ->
  nth (i * length b + j) (product [a; b]) [] = [nth i a d; nth j b d].
Proof. exact (@product_pair_nth value). Qed.
Print Assumptions cartesian_pair_index.

(* nested=True: one inner list per element of the first list *)
Theorem cartesian_nested_pair : forall (a b : list value),
  cart_entry None [0] [Some a; Some b] = Ok (VList (map (fun x => VList (map (fun y => VTup [x; y]) b)) a)).
Proof. exact cartesian_nested_pair_lemma. Qed.
Print Assumptions cartesian_nested_pair.
Example cartesian_axis1_ex :
  spec_cartesian 1 NAll None [(TList None None tint, [VList [i64 1; i64 2]; VList []]);
                              (TList None None tint, [VList [i64 7]; VList [i64 8]])] =
  Ok (VList [VList [VList [VTup [i64 1; i64 7]]; VList [VTup [i64 2; i64 7]]]; VList []]).
Proof. reflexivity. Qed.

(* ====================================================================== C08 *)
(* ak.concatenate(arrays, axis=0) = the elements of the first array followed by those of the others *)
Theorem concat_axis0_app : forall (a0 : arr) (arrs : list arr),
  existsb has_union (map fst (a0 :: arrs)) = false ->
  mixes_bool_num (map fst (a0 :: arrs)) = false ->
  0 < fold_right (fun t m => Z.max (snd (minmax t)) m) 0 (map fst (a0 :: arrs)) ->
  spec_concat_axis 0 (a0 :: arrs) = Ok (VList (concat (map snd (a0 :: arrs)))).
Proof. exact concat_axis0_app_lemma. Qed.
Print Assumptions concat_axis0_app.
Example concat_axis0_ex :
  spec_concat_axis 0 [(tint, [i64 1; i64 2]); (TOpt tint, [VNone]); (tint, [i64 3])] =
  Ok (VList [i64 1; i64 2; VNone; i64 3]).
Proof. reflexivity. Qed.

(* ak.concatenate(arrays, axis=1) concatenates corresponding lists: every element kept, in order *)
Theorem concat_axis1_zipapp : forall sz te (xs ys : list (list value)),
  length xs = length ys ->
  has_union te = false -> has_empty_rec te = false ->
  mixes_bool_num [TList sz None te; TList sz None te] = false ->
  1 <= snd (minmax te) ->
  spec_concat_axis 1 [(TList sz None te, map VList xs); (TList sz None te, map VList ys)] =
  Ok (VList (map (fun p : list value * list value => VList (fst p ++ snd p)) (zip xs ys))).
Proof. exact concat_axis1_zipapp_lemma. Qed.
Print Assumptions concat_axis1_zipapp.
Example concat_axis1_ex :
  spec_concat_axis 1 [(TList None None tint, [VList [i64 1; i64 2]; VList []]);
                      (TList None None tint, [VList [i64 9]; VList [i64 8; i64 7]])] =
  Ok (VList [VList [i64 1; i64 2; i64 9]; VList [i64 8; i64 7]]).
Proof. reflexivity. Qed.
(* ... so the length of every output list is the sum of the lengths of the input lists *)
Theorem concat_axis1_lengths : forall (xs ys : list (list value)),
  map (fun p : list value * list value => zlen (fst p ++ snd p)) (zip xs ys) =
  map (fun p : list value * list value => zlen (fst p) + zlen (snd p)) (zip xs ys).
Proof. exact concat_axis1_lengths. Qed.
Print Assumptions concat_axis1_lengths.
(* arrays of different lengths cannot be concatenated along axis 1 *)
Example concat_axis1_mismatch_ex :
  spec_concat_axis 1 [(TList None None tint, [VList [i64 1]; VList []; VList []]);
                      (TList None None tint, [VList [i64 9]; VList []])] = Err EValue.
Proof. reflexivity. Qed.

(* ====================================================================== C09 *)
Theorem is_none_exact : forall t vs,
  is_union t = false ->
  spec_is_none 0 t vs = Ok (VList (map (fun v => VBool (is_none v)) vs)).
Proof. exact is_none_exact_lemma. Qed.
Print Assumptions is_none_exact.
(* ... also through a union, whose alternatives may carry the missing values (option below the union), at the
   outermost level and one level down (a missing list stays missing) *)
Theorem is_none_union_exact : forall ts vs,
  spec_is_none 0 (TUnion ts) vs = Ok (VList (map (fun v => VBool (is_none v)) vs)).
Proof. exact is_none_union_exact_lemma. Qed.
Print Assumptions is_none_union_exact.
Theorem is_none_union_axis1 : forall ts (ls : list (option (list value))),
  spec_is_none 1 (TUnion ts) (map (fun o => match o with Some l => VList l | None => VNone end) ls) =
  Ok (VList (map (fun o => match o with
                           | Some l => VList (map (fun v => VBool (is_none v)) l)
                           | None => VNone
                           end) ls)).
Proof. exact is_none_union_axis1_lemma. Qed.
Print Assumptions is_none_union_axis1.
Theorem is_none_exact_axis1 : forall sz te (ls : list (list value)),
  spec_is_none 1 (TList sz None te) (map VList ls) =
  Ok (VList (map (fun l => VList (map (fun v => VBool (is_none v)) l)) ls)).
Proof. exact is_none_exact_axis1_lemma. Qed.
Print Assumptions is_none_exact_axis1.
Example is_none_ex :
  spec_is_none 1 (TOpt (TList None None (TOpt tint))) [VList [i64 1; VNone]; VNone; VList []] =
  Ok (VList [VList [VBool false; VBool true]; VNone; VList []]).
Proof. reflexivity. Qed.

(* ak.mask(x, m, valid_when): None exactly where m differs from valid_when, everything else unchanged *)
Theorem mask_exact : forall vw ta (xs : list value) (ms : list bool),
  has_union ta = false ->
  length xs = length ms ->
  spec_mask vw ta xs (TNum DBool) (map VBool ms) =
  Ok (VList (map (fun p : value * bool => if Bool.eqb (snd p) vw then fst p else VNone) (zip xs ms))).
Proof. exact mask_exact_lemma. Qed.
Print Assumptions mask_exact.
(* a mask with the structure of the array (lists of booleans of the same lengths) *)
Theorem mask_exact_lists : forall vw ta' (xss : list (list value)) (mss : list (list bool)),
  has_union ta' = false ->
  Forall2 (fun xs ms => length xs = length ms) xss mss ->
  spec_mask vw (TList None None ta') (map VList xss) (TList None None (TNum DBool))
            (map (fun ms => VList (map VBool ms)) mss) =
  Ok (VList (map (fun p : list value * list bool =>
                    VList (map (fun q : value * bool => if Bool.eqb (snd q) vw then fst q else VNone) (zip (fst p) (snd p))))
                 (zip xss mss))).
Proof. exact mask_exact_lists_lemma. Qed.
Print Assumptions mask_exact_lists.
Example mask_ex :
  spec_mask true (TList None None tint) [VList [i64 1]; VList []; VList [i64 2]]
            (TNum DBool) [VBool true; VBool false; VBool true] = Ok (VList [VList [i64 1]; VNone; VList [i64 2]]) /\
  spec_mask false (TList None None tint) [VList [i64 1; i64 2]; VList [i64 3]]
            (TList None None (TNum DBool)) [VList [VBool true; VBool false]; VList [VBool false]]
  = Ok (VList [VList [VNone; i64 2]; VList [i64 3]]).
Proof. vm_compute. split; reflexivity. Qed.

(* ak.fill_none(x, v, axis): exactly the None entries at that level are replaced *)
Theorem fill_none_exact : forall dt v0 vs,
  is_bool_dt dt = false ->
  spec_fill_none (FAxis 0) v0 (TOpt (TNum dt)) vs = Ok (VList (map (fun v => if is_none v then v0 else v) vs)).
Proof. exact fill_none_exact_lemma. Qed.
Print Assumptions fill_none_exact.
Theorem fill_none_exact_axis1 : forall sz dt v0 (ls : list (list value)),
  is_bool_dt dt = false ->
  spec_fill_none (FAxis 1) v0 (TList sz None (TOpt (TNum dt))) (map VList ls) =
  Ok (VList (map (fun l => VList (map (fun v => if is_none v then v0 else v) l)) ls)).
Proof. exact fill_none_exact_axis1_lemma. Qed.
Print Assumptions fill_none_exact_axis1.
Example fill_none_ex :
  spec_fill_none (FAxis 1) (i64 9) (TOpt (TList None None (TOpt tint))) [VList [i64 1; VNone]; VNone]
  = Ok (VList [VList [i64 1; i64 9]; VNone]) /\
  spec_fill_none (FAxis 0) (i64 9) (TOpt (TList None None (TOpt tint))) [VList [i64 1; VNone]; VNone]
  = Ok (VList [VList [i64 1; VNone]; i64 9]).
Proof. vm_compute. split; reflexivity. Qed.

(* ak.firsts(ak.singletons(x)) = x for every option-type array x *)
Theorem firsts_singletons : forall t' vs, spec_firsts_singletons (TOpt t') vs = Ok (VList vs).
Proof. exact firsts_singletons_lemma. Qed.
Print Assumptions firsts_singletons.
Example firsts_singletons_ex :
  spec_singletons (TOpt tint) [i64 1; VNone; i64 3] = Ok (VList [VList [i64 1]; VList []; VList [i64 3]]) /\
  spec_firsts 1 (TList None None tint) [VList [i64 1]; VList []; VList [i64 3]] = Ok (VList [i64 1; VNone; i64 3]).
Proof. vm_compute. split; reflexivity. Qed.

(* ====================================================================== C10 *)
(* unzip(zip(fields)) = fields.  FRAGMENT: zip building its records at the outermost level (depth_limit = 1; the
   fields may have any structure, equal or not).  Not proved: zipping below the first level of equally
   structured nested lists (that case is covered by the correspondence only). *)
Theorem unzip_zip_partial : forall n (fields : option (list name)) (arrs : list arr),
  arrs <> [] ->
  all_len n (map snd arrs) ->
  existsb is_union (map fst arrs) = false ->
  fields_ok (zlen arrs) fields = true ->
  spec_unzip_zip (Some 1) fields arrs = Ok (VTup (map (fun a : arr => VList (snd a)) arrs)).
Proof. exact unzip_zip_partial_lemma. Qed.
Print Assumptions unzip_zip_partial.
(* ... and for fields that are lists of leaves with equal list lengths row by row, where zip goes one level down
   and builds one record per element (depth_limit=None).  [aligned_row]: the k lists of a row have one length. *)
Theorem unzip_zip_lists : forall n (fields : option (list name)) (arrs : list arr),
  arrs <> [] ->
  all_len n (map snd arrs) ->
  Forall leaf_list_ty (map fst arrs) ->
  fields_ok (zlen arrs) fields = true ->
  Forall aligned_row (transpose_n n (map snd arrs)) ->
  spec_unzip_zip None fields arrs = Ok (VTup (map (fun a : arr => VList (snd a)) arrs)).
Proof. exact unzip_zip_lists_lemma. Qed.
Print Assumptions unzip_zip_lists.
Example unzip_zip_ex :
  spec_unzip_zip None (Some [[120]; [121]])
    [(TList None None tint, [VList [i64 1; i64 2]; VList []]); (TList None None tint, [VList [i64 5; i64 6]; VList []])]
  = Ok (VTup [VList [VList [i64 1; i64 2]; VList []]; VList [VList [i64 5; i64 6]; VList []]]) /\
  spec_zip None (Some [[120]; [121]])
    [(TList None None tint, [VList [i64 1; i64 2]; VList []]); (tint, [i64 5; i64 6])]
  = Ok (VList [VList [VRec [([120], i64 1); ([121], i64 5)]; VRec [([120], i64 2); ([121], i64 5)]]; VList []]).
Proof. vm_compute. split; reflexivity. Qed.

(* with_field(base, what, k) on an array of records with distinct keys [ks]: reading k gives what ... *)
Theorem with_field_get_same : forall k ks ts tw (rows : list (list (name * value))) (ws : list value),
  existsb has_union ts = false -> has_union tw = false ->
  records_of ks rows -> NoDup ks -> zlen ts = zlen ks -> length rows = length ws ->
  spec_get_with_field [k] (TRec (Some ks) ts) (map VRec rows) (WArr tw ws) = Ok (VList ws).
Proof. exact with_field_get_same_lemma. Qed.
Print Assumptions with_field_get_same.

(* ... every other field reads as before ... *)
Theorem with_field_get_other : forall k k' ks ts tw (rows : list (list (name * value))) (ws : list value) out t',
  existsb has_union ts = false -> has_union tw = false ->
  records_of ks rows -> zlen ts = zlen ks -> length rows = length ws ->
  k' <> k -> In k' ks ->
  with_field_path [k] (TRec (Some ks) ts) (map VRec rows) (WArr tw ws) = Ok (t', out) ->
  mapM (proj_v k' t') out = mapM (proj_v k' (TRec (Some ks) ts)) (map VRec rows).
Proof. exact with_field_get_other_lemma. Qed.
Print Assumptions with_field_get_other.

(* ... and the number of records and the field names (the others in their order, then k) are as stated *)
Theorem with_field_preserves_shape : forall k ks ts tw (rows : list (list (name * value))) (ws : list value) out t',
  existsb has_union ts = false -> has_union tw = false ->
  records_of ks rows -> zlen ts = zlen ks -> length rows = length ws ->
  with_field_path [k] (TRec (Some ks) ts) (map VRec rows) (WArr tw ws) = Ok (t', out) ->
  length out = length rows /\
  Forall (fun v => exists fs, v = VRec fs /\ map fst fs = remove_name k ks ++ [k]) out.
Proof. exact with_field_preserves_shape_lemma. Qed.
Print Assumptions with_field_preserves_shape.
(* with_field on an array of LISTS of records keeps the enclosing list structure: same number of lists, every list
   keeps its length, record (i, j) gets what[i][j] as field k, its other fields stay *)
Theorem with_field_preserves_lists : forall k ks ts tw
        (rows : list (list (list (name * value)))) (wss : list (list value)),
  existsb has_union ts = false -> has_union tw = false ->
  Forall (records_of ks) rows -> zlen ts = zlen ks ->
  Forall2 (fun fss ws => length fss = length ws) rows wss ->
  spec_with_field [k] (TList None None (TRec (Some ks) ts)) (map (fun fss => VList (map VRec fss)) rows)
                  (WArr (TList None None tw) (map VList wss)) =
  Ok (VList (map (fun p : list (list (name * value)) * list value =>
                    VList (map (fun q : list (name * value) * value => VRec (remove_key k (fst q) ++ [(k, snd q)]))
                               (zip (fst p) (snd p))))
                 (zip rows wss))).
Proof. exact with_field_preserves_lists_lemma. Qed.
Print Assumptions with_field_preserves_lists.
Example with_field_ex :
  spec_with_field [[121]] (TList None None (TRec (Some [[120]; [121]]) [tint; tint]))
     [VList [VRec [([120], i64 1); ([121], i64 0)]; VRec [([120], i64 2); ([121], i64 0)]]; VList []]
     (WArr (TList None None tint) [VList [i64 10; i64 20]; VList []])
  = Ok (VList [VList [VRec [([120], i64 1); ([121], i64 10)]; VRec [([120], i64 2); ([121], i64 20)]]; VList []]).
Proof. reflexivity. Qed.
