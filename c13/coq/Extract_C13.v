(** Extraction of the kernel models (ExtrOcamlBasic only; Z stays inductive). *)
From Coq Require Import Extraction ExtrOcamlBasic ZArith.
From AwkKernels Require Import Kernels Kernels2.
Extraction Language OCaml.
Extraction "kmodel.ml" run run2 Z.add Z.mul Z.sub Z.div Z.modulo Z.opp.
