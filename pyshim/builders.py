# ArrayBuilder / LayoutBuilder substitutes: the C++ object lives in the driver; a command log makes it
# re-creatable in another driver process (after a crash, or inside a nested call-back).
import numpy

from pyshim import core
from pyshim import content as C
from pyshim.core import hx, e_int, e_bool, e_str, e_strs, e_typestrs, dbl, d_int, d_str
from pyshim.nodes import FILENAME_SUFFIX
from pyshim import typesforms


class _Remote(object):
    """A stateful C++ object identified by a handle in one or more driver processes."""

    def _remote_init(self, new_body, del_op):
        self._new_body = new_body
        self._del_op = del_op
        self._log = []  # mutating request tails that succeeded, in order
        self._where = {}  # driver -> (generation, handle, number of log entries applied)

    def _mutate(self, template):
        """template contains one %d for the handle"""
        drv, h = self._handle()
        try:
            core.request(template % h)
        except core.DriverCrashed:
            self._where.pop(drv, None)
            raise
        except Exception:
            # a failed command may still have changed state (commands of a batch before the failing one):
            # record it so that replays reproduce the same state, errors ignored
            self._log.append("!" + template)
            g, hh, applied = self._where[drv]
            self._where[drv] = (g, hh, applied + 1)
            raise
        self._log.append(template)
        g, hh, applied = self._where[drv]
        self._where[drv] = (g, hh, applied + 1)

    def _query(self, template):
        drv, h = self._handle()
        return core.request(template % h)

    def __del__(self):
        try:
            for drv, (gen, h, _) in list(self._where.items()):
                if drv.proc is not None and drv.generation == gen and drv.proc.poll() is None and core._depth() == 0:
                    drv.request("%s %d" % (self._del_op, h))
        except Exception:
            pass


def _handle(self):
    """(driver, handle) of this object in the current driver process, creating/replaying it if needed;
    log entries starting with '!' are commands that raised (their partial effect is reproduced, errors ignored)"""
    drv = core.current_driver()
    ent = self._where.get(drv)
    if ent is not None and (drv.proc is None or drv.proc.poll() is not None or ent[0] != drv.generation):
        ent = None  # that process is gone: re-create the object in the next one from the command log
    if ent is None:
        h = int(core.request(self._new_body))
        ent = (drv.generation, h, 0)
    gen, h, applied = ent
    while applied < len(self._log):
        t = self._log[applied]
        if t.startswith("!"):
            try:
                core.request(t[1:] % h)
            except core.DriverCrashed:
                raise
            except Exception:
                pass
        else:
            core.request(t % h)
        applied += 1
    self._where[drv] = (drv.generation, h, applied)
    return drv, h


_Remote._handle = _handle


class _GetitemMixin(object):
    def __getitem__(self, where):
        from pyshim import slicing

        return slicing.getitem(self, where)

    def _gi(self, tail):
        return C.fromsx(self._query(self._q + " %d getitem " + tail))

    def _getitem_at(self, i):
        return self._gi("at %d" % i)

    def _getitem_range(self, start, stop):
        return self._gi("range %s %s" % ("none" if start is None else start, "none" if stop is None else stop))

    def _getitem_field(self, key):
        return self._gi("field " + e_str(key))

    def _getitem_fields(self, keys):
        return self._gi("fields " + e_strs(keys))

    def _getitem_slice(self, sx):
        return self._gi("slice " + sx.replace("%", "%%"))

    def __iter__(self):
        return C.Iterator(self.snapshot())

    def __len__(self):
        return d_int(self._query(self._q + " %d len"))

    def __repr__(self):
        return d_str(self._query(self._q + " %d tostring"))

    def type(self, typestrs):
        return typesforms.rd_type(self._query(self._q + " %d type " + e_typestrs(typestrs).replace("%", "%%")))

    def snapshot(self):
        return C.fromsx(self._query(self._q + " %d snapshot"))


class ArrayBuilder(_GetitemMixin, _Remote):
    _q = "ab"

    def __init__(self, initial=1024, resize=1.5):
        self._remote_init("ab_new %s %s" % (e_int(initial), dbl(resize)), "ab_del")
        self._pending = []  # well-formed command sequences produced by fromiter(), not yet sent
        self._manual = False  # True once begin*/end*/field/index were called by hand: then nothing is deferred
        self._handle()

    def _flush(self):
        if self._pending:
            cmds, self._pending = self._pending, []
            i = 0
            while i < len(cmds):
                self._mutate("ab_batch %d " + " ".join(c.replace("%", "%%") for c in cmds[i:i + 20000]))
                i += 20000

    def _query(self, template):
        self._flush()
        return _Remote._query(self, template)

    @property
    def _ptr(self):
        raise RuntimeError("pyshim: ArrayBuilder._ptr (raw pointer for Numba) is not available")

    def _cmd(self, *cmds):
        self._flush()
        head = cmds[0][1:].split(" ")[0].rstrip(")")
        if head == "clear":
            self._manual = False
        elif head.startswith("begin") or head.startswith("end") or head in ("field", "index"):
            self._manual = True
        self._mutate("ab_batch %d " + " ".join(c.replace("%", "%%") for c in cmds))

    def clear(self):
        self._cmd("(clear)")

    def null(self):
        self._cmd("(null)")

    def boolean(self, x):
        self._cmd("(boolean %s)" % e_bool(x))

    def integer(self, x):
        self._cmd("(integer %s)" % _i64(x))

    def real(self, x):
        self._cmd("(real %s)" % dbl(_f64(x)))

    def complex(self, x):
        x = complex(x)
        self._cmd("(complex %s %s)" % (dbl(x.real), dbl(x.imag)))

    def datetime(self, x):
        self._cmd(_datetime_cmd(x, "datetime"))

    def timedelta(self, x):
        self._cmd(_datetime_cmd(x, "timedelta"))

    def bytestring(self, x):
        if not isinstance(x, bytes):
            raise TypeError("bytestring(): argument must be bytes")
        self._cmd("(bytestring %s)" % hx(x))

    def string(self, x):
        if not isinstance(x, str):
            raise TypeError("string(): argument must be str")
        self._cmd("(string %s)" % hx(x))

    def beginlist(self):
        self._cmd("(beginlist)")

    def endlist(self):
        self._cmd("(endlist)")

    def begintuple(self, numfields):
        self._cmd("(begintuple %s)" % e_int(numfields))

    def index(self, index):
        self._cmd("(index %s)" % e_int(index))

    def endtuple(self):
        self._cmd("(endtuple)")

    def beginrecord(self, name=None):
        if name is None:
            self._cmd("(beginrecord -)")
        else:
            self._cmd("(beginrecord %s)" % e_str(name))

    def field(self, x):
        self._cmd("(field %s)" % e_str(x))

    def endrecord(self):
        self._cmd("(endrecord)")

    def append(self, array, at):
        self._cmd("(append %s %s)" % (C._content_arg(array)._sx(False), e_int(at)))

    def extend(self, array):
        self._cmd("(extend %s)" % C._content_arg(array)._sx(False))

    def fromiter(self, obj):
        cmds = []
        err = None
        try:
            _fromiter(cmds, obj)
        except Exception as e:  # commands collected before the failure are applied first, as in C++
            err = e
        # The sequences built by _fromiter are well-formed by construction (balanced begin/end, fields inside
        # records), so the C++ builder cannot reject them: they are buffered and sent with the next
        # operation that needs the builder's state (ak.from_iter calls fromiter once per element).
        self._pending.extend(cmds)
        if err is not None:
            self._flush()
            raise err
        if self._manual or len(self._pending) > 50000:
            self._flush()  # inside a hand-made list/record/tuple the C++ builder may legitimately refuse


def _i64(x):
    import operator

    if isinstance(x, (bool, numpy.bool_)):
        return "1" if x else "0"
    try:
        v = operator.index(x)
    except TypeError:
        raise TypeError("integer(): incompatible function arguments (%r)" % type(x).__name__)
    if not (-2 ** 63 <= v < 2 ** 63):
        raise TypeError("integer(): value does not fit int64")
    return str(v)


def _f64(x):
    if isinstance(x, (int, float, numpy.integer, numpy.floating)):
        return float(x)
    raise TypeError("real(): incompatible function arguments (%r)" % type(x).__name__)


def _datetime_cmd(obj, which):
    npcls = numpy.datetime64 if which == "datetime" else numpy.timedelta64
    if isinstance(obj, str):
        dt = npcls(obj)
        return "(%s %d %s)" % (which, int(dt.astype(numpy.int64)), hx(str(dt.dtype)))
    if isinstance(obj, npcls):
        return "(%s %d %s)" % (which, int(obj.astype(numpy.int64)), hx(str(obj.dtype)))
    raise ValueError("cannot convert %r (type %s) to an array element" % (obj, type(obj).__name__) + FILENAME_SUFFIX)


def _is_iterable(obj):
    try:
        iter(obj)
    except TypeError:
        return False
    return True


def _fromiter(cmds, obj):
    # builder_fromiter of content.cpp, same order of tests
    if obj is None:
        cmds.append("(null)")
    elif isinstance(obj, bool):
        cmds.append("(boolean %d)" % int(obj))
    elif isinstance(obj, int):
        if not (-2 ** 63 <= obj < 2 ** 63):
            raise RuntimeError("Unable to cast Python instance to C++ type (int64_t)")
        cmds.append("(integer %d)" % obj)
    elif isinstance(obj, float):
        cmds.append("(real %s)" % dbl(obj))
    elif isinstance(obj, complex):
        cmds.append("(complex %s %s)" % (dbl(obj.real), dbl(obj.imag)))
    elif isinstance(obj, bytes):
        cmds.append("(bytestring %s)" % hx(obj))
    elif isinstance(obj, str):
        cmds.append("(string %s)" % hx(obj))
    elif isinstance(obj, tuple):
        cmds.append("(begintuple %d)" % len(obj))
        for i, x in enumerate(obj):
            cmds.append("(index %d)" % i)
            _fromiter(cmds, x)
        cmds.append("(endtuple)")
    elif isinstance(obj, dict):
        cmds.append("(beginrecord -)")
        for k, v in obj.items():
            if not isinstance(k, str):
                raise ValueError("keys of dicts in 'fromiter' must all be strings" + FILENAME_SUFFIX)
            cmds.append("(field %s)" % hx(k))
            _fromiter(cmds, v)
        cmds.append("(endrecord)")
    elif _is_iterable(obj):
        cmds.append("(beginlist)")
        for x in obj:
            _fromiter(cmds, x)
        cmds.append("(endlist)")
    elif isinstance(obj, numpy.ndarray):
        _fromiter(cmds, obj.tolist())
    elif isinstance(obj, numpy.datetime64):
        cmds.append(_datetime_cmd(obj, "datetime"))
    elif isinstance(obj, numpy.timedelta64):
        cmds.append(_datetime_cmd(obj, "timedelta"))
    elif isinstance(obj, numpy.bool_):
        cmds.append("(boolean %d)" % int(bool(obj)))
    elif isinstance(obj, numpy.integer):
        cmds.append("(integer %d)" % int(obj))
    elif isinstance(obj, numpy.floating):
        cmds.append("(real %s)" % dbl(float(obj)))
    else:
        raise ValueError("cannot convert %r (type %s) to an array element" % (obj, type(obj).__name__) + FILENAME_SUFFIX)


class LayoutBuilder(_GetitemMixin, _Remote):
    _q = "lb"

    def __init__(self, form, initial=8, resize=1.5, vm_init=True):
        if isinstance(form, str):
            form = typesforms.Form.fromjson(form)
        if not isinstance(form, typesforms.Form):
            raise TypeError("LayoutBuilder form must be an ak.forms.Form")
        self._remote_init("lb_new %s %s %s %s" % (hx(form._json()), e_int(initial), dbl(resize), e_bool(vm_init)), "lb_del")
        self._handle()

    def _m(self, tail):
        self._mutate("lb %d " + tail.replace("%", "%%"))

    def null(self):
        self._m("null")

    def boolean(self, x):
        self._m("boolean " + e_bool(x))

    def int64(self, x):
        self._m("int64 " + _i64(x))

    def float64(self, x):
        self._m("float64 " + dbl(_f64(x)))

    def complex(self, x):
        x = complex(x)
        self._m("complex %s %s" % (dbl(x.real), dbl(x.imag)))

    def bytestring(self, x):
        self._m("bytestring " + hx(x))

    def string(self, x):
        self._m("string " + hx(x))

    def begin_list(self):
        self._m("begin_list")

    def end_list(self):
        self._m("end_list")

    def tag(self, tag):
        self._m("tag " + e_int(tag))

    def debug_step(self):
        pass

    def vm_source(self):
        return d_str(self._query("lb %d vm_source"))

    def form(self):
        return typesforms.form_from_json(d_str(self._query("lb %d form")))

    def connect(self, vm):
        raise RuntimeError("pyshim: LayoutBuilder.connect is not supported")
