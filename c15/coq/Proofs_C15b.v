(** C15 — the reader on ARBITRARY input: soundness (whatever [parse] accepts is a well-formed event
    sequence, it consumed a non-empty prefix of the input, and the structural skeleton of the consumed text is the
    skeleton of the events), totality (the fuel of [parse] / [do_parse] is never exhausted), and the documents of
    [do_parse] are well-formed.  New file; the model (Json.v) and Proofs_C15.v are unchanged. *)
From Coq Require Import ZArith List Bool Lia ZifyBool.
From AwkV Require Import Base Layout LayoutInd Valid.
From AwkJson Require Import Json Proofs_C15.
Import ListNotations.
Open Scope Z_scope.

(* ================================================================== the structural skeleton of a text *)
(** A three-state scanner, independent of the lexer: outside a string, inside a string, after a backslash.
    [go s q] keeps the six structural bytes [ ] { } , : met outside strings and one quote (34) per string. *)
Inductive jst := Out | InStr | InEsc.

Definition is_struct (c : Z) : bool :=
  (c =? 91) || (c =? 93) || (c =? 123) || (c =? 125) || (c =? 44) || (c =? 58).

Fixpoint go (s : jst) (q : list Z) : list Z :=
  match q with
  | [] => []
  | c :: r =>
      match s with
      | Out => if c =? 34 then 34 :: go InStr r else if is_struct c then c :: go Out r else go Out r
      | InStr => if c =? 34 then go Out r else if c =? 92 then go InEsc r else go InStr r
      | InEsc => go InStr r
      end
  end.

Fixpoint run (s : jst) (q : list Z) : jst :=
  match q with
  | [] => s
  | c :: r =>
      match s with
      | Out => if c =? 34 then run InStr r else run Out r
      | InStr => if c =? 34 then run Out r else if c =? 92 then run InEsc r else run InStr r
      | InEsc => run InStr r
      end
  end.

Definition skeleton (q : list Z) : list Z := go Out q.

Lemma go_app a : forall s y, go s (a ++ y) = go s a ++ go (run s a) y.
Proof.
  induction a as [|c a IH]; intros s y; [reflexivity|]. cbn [app go run].
  destruct s.
  - destruct (c =? 34); [cbn [app]; rewrite IH; reflexivity|].
    destruct (is_struct c); [cbn [app]; rewrite IH; reflexivity | apply IH].
  - destruct (c =? 34); [apply IH|]. destruct (c =? 92); apply IH.
  - apply IH.
Qed.

Lemma run_app a : forall s y, run s (a ++ y) = run (run s a) y.
Proof.
  induction a as [|c a IH]; intros s y; [reflexivity|]. cbn [app run].
  destruct s.
  - destruct (c =? 34); apply IH.
  - destruct (c =? 34); [apply IH|]. destruct (c =? 92); apply IH.
  - apply IH.
Qed.

(** the event-level skeleton: [render_from] with every scalar token erased and every string / key reduced to
    one quote *)
Definition etok (e : ev) : list Z :=
  match e with
  | EStr _ | EKey _ => [34]
  | ESA => [91] | EEA => [93] | ESO => [123] | EEO => [125]
  | _ => []
  end.
Fixpoint esk (p : prev) (evs : list ev) : list Z :=
  match evs with
  | [] => []
  | e :: r => sep p e ++ etok e ++ esk (after e) r
  end.

Lemma esk_app p l1 : forall l2, esk p (l1 ++ l2) = esk p l1 ++ esk (st p l1) l2.
Proof.
  revert p. induction l1 as [|e l1 IH]; intros p l2; [reflexivity|].
  cbn [app esk st fold_left]. rewrite IH. rewrite <- !app_assoc. reflexivity.
Qed.

Lemma esk_val_then e l : wfv e -> esk PStart (e ++ l) = esk PStart e ++ esk PVal l.
Proof. intros W. rewrite esk_app, (wfv_st e PStart W). reflexivity. Qed.

Lemma esk_after_val e l : wfv e -> esk PVal (e ++ l) = 44 :: esk PStart (e ++ l).
Proof.
  intros W. destruct (wfv_head e W) as (h & t & -> & Hh). cbn [app esk].
  destruct h; try discriminate Hh; reflexivity.
Qed.

Lemma esk_key_val e l : wfv e -> esk PKey (e ++ l) = 58 :: esk PStart (e ++ l).
Proof.
  intros W. destruct (wfv_head e W) as (h & t & -> & Hh). cbn [app esk].
  destruct h; try discriminate Hh; reflexivity.
Qed.

Lemma wfvs_esk_after es : wfvs es -> es <> [] -> esk PVal es = 44 :: esk PStart es.
Proof. intros Ws Hne. destruct Ws; [congruence | apply esk_after_val; assumption]. Qed.

Lemma wfkvs_esk_after es : wfkvs es -> es <> [] -> esk PVal es = 44 :: esk PStart es.
Proof. intros Ws Hne. destruct Ws; [congruence | reflexivity]. Qed.

Lemma esk_arr es : wfvs es -> esk PStart (ESA :: es ++ [EEA]) = 91 :: esk PStart es ++ [93].
Proof.
  intros W. cbn [esk sep etok app after]. rewrite esk_app. f_equal. f_equal.
  destruct es as [|x es']; [reflexivity|]. rewrite wfvs_st by (assumption || discriminate). reflexivity.
Qed.

Lemma esk_obj es : wfkvs es -> esk PStart (ESO :: es ++ [EEO]) = 123 :: esk PStart es ++ [125].
Proof.
  intros W. cbn [esk sep etok app after]. rewrite esk_app. f_equal. f_equal.
  destruct es as [|x es']; [reflexivity|]. rewrite wfkvs_st by (assumption || discriminate). reflexivity.
Qed.

(* ================================================================== segments of the input *)
(** [seg s s' q r sk]: [r] is a suffix of [q]; the scanner started in state [s] on the consumed part emits [sk] and
    ends in state [s'] *)
Definition seg (s s' : jst) (q r : list Z) (sk : list Z) : Prop :=
  exists u, q = u ++ r /\ go s u = sk /\ run s u = s'.

Lemma seg_refl s q : seg s s q q [].
Proof. exists []. auto. Qed.

Lemma seg_trans s1 s2 s3 q r r' a b : seg s1 s2 q r a -> seg s2 s3 r r' b -> seg s1 s3 q r' (a ++ b).
Proof.
  intros (u & -> & <- & <-) (v & -> & <- & <-). exists (u ++ v).
  rewrite <- app_assoc, go_app, run_app. auto.
Qed.

Lemma seg_nil_trans s1 s2 s3 q r r' b : seg s1 s2 q r [] -> seg s2 s3 r r' b -> seg s1 s3 q r' b.
Proof. intros A B. exact (seg_trans _ _ _ _ _ _ _ _ A B). Qed.

Definition plain (c : Z) : Prop := c <> 34 /\ is_struct c = false.

Lemma seg_plain c r : plain c -> seg Out Out (c :: r) r [].
Proof.
  intros (H1 & H2). exists [c]. cbn [app go run]. rewrite (proj2 (Z.eqb_neq c 34) H1), H2. auto.
Qed.

Lemma seg_struct c r : is_struct c = true -> seg Out Out (c :: r) r [c].
Proof.
  intros H. exists [c]. cbn [app go run]. assert (E : (c =? 34) = false) by (unfold is_struct in H; lia).
  rewrite E, H. auto.
Qed.

Lemma seg_quote r : seg Out InStr (34 :: r) r [34].
Proof. exists [34]. auto. Qed.

Lemma ws_plain c : is_ws c = true -> plain c.
Proof. unfold is_ws, plain, is_struct. lia. Qed.

Lemma seg_skip_ws q : seg Out Out q (skip_ws q) [] /\ (length (skip_ws q) <= length q)%nat.
Proof.
  induction q as [|c q (IH & IL)]; [split; [apply seg_refl | cbn; lia]|].
  cbn [skip_ws]. destruct (is_ws c) eqn:E.
  - split; [|cbn [length]; lia]. eapply seg_nil_trans; [apply seg_plain, ws_plain; exact E | exact IH].
  - split; [apply seg_refl | lia].
Qed.

Lemma seg_len s s' q r sk : seg s s' q r sk -> (length r <= length q)%nat.
Proof. intros (u & -> & _). rewrite app_length. lia. Qed.

(* ------------------------------------------------------------------ numbers *)
Lemma digit_plain c : is_digit c = true -> plain c.
Proof. unfold is_digit, plain, is_struct. lia. Qed.

Lemma read_digits_seg q : forall a c v n r, read_digits q a c = (v, n, r) ->
  seg Out Out q r [] /\ (Z.of_nat (length r) + (n - c) = Z.of_nat (length q) /\ c <= n).
Proof.
  induction q as [|d q IH]; intros a c v n r H; cbn [read_digits] in H.
  - injection H as <- <- <-. split; [apply seg_refl | lia].
  - destruct (is_digit d) eqn:E.
    + destruct (IH _ _ _ _ _ H) as (S1 & L). split; [|cbn [length]; lia].
      eapply seg_nil_trans; [apply seg_plain, digit_plain; exact E | exact S1].
    + injection H as <- <- <-. split; [apply seg_refl | lia].
Qed.

Lemma strip_minus_seg bs : seg Out Out bs (snd (strip_minus bs)) [] /\
  (length (snd (strip_minus bs)) <= length bs)%nat.
Proof.
  destruct bs as [|c r]; [split; [apply seg_refl | cbn; lia]|]. cbn [strip_minus].
  destruct (c =? 45) eqn:E; cbn [snd].
  - split; [apply seg_plain; unfold plain, is_struct; lia | cbn; lia].
  - split; [apply seg_refl | lia].
Qed.

Lemma lex_ipart_seg b1 iv b2 : lex_ipart b1 = Some (iv, b2) ->
  seg Out Out b1 b2 [] /\ (length b2 < length b1)%nat.
Proof.
  destruct b1 as [|c r1]; [discriminate|]. cbn [lex_ipart].
  destruct (c =? 48) eqn:E0.
  - intros H. injection H as <- <-. split; [apply seg_plain; unfold plain, is_struct; lia | cbn; lia].
  - destruct ((49 <=? c) && (c <=? 57)) eqn:E1; [|discriminate].
    destruct (read_digits (c :: r1) 0 0) as [[v n] r] eqn:R. intros H. injection H as <- <-.
    destruct (read_digits_seg _ _ _ _ _ _ R) as (S1 & L). split; [exact S1|].
    cbn [read_digits] in R. replace (is_digit c) with true in R by (unfold is_digit; lia).
    destruct (read_digits_seg _ _ _ _ _ _ R) as (_ & L'). cbn [length] in *. lia.
Qed.

Lemma lex_frac_seg iv b2 isd m fc b3 : lex_frac iv b2 = inl (isd, m, fc, b3) ->
  seg Out Out b2 b3 [] /\ (length b3 <= length b2)%nat.
Proof.
  destruct b2 as [|d r2]; cbn [lex_frac].
  - intros H. injection H as <- <- <- <-. split; [apply seg_refl | lia].
  - destruct (d =? 46) eqn:E.
    + destruct (read_digits r2 0 0) as [[fv fc0] r3] eqn:R. destruct (fc0 =? 0); [discriminate|].
      intros H. injection H as <- <- <- <-. destruct (read_digits_seg _ _ _ _ _ _ R) as (S1 & L).
      split; [|cbn [length]; lia].
      eapply seg_nil_trans; [apply seg_plain; unfold plain, is_struct; lia | exact S1].
    + intros H. injection H as <- <- <- <-. split; [apply seg_refl | lia].
Qed.

Lemma lex_exp_seg b3 isd ex b4 : lex_exp b3 = inl (isd, ex, b4) ->
  seg Out Out b3 b4 [] /\ (length b4 <= length b3)%nat.
Proof.
  destruct b3 as [|x r3]; cbn [lex_exp].
  - intros H. injection H as <- <- <-. split; [apply seg_refl | lia].
  - destruct ((x =? 101) || (x =? 69)) eqn:E.
    + assert (Px : plain x) by (unfold plain, is_struct; lia).
      destruct r3 as [|s0 r].
      * cbn. discriminate.
      * destruct (s0 =? 43) eqn:E1; [|destruct (s0 =? 45) eqn:E2].
        -- destruct (read_digits r 0 0) as [[xv xc] r5] eqn:R. destruct (xc =? 0); [discriminate|].
           intros H. injection H as <- <- <-. destruct (read_digits_seg _ _ _ _ _ _ R) as (S1 & L).
           split; [|cbn [length]; lia].
           eapply seg_nil_trans; [apply seg_plain; exact Px|].
           eapply seg_nil_trans; [apply seg_plain; unfold plain, is_struct; lia | exact S1].
        -- destruct (read_digits r 0 0) as [[xv xc] r5] eqn:R. destruct (xc =? 0); [discriminate|].
           intros H. injection H as <- <- <-. destruct (read_digits_seg _ _ _ _ _ _ R) as (S1 & L).
           split; [|cbn [length]; lia].
           eapply seg_nil_trans; [apply seg_plain; exact Px|].
           eapply seg_nil_trans; [apply seg_plain; unfold plain, is_struct; lia | exact S1].
        -- destruct (read_digits (s0 :: r) 0 0) as [[xv xc] r5] eqn:R. destruct (xc =? 0); [discriminate|].
           intros H. injection H as <- <- <-. destruct (read_digits_seg _ _ _ _ _ _ R) as (S1 & L).
           split; [|cbn [length] in *; lia].
           eapply seg_nil_trans; [apply seg_plain; exact Px | exact S1].
    + intros H. injection H as <- <- <-. split; [apply seg_refl | lia].
Qed.

Definition is_numev (e : ev) : Prop := match e with EInt _ | EReal _ => True | _ => False end.

Lemma classify_shape neg isd m fc ex b4 e r : classify neg isd m fc ex b4 = POk e r ->
  r = b4 /\ exists x, e = [x] /\ is_numev x.
Proof.
  unfold classify. intros H.
  repeat match type of H with
         | context [if ?b then _ else _] => destruct b
         | context [match real_of ?n ?mm ?ee with _ => _ end] => destruct (real_of n mm ee)
         end; try discriminate; injection H as <- <-; (split; [reflexivity | eexists; split; [reflexivity | exact I]]).
Qed.

Lemma lex_number_seg q e r : lex_number q = POk e r ->
  seg Out Out q r [] /\ (length r < length q)%nat /\ exists x, e = [x] /\ is_numev x.
Proof.
  unfold lex_number. intros H. pose proof (strip_minus_seg q) as (S0 & L0).
  destruct (strip_minus q) as [neg b1]. cbn [snd] in *.
  destruct (lex_ipart b1) as [[iv b2]|] eqn:Ei; [|discriminate].
  destruct (lex_frac iv b2) as [[[[isd1 m] fc] b3]|stop] eqn:Ef; [|discriminate].
  destruct (lex_exp b3) as [[[isd2 ex] b4]|stop] eqn:Ee; [|discriminate].
  destruct (classify_shape _ _ _ _ _ _ _ _ H) as (-> & X).
  destruct (lex_ipart_seg _ _ _ Ei) as (S1 & L1). destruct (lex_frac_seg _ _ _ _ _ _ Ef) as (S2 & L2).
  destruct (lex_exp_seg _ _ _ _ Ee) as (S3 & L3).
  split; [|split; [lia | exact X]].
  eapply seg_nil_trans; [exact S0|]. eapply seg_nil_trans; [exact S1|]. eapply seg_nil_trans; [exact S2 | exact S3].
Qed.

(* ------------------------------------------------------------------ literals *)
Lemma lit_seg xs e : Forall plain xs -> forall q e' r, lit xs e q = POk e' r ->
  e' = [e] /\ seg Out Out q r [] /\ (length r <= length q)%nat.
Proof.
  induction 1 as [|x xs Hx _ IH]; intros q e' r H; cbn [lit] in H.
  - injection H as <- <-. split; [reflexivity | split; [apply seg_refl | lia]].
  - destruct q as [|c q]; [discriminate|]. destruct (c =? x) eqn:E; [|discriminate].
    destruct (IH _ _ _ H) as (-> & S1 & L). split; [reflexivity|]. split; [|cbn [length]; lia].
    assert (c = x) by lia. subst c. eapply seg_nil_trans; [apply seg_plain; exact Hx | exact S1].
Qed.

(* ------------------------------------------------------------------ strings *)
Lemma hexv_plain c v : hexv c = Some v -> c <> 34 /\ c <> 92.
Proof.
  unfold hexv. destruct ((48 <=? c) && (c <=? 57)) eqn:E1; [lia|].
  destruct ((65 <=? c) && (c <=? 70)) eqn:E2; [lia|].
  destruct ((97 <=? c) && (c <=? 102)) eqn:E3; [lia | discriminate].
Qed.

Lemma hex4_plain a b c d v : hex4 a b c d = Some v ->
  (a <> 34 /\ a <> 92) /\ (b <> 34 /\ b <> 92) /\ (c <> 34 /\ c <> 92) /\ (d <> 34 /\ d <> 92).
Proof.
  unfold hex4. destruct (hexv a) eqn:Ea; [|discriminate]. destruct (hexv b) eqn:Eb; [|discriminate].
  destruct (hexv c) eqn:Ec; [|discriminate]. destruct (hexv d) eqn:Ed; [|discriminate]. intros _.
  repeat split; eauto using hexv_plain; eapply hexv_plain; eassumption.
Qed.

Definition sseg (q r : list Z) : Prop := seg InStr Out q r [] /\ (length r < length q)%nat.

Lemma sseg_char c q r : c <> 34 -> c <> 92 -> sseg q r -> sseg (c :: q) r.
Proof.
  intros H1 H2 ((u & -> & G & R) & L). split; [|cbn [length]; lia].
  exists (c :: u). cbn [app go run]. rewrite (proj2 (Z.eqb_neq c 34) H1), (proj2 (Z.eqb_neq c 92) H2). auto.
Qed.

Lemma sseg_esc e q r : sseg q r -> sseg (92 :: e :: q) r.
Proof.
  intros ((u & -> & G & R) & L). split; [|cbn [length]; lia].
  exists (92 :: e :: u). cbn [app go run]. change (92 =? 34) with false. change (92 =? 92) with true. auto.
Qed.

Lemma sseg_hex a b c d v q r : hex4 a b c d = Some v -> sseg q r -> sseg (a :: b :: c :: d :: q) r.
Proof.
  intros H S. destruct (hex4_plain _ _ _ _ _ H) as ((A1 & A2) & (B1 & B2) & (C1 & C2) & (D1 & D2)).
  apply sseg_char; [assumption..|]. apply sseg_char; [assumption..|].
  apply sseg_char; [assumption..|]. apply sseg_char; assumption.
Qed.

Ltac sstep IH :=
  match goal with
  | H : SFail _ = SOk _ _ |- _ => discriminate H
  | H : context [if ?b then _ else _] |- _ => destruct b eqn:?
  | H : context [match ?l with [] => _ | _ :: _ => _ end] |- _ => is_var l; destruct l
  | H : context [match hex4 ?a ?b ?c ?d with _ => _ end] |- _ => destruct (hex4 a b c d) eqn:?
  | H : spush ?pre (lex_str ?q) = SOk _ _ |- _ =>
      let E := fresh "E" in let s0 := fresh "s0" in let r0 := fresh "r0" in let X := fresh "X" in
      destruct (lex_str q) as [s0 r0|] eqn:E; cbn [spush] in H; [|discriminate H];
      injection H as <- <-;
      assert (X : sseg q r0) by (eapply IH; [cbn [length] in *; lia | exact E])
  end.

Lemma lex_str_seg n : forall q b r, (length q <= n)%nat -> lex_str q = SOk b r -> sseg q r.
Proof.
  induction n as [|n IH]; intros q b r L H.
  - destruct q; [discriminate H | cbn in L; lia].
  - destruct q as [|c q]; [discriminate H|].
    cbn [lex_str] in H. cbn [length] in L.
    destruct (c =? 34) eqn:E34.
    { injection H as <- <-. split; [|cbn [length]; lia]. exists [c]. cbn [app go run]. rewrite E34. auto. }
    destruct (c =? 92) eqn:E92.
    2:{ destruct (c <? 32); [discriminate|]. sstep IH. apply sseg_char; [lia | lia | exact X]. }
    assert (c = 92) by lia. subst c.
    destruct q as [|e r2]; [discriminate|].
    destruct (e =? 34); [sstep IH; apply sseg_esc; exact X|].
    destruct (e =? 92); [sstep IH; apply sseg_esc; exact X|].
    destruct (e =? 47); [sstep IH; apply sseg_esc; exact X|].
    destruct (e =? 98); [sstep IH; apply sseg_esc; exact X|].
    destruct (e =? 102); [sstep IH; apply sseg_esc; exact X|].
    destruct (e =? 110); [sstep IH; apply sseg_esc; exact X|].
    destruct (e =? 114); [sstep IH; apply sseg_esc; exact X|].
    destruct (e =? 116); [sstep IH; apply sseg_esc; exact X|].
    destruct (e =? 117); [|discriminate].
    destruct r2 as [|h1 [|h2 [|h3 [|h4 r3]]]]; try discriminate.
    destruct (hex4 h1 h2 h3 h4) as [cp|] eqn:Eh; [|discriminate].
    destruct ((55296 <=? cp) && (cp <=? 56319)).
    + destruct r3 as [|b1 r4]; [discriminate|]. destruct (b1 =? 92) eqn:Eb1; [|discriminate].
      destruct r4 as [|u1 r5]; [discriminate|]. destruct (u1 =? 117); [|discriminate].
      destruct r5 as [|g1 [|g2 [|g3 [|g4 r6]]]]; try discriminate.
      destruct (hex4 g1 g2 g3 g4) as [cp2|] eqn:Eg; [|discriminate].
      destruct ((56320 <=? cp2) && (cp2 <=? 57343)); [|discriminate].
      sstep IH. assert (b1 = 92) by lia. subst b1.
      apply sseg_esc. eapply sseg_hex; [exact Eh|]. apply sseg_esc. eapply sseg_hex; [exact Eg | exact X].
    + destruct ((56320 <=? cp) && (cp <=? 57343)); [discriminate|].
      sstep IH. apply sseg_esc. eapply sseg_hex; [exact Eh | exact X].
Qed.

Lemma lex_str_sseg q b r : lex_str q = SOk b r -> sseg q r.
Proof. apply (lex_str_seg (length q)). lia. Qed.

(* ================================================================== soundness of the parser *)
Definition vres (q : list Z) (e : list ev) (r : list Z) : Prop :=
  wfv e /\ seg Out Out q r (esk PStart e) /\ (length r < length q)%nat.

Lemma numev_vres q x r : is_numev x -> seg Out Out q r [] -> (length r < length q)%nat -> vres q [x] r.
Proof.
  intros N S L. split; [destruct x; try contradiction; constructor|]. split; [|exact L].
  destruct x; try contradiction; exact S.
Qed.

Lemma skip_ws_cons_seg q c t : skip_ws q = c :: t -> seg Out Out q (c :: t) [] /\ (length t < length q)%nat.
Proof.
  intros H. destruct (seg_skip_ws q) as (S & L). rewrite H in *. split; [exact S | cbn [length] in L; lia].
Qed.

Lemma parse_sound f :
  (forall q e r, parse_value f q = POk e r -> vres q e r) /\
  (forall q e r, parse_elems f q = POk e r ->
     exists es, e = es ++ [EEA] /\ wfvs es /\ es <> [] /\
                seg Out Out q r (esk PStart es ++ [93]) /\ (length r < length q)%nat) /\
  (forall q e r, parse_members f q = POk e r ->
     exists es, e = es ++ [EEO] /\ wfkvs es /\ es <> [] /\
                seg Out Out q r (esk PStart es ++ [125]) /\ (length r < length q)%nat).
Proof.
  induction f as [|f (IHv & IHe & IHm)]; [repeat split; intros; discriminate|].
  split; [|split].
  - (* value *)
    intros q e r H. destruct q as [|c q1]; [discriminate H|]. cbn [parse_value] in H.
    destruct (c =? 110) eqn:E1.
    { apply lit_seg in H; [|repeat constructor; unfold is_struct; lia]. destruct H as (-> & S & L).
      split; [constructor|]. split; [|cbn [length]; lia].
      eapply seg_nil_trans; [apply seg_plain; unfold plain, is_struct; lia | exact S]. }
    destruct (c =? 116) eqn:E2.
    { apply lit_seg in H; [|repeat constructor; unfold is_struct; lia]. destruct H as (-> & S & L).
      split; [constructor|]. split; [|cbn [length]; lia].
      eapply seg_nil_trans; [apply seg_plain; unfold plain, is_struct; lia | exact S]. }
    destruct (c =? 102) eqn:E3.
    { apply lit_seg in H; [|repeat constructor; unfold is_struct; lia]. destruct H as (-> & S & L).
      split; [constructor|]. split; [|cbn [length]; lia].
      eapply seg_nil_trans; [apply seg_plain; unfold plain, is_struct; lia | exact S]. }
    destruct (c =? 34) eqn:E4.
    { destruct (lex_str q1) as [s0 r'|] eqn:El; [|discriminate]. injection H as <- <-.
      destruct (lex_str_sseg _ _ _ El) as (S & L). assert (c = 34) by lia. subst c.
      split; [constructor|]. split; [|cbn [length]; lia].
      change (esk PStart [EStr s0]) with ([34] ++ []). eapply seg_trans; [apply seg_quote | exact S]. }
    destruct (c =? 91) eqn:E5.
    { assert (c = 91) by lia. subst c.
      destruct (skip_ws q1) as [|d r2] eqn:Es; [discriminate|].
      destruct (skip_ws_cons_seg _ _ _ Es) as (S0 & L0).
      destruct (d =? 93) eqn:Ed.
      - injection H as <- <-. assert (d = 93) by lia. subst d.
        split; [apply (W_arr []); constructor|]. split; [|cbn [length]; lia].
        change (esk PStart [ESA; EEA]) with ([91] ++ [] ++ [93]).
        eapply seg_trans; [apply seg_struct; reflexivity|]. eapply seg_trans; [exact S0|].
        apply seg_struct. reflexivity.
      - apply pmap_ok in H. destruct H as (e0 & Hp & ->).
        destruct (IHe _ _ _ Hp) as (es & -> & Ws & Hne & S1 & L1).
        split; [constructor; exact Ws|]. split; [|cbn [length] in *; lia].
        rewrite esk_arr by exact Ws. change (91 :: esk PStart es ++ [93]) with ([91] ++ [] ++ (esk PStart es ++ [93])).
        eapply seg_trans; [apply seg_struct; reflexivity|]. eapply seg_trans; [exact S0 | exact S1]. }
    destruct (c =? 123) eqn:E6.
    { assert (c = 123) by lia. subst c.
      destruct (skip_ws q1) as [|d r2] eqn:Es; [discriminate|].
      destruct (skip_ws_cons_seg _ _ _ Es) as (S0 & L0).
      destruct (d =? 125) eqn:Ed.
      - injection H as <- <-. assert (d = 125) by lia. subst d.
        split; [apply (W_obj []); constructor|]. split; [|cbn [length]; lia].
        change (esk PStart [ESO; EEO]) with ([123] ++ [] ++ [125]).
        eapply seg_trans; [apply seg_struct; reflexivity|]. eapply seg_trans; [exact S0|].
        apply seg_struct. reflexivity.
      - apply pmap_ok in H. destruct H as (e0 & Hp & ->).
        destruct (IHm _ _ _ Hp) as (es & -> & Ws & Hne & S1 & L1).
        split; [constructor; exact Ws|]. split; [|cbn [length] in *; lia].
        rewrite esk_obj by exact Ws. change (123 :: esk PStart es ++ [125]) with ([123] ++ [] ++ (esk PStart es ++ [125])).
        eapply seg_trans; [apply seg_struct; reflexivity|]. eapply seg_trans; [exact S0 | exact S1]. }
    destruct (lex_number_seg _ _ _ H) as (S & L & x & -> & N). apply numev_vres; assumption.
  - (* elements *)
    intros q e r H. cbn [parse_elems] in H.
    destruct (parse_value f q) as [e0 r0| |] eqn:Ev; try discriminate.
    destruct (IHv _ _ _ Ev) as (W0 & S0 & L0).
    destruct (skip_ws r0) as [|c r2] eqn:Es; [discriminate|].
    destruct (skip_ws_cons_seg _ _ _ Es) as (S1 & L1).
    destruct (c =? 44) eqn:Ec.
    { apply pmap_ok in H. destruct H as (e1 & Hp & ->). assert (c = 44) by lia. subst c.
      destruct (IHe _ _ _ Hp) as (es & -> & Ws & Hne & S2 & L2).
      destruct (seg_skip_ws r2) as (S3 & L3).
      exists (e0 ++ es). split; [rewrite app_assoc; reflexivity|]. split; [constructor; assumption|].
      split; [destruct e0; [inversion W0 | discriminate]|]. split; [|lia].
      rewrite esk_val_then by exact W0. rewrite wfvs_esk_after by assumption.
      replace ((esk PStart e0 ++ 44 :: esk PStart es) ++ [93])
        with (esk PStart e0 ++ [] ++ [44] ++ [] ++ (esk PStart es ++ [93])) by (rewrite <- !app_assoc; reflexivity).
      eapply seg_trans; [exact S0|]. eapply seg_trans; [exact S1|].
      eapply seg_trans; [apply seg_struct; reflexivity|]. eapply seg_trans; [exact S3 | exact S2]. }
    destruct (c =? 93) eqn:Ed; [|discriminate]. injection H as <- <-. assert (c = 93) by lia. subst c.
    exists e0. split; [reflexivity|]. split; [rewrite <- (app_nil_r e0); constructor; [exact W0 | constructor]|].
    split; [destruct e0; [inversion W0 | discriminate]|]. split; [|lia].
    replace (esk PStart e0 ++ [93]) with (esk PStart e0 ++ [] ++ [93]) by reflexivity.
    eapply seg_trans; [exact S0|]. eapply seg_trans; [exact S1|]. apply seg_struct. reflexivity.
  - (* members *)
    intros q e r H. cbn [parse_members] in H.
    destruct q as [|c q1]; [discriminate|]. destruct (c =? 34) eqn:E34; [|discriminate].
    assert (c = 34) by lia. subst c.
    destruct (lex_str q1) as [k r'|] eqn:El; [|discriminate].
    destruct (lex_str_sseg _ _ _ El) as (Sk & Lk).
    destruct (skip_ws r') as [|d r2] eqn:Es; [discriminate|].
    destruct (skip_ws_cons_seg _ _ _ Es) as (S1 & L1).
    destruct (d =? 58) eqn:Ed; [|discriminate]. assert (d = 58) by lia. subst d.
    destruct (parse_value f (skip_ws r2)) as [e0 r3| |] eqn:Ev; try discriminate.
    destruct (IHv _ _ _ Ev) as (W0 & S2 & L2). destruct (seg_skip_ws r2) as (S2' & L2').
    destruct (skip_ws r3) as [|x r5] eqn:Es3; [discriminate|].
    destruct (skip_ws_cons_seg _ _ _ Es3) as (S3 & L3).
    assert (HK : forall tl, esk PStart (EKey k :: e0 ++ tl) = [34] ++ [] ++ [] ++ [58] ++ [] ++ esk PStart e0 ++ [] ++ esk PVal tl).
    { intros tl. cbn [esk sep etok after app]. rewrite esk_key_val by exact W0. rewrite esk_val_then by exact W0. reflexivity. }
    destruct (x =? 44) eqn:Ex.
    { apply pmap_ok in H. destruct H as (e1 & Hp & ->). assert (x = 44) by lia. subst x.
      destruct (IHm _ _ _ Hp) as (es & -> & Ws & Hne & S4 & L4).
      destruct (seg_skip_ws r5) as (S5 & L5).
      exists (EKey k :: e0 ++ es). split; [cbn [app]; rewrite <- app_assoc; reflexivity|].
      split; [constructor; assumption|]. split; [discriminate|]. split; [|cbn [length] in *; lia].
      rewrite HK. rewrite wfkvs_esk_after by assumption.
      replace (([34] ++ [] ++ [] ++ [58] ++ [] ++ esk PStart e0 ++ [] ++ 44 :: esk PStart es) ++ [125])
        with ([34] ++ [] ++ [] ++ [58] ++ [] ++ esk PStart e0 ++ [] ++ [44] ++ [] ++ (esk PStart es ++ [125]))
        by (cbn [app]; rewrite <- !app_assoc; reflexivity).
      eapply seg_trans; [apply seg_quote|]. eapply seg_trans; [exact Sk|]. eapply seg_trans; [exact S1|].
      eapply seg_trans; [apply seg_struct; reflexivity|]. eapply seg_trans; [exact S2'|].
      eapply seg_trans; [exact S2|]. eapply seg_trans; [exact S3|].
      eapply seg_trans; [apply seg_struct; reflexivity|]. eapply seg_trans; [exact S5 | exact S4]. }
    destruct (x =? 125) eqn:Ex2; [|discriminate]. injection H as <- <-. assert (x = 125) by lia. subst x.
    exists (EKey k :: e0 ++ []). split; [cbn [app]; rewrite app_nil_r; reflexivity|].
    split; [constructor; [exact W0 | constructor]|]. split; [discriminate|]. split; [|cbn [length] in *; lia].
    rewrite HK. cbn [esk].
    replace (([34] ++ [] ++ [] ++ [58] ++ [] ++ esk PStart e0 ++ [] ++ []) ++ [125])
      with ([34] ++ [] ++ [] ++ [58] ++ [] ++ esk PStart e0 ++ [] ++ [125])
      by (cbn [app]; rewrite <- !app_assoc; reflexivity).
    eapply seg_trans; [apply seg_quote|]. eapply seg_trans; [exact Sk|]. eapply seg_trans; [exact S1|].
    eapply seg_trans; [apply seg_struct; reflexivity|]. eapply seg_trans; [exact S2'|].
    eapply seg_trans; [exact S2|]. eapply seg_trans; [exact S3|]. apply seg_struct. reflexivity.
Qed.

(* ================================================================== totality: the fuel is never exhausted *)
Lemma lit_nofuel xs e : forall q, lit xs e q <> PFuel.
Proof.
  induction xs as [|x xs IH]; intros q; cbn [lit]; [discriminate|].
  destruct q as [|c q]; [discriminate|]. destruct (c =? x); [apply IH | discriminate].
Qed.

Lemma classify_nofuel neg isd m fc ex b4 : classify neg isd m fc ex b4 <> PFuel.
Proof.
  unfold classify.
  repeat match goal with
         | |- context [if ?b then _ else _] => destruct b
         | |- context [match real_of ?n ?mm ?ee with _ => _ end] => destruct (real_of n mm ee)
         end; discriminate.
Qed.

Lemma lex_number_nofuel q : lex_number q <> PFuel.
Proof.
  unfold lex_number. destruct (strip_minus q) as [neg b1].
  destruct (lex_ipart b1) as [[iv b2]|]; [|discriminate].
  destruct (lex_frac iv b2) as [[[[isd1 m] fc] b3]|stop]; [|discriminate].
  destruct (lex_exp b3) as [[[isd2 ex] b4]|stop]; [|discriminate].
  apply classify_nofuel.
Qed.

Lemma pmap_nofuel g x : x <> PFuel -> pmap g x <> PFuel.
Proof. destruct x; cbn; intros H; (discriminate || congruence). Qed.

Lemma parse_nofuel f :
  (forall q, (2 * length q + 1 <= f)%nat -> parse_value f q <> PFuel) /\
  (forall q, (2 * length q + 2 <= f)%nat -> parse_elems f q <> PFuel) /\
  (forall q, (2 * length q + 2 <= f)%nat -> parse_members f q <> PFuel).
Proof.
  induction f as [|f (IHv & IHe & IHm)]; [repeat split; intros; lia|].
  split; [|split].
  - intros q L. destruct q as [|c q1]; [discriminate|]. cbn [parse_value]. cbn [length] in L.
    destruct (c =? 110); [apply lit_nofuel|]. destruct (c =? 116); [apply lit_nofuel|].
    destruct (c =? 102); [apply lit_nofuel|].
    destruct (c =? 34); [destruct (lex_str q1); discriminate|].
    destruct (c =? 91).
    { destruct (seg_skip_ws q1) as (_ & L1). destruct (skip_ws q1) as [|d r2]; [discriminate|].
      destruct (d =? 93); [discriminate|]. apply pmap_nofuel, IHe. lia. }
    destruct (c =? 123).
    { destruct (seg_skip_ws q1) as (_ & L1). destruct (skip_ws q1) as [|d r2]; [discriminate|].
      destruct (d =? 125); [discriminate|]. apply pmap_nofuel, IHm. lia. }
    apply lex_number_nofuel.
  - intros q L. cbn [parse_elems].
    destruct (parse_value f q) as [e0 r0| |] eqn:Ev; [|discriminate | exfalso; eapply IHv; [|exact Ev]; lia].
    destruct (proj1 (parse_sound f) _ _ _ Ev) as (_ & _ & L0).
    destruct (seg_skip_ws r0) as (_ & L1). destruct (skip_ws r0) as [|c r2]; [discriminate|].
    destruct (c =? 44).
    { destruct (seg_skip_ws r2) as (_ & L2). apply pmap_nofuel, IHe. cbn [length] in L1. lia. }
    destruct (c =? 93); discriminate.
  - intros q L. cbn [parse_members]. destruct q as [|c q1]; [discriminate|]. cbn [length] in L.
    destruct (c =? 34); [|discriminate].
    destruct (lex_str q1) as [k r'|] eqn:El; [|discriminate].
    destruct (lex_str_sseg _ _ _ El) as (_ & Lk).
    destruct (seg_skip_ws r') as (_ & L1). destruct (skip_ws r') as [|d r2]; [discriminate|].
    destruct (d =? 58); [|discriminate].
    destruct (seg_skip_ws r2) as (_ & L2). cbn [length] in L1.
    destruct (parse_value f (skip_ws r2)) as [e0 r3| |] eqn:Ev; [|discriminate | exfalso; eapply IHv; [|exact Ev]; lia].
    destruct (proj1 (parse_sound f) _ _ _ Ev) as (_ & _ & L3).
    destruct (seg_skip_ws r3) as (_ & L4). destruct (skip_ws r3) as [|x r5]; [discriminate|].
    destruct (x =? 44).
    { destruct (seg_skip_ws r5) as (_ & L5). apply pmap_nofuel, IHm. cbn [length] in L4. lia. }
    destruct (x =? 125); discriminate.
Qed.

Lemma parse1_nofuel bs : parse1 bs <> PFuel.
Proof.
  unfold parse1, fuel_for. apply (proj1 (parse_nofuel _)).
  destruct (seg_skip_ws bs) as (_ & L). lia.
Qed.

(** [parse] is total: the fuel of the model is never exhausted, on any input *)
Theorem parse_total_lemma bs : parse bs <> Err EFuel.
Proof.
  unfold parse. pose proof (parse1_nofuel bs). destruct (parse1 bs); (discriminate || congruence).
Qed.

(** whatever [parse] accepts: a well-formed event sequence, read from a non-empty prefix of the input whose
    structural skeleton is the skeleton of the events, ending outside any string *)
Theorem parse_sound_lemma bs evs rest : parse bs = Ok (evs, rest) ->
  wf evs = true /\
  exists u, bs = u ++ rest /\ u <> [] /\ skeleton u = esk PStart evs /\ run Out u = Out.
Proof.
  unfold parse. destruct (parse1 bs) as [e r| |] eqn:E; try discriminate. intros H. injection H as <- <-.
  unfold parse1 in E. destruct (proj1 (parse_sound _) _ _ _ E) as (W & S & L).
  split; [apply wf_iff; exact W|].
  destruct (seg_skip_ws bs) as (S0 & L0).
  destruct (seg_nil_trans _ _ _ _ _ _ _ S0 S) as (u & Hu & G & R).
  exists u. split; [exact Hu|]. split; [|split; assumption].
  intros ->. cbn [app] in Hu. subst r. lia.
Qed.

(* ================================================================== the documents of do_parse *)
Lemma handler_start o h : is_start h = true -> is_start (handler o h) = true.
Proof.
  destruct h; cbn [handler]; intros H; try discriminate; try reflexivity.
  destruct (is_opt (nan_s o) s); [reflexivity|]. destruct (is_opt (inf_s o) s); [reflexivity|].
  destruct (is_opt (minf_s o) s); reflexivity.
Qed.

Lemma handler_wf o :
  (forall e, wfv e -> wfv (map (handler o) e)) /\
  (forall es, wfvs es -> wfvs (map (handler o) es)) /\
  (forall es, wfkvs es -> wfkvs (map (handler o) es)).
Proof.
  apply wf_mutind; intros; cbn [map handler]; try constructor.
  - destruct (is_opt (nan_s o) s); [constructor|]. destruct (is_opt (inf_s o) s); [constructor|].
    destruct (is_opt (minf_s o) s); constructor.
  - rewrite map_app. cbn [map handler]. constructor. assumption.
  - rewrite map_app. cbn [map handler]. constructor. assumption.
  - rewrite map_app. constructor; assumption.
  - rewrite map_app. constructor; assumption.
Qed.

Definition doc_wf (d : list ev) : Prop := wf d = true.

Lemma do_parse_loop_sound o : forall fuel bs acc, (length bs < fuel)%nat -> Forall doc_wf acc ->
  match do_parse_loop fuel o bs acc with JDocs docs => Forall doc_wf docs | JErr e => e <> JFuel end.
Proof.
  induction fuel as [|fuel IH]; intros bs acc L Ha; [lia|]. cbn [do_parse_loop].
  destruct bs as [|b0 bs0] eqn:Eb; [apply Forall_rev; exact Ha|]. rewrite <- Eb in *. clear Eb b0 bs0.
  destruct (skip_ws bs) as [|c r0] eqn:Es; [apply Forall_rev; exact Ha|].
  pose proof (parse1_nofuel bs) as NF.
  destruct (parse1 bs) as [evs rest|rest|] eqn:Ep; [| destruct rest; discriminate | congruence].
  unfold parse1 in Ep. destruct (proj1 (parse_sound _) _ _ _ Ep) as (W & _ & L1).
  destruct (seg_skip_ws bs) as (_ & L0).
  apply IH; [lia|]. constructor; [|exact Ha].
  unfold doc_wf. apply wf_iff. apply (proj1 (handler_wf o)). exact W.
Qed.

(** every document from_json hands to the builder is a complete well-formed value (never a partial array), and the
    loop never runs out of fuel *)
Theorem do_parse_docs_wellformed_lemma o text docs : do_parse o text = JDocs docs -> Forall (fun d => wf d = true) docs.
Proof.
  unfold do_parse, do_parse_text. intros H.
  pose proof (do_parse_loop_sound o (S (length (cstr text))) (cstr text) [] ltac:(lia) (Forall_nil _)) as X.
  rewrite H in X. exact X.
Qed.

Theorem do_parse_total_lemma o text : do_parse o text <> JErr JFuel.
Proof.
  unfold do_parse, do_parse_text.
  pose proof (do_parse_loop_sound o (S (length (cstr text))) (cstr text) [] ltac:(lia) (Forall_nil _)) as X.
  destruct (do_parse_loop _ _ _ _) as [docs|e]; [discriminate | congruence].
Qed.

(* ================================================================== the skeleton of a rendered text *)
Lemma go_plain u : Forall plain u -> forall y, go Out (u ++ y) = go Out y.
Proof.
  induction 1 as [|c u (H1 & H2) _ IH]; intros y; [reflexivity|]. cbn [app go].
  rewrite (proj2 (Z.eqb_neq c 34) H1), H2. apply IH.
Qed.

Lemma dec_plain z : Forall plain (dec z).
Proof.
  assert (D : forall n, 0 <= n -> Forall plain (dec_nat n)).
  { intros n Hn. eapply Forall_impl; [|apply dec_nat_digits; exact Hn]. intros d. apply digit_plain. }
  unfold dec. destruct (z <? 0) eqn:E.
  - constructor; [unfold plain, is_struct; lia | apply D; lia].
  - apply D. lia.
Qed.

Lemma go_string s y : Forall (fun c => 0 <= c) s -> go Out (render_string s ++ y) = 34 :: go Out y.
Proof.
  intros Hs. unfold render_string. cbn [app go]. change (34 =? 34) with true. cbn iota. f_equal.
  rewrite <- app_assoc. cbn [app].
  pose proof (lex_str_render s y Hs) as E. destruct (lex_str_sseg _ _ _ E) as ((u & Hu & G & R) & _).
  rewrite Hu. rewrite go_app, G, R. reflexivity.
Qed.

Lemma go_tok e y : printable_ev e = true -> go Out (tok e ++ y) = etok e ++ go Out y.
Proof.
  destruct e; cbn [tok printable_ev etok]; intros P; try reflexivity.
  - destruct b; reflexivity.
  - apply go_plain, dec_plain.
  - destruct r; try discriminate. cbn [render_real]. rewrite <- app_assoc. rewrite go_plain by apply dec_plain. reflexivity.
  - apply go_string, forallb_byte_nonneg; exact P.
  - apply go_string, forallb_byte_nonneg; exact P.
Qed.

Lemma go_sep p e y : go Out (sep p e ++ y) = sep p e ++ go Out y.
Proof. destruct p; cbn [sep]; try reflexivity. destruct (is_end e); reflexivity. Qed.

(** the skeleton of a rendered (printable) event sequence is its event-level skeleton *)
Lemma go_render evs : forall p y, printable evs = true -> go Out (render_from p evs ++ y) = esk p evs ++ go Out y.
Proof.
  induction evs as [|e evs IH]; intros p y P; [reflexivity|].
  cbn in P. apply andb_true_iff in P. destruct P as [Pe Ps].
  cbn [render_from esk]. rewrite <- !app_assoc. rewrite go_sep, go_tok by exact Pe. rewrite IH by exact Ps. reflexivity.
Qed.

Lemma skeleton_render evs : printable evs = true -> skeleton (render evs) = esk PStart evs.
Proof.
  intros P. unfold skeleton, render. pose proof (go_render evs PStart [] P) as E.
  rewrite !app_nil_r in E. exact E.
Qed.

(* ================================================================== examples *)
(* arbitrary (not rendered) input: whitespace, an escape, an exponent; then unrelated text *)
Example parse_sound_ex :
  let text := [32; 91; 49; 101; 50; 44; 10; 123; 34; 97; 92; 110; 34; 32; 58; 32; 110; 117; 108; 108; 125; 93; 32; 120] in
  (* " [1e2,\n{\"a\\n\" : null}] x" *)
  parse text = Ok ([ESA; EReal (RZ 100); ESO; EKey [97; 10]; ENull; EEO; EEA], [32; 120]) /\
  skeleton (firstn 22 text) = [91; 44; 123; 34; 58; 125; 93] /\
  esk PStart [ESA; EReal (RZ 100); ESO; EKey [97; 10]; ENull; EEO; EEA] = [91; 44; 123; 34; 58; 125; 93] /\
  do_parse ex_opts text = JErr JInvalid /\
  do_parse ex_opts (firstn 23 text ++ [91; 93]) =
    JDocs [[ESA; EReal (RZ 100); ESO; EKey [97; 10]; ENull; EEO; EEA]; [ESA; EEA]].
Proof. vm_compute. repeat split. Qed.
