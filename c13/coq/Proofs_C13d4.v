(** Proofs_C13d4.v -- k_safe / k_spec theorems for the kernels called by ListOffsetArray::reduce_next / sort_next /
    argsort_next (and IndexedArray::sort_next / argsort_next): the preconditions are the allocation sizes of the
    C++ callers (/repo/src/libawkward/array/ListOffsetArray.cpp, IndexedArray.cpp) plus validity of the array. *)
From Coq Require Import ZArith List Bool Lia ZifyBool.
From AwkV Require Import Base.
From AwkKernels Require Import Kernels KLemmas Proofs_C13 Proofs_C13b Proofs_C13c Proofs_C13d.
Import ListNotations.
Open Scope Z_scope.

Ltac Zify.zify_post_hook ::= Z.to_euclidean_division_equations.

(** nested binds are flattened before stepping *)
Lemma kbind_assoc4 {A B C} (r : kres A) (f : A -> kres B) (g : B -> kres C) :
  kbind (kbind r f) g = kbind r (fun x => kbind (f x) g).
Proof. destruct r; reflexivity. Qed.
Ltac np_step' := first [np_step | rewrite kbind_assoc4; cbv beta].
Ltac np_auto' := repeat np_step'.

(* ================================================================================================ *)
(** * awkward_ListArray_combinations_length  (caller: ListOffsetArray::combinations, totallen = 1 cell,
      tooffsets = length()+1 cells, starts/stops = make_starts/make_stops(offsets_) = length() cells) *)

Theorem ListArray_combinations_length_safe tC totallen tooffsets n replacement starts stops length :
  1 <= zlen totallen -> 1 <= zlen tooffsets -> length + 1 <= zlen tooffsets ->
  length <= zlen starts -> length <= zlen stops ->
  ListArray_combinations_length tC totallen tooffsets n replacement starts stops length <> KOob.
Proof.
  intros H0 H1 H2 H3 H4. unfold ListArray_combinations_length. eapply np_noob. np_step. np_step.
  apply (np_kfor_c _ (fun st : list Z * list Z => zlen (fst st) = zlen totallen /\ zlen (snd st) = zlen tooffsets)).
  - cbn [fst snd]. now rewrite !zlen_set_nth.
  - intros i [tl to] Hi (L1 & L2). cbn [fst snd] in *. np_auto. cbn [fst snd]. now rewrite !zlen_set_nth.
Qed.

Example ListArray_combinations_length_example :
  ListArray_combinations_length (TI 64) [9] [9;9;9] 2 false [0; 3] [3; 5] 2 = KOk ([4], [0; 3; 4]).
Proof. vm_compute. reflexivity. Qed.

(* ================================================================================================ *)
(** * awkward_ListOffsetArray_reduce_nonlocal_maxcount_offsetscopy_64
      (caller: maxcount = 1 cell, offsetscopy = offsets_.length() cells, length = offsets_.length() - 1 >= 0) *)

Theorem ListOffsetArray_reduce_nonlocal_maxcount_offsetscopy_64_safe maxcount offsetscopy offsets length :
  0 <= length -> 1 <= zlen maxcount -> length + 1 <= zlen offsets -> length + 1 <= zlen offsetscopy ->
  reduce_nonlocal_maxcount_offsetscopy maxcount offsetscopy offsets length <> KOob.
Proof.
  intros Hn H0 H1 H2. unfold reduce_nonlocal_maxcount_offsetscopy. eapply np_noob. np_step. np_step. np_step.
  apply (np_kfor_c _ (fun st : list Z * list Z => zlen (fst st) = zlen maxcount /\ zlen (snd st) = zlen offsetscopy)).
  - cbn [fst snd]. now rewrite !zlen_set_nth.
  - intros i [m c] Hi (L1 & L2). cbn [fst snd] in *. np_auto; cbn [fst snd]; now rewrite ?zlen_set_nth.
Qed.

Example ListOffsetArray_reduce_nonlocal_maxcount_offsetscopy_64_example :
  reduce_nonlocal_maxcount_offsetscopy [9] [9;9;9;9] [0; 2; 2; 5] 3 = KOk ([3], [0; 2; 2; 5]).
Proof. vm_compute. reflexivity. Qed.

(* ================================================================================================ *)
(** * awkward_ListOffsetArray_reduce_nonlocal_nextstarts_64
      (caller: nextstarts = maxnextparents + 1 cells, where maxnextparents = max (0, nextparents[..])) *)

Theorem ListOffsetArray_reduce_nonlocal_nextstarts_64_safe nextstarts nextparents nextlen :
  nextlen <= zlen nextparents ->
  (forall i, 0 <= i < nextlen -> 0 <= at_ nextparents i < zlen nextstarts) ->
  reduce_nonlocal_nextstarts nextstarts nextparents nextlen <> KOob.
Proof.
  intros H1 Hr. unfold reduce_nonlocal_nextstarts. eapply np_noob.
  apply np_bind_kfor with (P := fun (_ : Z) (st : list Z * Z) => zlen (fst st) = zlen nextstarts)
                          (Q := fun _ : list Z => True); auto.
  - intros i [out last] Hi L. cbn [fst snd] in *. specialize (Hr i Hi). np_auto; cbn [fst]; now rewrite ?zlen_set_nth.
  - intros s' _. now apply np_ret.
Qed.

Example ListOffsetArray_reduce_nonlocal_nextstarts_64_example :
  reduce_nonlocal_nextstarts [9;9;9;9] [0; 0; 1; 3; 3] 5 = KOk [0; 2; 9; 3].
Proof. vm_compute. reflexivity. Qed.

(* ================================================================================================ *)
(** * awkward_ListOffsetArray_reduce_nonlocal_findgaps_64
      (caller: gaps = outlength cells, parents[i] < outlength).  Each push raises [last] by at least one, so
      the number of pushes never exceeds last + 1 <= max parent + 1; neither sortedness nor parents[i] >= 0 is needed. *)

Theorem ListOffsetArray_reduce_nonlocal_findgaps_64_safe gaps parents lenparents :
  lenparents <= zlen parents ->
  (forall i, 0 <= i < lenparents -> at_ parents i < zlen gaps) ->
  reduce_nonlocal_findgaps gaps parents lenparents <> KOob.
Proof.
  intros H1 Hr. unfold reduce_nonlocal_findgaps. eapply np_noob.
  apply np_bind_kfor with
    (P := fun (_ : Z) (st : list Z * Z * Z) =>
            zlen (fst (fst st)) = zlen gaps /\ 0 <= snd (fst st) <= snd st + 1 /\ (snd st = -1 \/ snd st < zlen gaps))
    (Q := fun _ : list Z => True).
  - cbn [fst snd]. lia.
  - intros i [[g k] last] Hi (L & K & B). cbn [fst snd] in *. specialize (Hr i Hi). unfold kpush. np_auto'.
    + cbn [fst snd]. rewrite zlen_set_nth. lia.
    + cbn [fst snd]. lia.
  - intros s' _. now apply np_ret.
Qed.

Example ListOffsetArray_reduce_nonlocal_findgaps_64_example :
  reduce_nonlocal_findgaps [9;9;9;9] [0; 0; 2; 3; 3] 5 = KOk [1; 2; 1; 9].
Proof. vm_compute. reflexivity. Qed.

(* ================================================================================================ *)
(** * awkward_IndexedArray_local_preparenext_64
      (callers: IndexedArray::sort_next / argsort_next: tocarry = parents.length() cells, nextparents = next_length cells) *)

Theorem IndexedArray_local_preparenext_64_safe tocarry starts parents parentslength nextparents nextlen :
  parentslength <= zlen parents -> parentslength <= zlen tocarry -> nextlen <= zlen nextparents ->
  (forall i, 0 <= i < parentslength -> 0 <= at_ parents i < zlen starts) ->
  IndexedArray_local_preparenext tocarry starts parents parentslength nextparents nextlen <> KOob.
Proof.
  intros H1 H2 H3 Hr. unfold IndexedArray_local_preparenext. eapply np_noob.
  apply np_bind_kfor with (P := fun (_ : Z) (st : list Z * Z) => zlen (fst st) = zlen tocarry /\ 0 <= snd st)
                          (Q := fun _ : list Z => True).
  - cbn [fst snd]. lia.
  - intros i [out j] Hi (L & J). cbn [fst snd] in *. specialize (Hr i Hi).
    np_auto; cbn [fst snd]; rewrite ?zlen_set_nth; lia.
  - intros s' _. now apply np_ret.
Qed.

Example IndexedArray_local_preparenext_64_example :
  IndexedArray_local_preparenext [9;9;9;9;9] [0; 2; 4] [0; 0; 1; 1; 2] 5 [0; 1; 2] 3 = KOk [0; -1; 1; -1; 2].
Proof. vm_compute. reflexivity. Qed.

(* ================================================================================================ *)
(** * awkward_ListOffsetArray_reduce_nonlocal_outstartsstops_64
      (caller: outstarts/outstops = outlength cells, distincts = lendistincts = maxcount*outlength cells).
      The while loop reads distincts[stop] only while stop < (k+1)*maxcount <= outlength*(lendistincts/outlength). *)

Theorem ListOffsetArray_reduce_nonlocal_outstartsstops_64_safe outstarts outstops distincts lendistincts outlength :
  outlength <= zlen outstarts -> outlength <= zlen outstops -> lendistincts <= zlen distincts ->
  reduce_nonlocal_outstartsstops outstarts outstops distincts lendistincts outlength <> KOob.
Proof.
  intros H1 H2 H3. unfold reduce_nonlocal_outstartsstops. eapply np_noob.
  set (maxcount := if outlength =? 0 then 0 else lendistincts / outlength).
  apply (np_kfor_c _ (fun st : list Z * list Z => zlen (fst st) = zlen outstarts /\ zlen (snd st) = zlen outstops)); auto.
  intros k [os op] Hk (L1 & L2). cbn [fst snd] in *.
  assert (M : maxcount <= 0 \/ (0 < maxcount /\ (k + 1) * maxcount <= lendistincts)).
  { unfold maxcount. destruct (outlength =? 0) eqn:E0; [lia|].
    destruct (Z_le_gt_dec (lendistincts / outlength) 0) as [Hle|Hgt]; [lia|]. right. split; [lia|].
    assert (outlength * (lendistincts / outlength) <= lendistincts) by (apply Z.mul_div_le; lia). nia. }
  eapply np_bind.
  - apply (np_kwhile _ _ _ (fun stop => k * maxcount <= stop)); [lia|].
    intros stop Hs C. apply andb_prop in C. destruct C as (C & _).
    assert (0 <= stop < zlen distincts) by nia. np_auto. lia.
  - intros stop (Hs & _). cbv beta.
    destruct (if stop =? k * maxcount then (0, 0) else (k * maxcount, stop)) as [a b].
    np_auto. cbn [fst snd]. now rewrite !zlen_set_nth.
Qed.

Example ListOffsetArray_reduce_nonlocal_outstartsstops_64_example :
  reduce_nonlocal_outstartsstops [9;9;9] [9;9;9] [0; 1; -1; -1; -1; -1; 2; 3; 4] 9 3 = KOk ([0; 0; 6], [2; 0; 9]).
Proof. vm_compute. reflexivity. Qed.

(* ================================================================================================ *)
(** * awkward_ListOffsetArray_reduce_nonlocal_nextshifts_64
      (callers: reduce_next (reducer.returns_positions()) and argsort_next: nummissing = maxcount cells,
      missing = offsets[length] cells, nextshifts = nextlen cells, nextcarry = nextlen cells holding content
      positions offsets[i] + j < offsets[length]; starts = the caller's starts, indexed by parents[i]) *)

Theorem ListOffsetArray_reduce_nonlocal_nextshifts_64_safe nummissing missing nextshifts offsets length starts parents maxcount nextlen nextcarry :
  length + 1 <= zlen offsets -> length <= zlen parents -> maxcount <= zlen nummissing ->
  nextlen <= zlen nextshifts -> nextlen <= zlen nextcarry ->
  (forall i, 0 <= i < length -> 0 <= at_ parents i < zlen starts) ->
  (forall i, 0 <= i < length ->
     0 <= at_ offsets i <= at_ offsets (i + 1) /\ at_ offsets (i + 1) - at_ offsets i <= maxcount /\
     at_ offsets (i + 1) <= zlen missing) ->
  (forall j, 0 <= j < nextlen -> 0 <= at_ nextcarry j < zlen missing) ->
  reduce_nonlocal_nextshifts nummissing missing nextshifts offsets length starts parents maxcount nextlen nextcarry <> KOob.
Proof.
  intros H1 H2 H3 H4 H5 Hp Ho Hc. unfold reduce_nonlocal_nextshifts. eapply np_noob.
  apply np_bind_kfor with
    (P := fun (_ : Z) (st : list Z * list Z) => zlen (fst st) = zlen nummissing /\ zlen (snd st) = zlen missing)
    (Q := fun _ : list Z * list Z * list Z => True); auto.
  - intros i [nm ms] Hi (L1 & L2). cbn [fst snd] in *. specialize (Hp i Hi). destruct (Ho i Hi) as (O1 & O2 & O3).
    np_step. np_step. np_step. np_step.
    apply np_bind with (R := fun nm1 : list Z => zlen nm1 = zlen nummissing).
    { destruct (at_ starts (at_ parents i) =? i); [|now apply np_ret].
      apply (np_kfor_c _ (fun b => zlen b = zlen nummissing)); auto.
      intros k s Hk Ls. np_auto. now rewrite zlen_set_nth. }
    intros nm1 L3.
    apply np_bind with (R := fun nm2 : list Z => zlen nm2 = zlen nummissing).
    { apply (np_kfor_c _ (fun b => zlen b = zlen nummissing)); auto.
      intros k s Hk Ls. np_auto. now rewrite zlen_set_nth. }
    intros nm2 L4.
    apply np_bind with (R := fun ms' : list Z => zlen ms' = zlen missing).
    { apply (np_kfor_c _ (fun b => zlen b = zlen missing)); auto.
      intros j s Hj Ls. np_auto. now rewrite zlen_set_nth. }
    intros ms' L5. apply np_ret. cbn [fst snd]. auto.
  - intros [nm ms] (L1 & L2). cbn [fst snd] in *.
    apply np_bind with (R := fun _ : list Z => True); [|intros; now apply np_ret].
    split; [|auto]. apply kfill_safe; try lia.
    intros j Hj. specialize (Hc j Hj). eapply np_noob with (Q := fun _ => True). np_auto. auto.
Qed.

Example ListOffsetArray_reduce_nonlocal_nextshifts_64_example :
  reduce_nonlocal_nextshifts [9;9] [9;9;9] [9;9;9] [0; 2; 3] 2 [0] [0; 0] 2 3 [0; 2; 1]
  = KOk ([0; 1], [0; 0; 0], [0; 0; 0]).
Proof. vm_compute. reflexivity. Qed.

(** the bound "every list length <= maxcount" is necessary (here maxcount = 1 and the only list has 2 items):
    the callers obtain maxcount from _maxcount_offsetscopy_64 on the same offsets *)
Example ListOffsetArray_reduce_nonlocal_nextshifts_64_long_list_refuted :
  reduce_nonlocal_nextshifts [9] [9;9] [9;9] [0; 2] 1 [0] [0] 1 2 [0; 1] = KOob.
Proof. vm_compute. reflexivity. Qed.

(* ================================================================================================ *)
(** * awkward_ListOffsetArray_reduce_local_outoffsets_64
      (caller: outoffsets = outlength + 1 cells, parents[i] < outlength).  Invariant k = last + 1 with
      last = -1 or last < outlength; neither sortedness nor parents[i] >= 0 is needed for memory safety. *)

Theorem ListOffsetArray_reduce_local_outoffsets_64_safe outoffsets parents lenparents outlength :
  lenparents <= zlen parents -> outlength + 1 <= zlen outoffsets ->
  (forall i, 0 <= i < lenparents -> at_ parents i < outlength) ->
  reduce_local_outoffsets outoffsets parents lenparents outlength <> KOob.
Proof.
  intros H1 H2 Hr. unfold reduce_local_outoffsets. eapply np_noob.
  apply np_bind_kfor with
    (P := fun (_ : Z) (st : list Z * Z * Z) =>
            zlen (fst (fst st)) = zlen outoffsets /\ snd (fst st) = snd st + 1 /\ -1 <= snd st /\
            (snd st = -1 \/ snd st < outlength))
    (Q := fun _ : list Z => True).
  - cbn [fst snd]. lia.
  - intros i st Hi Pst. specialize (Hr i Hi). np_step.
    eapply np_weaken.
    + apply (np_kwhile _ _ _ (fun st : list Z * Z * Z =>
            zlen (fst (fst st)) = zlen outoffsets /\ snd (fst st) = snd st + 1 /\ -1 <= snd st /\
            (snd st = -1 \/ snd st < outlength))); [exact Pst|].
      intros [[out k] last] (L & K & B1 & B2) C. cbn [fst snd] in *. np_auto. cbn [fst snd]. rewrite zlen_set_nth. lia.
    + intros a (Pa & _). exact Pa.
  - intros [[out k] last] (L & K & B1 & B2). cbn [fst snd] in *.
    apply (np_weaken _ (fun b => zlen b = zlen outoffsets)); [|auto].
    apply (np_kfor_c _ (fun b => zlen b = zlen outoffsets)); auto.
    intros q s Hq Ls. np_auto. now rewrite zlen_set_nth.
Qed.

Example ListOffsetArray_reduce_local_outoffsets_64_example :
  reduce_local_outoffsets [9;9;9;9;9] [0; 0; 2; 2; 2] 5 4 = KOk [0; 2; 2; 5; 5].
Proof. vm_compute. reflexivity. Qed.

(* ================================================================================================ *)
(** * awkward_ListOffsetArray_reduce_nonlocal_preparenext_64 *)

(** sum of f 0 .. f (n-1) *)
Fixpoint zsum (f : Z -> Z) (n : nat) : Z :=
  match n with O => 0 | S n' => zsum f n' + f (Z.of_nat n') end.

Lemma zsum_ext f g n : (forall q, 0 <= q < Z.of_nat n -> f q = g q) -> zsum f n = zsum g n.
Proof.
  induction n; intros H; cbn [zsum]; auto. rewrite IHn by (intros; apply H; lia). rewrite H by lia. reflexivity.
Qed.
Lemma zsum_nonneg f n : (forall q, 0 <= q < Z.of_nat n -> 0 <= f q) -> 0 <= zsum f n.
Proof.
  induction n; intros H; cbn [zsum]; [lia|]. assert (0 <= zsum f n) by (apply IHn; intros; apply H; lia).
  assert (0 <= f (Z.of_nat n)) by (apply H; lia). lia.
Qed.
Lemma zsum_ge_term f n i :
  (forall q, 0 <= q < Z.of_nat n -> 0 <= f q) -> 0 <= i < Z.of_nat n -> f i <= zsum f n.
Proof.
  induction n; intros H Hi; cbn [zsum]; [lia|].
  assert (0 <= zsum f n) by (apply zsum_nonneg; intros; apply H; lia).
  assert (0 <= f (Z.of_nat n)) by (apply H; lia).
  destruct (Z.eq_dec i (Z.of_nat n)) as [->|Hne]; [lia|].
  assert (f i <= zsum f n) by (apply IHn; [intros; apply H; lia|lia]). lia.
Qed.
Lemma zsum_upd f g n i d :
  0 <= i < Z.of_nat n -> (forall q, 0 <= q < Z.of_nat n -> g q = if q =? i then f q + d else f q) ->
  zsum g n = zsum f n + d.
Proof.
  induction n; intros Hi H; cbn [zsum]; [lia|].
  destruct (Z.eq_dec i (Z.of_nat n)) as [->|Hne].
  - rewrite (zsum_ext g f n).
    + rewrite H by lia. rewrite Z.eqb_refl. lia.
    + intros q Hq. rewrite H by lia. now replace (q =? Z.of_nat n) with false by lia.
  - rewrite IHn by (try lia; intros; apply H; lia). rewrite H by lia.
    replace (Z.of_nat n =? i) with false by lia. lia.
Qed.
Lemma zsum_telescope a n : zsum (fun q => a (q + 1) - a q) n = a (Z.of_nat n) - a 0.
Proof.
  induction n; cbn [zsum]; [cbn; lia|]. rewrite IHn. replace (Z.of_nat (S n)) with (Z.of_nat n + 1) by lia. lia.
Qed.

Lemma at_set_nth_z l i v q :
  0 <= q -> 0 <= i < zlen l -> at_ (set_nth l (Z.to_nat i) v) q = if q =? i then v else at_ l q.
Proof.
  intros Hq Hi. rewrite at_set_nth by (unfold zlen in Hi; lia). now replace (Z.of_nat (Z.to_nat i)) with i by lia.
Qed.

(** the loop invariant: buffer extents, every cursor offsetscopy[i] within its list, and the number of items
    already emitted (k) plus the number of items still to be emitted fits in nextlen *)
Definition pn_inv (nextcarry nextparents maxnextparents distincts offsetscopy offsets : list Z) (length nextlen : Z)
    (nc np mx d oc : list Z) (k : Z) : Prop :=
  zlen nc = zlen nextcarry /\ zlen np = zlen nextparents /\ zlen mx = zlen maxnextparents /\
  zlen d = zlen distincts /\ zlen oc = zlen offsetscopy /\ 0 <= k /\
  (forall i, 0 <= i < length -> at_ offsets i <= at_ oc i <= at_ offsets (i + 1)) /\
  k + zsum (fun q => at_ offsets (q + 1) - at_ oc q) (Z.to_nat length) <= nextlen.

(** general form: offsetscopy is any family of cursors inside their lists and nextlen bounds what is left *)
Lemma reduce_nonlocal_preparenext_noob nextcarry nextparents nextlen maxnextparents distincts distinctslen offsetscopy offsets length parents maxcount outlength :
  1 <= zlen maxnextparents -> distinctslen <= zlen distincts -> outlength * maxcount <= zlen distincts ->
  length + 1 <= zlen offsets -> length <= zlen offsetscopy -> length <= zlen parents ->
  nextlen <= zlen nextcarry -> nextlen <= zlen nextparents ->
  (forall i, 0 <= i < length -> 0 <= at_ parents i < outlength) ->
  (forall i, 0 <= i < length -> at_ offsets (i + 1) - at_ offsets i <= maxcount) ->
  (forall i, 0 <= i < length -> at_ offsets i <= at_ offsetscopy i <= at_ offsets (i + 1)) ->
  zsum (fun q => at_ offsets (q + 1) - at_ offsetscopy q) (Z.to_nat length) <= nextlen ->
  reduce_nonlocal_preparenext nextcarry nextparents nextlen maxnextparents distincts distinctslen offsetscopy offsets
    length parents maxcount <> KOob.
Proof.
  intros H0 H1 H2 H3 H4 H5 H6 H7 Hp Hm Hc Hs. unfold reduce_nonlocal_preparenext.
  eapply np_noob with (Q := fun _ : list Z * list Z * list Z * list Z * list Z => True). np_step.
  apply np_bind with (R := fun d0 : list Z => zlen d0 = zlen distincts).
  { apply (np_kfor_c _ (fun b => zlen b = zlen distincts)); auto.
    intros i s Hi Ls. np_auto. now rewrite zlen_set_nth. }
  intros d0 Ld.
  apply np_bind with (R := fun _ : list Z * list Z * list Z * list Z * list Z * Z => True); [|intros; now apply np_ret].
  set (INV := pn_inv nextcarry nextparents maxnextparents distincts offsetscopy offsets length nextlen).
  eapply np_weaken.
  2:{ intros a _. exact I. }
  apply (np_kwhile _ _ _ (fun s : list Z * list Z * list Z * list Z * list Z * Z =>
           let '(nc, np, mx, d, oc) := fst s in INV nc np mx d oc (snd s))).
  - cbn [fst snd]. unfold INV, pn_inv. rewrite zlen_set_nth. repeat split; auto; try lia; apply Hc; auto.
  - intros [[[[[nc np] mx] d] oc] k] Inv _. cbn [fst snd] in *.
    eapply np_bind.
    + apply (np_kfor_c _ (fun st : list Z * list Z * list Z * list Z * list Z * Z * Z =>
               let '(nc, np, mx, d, oc, k, j) := st in INV nc np mx d oc k)); [exact Inv|].
      clear nc np mx d oc k Inv.
      intros i [[[[[[nc np] mx] d] oc] k] j] Hi Inv.
      destruct Inv as (L1 & L2 & L3 & L4 & L5 & K0 & Rg & Sm).
      np_step. np_step. destruct (at_ oc i <? at_ offsets (i + 1)) eqn:C1.
      2:{ apply np_ret. unfold INV, pn_inv. repeat split; auto; apply Rg; auto. }
      set (f := fun q => at_ offsets (q + 1) - at_ oc q) in Sm.
      assert (F0 : forall q, 0 <= q < Z.of_nat (Z.to_nat length) -> 0 <= f q).
      { intros q Hq. unfold f. assert (0 <= q < length) as Hq' by lia. specialize (Rg q Hq'). lia. }
      assert (F1 : f i <= zsum f (Z.to_nat length)) by (apply zsum_ge_term; auto; lia).
      assert (F2 : 0 < f i) by (unfold f; lia).
      assert (K1 : k < nextlen) by lia.
      specialize (Hp i Hi). specialize (Hm i Hi). pose proof (Rg i Hi) as Ri.
      assert (V : 0 <= at_ parents i * maxcount + (at_ oc i - at_ offsets i) < zlen d) by nia.
      assert (Next : forall nc' np' mx' d', zlen nc' = zlen nextcarry -> zlen np' = zlen nextparents ->
                zlen mx' = zlen maxnextparents -> zlen d' = zlen distincts ->
                INV nc' np' mx' d' (set_nth oc (Z.to_nat i) (at_ oc i + 1)) (k + 1)).
      { intros nc' np' mx' d' M1 M2 M3 M4. unfold INV, pn_inv. rewrite zlen_set_nth.
        split; [auto|]. split; [auto|]. split; [auto|]. split; [auto|]. split; [auto|]. split; [lia|]. split.
        - intros q Hq. rewrite at_set_nth_z by lia. destruct (q =? i) eqn:E; [replace q with i in * by lia; lia|apply Rg; auto].
        - rewrite (zsum_upd f _ (Z.to_nat length) i (-1)); try lia.
          intros q Hq. unfold f. rewrite at_set_nth_z by lia. destruct (q =? i) eqn:E; [replace q with i in * by lia|]; lia. }
      np_auto'; cbn [fst snd]; apply Next; rewrite ?zlen_set_nth; auto.
    + intros [[[[[[nc' np'] mx'] d'] oc'] k'] j'] Inv'. apply np_ret. exact Inv'.
Qed.

(** the callers' situation (reduce_next / sort_next / argsort_next, non-local branch): offsetscopy is the copy of
    offsets made by _maxcount_offsetscopy_64, nextlen = offsets[length] - offsets[0] (>= is enough for memory
    safety), nextcarry/nextparents = nextlen cells, distincts = maxcount*outlength cells, parents[i] in
    [0, outlength), every list length in [0, maxcount].  offsets[0] = 0 is NOT needed here. *)
Theorem ListOffsetArray_reduce_nonlocal_preparenext_64_safe nextcarry nextparents nextlen maxnextparents distincts distinctslen offsetscopy offsets length parents maxcount outlength :
  0 <= length -> 1 <= zlen maxnextparents ->
  distinctslen <= zlen distincts -> outlength * maxcount <= zlen distincts ->
  length + 1 <= zlen offsets -> length + 1 <= zlen offsetscopy -> length <= zlen parents ->
  nextlen <= zlen nextcarry -> nextlen <= zlen nextparents ->
  at_ offsets length - at_ offsets 0 <= nextlen ->
  (forall i, 0 <= i < length -> 0 <= at_ parents i < outlength) ->
  (forall i, 0 <= i < length -> 0 <= at_ offsets (i + 1) - at_ offsets i <= maxcount) ->
  (forall i, 0 <= i <= length -> at_ offsetscopy i = at_ offsets i) ->
  reduce_nonlocal_preparenext nextcarry nextparents nextlen maxnextparents distincts distinctslen offsetscopy offsets length parents maxcount <> KOob.
Proof.
  intros Hn H0 H1 H2 H3 H4 H5 H6 H7 Hl Hp Hm Hc.
  assert (A1 : forall i, 0 <= i < length -> at_ offsets (i + 1) - at_ offsets i <= maxcount).
  { intros i Hi. apply Hm; auto. }
  assert (A2 : forall i, 0 <= i < length -> at_ offsets i <= at_ offsetscopy i <= at_ offsets (i + 1)).
  { intros i Hi. rewrite Hc by lia. specialize (Hm i Hi). lia. }
  assert (A3 : zsum (fun q => at_ offsets (q + 1) - at_ offsetscopy q) (Z.to_nat length) <= nextlen).
  { rewrite (zsum_ext _ (fun q => at_ offsets (q + 1) - at_ offsets q)).
    - rewrite (zsum_telescope (at_ offsets)). now replace (Z.of_nat (Z.to_nat length)) with length by lia.
    - intros q Hq. rewrite Hc by lia. reflexivity. }
  apply reduce_nonlocal_preparenext_noob with (outlength := outlength); auto; lia.
Qed.

Example ListOffsetArray_reduce_nonlocal_preparenext_64_example :
  reduce_nonlocal_preparenext [9;9;9;9;9] [9;9;9;9;9] 5 [9] [9;9;9;9;9;9] 6 [0; 2; 2; 5] [0; 2; 2; 5] 3 [0; 1; 1] 3
  = KOk ([0; 2; 1; 3; 4], [0; 3; 1; 4; 5], [5], [0; 0; -1; 1; 1; 0], [2; 2; 5; 5]).
Proof. vm_compute. reflexivity. Qed.

(** the bound on nextlen is necessary: the test k < nextlen is made once per pass, not once per item *)
Example ListOffsetArray_reduce_nonlocal_preparenext_64_short_nextlen_refuted :
  reduce_nonlocal_preparenext [9] [9] 1 [9] [9;9] 2 [0; 1; 2] [0; 1; 2] 2 [0; 1] 1 = KOob.
Proof. vm_compute. reflexivity. Qed.
(** so is the bound on the list lengths (here maxcount = 1 < 2 = the length of the only list, outlength = 1) *)
Example ListOffsetArray_reduce_nonlocal_preparenext_64_small_maxcount_refuted :
  reduce_nonlocal_preparenext [9;9] [9;9] 2 [9] [9] 1 [0; 2] [0; 2] 1 [0] 1 = KOob.
Proof. vm_compute. reflexivity. Qed.

(* ================================================================================================ *)
(** * specifications *)

(** ** _maxcount_offsetscopy_64: maxcount = max (0, the list lengths), offsetscopy = copy of offsets *)
Fixpoint max_count (offsets : list Z) (n : nat) : Z :=
  match n with
  | O => 0
  | S n' => Z.max (max_count offsets n') (at_ offsets (Z.of_nat n' + 1) - at_ offsets (Z.of_nat n'))
  end.

Lemma max_count_nonneg offsets n : 0 <= max_count offsets n.
Proof. induction n; cbn [max_count]; lia. Qed.
Lemma max_count_ge offsets n i :
  0 <= i < Z.of_nat n -> at_ offsets (i + 1) - at_ offsets i <= max_count offsets n.
Proof.
  induction n; intros Hi; [lia|]. cbn [max_count].
  destruct (Z.eq_dec i (Z.of_nat n)) as [->|Hne]; [lia|]. assert (0 <= i < Z.of_nat n) as Hi' by lia.
  specialize (IHn Hi'). lia.
Qed.
Lemma max_count_attained offsets n :
  max_count offsets n = 0 \/
  exists i, 0 <= i < Z.of_nat n /\ max_count offsets n = at_ offsets (i + 1) - at_ offsets i.
Proof.
  induction n; [left; reflexivity|]. cbn [max_count].
  destruct (Z_le_gt_dec (at_ offsets (Z.of_nat n + 1) - at_ offsets (Z.of_nat n)) (max_count offsets n)) as [Hle|Hgt].
  - rewrite Z.max_l by lia. destruct IHn as [E|(i & Hi & E)]; [left; auto|right]. exists i. split; [lia|auto].
  - rewrite Z.max_r by lia. right. exists (Z.of_nat n). split; [lia|auto].
Qed.

Theorem ListOffsetArray_reduce_nonlocal_maxcount_offsetscopy_64_spec maxcount offsetscopy offsets length :
  0 <= length -> 1 <= zlen maxcount -> length + 1 <= zlen offsets -> length + 1 <= zlen offsetscopy ->
  exists mc oc, reduce_nonlocal_maxcount_offsetscopy maxcount offsetscopy offsets length
                = KOk (set_nth maxcount 0 mc, oc) /\
    mc = max_count offsets (Z.to_nat length) /\ 0 <= mc /\
    (forall i, 0 <= i < length -> at_ offsets (i + 1) - at_ offsets i <= mc) /\
    (mc = 0 \/ exists i, 0 <= i < length /\ mc = at_ offsets (i + 1) - at_ offsets i) /\
    zlen oc = zlen offsetscopy /\
    forall q, 0 <= q -> at_ oc q = if q <=? length then at_ offsets q else at_ offsetscopy q.
Proof.
  intros Hn H0 H1 H2. unfold reduce_nonlocal_maxcount_offsetscopy.
  rewrite kupd_ok by lia. cbn [kbind Z.to_nat]. rewrite (kget_at offsets 0) by lia. cbn [kbind].
  rewrite kupd_ok by lia. cbn [kbind Z.to_nat].
  match goal with |- exists mc oc, kfor 0 length ?b _ = _ /\ _ =>
    destruct (kfor_inv b
      (fun j (st : list Z * list Z) =>
         fst st = set_nth maxcount 0 (max_count offsets (Z.to_nat j)) /\ zlen (snd st) = zlen offsetscopy /\
         forall q, 0 <= q -> at_ (snd st) q = if q <=? j then at_ offsets q else at_ offsetscopy q)
      0 length (set_nth maxcount 0 0, set_nth offsetscopy 0 (at_ offsets 0))) as ([m c] & E & Pm & Lc & Ac); auto end.
  - cbn [fst snd]. split; [reflexivity|]. split; [apply zlen_set_nth|].
    intros q Hq. rewrite (at_set_nth_z offsetscopy 0) by lia.
    destruct (q =? 0) eqn:E0; [replace q with 0 by lia; reflexivity|]. now replace (q <=? 0) with false by lia.
  - intros j [m c] Hj (Pm & Lc & Ac). cbn [fst snd] in *. subst m.
    rewrite (kget_at offsets (j + 1)), (kget_at offsets j) by lia. cbn [kbind].
    rewrite (kget_at (set_nth maxcount 0 _)) by (rewrite zlen_set_nth; lia). cbn [kbind].
    rewrite at_set_nth_0 by lia.
    set (X := max_count offsets (Z.to_nat j)). set (cnt := at_ offsets (j + 1) - at_ offsets j).
    assert (MS : max_count offsets (Z.to_nat (j + 1)) = Z.max X cnt).
    { replace (Z.to_nat (j + 1)) with (S (Z.to_nat j)) by lia. cbn [max_count].
      replace (Z.of_nat (Z.to_nat j)) with j by lia. reflexivity. }
    assert (Step : forall m', m' = set_nth maxcount 0 (Z.max X cnt) ->
              exists s', (let* c' := kupd c (j + 1) (at_ offsets (j + 1)) in KOk (m', c')) = KOk s' /\
                fst s' = set_nth maxcount 0 (max_count offsets (Z.to_nat (j + 1))) /\ zlen (snd s') = zlen offsetscopy /\
                forall q, 0 <= q -> at_ (snd s') q = if q <=? j + 1 then at_ offsets q else at_ offsetscopy q).
    { intros m' ->. rewrite kupd_ok by lia. cbn [kbind]. eexists; split; [reflexivity|]. cbn [fst snd].
      split; [now rewrite MS|]. split; [now rewrite zlen_set_nth|].
      intros q Hq. rewrite at_set_nth_z by lia. destruct (q =? j + 1) eqn:E1.
      - replace (q <=? j + 1) with true by lia. now replace q with (j + 1) by lia.
      - rewrite Ac by lia. destruct (q <=? j) eqn:E2; [replace (q <=? j + 1) with true by lia|replace (q <=? j + 1) with false by lia]; auto. }
    destruct (X <? cnt) eqn:C.
    + rewrite kupd_ok by (rewrite zlen_set_nth; lia). cbn [kbind Z.to_nat]. rewrite set_nth_0_twice.
      apply Step. f_equal. lia.
    + cbn [kbind]. apply Step. f_equal. lia.
  - cbn [fst snd] in *. exists (max_count offsets (Z.to_nat length)), c. split; [now rewrite E, Pm|].
    split; [reflexivity|]. split; [apply max_count_nonneg|]. split.
    + intros i Hi. apply max_count_ge. lia.
    + split; [|split; auto].
      destruct (max_count_attained offsets (Z.to_nat length)) as [E0|(i & Hi & Ei)]; [left; auto|right].
      exists i. split; [lia|auto].
Qed.

(** ** _nextstarts_64: when nextparents is sorted, nextstarts[p] = the first i with nextparents[i] = p;
       cells of values that do not occur are left untouched *)
Theorem ListOffsetArray_reduce_nonlocal_nextstarts_64_spec nextstarts nextparents nextlen :
  0 <= nextlen <= zlen nextparents ->
  (forall i, 0 <= i < nextlen -> 0 <= at_ nextparents i < zlen nextstarts) ->
  (forall i i', 0 <= i <= i' -> i' < nextlen -> at_ nextparents i <= at_ nextparents i') ->
  exists out, reduce_nonlocal_nextstarts nextstarts nextparents nextlen = KOk out /\ zlen out = zlen nextstarts /\
    (forall i, 0 <= i < nextlen -> (forall i', 0 <= i' < i -> at_ nextparents i' <> at_ nextparents i) ->
               at_ out (at_ nextparents i) = i) /\
    (forall p, 0 <= p -> (forall i, 0 <= i < nextlen -> at_ nextparents i <> p) -> at_ out p = at_ nextstarts p).
Proof.
  intros Hn Hr Hs. unfold reduce_nonlocal_nextstarts.
  match goal with |- exists out, kbind (kfor 0 nextlen ?b _) _ = _ /\ _ =>
    destruct (kfor_inv b
      (fun j (st : list Z * Z) =>
         zlen (fst st) = zlen nextstarts /\ snd st = (if j =? 0 then -1 else at_ nextparents (j - 1)) /\
         (forall i, 0 <= i < j -> (forall i', 0 <= i' < i -> at_ nextparents i' <> at_ nextparents i) ->
                    at_ (fst st) (at_ nextparents i) = i) /\
         (forall p, 0 <= p -> (forall i, 0 <= i < j -> at_ nextparents i <> p) -> at_ (fst st) p = at_ nextstarts p))
      0 nextlen (nextstarts, -1)) as ([out last] & E & L & _ & A1 & A2); try lia end.
  - cbn [fst snd]. split; [auto|]. split; [reflexivity|]. split; [intros; lia|auto].
  - intros j [out last] Hj (L & La & A1 & A2). cbn [fst snd] in *.
    pose proof (Hr j Hj) as Rj. rewrite (kget_at nextparents j) by lia. cbn [kbind].
    destruct (negb (at_ nextparents j =? last)) eqn:C.
    + (* a new value: every earlier entry is strictly smaller *)
      assert (Lt : forall i, 0 <= i < j -> at_ nextparents i < at_ nextparents j).
      { intros i Hi. assert (at_ nextparents i <= at_ nextparents (j - 1)) by (apply Hs; lia).
        assert (at_ nextparents (j - 1) <= at_ nextparents j) by (apply Hs; lia).
        replace (j =? 0) with false in La by lia. lia. }
      rewrite kupd_ok by lia. cbn [kbind]. eexists; split; [reflexivity|]. cbn [fst snd].
      split; [now rewrite zlen_set_nth|]. split; [replace (j + 1 =? 0) with false by lia; f_equal; lia|]. split.
      * intros i Hi Hf. pose proof (Hr i) as Ri. rewrite at_set_nth_z by lia.
        destruct (Z.eq_dec i j) as [->|Hne]; [now rewrite Z.eqb_refl|].
        assert (at_ nextparents i < at_ nextparents j) by (apply Lt; lia).
        replace (at_ nextparents i =? at_ nextparents j) with false by lia. apply A1; auto; lia.
      * intros p Hp Hf. rewrite at_set_nth_z by lia.
        assert (at_ nextparents j <> p) by (apply Hf; lia).
        replace (p =? at_ nextparents j) with false by lia. apply A2; auto. intros i Hi. apply Hf. lia.
    + (* the same value as the previous entry *)
      assert (Eq : j <> 0 /\ at_ nextparents j = at_ nextparents (j - 1)).
      { destruct (j =? 0) eqn:J0; lia. }
      destruct Eq as (J0 & Eq). cbn [kbind]. eexists; split; [reflexivity|]. cbn [fst snd].
      split; [auto|]. split; [replace (j + 1 =? 0) with false by lia; f_equal; lia|]. split.
      * intros i Hi Hf. destruct (Z.eq_dec i j) as [->|Hne].
        -- exfalso. apply (Hf (j - 1)); [lia|auto].
        -- apply A1; auto; lia.
      * intros p Hp Hf. apply A2; auto. intros i Hi. apply Hf. lia.
  - rewrite E. cbn [kbind fst snd] in *. exists out. auto.
Qed.

(** ** _reduce_local_outoffsets_64: for sorted parents in [0, outlength), outoffsets[q] = #{i | parents[i] < q}
       for q = 0 .. outlength (the offsets of the groups of equal parents, empty groups included) *)
Fixpoint count_below (parents : list Z) (n : nat) (q : Z) : Z :=
  match n with
  | O => 0
  | S n' => count_below parents n' q + (if at_ parents (Z.of_nat n') <? q then 1 else 0)
  end.

Lemma count_below_all parents n q :
  (forall i, 0 <= i < Z.of_nat n -> at_ parents i < q) -> count_below parents n q = Z.of_nat n.
Proof.
  induction n; intros H; cbn [count_below]; [reflexivity|]. rewrite IHn by (intros; apply H; lia).
  assert (at_ parents (Z.of_nat n) < q) by (apply H; lia). replace (at_ parents (Z.of_nat n) <? q) with true by lia. lia.
Qed.
Lemma count_below_S parents j q :
  0 <= j -> count_below parents (Z.to_nat (j + 1)) q
            = count_below parents (Z.to_nat j) q + (if at_ parents j <? q then 1 else 0).
Proof.
  intros Hj. replace (Z.to_nat (j + 1)) with (S (Z.to_nat j)) by lia. cbn [count_below].
  now replace (Z.of_nat (Z.to_nat j)) with j by lia.
Qed.

Theorem ListOffsetArray_reduce_local_outoffsets_64_spec outoffsets parents lenparents outlength :
  0 <= lenparents <= zlen parents -> 0 <= outlength -> outlength + 1 <= zlen outoffsets ->
  (forall i, 0 <= i < lenparents -> 0 <= at_ parents i < outlength) ->
  (forall i i', 0 <= i <= i' -> i' < lenparents -> at_ parents i <= at_ parents i') ->
  exists out, reduce_local_outoffsets outoffsets parents lenparents outlength = KOk out /\ zlen out = zlen outoffsets /\
    forall q, 0 <= q -> at_ out q = if q <=? outlength then count_below parents (Z.to_nat lenparents) q
                                   else at_ outoffsets q.
Proof.
  intros Hn Hol H2 Hr Hs. unfold reduce_local_outoffsets.
  match goal with |- exists out, kbind (kfor 0 lenparents ?b _) _ = _ /\ _ =>
    destruct (kfor_inv b
      (fun j (st : list Z * Z * Z) =>
         zlen (fst (fst st)) = zlen outoffsets /\ snd (fst st) = snd st + 1 /\
         snd st = (if j =? 0 then -1 else at_ parents (j - 1)) /\
         forall q, 0 <= q -> at_ (fst (fst st)) q = if q <? snd (fst st) then count_below parents (Z.to_nat j) q
                                                    else at_ outoffsets q)
      0 lenparents (outoffsets, 0, -1)) as ([[out k] last] & E & L & K & La & A); try lia end.
  - cbn [fst snd]. split; [auto|]. split; [lia|]. split; [reflexivity|].
    intros q Hq. now replace (q <? 0) with false by lia.
  - intros j [[out k] last] Hj (L & K & La & A). cbn [fst snd] in *.
    pose proof (Hr j Hj) as Rj. rewrite (kget_at parents j) by lia. cbn [kbind].
    set (p := at_ parents j) in *.
    assert (Lp : -1 <= last <= p).
    { destruct (j =? 0) eqn:J0; [lia|]. assert (at_ parents (j - 1) <= p) by (apply Hs; lia).
      assert (0 <= at_ parents (j - 1) < outlength) by (apply Hr; lia). lia. }
    assert (Old : forall i, 0 <= i < j -> at_ parents i <= last).
    { intros i Hi. replace (j =? 0) with false in La by lia. rewrite La. apply Hs; lia. }
    match goal with |- exists s', kwhile ?f ?c ?b ?s = KOk s' /\ _ =>
      destruct (kwhile_total f c b
        (fun st : list Z * Z * Z =>
           zlen (fst (fst st)) = zlen outoffsets /\ snd (fst st) = snd st + 1 /\ last <= snd st <= p /\
           forall q, 0 <= q -> at_ (fst (fst st)) q =
             if q <? snd (fst st) then (if q <? k then count_below parents (Z.to_nat j) q else j) else at_ outoffsets q)
        (fun st : list Z * Z * Z => p - snd st) s) as ([[out' k'] last'] & E' & (L' & K' & La' & A') & C') end.
    + cbn [fst snd]. split; [auto|]. split; [auto|]. split; [lia|].
      intros q Hq. rewrite A by lia. destruct (q <? k); auto.
    + cbn [snd]. lia.
    + intros [[o1 k1] l1] (L1 & K1 & La1 & A1) C1. cbn [fst snd] in *. split; [lia|].
      rewrite kupd_ok by lia. cbn [kbind]. eexists; split; [reflexivity|]. cbn [fst snd].
      split; [split; [now rewrite zlen_set_nth|]|lia]. split; [lia|]. split; [lia|].
      intros q Hq. rewrite at_set_nth_z by lia. destruct (q =? k1) eqn:Eq.
      * replace (q <? k1 + 1) with true by lia. now replace (q <? k) with false by lia.
      * rewrite A1 by lia. destruct (q <? k1) eqn:E1; [replace (q <? k1 + 1) with true by lia|replace (q <? k1 + 1) with false by lia]; auto.
    + cbn [fst snd] in *. exists (out', k', last'). split; [exact E'|]. cbn [fst snd].
      assert (last' = p) by lia. subst last'.
      split; [auto|]. split; [auto|].
      split; [replace (j + 1 =? 0) with false by lia; replace (j + 1 - 1) with j by lia; reflexivity|].
      intros q Hq. rewrite A' by lia. destruct (q <? k') eqn:E1; auto.
      rewrite count_below_S by lia. fold p. replace (p <? q) with false by lia.
      destruct (q <? k) eqn:E2; [lia|]. rewrite count_below_all; [lia|].
      intros i Hi. assert (at_ parents i <= last) by (apply Old; lia). lia.
  - rewrite E. cbn [kbind fst snd] in *.
    assert (Kb : 0 <= k <= outlength).
    { destruct (lenparents =? 0) eqn:J0; [lia|]. assert (0 <= at_ parents (lenparents - 1) < outlength) by (apply Hr; lia). lia. }
    destruct (kfor_inv (fun k0 o => kupd o k0 lenparents)
      (fun j o => zlen o = zlen outoffsets /\
                  forall q, 0 <= q -> at_ o q = if (k <=? q) && (q <? j) then lenparents else at_ out q)
      k (outlength + 1) out) as (o' & Eo & Lo & Ao); try lia.
    + split; [auto|]. intros q Hq. now replace ((k <=? q) && (q <? k)) with false by lia.
    + intros j o Hj (Lo & Ao). rewrite kupd_ok by lia. eexists; split; [reflexivity|].
      split; [now rewrite zlen_set_nth|]. intros q Hq. rewrite at_set_nth_z by lia. destruct (q =? j) eqn:Eq.
      * now replace ((k <=? q) && (q <? j + 1)) with true by lia.
      * rewrite Ao by lia.
        destruct ((k <=? q) && (q <? j)) eqn:E1; [replace ((k <=? q) && (q <? j + 1)) with true by lia
                                                 |replace ((k <=? q) && (q <? j + 1)) with false by lia]; auto.
    + exists o'. split; [exact Eo|]. split; [auto|]. intros q Hq. rewrite Ao by lia.
      destruct ((k <=? q) && (q <? outlength + 1)) eqn:E1.
      * replace (q <=? outlength) with true by lia. rewrite count_below_all; [lia|].
        intros i Hi. replace (lenparents =? 0) with false in La by lia.
        assert (at_ parents i <= at_ parents (lenparents - 1)) by (apply Hs; lia). lia.
      * rewrite A by lia. destruct (q <? k) eqn:E2; [now replace (q <=? outlength) with true by lia|].
        now replace (q <=? outlength) with false by lia.
Qed.
