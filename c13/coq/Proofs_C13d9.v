(** Proofs_C13d9.v -- k_spec of awkward_ListArray_getitem_next_range: the carry lists, for every list, the positions
    start_i + rs_i, start_i + rs_i + step, ... ; the offsets are the running counts *)
From Coq Require Import ZArith List Bool Lia ZifyBool.
From AwkV Require Import Base.
From AwkKernels Require Import Kernels KLemmas Proofs_C13 Proofs_C13b Proofs_C13c Proofs_C13d Proofs_C13d2 Proofs_C13d8.
Import ListNotations.
Open Scope Z_scope.

Ltac Zify.zify_post_hook ::= Z.to_euclidean_division_equations.

(** the range loop, tracking the loop variable: the k-th call of [f] receives j + k * step *)
Lemma range_while_ok2 {X} (f : X -> Z -> kres X) step re :
  step <> 0 ->
  forall fuel (P : Z -> X -> Prop) j x,
  (if 0 <? step then re - j else j - re) <= Z.of_nat fuel ->
  P 0 x ->
  (forall k x, 0 <= k < range_iter fuel step j re -> P k x -> exists x', f x (j + k * step) = KOk x' /\ P (k + 1) x') ->
  exists s', kwhile fuel (fun s : X * Z => if 0 <? step then snd s <? re else re <? snd s)
                    (fun s => let '(x, j) := s in let* x' := f x j in KOk (x', j + step)) (x, j) = KOk s'
             /\ P (range_iter fuel step j re) (fst s').
Proof.
  intros Hs. induction fuel as [|fuel IH]; intros P j x Hfuel P0 Hf; cbn [kwhile range_iter snd].
  - fold (range_cond step re j). destruct (range_cond step re j) eqn:C.
    + unfold range_cond in C. destruct (0 <? step); lia.
    + exists (x, j). auto.
  - fold (range_cond step re j). cbn [range_iter] in Hf. destruct (range_cond step re j) eqn:C.
    + pose proof (range_iter_nonneg fuel step (j + step) re) as NN.
      destruct (Hf 0 x) as (x' & E & Px'); [lia|exact P0|]. replace (j + 0 * step) with j in E by lia.
      rewrite E. cbn [kbind].
      destruct (IH (fun k => P (k + 1)) (j + step) x') as (s' & E' & Ps'); auto.
      * unfold range_cond in C. destruct (0 <? step) eqn:S0; lia.
      * intros k x0 Hk P0'. destruct (Hf (k + 1) x0) as (x1 & E1 & P1); [lia|exact P0'|].
        exists x1. split; auto. rewrite <- E1. f_equal. ring.
      * exists s'. split; auto. replace (1 + range_iter fuel step (j + step) re) with (range_iter fuel step (j + step) re + 1) by lia. exact Ps'.
    + exists (x, j). auto.
Qed.

(** the carry entries produced for one list *)
Definition range_items (tC : ity) (start stop step fstart fstop : Z) : list Z :=
  let '(rs, re) := regularize_rangeslice start stop (0 <? step) (negb (start =? kSliceNone))
                                         (negb (stop =? kSliceNone)) (wrap tC (fstop - fstart)) in
  map (fun t => fstart + (rs + t * step)) (iota (range_iter (range_fuel rs re) step rs re)).

Lemma zlen_iota n : 0 <= n -> zlen (iota n) = n.
Proof. intros H. unfold zlen. rewrite iota_length. lia. Qed.

Theorem ListArray_getitem_next_range_spec tooffsets tocarry starts stops lenstarts start stop step :
  step <> 0 -> 0 <= lenstarts -> lenstarts + 1 <= zlen tooffsets -> lenstarts <= zlen starts -> lenstarts <= zlen stops ->
  let blk := fun i => range_items TIdeal start stop step (at_ starts i) (at_ stops i) in
  zlen (flat_map blk (iota lenstarts)) <= zlen tocarry ->
  exists off,
    ListArray_getitem_next_range TIdeal TIdeal tooffsets tocarry starts stops lenstarts start stop step
    = KOk (off, flat_map blk (iota lenstarts) ++ skipn (length (flat_map blk (iota lenstarts))) tocarry) /\
    zlen off = zlen tooffsets /\
    forall q, 0 <= q -> at_ off q = if q <=? lenstarts then zlen (flat_map blk (iota q)) else at_ tooffsets q.
Proof.
  intros Hs Hn H1 H2 H3 blk Hcap. unfold ListArray_getitem_next_range.
  destruct (kupd tooffsets 0 0) as [off0| |] eqn:U0.
  2:{ exfalso; eapply kupd_not_err; eauto. } 2:{ apply kupd_oob in U0; lia. }
  cbn [kbind]. destruct (kupd_at _ _ _ _ U0) as (L0 & A0).
  match goal with |- exists off, kbind (kfor 0 lenstarts ?b ?s0) _ = _ /\ _ =>
    destruct (kfor_inv b
      (fun i (st : list Z * (list Z * Z)) =>
         snd st = pushed_st (flat_map blk (iota i)) tocarry /\ zlen (fst st) = zlen tooffsets /\
         forall q, 0 <= q -> at_ (fst st) q = if q <=? i then zlen (flat_map blk (iota q)) else at_ tooffsets q)
      0 lenstarts s0) as ([off ck] & E & P); auto end.
  - cbn [fst snd]. split; [reflexivity|]. split; [lia|]. intros q Hq. rewrite A0 by lia. destruct (q =? 0) eqn:E.
    + replace (q <=? 0) with true by lia. replace q with 0 by lia. reflexivity.
    + replace (q <=? 0) with false by lia. reflexivity.
  - intros i [off ck] Hi (K & L & A). cbn [fst snd] in *. subst ck.
    rewrite (kget_at starts), (kget_at stops) by lia. cbn [kbind wrap].
    pose proof (flat_map_iota_prefix blk (i + 1) lenstarts ltac:(lia)) as M.
    assert (FS : flat_map blk (iota (i + 1)) = flat_map blk (iota i) ++ blk i).
    { rewrite iota_snoc by lia. rewrite flat_map_app. cbn [flat_map]. now rewrite app_nil_r. }
    rewrite FS in M. rewrite zlen_app in M. rewrite FS. clear FS.
    set (pre := flat_map blk (iota i)) in *.
    assert (BI : blk i = range_items TIdeal start stop step (at_ starts i) (at_ stops i)) by reflexivity.
    unfold range_items in BI. cbn [wrap] in BI.
    destruct (regularize_rangeslice start stop (0 <? step) (negb (start =? kSliceNone)) (negb (stop =? kSliceNone))
                (at_ stops i - at_ starts i)) as [rs re].
    set (cnt := range_iter (range_fuel rs re) step rs re) in *.
    assert (CN : 0 <= cnt) by apply range_iter_nonneg.
    assert (ZB : zlen (blk i) = cnt) by (rewrite BI, zlen_map; now apply zlen_iota).
    destruct (range_while_ok2 (fun (ck : list Z * Z) j => kpush ck (at_ starts i + j)) step re Hs (range_fuel rs re)
                (fun k ck => ck = pushed_st (pre ++ map (fun t => at_ starts i + (rs + t * step)) (iota k)) tocarry)
                rs (pushed_st pre tocarry)) as (r & Er & Pr).
    + unfold range_fuel. destruct (0 <? step); lia.
    + rewrite iota_0. cbn [map]. now rewrite app_nil_r.
    + intros k x Hk ->. fold cnt in Hk. unfold pushed_st. rewrite kpush_app.
      2:{ rewrite zlen_app, zlen_map, zlen_iota by lia. lia. }
      eexists; split; [reflexivity|]. rewrite iota_snoc by lia. rewrite map_app. cbn [map]. now rewrite app_assoc.
    + fold cnt in Pr. rewrite Er. cbn [kbind]. rewrite Pr. rewrite <- BI. cbv zeta. unfold pushed_st at 1. cbn [fst snd].
      destruct (kupd off (i + 1) (zlen (pre ++ blk i))) as [off'| |] eqn:U.
      2:{ exfalso; eapply kupd_not_err; eauto. } 2:{ apply kupd_oob in U; lia. }
      cbn [kbind]. eexists; split; [reflexivity|]. cbn [fst snd]. destruct (kupd_at _ _ _ _ U) as (L' & A').
      split; [reflexivity|]. split; [lia|]. intros q Hq. rewrite A' by lia. destruct (q =? i + 1) eqn:Eq.
      * replace (q <=? i + 1) with true by lia. replace q with (i + 1) by lia.
        rewrite iota_snoc by lia. rewrite flat_map_app. cbn [flat_map]. now rewrite app_nil_r.
      * rewrite A by lia. destruct (q <=? i) eqn:E2; [replace (q <=? i + 1) with true by lia|replace (q <=? i + 1) with false by lia]; reflexivity.
  - rewrite E. cbn [kbind fst snd]. cbn [fst snd] in P. destruct P as (K & L & A). subst ck.
    exists off. unfold pushed_st. cbn [fst]. auto.
Qed.

(** closed form of the iteration count: ceil((re - j) / step) for a positive step, ceil((j - re) / -step) for a negative one *)
Lemma range_iter_closed_pos fuel step j re :
  0 < step -> re - j <= Z.of_nat fuel ->
  range_iter fuel step j re = if j <? re then (re - j + step - 1) / step else 0.
Proof.
  intros Hs. revert j. induction fuel as [|fuel IH]; intros j Hf; cbn [range_iter].
  - replace (j <? re) with false by lia. reflexivity.
  - unfold range_cond. replace (0 <? step) with true by lia.
    destruct (j <? re) eqn:C; [|reflexivity]. rewrite IH by lia.
    destruct (j + step <? re) eqn:C2.
    + replace (re - j + step - 1) with ((re - (j + step) + step - 1) + 1 * step) by ring.
      rewrite Z.div_add by lia. lia.
    + rewrite Z.add_0_r. apply (Z.div_unique (re - j + step - 1) step 1 (re - j - 1)); lia.
Qed.
Lemma range_iter_closed_neg fuel step j re :
  step < 0 -> j - re <= Z.of_nat fuel ->
  range_iter fuel step j re = if re <? j then (j - re + (- step) - 1) / (- step) else 0.
Proof.
  intros Hs. revert j. induction fuel as [|fuel IH]; intros j Hf; cbn [range_iter].
  - replace (re <? j) with false by lia. reflexivity.
  - unfold range_cond. replace (0 <? step) with false by lia.
    destruct (re <? j) eqn:C; [|reflexivity]. rewrite IH by lia.
    destruct (re <? j + step) eqn:C2.
    + replace (j - re + - step - 1) with ((j + step - re + - step - 1) + 1 * (- step)) by ring.
      rewrite Z.div_add by lia. lia.
    + rewrite Z.add_0_r. apply (Z.div_unique (j - re + - step - 1) (- step) 1 (j - re - 1)); lia.
Qed.

(** for the slice [a:b] (both given, in range, step 1) the items of a list are start+a .. start+b-1 *)
Example range_items_example : range_items (TI 64) 1 kSliceNone 2 10 16 = [11; 13; 15].
Proof. vm_compute. reflexivity. Qed.
