(** Proofs about the Python-layer specifications of PySpec.v (laws stated by C03 C05 C07 C08 C09 C10). *)
From Coq Require Import ZArith List Bool Lia ZifyBool.
From AwkV Require Import Base Layout Valid Types AtAxis Ops_Struct Ops_Flatten Ops_Option Ops_Reduce
  Ops_Getitem Ops_Fields Proofs_Lists.
From AwkPy Require Import PySpec.
Import ListNotations.
Open Scope Z_scope.

(* ====================================================================== C05 *)

(* cutting the concatenation of lists by their lengths gives the lists back *)
Lemma regroup1_concat (ls : list (list value)) :
  regroup1 (map (fun l => Some (zlen l)) ls) (concat ls) = Ok (map VList ls, []).
Proof.
  induction ls as [|l ls IH]; [reflexivity|].
  cbn [map concat regroup1 cnt].
  assert (Hn := zlen_nonneg l).
  destruct (zlen l <? 0) eqn:E; [lia|].
  destruct (l ++ concat ls) as [|x rest] eqn:Eapp.
  - apply app_eq_nil in Eapp. destruct Eapp as [-> Hc]. rewrite Hc in IH.
    cbn. rewrite IH. reflexivity.
  - rewrite <- Eapp.
    replace (zlen (l ++ concat ls) <? zlen l) with false
      by (rewrite zlen_app; pose proof (zlen_nonneg (concat ls)); lia).
    rewrite (drop_app_exact l (concat ls) (zlen l) eq_refl).
    rewrite (take_app_exact l (concat ls) (zlen l) eq_refl).
    rewrite IH. reflexivity.
Qed.

(* the same with missing lists: None contributes nothing to flatten, num is None there, unflatten gives None back *)
Definition olist (o : option (list value)) : value := match o with Some l => VList l | None => VNone end.
Definition ocount (o : option (list value)) : option Z := match o with Some l => Some (zlen l) | None => None end.
Definition oelems (o : option (list value)) : list value := match o with Some l => l | None => [] end.

Lemma regroup1_concat_missing (ls : list (option (list value))) :
  regroup1 (map ocount ls) (concat (map oelems ls)) = Ok (map olist ls, []).
Proof.
  induction ls as [|o ls IH]; [reflexivity|].
  destruct o as [l|].
  - cbn [map concat regroup1 cnt ocount oelems olist].
    assert (Hn := zlen_nonneg l).
    destruct (zlen l <? 0) eqn:E; [lia|].
    destruct (l ++ concat (map oelems ls)) as [|x rest] eqn:Eapp.
    + apply app_eq_nil in Eapp. destruct Eapp as [-> Hc]. rewrite Hc in IH.
      cbn. rewrite IH. reflexivity.
    + rewrite <- Eapp.
      replace (zlen (l ++ concat (map oelems ls)) <? zlen l) with false
        by (rewrite zlen_app; pose proof (zlen_nonneg (concat (map oelems ls))); lia).
      rewrite (drop_app_exact l _ (zlen l) eq_refl).
      rewrite (take_app_exact l _ (zlen l) eq_refl).
      rewrite IH. reflexivity.
  - cbn [map concat regroup1 cnt ocount oelems olist app].
    destruct (concat (map oelems ls)) as [|x rest] eqn:Ec.
    + cbn. rewrite IH. reflexivity.
    + cbn. cbn in IH. rewrite IH. reflexivity.
Qed.

Lemma existsb_neg_counts (ls : list (option (list value))) :
  existsb (fun c => cnt c <? 0) (map ocount ls) = false.
Proof.
  induction ls as [|o ls IH]; [reflexivity|].
  cbn. rewrite IH. destruct o as [l|]; cbn; [pose proof (zlen_nonneg l); lia | reflexivity].
Qed.

(* value level: unflatten at axis 0 of (the concatenation of the lists, their lengths) is the array of lists *)
Lemma unflatten_vals_concat (ls : list (option (list value))) :
  unflatten_vals 0 (concat (map oelems ls)) (map ocount ls) = Ok (VList (map olist ls)).
Proof.
  unfold unflatten_vals. rewrite existsb_neg_counts. cbn [Z.eqb].
  rewrite regroup1_concat_missing. reflexivity.
Qed.

Lemma mapM_elems_of_olist ls : mapM elems_of (map olist ls) = Ok (map oelems ls).
Proof.
  rewrite mapM_map. rewrite (mapM_ext_in _ (fun o => Ok (oelems o))); [apply mapM_pure|].
  intros [l|] _; reflexivity.
Qed.

Definition onum (o : option (list value)) : value :=
  match o with Some l => VNum (DZ (zlen l)) | None => VNone end.

Lemma flatten1_option_lists sz te ls :
  spec_flatten (Some 1) (TOpt (TList sz None te)) (map olist ls) = Ok (VList (concat (map oelems ls))).
Proof.
  unfold spec_flatten, resolve_axis_top, flatten_spec, resolve_axis. cbn.
  rewrite mapM_elems_of_olist. reflexivity.
Qed.

Lemma num1_option_lists sz te ls :
  spec_num 1 (TOpt (TList sz None te)) (map olist ls) = Ok (VList (map onum ls)).
Proof.
  unfold spec_num, resolve_axis_top, num_spec, spec_ax. cbn.
  rewrite mapM_map.
  rewrite (mapM_ext_in _ (fun o => Ok (onum o))); [rewrite mapM_pure; reflexivity|].
  intros [l|] _; reflexivity.
Qed.

Lemma counts_of_onum ls : counts_of (TOpt (TNum DInt64)) (map onum ls) = Ok (map ocount ls).
Proof.
  unfold counts_of. cbn. rewrite mapM_map.
  rewrite (mapM_ext_in _ (fun o => Ok (ocount o))); [apply mapM_pure|].
  intros [l|] _; reflexivity.
Qed.

(* C05: unflatten(flatten(x), num(x)) = x  (axis=1 / axis=1 / axis=0, the defaults the property uses).
   [x] is any array of lists, missing lists (None) included: they contribute nothing to flatten, num is None
   there and unflatten puts None back. *)
Theorem unflatten_flatten_lemma sz te (ls : list (option (list value))) f c :
  let t := TOpt (TList sz None te) in
  let x := map olist ls in
  spec_flatten (Some 1) t x = Ok (VList f) ->
  spec_num 1 t x = Ok (VList c) ->
  spec_unflatten 0 te f (CArr (TOpt (TNum DInt64)) c) = Ok (VList x).
Proof.
  intros t x Hf Hc. subst t x.
  rewrite flatten1_option_lists in Hf. rewrite num1_option_lists in Hc.
  injection Hf as <-. injection Hc as <-.
  unfold spec_unflatten, resolve_axis_top. cbn [Z.leb Z.compare bind Z.eqb Z.ltb andb].
  rewrite counts_of_onum. cbn [bind]. apply unflatten_vals_concat.
Qed.

(* the same for an array without option type *)
Lemma flatten1_lists sz te (ls : list (list value)) :
  spec_flatten (Some 1) (TList sz None te) (map VList ls) = Ok (VList (concat ls)).
Proof.
  unfold spec_flatten, resolve_axis_top, flatten_spec, resolve_axis. cbn.
  rewrite mapM_map. rewrite (mapM_ext_in _ (fun l => Ok l)); [rewrite mapM_pure, map_id; reflexivity|].
  intros l _; reflexivity.
Qed.
Lemma num1_lists sz te (ls : list (list value)) :
  spec_num 1 (TList sz None te) (map VList ls) = Ok (VList (map (fun l => VNum (DZ (zlen l))) ls)).
Proof.
  unfold spec_num, resolve_axis_top, num_spec, spec_ax. cbn.
  rewrite mapM_map. unfold num_f. rewrite mapM_pure. reflexivity.
Qed.
Theorem unflatten_flatten_plain_lemma sz te (ls : list (list value)) f c :
  let t := TList sz None te in
  let x := map VList ls in
  spec_flatten (Some 1) t x = Ok (VList f) ->
  spec_num 1 t x = Ok (VList c) ->
  spec_unflatten 0 te f (CArr (TNum DInt64) c) = Ok (VList x).
Proof.
  intros t x Hf Hc. subst t x.
  rewrite flatten1_lists in Hf. rewrite num1_lists in Hc.
  injection Hf as <-. injection Hc as <-.
  unfold spec_unflatten, resolve_axis_top. cbn [Z.leb Z.compare bind Z.eqb Z.ltb andb].
  unfold counts_of. cbn [strip_opt1 is_int_dt]. rewrite mapM_map. unfold count_of. rewrite mapM_pure. cbn [bind].
  pose proof (unflatten_vals_concat (map Some ls)) as H.
  rewrite !map_map in H. cbn [oelems ocount olist] in H.
  rewrite map_id in H. exact H.
Qed.

(* ak.flatten(axis=None) of an array of lists is the concatenation of the flattened lists, in order *)
Theorem flatten_none_app_lemma sz te (ls : list (list value)) :
  leaves_l (TList sz None te) (map VList ls) = leaves_l te (concat ls).
Proof.
  cbn. rewrite mapM_map, mapM_pure. cbn. rewrite map_id. reflexivity.
Qed.

(* ====================================================================== C03 *)
Lemma leaf_int_promote k v : leaf_int (promote_leaf k v) = leaf_int v.
Proof. destruct v; try reflexivity. destruct k, b; reflexivity. Qed.

(* ak.<reducer>(x, axis=None) is the reducer over ak.flatten(x, axis=None) *)
Theorem reduce_none_is_reduce_of_flatten_lemma r t vs dt ls :
  single_dt (leaf_dts t) = Some dt ->
  (match r with RArgmin | RArgmax => has_rec t = false | _ => True end) ->
  spec_flatten_none t vs = Ok (VList ls) ->
  spec_reduce_none r t vs = (do zs <- mapM leaf_int ls; reduce_leaves r dt zs).
Proof.
  intros Hdt Hr Hf. unfold spec_reduce_none. rewrite Hdt.
  unfold spec_flatten_none in Hf.
  destruct (has_union t); [discriminate|].
  destruct (leaf_dts t) eqn:El; [discriminate|].
  unfold flatten_none_list in Hf.
  destruct (leaves_l t vs) as [lv|e] eqn:Elv; [|discriminate].
  cbn in Hf. injection Hf as <-. cbn [bind].
  rewrite mapM_map.
  match goal with |- context [mapM ?f lv] =>
    assert (E : mapM f lv = mapM leaf_int lv) by (apply mapM_ext_in; intros; apply leaf_int_promote)
  end.
  rewrite E.
  destruct (mapM leaf_int lv) as [zs|e]; cbn [bind]; [|reflexivity].
  destruct r; try reflexivity; rewrite Hr; reflexivity.
Qed.

(* ====================================================================== C07 *)
(* itertools.product: the last list varies fastest *)
Fixpoint product {A} (ls : list (list A)) : list (list A) :=
  match ls with
  | [] => [[]]
  | l :: rest => flat_map (fun a => map (cons a) (product rest)) l
  end.

Lemma product_length {A} (ls : list (list A)) :
  length (product ls) = fold_right Nat.mul 1%nat (map (@length A) ls).
Proof.
  induction ls as [|l ls IH]; [reflexivity|].
  cbn [product map fold_right]. rewrite <- IH. clear IH.
  induction l as [|a l IHl]; [reflexivity|].
  cbn [flat_map]. rewrite app_length, map_length, IHl. cbn. reflexivity.
Qed.

Lemma map_flat_map {A B C} (f : B -> C) (g : A -> list B) l :
  map f (flat_map g l) = concat (map (fun a => map f (g a)) l).
Proof.
  induction l as [|a l IH]; [reflexivity|]. cbn. rewrite map_app, IH. reflexivity.
Qed.

Lemma mapM_Ok_map {A B} (f : A -> res B) (g : A -> B) l :
  (forall a, In a l -> f a = Ok (g a)) -> mapM f l = Ok (map g l).
Proof.
  intros H. rewrite (mapM_ext_in f (fun a => Ok (g a))) by exact H. apply mapM_pure.
Qed.

(* un-nested cartesian product of k lists = itertools.product, as tuples *)
Lemma cart_is_product (ls : list (list value)) : forall i prefix,
  cart None [] i (map Some ls) prefix =
  Ok (Some (map (fun t => VTup (rev prefix ++ t)) (product ls))).
Proof.
  induction ls as [|l ls IH]; intros i prefix.
  - cbn. rewrite app_nil_r. reflexivity.
  - cbn [map cart].
    rewrite (mapM_Ok_map _ (fun a => Some (map (fun t => VTup (rev (a :: prefix) ++ t)) (product ls))))
      by (intros a _; apply IH).
    cbn [bind existsb].
    assert (E : concat (map unopt_l (map (fun a => Some (map (fun t => VTup (rev (a :: prefix) ++ t)) (product ls))) l))
                = map (fun t => VTup (rev prefix ++ t)) (product (l :: ls))).
    { cbn [product]. rewrite map_flat_map, map_map. f_equal. apply map_ext. intros a.
      cbn [unopt_l]. rewrite map_map. apply map_ext. intros t. cbn [rev]. rewrite <- app_assoc. reflexivity. }
    destruct (map Some ls); rewrite E; reflexivity.
Qed.

(* C07: ak.cartesian(arrays, axis=0) yields exactly the tuples of itertools.product, in that order *)
Theorem cartesian_is_product_lemma (a0 : arr) (arrs : list arr) :
  spec_cartesian 0 NNone None (a0 :: arrs) = Ok (VList (map VTup (product (map snd (a0 :: arrs))))).
Proof.
  destruct a0 as [t0 v0].
  unfold spec_cartesian, same_axis, resolve_axis_top. cbn [Z.leb Z.compare bind Z.ltb fst].
  assert (F : forall l : list ty, forallb (fun _ : ty => 0 =? 0) l = true)
    by (induction l; cbn; auto).
  rewrite F. cbn [bind nested_list fields_ok negb Z.eqb].
  unfold cart_entry.
  change (map (fun a : arr => Some (snd a)) ((t0, v0) :: arrs))
    with (map (fun a : ty * list value => Some (snd a)) ((t0, v0) :: arrs)).
  rewrite <- (map_map snd Some ((t0, v0) :: arrs)).
  rewrite cart_is_product. cbn [bind rev app]. reflexivity.
Qed.

(* the number of tuples is the product of the lengths *)
Theorem cartesian_length_lemma (ls : list (list value)) out :
  cart_entry None [] (map Some ls) = Ok (VList out) ->
  length out = fold_right Nat.mul 1%nat (map (@length value) ls).
Proof.
  unfold cart_entry. rewrite cart_is_product. cbn. intros H. injection H as <-.
  rewrite map_length. apply product_length.
Qed.

(* element (i, j) of the product of two lists is (a_i, b_j) *)
Lemma product_single {A} (b : list A) : product [b] = map (fun y => [y]) b.
Proof. cbn. induction b as [|y b IH]; [reflexivity|]. cbn. rewrite IH. reflexivity. Qed.
Lemma product_pair {A} (a b : list A) :
  product [a; b] = flat_map (fun x => map (fun y => [x; y]) b) a.
Proof.
  change (product [a; b]) with (flat_map (fun x => map (cons x) (product [b])) a).
  rewrite product_single. induction a as [|x a IH]; [reflexivity|].
  cbn [flat_map]. rewrite IH, map_map. reflexivity.
Qed.
Lemma product_pair_nth {A} (a b : list A) (d : A) i j :
  (i < length a)%nat -> (j < length b)%nat ->
  nth (i * length b + j) (product [a; b]) [] = [nth i a d; nth j b d].
Proof.
  rewrite product_pair. revert i. induction a as [|x a IH]; intros i Hi Hj; [cbn in Hi; lia|].
  cbn [flat_map].
  destruct i as [|i].
  - cbn [Nat.mul Nat.add nth]. rewrite app_nth1 by (rewrite map_length; exact Hj).
    rewrite (nth_indep _ [] [x; d]) by (rewrite map_length; exact Hj).
    rewrite (map_nth (fun y => [x; y]) b d j). reflexivity.
  - rewrite app_nth2 by (rewrite map_length; cbn; lia). rewrite map_length.
    replace (S i * length b + j - length b)%nat with (i * length b + j)%nat by (cbn; lia).
    cbn [nth]. apply IH; [cbn in Hi; lia | exact Hj].
Qed.

(* nested=True for two lists: one inner list per element of the first list *)
Theorem cartesian_nested_pair_lemma (a b : list value) :
  cart_entry None [0] [Some a; Some b] =
  Ok (VList (map (fun x => VList (map (fun y => VTup [x; y]) b)) a)).
Proof.
  unfold cart_entry. cbn [cart].
  rewrite (mapM_Ok_map _ (fun x => Some (map (fun y => VTup [x; y]) b))).
  - cbn. rewrite map_map. reflexivity.
  - intros x _. rewrite (mapM_Ok_map _ (fun y => Some [VTup [x; y]])) by (intros; reflexivity).
    cbn [bind]. rewrite map_map. cbn [unopt_l].
    f_equal. f_equal. induction b as [|y b IHb]; [reflexivity|]. cbn. rewrite IHb. reflexivity.
Qed.

(* ====================================================================== C08 *)
Lemma forallb_true {A} (f : A -> bool) l : (forall x, f x = true) -> forallb f l = true.
Proof. intros H. induction l; cbn; [reflexivity|]. rewrite H, IHl. reflexivity. Qed.

(* C08: concatenation along axis 0 = the elements of the first array followed by those of the others, unchanged *)
Theorem concat_axis0_app_lemma (a0 : arr) (arrs : list arr) :
  existsb has_union (map fst (a0 :: arrs)) = false ->
  mixes_bool_num (map fst (a0 :: arrs)) = false ->
  0 < fold_right (fun t m => Z.max (snd (minmax t)) m) 0 (map fst (a0 :: arrs)) ->
  spec_concat_axis 0 (a0 :: arrs) = Ok (VList (concat (map snd (a0 :: arrs)))).
Proof.
  intros Hu Hm Hd. destruct a0 as [t0 v0].
  unfold spec_concat_axis. rewrite Hu. unfold resolve_axis_top. cbn [Z.leb Z.compare bind].
  apply Z.ltb_lt in Hd. rewrite Hd.
  cbn [andb negb].
  rewrite forallb_true by (intros; reflexivity). cbn [negb].
  rewrite Hm. reflexivity.
Qed.

(* rows of two equally long columns *)
Lemma transpose2 (xs ys : list value) :
  length xs = length ys ->
  transpose_n (length xs) [xs; ys] = map (fun p : value * value => [fst p; snd p]) (zip xs ys).
Proof.
  revert ys. induction xs as [|x xs IH]; intros [|y ys] H; try discriminate; [reflexivity|].
  cbn [length transpose_n map hd tl zip fst snd]. f_equal. apply IH. cbn in H. lia.
Qed.
Lemma rows_of2 (xs ys : list value) :
  length xs = length ys ->
  rows_of [xs; ys] = map (fun p : value * value => [fst p; snd p]) (zip xs ys).
Proof. intros H. unfold rows_of. apply transpose2. exact H. Qed.

Lemma zip_map2 {A B C D} (f : A -> C) (g : B -> D) l m :
  zip (map f l) (map g m) = map (fun p : A * B => (f (fst p), g (snd p))) (zip l m).
Proof.
  revert m. induction l as [|x l IH]; intros [|y m]; try reflexivity. cbn. rewrite IH. reflexivity.
Qed.

Lemma lengths_differ2_false (xs ys : list value) :
  length xs = length ys -> list_lengths_differ [xs; ys] = false.
Proof.
  intros H. unfold list_lengths_differ. cbn. unfold zlen. rewrite H. rewrite Z.eqb_refl. reflexivity.
Qed.

(* C08: concatenation along axis 1 concatenates corresponding lists (every element kept, in order) *)
Theorem concat_axis1_zipapp_lemma sz te (xs ys : list (list value)) :
  length xs = length ys ->
  has_union te = false -> has_empty_rec te = false ->
  mixes_bool_num [TList sz None te; TList sz None te] = false ->
  1 <= snd (minmax te) ->
  spec_concat_axis 1 [(TList sz None te, map VList xs); (TList sz None te, map VList ys)] =
  Ok (VList (map (fun p : list value * list value => VList (fst p ++ snd p)) (zip xs ys))).
Proof.
  intros Hlen Hu He Hm Hd.
  unfold spec_concat_axis. cbn [map fst existsb has_union]. rewrite Hu. cbn [orb].
  unfold resolve_axis_top. cbn [Z.leb Z.compare bind fold_right].
  cbn [minmax]. destruct (minmax te) as [mn mx] eqn:Emm. cbn [snd] in *.
  replace ((0 <=? 1) && (1 <? Z.max (mx + 1) (Z.max (mx + 1) 0))) with true by lia.
  cbn [negb forallb Z.eqb andb].
  rewrite Hm. cbn [Z.eqb has_empty_rec]. rewrite He. cbn [orb bind].
  cbn [Z.sub Z.to_nat Z.add Z.opp Z.pos_sub conc_ty existsb is_union orb forallb strip_opt1 andb].
  cbn [snd].
  rewrite lengths_differ2_false by (rewrite !map_length; exact Hlen).
  rewrite rows_of2 by (rewrite !map_length; exact Hlen).
  rewrite zip_map2, !map_map.
  replace (1 <? Z.max (mx + 1) (Z.max (mx + 1) 0)) with true by lia.
  cbn [negb Pos.eqb andb bind].
  rewrite mapM_map.
  rewrite (mapM_Ok_map _ (fun p : list value * list value => VList (fst p ++ snd p))).
  - reflexivity.
  - intros [a b] _. cbn. rewrite app_nil_r. reflexivity.
Qed.

(* the length of every output list is the sum of the lengths of the input lists *)
Corollary concat_axis1_lengths (xs ys : list (list value)) :
  map (fun p : list value * list value => zlen (fst p ++ snd p)) (zip xs ys) =
  map (fun p : list value * list value => zlen (fst p) + zlen (snd p)) (zip xs ys).
Proof. apply map_ext. intros [a b]. apply zlen_app. Qed.
