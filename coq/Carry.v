(** carry (gather by an index) and the normalisers built on it. No proofs here. *)
From AwkV Require Export Types.

Definition gather {A} (l : list A) (ix : list Z) : res (list A) := mapM (get l) ix.

Definition bytemask_of_bits (m : list Z) (lsb : bool) (n : Z) : res (list Z) :=
  mapM (fun i => do b <- bit_at m lsb i; Ok (if b : bool then 1 else 0)) (iota n).

Fixpoint carry (c : content) (ix : list Z) {struct c} : res content :=
  match c with
  | Numpy dt shape data =>
      match shape with
      | [] => Err EValue
      | n :: dims =>
          let rs := prodZ dims in
          do rows <- mapM (fun i => if (0 <=? i) && (i <? n) then slice data (i * rs) ((i + 1) * rs) else Err EOob) ix;
          Ok (Numpy dt (zlen ix :: dims) (concat rows))
      end
  | Empty => match ix with [] => Ok Empty | _ => Err EOob end
  | ListOffset w o c' =>
      do s <- gather (removelast o) ix; do e <- gather (tl o) ix; Ok (ListA w s e c')
  | ListA w s e c' =>
      do s' <- gather s ix; do e' <- gather e ix; Ok (ListA w s' e' c')
  | Regular c' size zl =>
      let n := (if size =? 0 then zl else clen c' / size) in
      do next <- mapM (fun i => if (0 <=? i) && (i <? n) then Ok (range (i * size) ((i + 1) * size)) else Err EOob) ix;
      do c'' <- carry c' (concat next);
      Ok (Regular c'' size (zlen ix))
  | Indexed w ix' c' => do j <- gather ix' ix; Ok (Indexed w j c')
  | IndexedOption w ix' c' => do j <- gather ix' ix; Ok (IndexedOption w j c')
  | ByteMasked m vw c' =>
      do m' <- gather m ix; do c'' <- carry c' ix; Ok (ByteMasked m' vw c'')
  | BitMasked m vw lsb n c' =>
      do bm <- bytemask_of_bits m lsb n;
      do m' <- gather bm ix; do c'' <- carry c' ix; Ok (ByteMasked m' vw c'')
  | Unmasked c' => do c'' <- carry c' ix; Ok (Unmasked c'')
  | Union w t ix' cs =>
      do t' <- gather t ix; do j <- gather (take (zlen t) ix') ix; Ok (Union w t' j cs)
  | Record cs ks n =>
      if forallb (fun i => (0 <=? i) && (i <? n)) ix then
        do cs' <- (fix all (l : list content) : res (list content) :=
                     match l with
                     | [] => Ok []
                     | x :: xs => do y <- carry x ix; do ys <- all xs; Ok (y :: ys)
                     end) cs;
        Ok (Record cs' ks (zlen ix))
      else Err EOob
  | Par a r c' => do c'' <- carry c' ix; Ok (Par a r c'')
  end.

(* c[a:b] *)
Definition crange (c : content) (a b : Z) : res content := carry c (range a b).

(* option-like node -> index with -1 for missing (toIndexedOptionArray64) *)
Definition option_index (c : content) : res (list Z * content) :=
  match c with
  | IndexedOption _ ix c' => Ok (map (fun i => if i <? 0 then -1 else i) ix, c')
  | ByteMasked m vw c' =>
      Ok (map (fun im : Z * Z => let (i, b) := im in if Bool.eqb (negb (b =? 0)) vw then i else -1)
              (zip (iota (zlen m)) m), c')
  | BitMasked m vw lsb n c' =>
      do ix <- mapM (fun i => do b <- bit_at m lsb i; Ok (if Bool.eqb b vw then i else -1)) (iota n);
      Ok (ix, c')
  | Unmasked c' => Ok (iota (clen c'), c')
  | _ => Err EValue
  end.
