
(** val negb : bool -> bool **)

let negb = function
| true -> false
| false -> true

type nat =
| O
| S of nat

(** val fst : ('a1 * 'a2) -> 'a1 **)

let fst = function
| (x, _) -> x

(** val snd : ('a1 * 'a2) -> 'a2 **)

let snd = function
| (_, y) -> y

(** val length : 'a1 list -> nat **)

let rec length = function
| [] -> O
| _ :: l' -> S (length l')

(** val app : 'a1 list -> 'a1 list -> 'a1 list **)

let rec app l m =
  match l with
  | [] -> m
  | a :: l1 -> a :: (app l1 m)

type comparison =
| Eq
| Lt
| Gt

(** val compOpp : comparison -> comparison **)

let compOpp = function
| Eq -> Eq
| Lt -> Gt
| Gt -> Lt

module Coq__1 = struct
 (** val add : nat -> nat -> nat **)
 let rec add n0 m =
   match n0 with
   | O -> m
   | S p -> S (add p m)
end
include Coq__1

type positive =
| XI of positive
| XO of positive
| XH

type n =
| N0
| Npos of positive

type z =
| Z0
| Zpos of positive
| Zneg of positive

(** val eqb : bool -> bool -> bool **)

let eqb b1 b2 =
  if b1 then b2 else if b2 then false else true

module Nat =
 struct
  (** val eqb : nat -> nat -> bool **)

  let rec eqb n0 m =
    match n0 with
    | O -> (match m with
            | O -> true
            | S _ -> false)
    | S n' -> (match m with
               | O -> false
               | S m' -> eqb n' m')

  (** val leb : nat -> nat -> bool **)

  let rec leb n0 m =
    match n0 with
    | O -> true
    | S n' -> (match m with
               | O -> false
               | S m' -> leb n' m')

  (** val ltb : nat -> nat -> bool **)

  let ltb n0 m =
    leb (S n0) m
 end

module Pos =
 struct
  (** val succ : positive -> positive **)

  let rec succ = function
  | XI p -> XO (succ p)
  | XO p -> XI p
  | XH -> XO XH

  (** val add : positive -> positive -> positive **)

  let rec add x y =
    match x with
    | XI p ->
      (match y with
       | XI q -> XO (add_carry p q)
       | XO q -> XI (add p q)
       | XH -> XO (succ p))
    | XO p ->
      (match y with
       | XI q -> XI (add p q)
       | XO q -> XO (add p q)
       | XH -> XI p)
    | XH -> (match y with
             | XI q -> XO (succ q)
             | XO q -> XI q
             | XH -> XO XH)

  (** val add_carry : positive -> positive -> positive **)

  and add_carry x y =
    match x with
    | XI p ->
      (match y with
       | XI q -> XI (add_carry p q)
       | XO q -> XO (add_carry p q)
       | XH -> XI (succ p))
    | XO p ->
      (match y with
       | XI q -> XO (add_carry p q)
       | XO q -> XI (add p q)
       | XH -> XO (succ p))
    | XH ->
      (match y with
       | XI q -> XI (succ q)
       | XO q -> XO (succ q)
       | XH -> XI XH)

  (** val pred_double : positive -> positive **)

  let rec pred_double = function
  | XI p -> XI (XO p)
  | XO p -> XI (pred_double p)
  | XH -> XH

  (** val pred_N : positive -> n **)

  let pred_N = function
  | XI p -> Npos (XO p)
  | XO p -> Npos (pred_double p)
  | XH -> N0

  (** val mul : positive -> positive -> positive **)

  let rec mul x y =
    match x with
    | XI p -> add y (XO (mul p y))
    | XO p -> XO (mul p y)
    | XH -> y

  (** val compare_cont : comparison -> positive -> positive -> comparison **)

  let rec compare_cont r x y =
    match x with
    | XI p ->
      (match y with
       | XI q -> compare_cont r p q
       | XO q -> compare_cont Gt p q
       | XH -> Gt)
    | XO p ->
      (match y with
       | XI q -> compare_cont Lt p q
       | XO q -> compare_cont r p q
       | XH -> Gt)
    | XH -> (match y with
             | XH -> r
             | _ -> Lt)

  (** val compare : positive -> positive -> comparison **)

  let compare =
    compare_cont Eq

  (** val eqb : positive -> positive -> bool **)

  let rec eqb p q =
    match p with
    | XI p1 -> (match q with
                | XI q0 -> eqb p1 q0
                | _ -> false)
    | XO p1 -> (match q with
                | XO q0 -> eqb p1 q0
                | _ -> false)
    | XH -> (match q with
             | XH -> true
             | _ -> false)

  (** val testbit : positive -> n -> bool **)

  let rec testbit p n0 =
    match p with
    | XI p1 -> (match n0 with
                | N0 -> true
                | Npos n1 -> testbit p1 (pred_N n1))
    | XO p1 -> (match n0 with
                | N0 -> false
                | Npos n1 -> testbit p1 (pred_N n1))
    | XH -> (match n0 with
             | N0 -> true
             | Npos _ -> false)

  (** val iter_op : ('a1 -> 'a1 -> 'a1) -> positive -> 'a1 -> 'a1 **)

  let rec iter_op op p a =
    match p with
    | XI p1 -> op a (iter_op op p1 (op a a))
    | XO p1 -> iter_op op p1 (op a a)
    | XH -> a

  (** val to_nat : positive -> nat **)

  let to_nat x =
    iter_op Coq__1.add x (S O)

  (** val of_succ_nat : nat -> positive **)

  let rec of_succ_nat = function
  | O -> XH
  | S x -> succ (of_succ_nat x)
 end

module N =
 struct
  (** val testbit : n -> n -> bool **)

  let testbit a n0 =
    match a with
    | N0 -> false
    | Npos p -> Pos.testbit p n0
 end

module Z =
 struct
  (** val double : z -> z **)

  let double = function
  | Z0 -> Z0
  | Zpos p -> Zpos (XO p)
  | Zneg p -> Zneg (XO p)

  (** val succ_double : z -> z **)

  let succ_double = function
  | Z0 -> Zpos XH
  | Zpos p -> Zpos (XI p)
  | Zneg p -> Zneg (Pos.pred_double p)

  (** val pred_double : z -> z **)

  let pred_double = function
  | Z0 -> Zneg XH
  | Zpos p -> Zpos (Pos.pred_double p)
  | Zneg p -> Zneg (XI p)

  (** val pos_sub : positive -> positive -> z **)

  let rec pos_sub x y =
    match x with
    | XI p ->
      (match y with
       | XI q -> double (pos_sub p q)
       | XO q -> succ_double (pos_sub p q)
       | XH -> Zpos (XO p))
    | XO p ->
      (match y with
       | XI q -> pred_double (pos_sub p q)
       | XO q -> double (pos_sub p q)
       | XH -> Zpos (Pos.pred_double p))
    | XH ->
      (match y with
       | XI q -> Zneg (XO q)
       | XO q -> Zneg (Pos.pred_double q)
       | XH -> Z0)

  (** val add : z -> z -> z **)

  let add x y =
    match x with
    | Z0 -> y
    | Zpos x' ->
      (match y with
       | Z0 -> x
       | Zpos y' -> Zpos (Pos.add x' y')
       | Zneg y' -> pos_sub x' y')
    | Zneg x' ->
      (match y with
       | Z0 -> x
       | Zpos y' -> pos_sub y' x'
       | Zneg y' -> Zneg (Pos.add x' y'))

  (** val opp : z -> z **)

  let opp = function
  | Z0 -> Z0
  | Zpos x0 -> Zneg x0
  | Zneg x0 -> Zpos x0

  (** val sub : z -> z -> z **)

  let sub m n0 =
    add m (opp n0)

  (** val mul : z -> z -> z **)

  let mul x y =
    match x with
    | Z0 -> Z0
    | Zpos x' ->
      (match y with
       | Z0 -> Z0
       | Zpos y' -> Zpos (Pos.mul x' y')
       | Zneg y' -> Zneg (Pos.mul x' y'))
    | Zneg x' ->
      (match y with
       | Z0 -> Z0
       | Zpos y' -> Zneg (Pos.mul x' y')
       | Zneg y' -> Zpos (Pos.mul x' y'))

  (** val compare : z -> z -> comparison **)

  let compare x y =
    match x with
    | Z0 -> (match y with
             | Z0 -> Eq
             | Zpos _ -> Lt
             | Zneg _ -> Gt)
    | Zpos x' -> (match y with
                  | Zpos y' -> Pos.compare x' y'
                  | _ -> Gt)
    | Zneg x' ->
      (match y with
       | Zneg y' -> compOpp (Pos.compare x' y')
       | _ -> Lt)

  (** val leb : z -> z -> bool **)

  let leb x y =
    match compare x y with
    | Gt -> false
    | _ -> true

  (** val ltb : z -> z -> bool **)

  let ltb x y =
    match compare x y with
    | Lt -> true
    | _ -> false

  (** val eqb : z -> z -> bool **)

  let eqb x y =
    match x with
    | Z0 -> (match y with
             | Z0 -> true
             | _ -> false)
    | Zpos p -> (match y with
                 | Zpos q -> Pos.eqb p q
                 | _ -> false)
    | Zneg p -> (match y with
                 | Zneg q -> Pos.eqb p q
                 | _ -> false)

  (** val max : z -> z -> z **)

  let max n0 m =
    match compare n0 m with
    | Lt -> m
    | _ -> n0

  (** val to_nat : z -> nat **)

  let to_nat = function
  | Zpos p -> Pos.to_nat p
  | _ -> O

  (** val of_nat : nat -> z **)

  let of_nat = function
  | O -> Z0
  | S n1 -> Zpos (Pos.of_succ_nat n1)

  (** val pos_div_eucl : positive -> z -> z * z **)

  let rec pos_div_eucl a b =
    match a with
    | XI a' ->
      let (q, r) = pos_div_eucl a' b in
      let r' = add (mul (Zpos (XO XH)) r) (Zpos XH) in
      if ltb r' b
      then ((mul (Zpos (XO XH)) q), r')
      else ((add (mul (Zpos (XO XH)) q) (Zpos XH)), (sub r' b))
    | XO a' ->
      let (q, r) = pos_div_eucl a' b in
      let r' = mul (Zpos (XO XH)) r in
      if ltb r' b
      then ((mul (Zpos (XO XH)) q), r')
      else ((add (mul (Zpos (XO XH)) q) (Zpos XH)), (sub r' b))
    | XH -> if leb (Zpos (XO XH)) b then (Z0, (Zpos XH)) else ((Zpos XH), Z0)

  (** val div_eucl : z -> z -> z * z **)

  let div_eucl a b =
    match a with
    | Z0 -> (Z0, Z0)
    | Zpos a' ->
      (match b with
       | Z0 -> (Z0, a)
       | Zpos _ -> pos_div_eucl a' b
       | Zneg b' ->
         let (q, r) = pos_div_eucl a' (Zpos b') in
         (match r with
          | Z0 -> ((opp q), Z0)
          | _ -> ((opp (add q (Zpos XH))), (add b r))))
    | Zneg a' ->
      (match b with
       | Z0 -> (Z0, a)
       | Zpos _ ->
         let (q, r) = pos_div_eucl a' b in
         (match r with
          | Z0 -> ((opp q), Z0)
          | _ -> ((opp (add q (Zpos XH))), (sub b r)))
       | Zneg b' -> let (q, r) = pos_div_eucl a' (Zpos b') in (q, (opp r)))

  (** val div : z -> z -> z **)

  let div a b =
    let (q, _) = div_eucl a b in q

  (** val modulo : z -> z -> z **)

  let modulo a b =
    let (_, r) = div_eucl a b in r

  (** val odd : z -> bool **)

  let odd = function
  | Z0 -> false
  | Zpos p -> (match p with
               | XO _ -> false
               | _ -> true)
  | Zneg p -> (match p with
               | XO _ -> false
               | _ -> true)

  (** val testbit : z -> z -> bool **)

  let testbit a = function
  | Z0 -> odd a
  | Zpos p ->
    (match a with
     | Z0 -> false
     | Zpos a0 -> Pos.testbit a0 (Npos p)
     | Zneg a0 -> negb (N.testbit (Pos.pred_N a0) (Npos p)))
  | Zneg _ -> false
 end

(** val tl : 'a1 list -> 'a1 list **)

let tl = function
| [] -> []
| _ :: m -> m

(** val nth_error : 'a1 list -> nat -> 'a1 option **)

let rec nth_error l = function
| O -> (match l with
        | [] -> None
        | x :: _ -> Some x)
| S n1 -> (match l with
           | [] -> None
           | _ :: l0 -> nth_error l0 n1)

(** val map : ('a1 -> 'a2) -> 'a1 list -> 'a2 list **)

let rec map f = function
| [] -> []
| a :: t -> (f a) :: (map f t)

(** val flat_map : ('a1 -> 'a2 list) -> 'a1 list -> 'a2 list **)

let rec flat_map f = function
| [] -> []
| x :: t -> app (f x) (flat_map f t)

(** val fold_left : ('a1 -> 'a2 -> 'a1) -> 'a2 list -> 'a1 -> 'a1 **)

let rec fold_left f l a0 =
  match l with
  | [] -> a0
  | b :: t -> fold_left f t (f a0 b)

(** val fold_right : ('a2 -> 'a1 -> 'a1) -> 'a1 -> 'a2 list -> 'a1 **)

let rec fold_right f a0 = function
| [] -> a0
| b :: t -> f b (fold_right f a0 t)

(** val existsb : ('a1 -> bool) -> 'a1 list -> bool **)

let rec existsb f = function
| [] -> false
| a :: l0 -> (||) (f a) (existsb f l0)

(** val forallb : ('a1 -> bool) -> 'a1 list -> bool **)

let rec forallb f = function
| [] -> true
| a :: l0 -> (&&) (f a) (forallb f l0)

(** val firstn : nat -> 'a1 list -> 'a1 list **)

let rec firstn n0 l =
  match n0 with
  | O -> []
  | S n1 -> (match l with
             | [] -> []
             | a :: l0 -> a :: (firstn n1 l0))

(** val skipn : nat -> 'a1 list -> 'a1 list **)

let rec skipn n0 l =
  match n0 with
  | O -> l
  | S n1 -> (match l with
             | [] -> []
             | _ :: l0 -> skipn n1 l0)

(** val repeat : 'a1 -> nat -> 'a1 list **)

let rec repeat x = function
| O -> []
| S k -> x :: (repeat x k)

type err =
| EValue
| EOob
| EFuel

type 'a res =
| Ok of 'a
| Err of err

(** val bind : 'a1 res -> ('a1 -> 'a2 res) -> 'a2 res **)

let bind r f =
  match r with
  | Ok a -> f a
  | Err e -> Err e

(** val rmap : ('a1 -> 'a2) -> 'a1 res -> 'a2 res **)

let rmap f = function
| Ok a -> Ok (f a)
| Err e -> Err e

(** val mapM : ('a1 -> 'a2 res) -> 'a1 list -> 'a2 list res **)

let rec mapM f = function
| [] -> Ok []
| x :: xs -> bind (f x) (fun y -> bind (mapM f xs) (fun ys -> Ok (y :: ys)))

(** val zlen : 'a1 list -> z **)

let zlen l =
  Z.of_nat (length l)

(** val get : 'a1 list -> z -> 'a1 res **)

let get l i =
  if Z.ltb i Z0
  then Err EOob
  else (match nth_error l (Z.to_nat i) with
        | Some x -> Ok x
        | None -> Err EOob)

(** val take : z -> 'a1 list -> 'a1 list **)

let take n0 l =
  firstn (Z.to_nat n0) l

(** val drop : z -> 'a1 list -> 'a1 list **)

let drop n0 l =
  skipn (Z.to_nat n0) l

(** val slice : 'a1 list -> z -> z -> 'a1 list res **)

let slice l a b =
  if (&&) ((&&) (Z.leb Z0 a) (Z.leb a b)) (Z.leb b (zlen l))
  then Ok (take (Z.sub b a) (drop a l))
  else Err EOob

(** val iota_nat : z -> nat -> z list **)

let rec iota_nat start = function
| O -> []
| S n' -> start :: (iota_nat (Z.add start (Zpos XH)) n')

(** val iota : z -> z list **)

let iota n0 =
  iota_nat Z0 (Z.to_nat n0)

(** val zip : 'a1 list -> 'a2 list -> ('a1 * 'a2) list **)

let rec zip l m =
  match l with
  | [] -> []
  | x :: xs -> (match m with
                | [] -> []
                | y :: ys -> (x, y) :: (zip xs ys))

(** val pairs : z list -> (z * z) list **)

let rec pairs = function
| [] -> []
| a :: t -> (match t with
             | [] -> []
             | b :: _ -> (a, b) :: (pairs t))

(** val list_eqb : ('a1 -> 'a1 -> bool) -> 'a1 list -> 'a1 list -> bool **)

let rec list_eqb eqb0 l m =
  match l with
  | [] -> (match m with
           | [] -> true
           | _ :: _ -> false)
  | x :: xs ->
    (match m with
     | [] -> false
     | y :: ys -> (&&) (eqb0 x y) (list_eqb eqb0 xs ys))

(** val opt_eqb : ('a1 -> 'a1 -> bool) -> 'a1 option -> 'a1 option -> bool **)

let opt_eqb eqb0 a b =
  match a with
  | Some x -> (match b with
               | Some y -> eqb0 x y
               | None -> false)
  | None -> (match b with
             | Some _ -> false
             | None -> true)

(** val chunks_nat : 'a1 list -> z -> nat -> 'a1 list list **)

let rec chunks_nat vs n0 = function
| O -> []
| S k -> (take n0 vs) :: (chunks_nat (drop n0 vs) n0 k)

type width =
| I32
| U32
| I64

type dtype =
| DBool
| DInt8
| DInt16
| DInt32
| DInt64
| DUInt8
| DUInt16
| DUInt32
| DUInt64
| DFloat32
| DFloat64

type datum =
| DZ of z
| DNaN
| DInf of bool

type name = z list

type akind =
| AString
| ABytestring
| AChar
| AByte
| ACategorical

type value =
| VNum of datum
| VBool of bool
| VStr of bool * z list
| VNone
| VList of value list
| VRec of (name * value) list
| VTup of value list

type content =
| Numpy of dtype * z list * datum list
| Empty
| ListOffset of width * z list * content
| ListA of width * z list * z list * content
| Regular of content * z * z
| Indexed of width * z list * content
| IndexedOption of width * z list * content
| ByteMasked of z list * bool * content
| BitMasked of z list * bool * bool * z * content
| Unmasked of content
| Union of width * z list * z list * content list
| Record of content list * name list option * z
| Par of akind option * name option * content

(** val prodZ : z list -> z **)

let prodZ l =
  fold_right Z.mul (Zpos XH) l

(** val clen : content -> z **)

let rec clen = function
| Numpy (_, shape, _) -> (match shape with
                          | [] -> Z0
                          | n0 :: _ -> n0)
| Empty -> Z0
| ListOffset (_, o, _) -> Z.sub (zlen o) (Zpos XH)
| ListA (_, s, _, _) -> zlen s
| Regular (c', size, zl) -> if Z.eqb size Z0 then zl else Z.div (clen c') size
| Indexed (_, ix, _) -> zlen ix
| IndexedOption (_, ix, _) -> zlen ix
| ByteMasked (m, _, _) -> zlen m
| BitMasked (_, _, _, n0, _) -> n0
| Unmasked c' -> clen c'
| Union (_, t, _, _) -> zlen t
| Record (_, _, n0) -> n0
| Par (_, _, c') -> clen c'

(** val cut1 : 'a1 list -> (z * z) -> 'a1 list res **)

let cut1 vs = function
| (a, b) -> if Z.eqb a b then Ok [] else slice vs a b

(** val cut : 'a1 list -> z list -> 'a1 list list res **)

let cut vs o = match o with
| [] -> Err EValue
| _ :: _ -> mapM (cut1 vs) (pairs o)

(** val cut2 : 'a1 list -> z list -> z list -> 'a1 list list res **)

let cut2 vs s e =
  if Z.ltb (zlen e) (zlen s) then Err EValue else mapM (cut1 vs) (zip s e)

(** val chunks : 'a1 list -> z -> z -> 'a1 list list res **)

let chunks vs size zl =
  if Z.ltb size Z0
  then Err EValue
  else if Z.eqb size Z0
       then if Z.ltb zl Z0
            then Err EValue
            else Ok (map (fun _ -> []) (iota zl))
       else Ok (chunks_nat vs size (Z.to_nat (Z.div (zlen vs) size)))

(** val bit_at : z list -> bool -> z -> bool res **)

let bit_at m lsb i =
  bind (get m (Z.div i (Zpos (XO (XO (XO XH)))))) (fun byte ->
    let k = Z.modulo i (Zpos (XO (XO (XO XH)))) in
    Ok (Z.testbit byte (if lsb then k else Z.sub (Zpos (XI (XI XH))) k)))

(** val pick_opt : value list -> bool -> z -> value res **)

let pick_opt vs valid i =
  if valid then get vs i else Ok VNone

(** val nest : z list -> z -> value list -> value list res **)

let rec nest dims count vs =
  match dims with
  | [] -> Ok vs
  | d :: ds ->
    bind (nest ds (Z.mul count d) vs) (fun inner ->
      bind (chunks inner d count) (fun ch -> Ok (map (fun x -> VList x) ch)))

(** val leaf : dtype -> datum -> value **)

let leaf dt d =
  match dt with
  | DBool ->
    (match d with
     | DZ z0 -> VBool (negb (Z.eqb z0 Z0))
     | _ -> VBool true)
  | _ -> VNum d

(** val bytes_of : value -> z list res **)

let bytes_of = function
| VList l ->
  mapM (fun x ->
    match x with
    | VNum d -> (match d with
                 | DZ z0 -> Ok z0
                 | _ -> Err EValue)
    | _ -> Err EValue) l
| _ -> Err EValue

(** val row : name list option -> value list list -> z -> value res **)

let row named cols i =
  bind (mapM (fun col -> get col i) cols) (fun vs ->
    match named with
    | Some ks ->
      if Nat.eqb (length ks) (length vs)
      then Ok (VRec (zip ks vs))
      else Err EValue
    | None -> Ok (VTup vs))

(** val to_list : content -> value list res **)

let rec to_list = function
| Numpy (dt, shape, data) ->
  (match shape with
   | [] -> Err EValue
   | n0 :: dims ->
     if existsb (fun d -> Z.ltb d Z0) shape
     then Err EValue
     else if Z.ltb (zlen data) (prodZ shape)
          then Err EValue
          else bind (nest dims n0 (map (leaf dt) (take (prodZ shape) data)))
                 (fun vs -> Ok vs))
| Empty -> Ok []
| ListOffset (_, o, c') ->
  bind (to_list c') (fun vs -> rmap (map (fun x -> VList x)) (cut vs o))
| ListA (_, s, e, c') ->
  bind (to_list c') (fun vs -> rmap (map (fun x -> VList x)) (cut2 vs s e))
| Regular (c', size, zl) ->
  bind (to_list c') (fun vs ->
    rmap (map (fun x -> VList x)) (chunks vs size zl))
| Indexed (_, ix, c') -> bind (to_list c') (fun vs -> mapM (get vs) ix)
| IndexedOption (_, ix, c') ->
  bind (to_list c') (fun vs -> mapM (fun i -> pick_opt vs (Z.leb Z0 i) i) ix)
| ByteMasked (m, vw, c') ->
  bind (to_list c') (fun vs ->
    mapM (fun im ->
      let (i, b) = im in pick_opt vs (eqb (negb (Z.eqb b Z0)) vw) i)
      (zip (iota (zlen m)) m))
| BitMasked (m, vw, lsb, n0, c') ->
  bind (to_list c') (fun vs ->
    if Z.ltb n0 Z0
    then Err EValue
    else mapM (fun i ->
           bind (bit_at m lsb i) (fun b -> pick_opt vs (eqb b vw) i))
           (iota n0))
| Unmasked c' -> to_list c'
| Union (_, t, ix, cs) ->
  bind
    (let rec all = function
     | [] -> Ok []
     | x :: xs ->
       bind (to_list x) (fun v -> bind (all xs) (fun vs -> Ok (v :: vs)))
     in all cs) (fun vss ->
    if Z.ltb (zlen ix) (zlen t)
    then Err EValue
    else mapM (fun ti ->
           let (tg, i) = ti in bind (get vss tg) (fun vs -> get vs i))
           (zip t ix))
| Record (cs, ks, n0) ->
  bind
    (let rec all = function
     | [] -> Ok []
     | x :: xs ->
       bind (to_list x) (fun v -> bind (all xs) (fun vs -> Ok (v :: vs)))
     in all cs) (fun vss ->
    if Z.ltb n0 Z0 then Err EValue else mapM (row ks vss) (iota n0))
| Par (arr, _, c') ->
  bind (to_list c') (fun vs ->
    match arr with
    | Some a ->
      (match a with
       | AString ->
         mapM (fun v -> rmap (fun x -> VStr (true, x)) (bytes_of v)) vs
       | ABytestring ->
         mapM (fun v -> rmap (fun x -> VStr (false, x)) (bytes_of v)) vs
       | _ -> Ok vs)
    | None -> Ok vs)

(** val datum_eqb : datum -> datum -> bool **)

let datum_eqb a b =
  match a with
  | DZ x -> (match b with
             | DZ y -> Z.eqb x y
             | _ -> false)
  | DNaN -> (match b with
             | DNaN -> true
             | _ -> false)
  | DInf x -> (match b with
               | DInf y -> eqb x y
               | _ -> false)

(** val value_eqb : value -> value -> bool **)

let rec value_eqb a b =
  match a with
  | VNum x -> (match b with
               | VNum y -> datum_eqb x y
               | _ -> false)
  | VBool x -> (match b with
                | VBool y -> eqb x y
                | _ -> false)
  | VStr (i, s) ->
    (match b with
     | VStr (j, t) -> (&&) (eqb i j) (list_eqb Z.eqb s t)
     | _ -> false)
  | VNone -> (match b with
              | VNone -> true
              | _ -> false)
  | VList l ->
    (match b with
     | VList m ->
       let rec go l0 m0 =
         match l0 with
         | [] -> (match m0 with
                  | [] -> true
                  | _ :: _ -> false)
         | x :: xs ->
           (match m0 with
            | [] -> false
            | y :: ys -> (&&) (value_eqb x y) (go xs ys))
       in go l m
     | _ -> false)
  | VRec f ->
    (match b with
     | VRec g ->
       let rec go l m =
         match l with
         | [] -> (match m with
                  | [] -> true
                  | _ :: _ -> false)
         | p :: xs ->
           let (k, x) = p in
           (match m with
            | [] -> false
            | p1 :: ys ->
              let (k', y) = p1 in
              (&&) ((&&) (list_eqb Z.eqb k k') (value_eqb x y)) (go xs ys))
       in go f g
     | _ -> false)
  | VTup l ->
    (match b with
     | VTup m ->
       let rec go l0 m0 =
         match l0 with
         | [] -> (match m0 with
                  | [] -> true
                  | _ :: _ -> false)
         | x :: xs ->
           (match m0 with
            | [] -> false
            | y :: ys -> (&&) (value_eqb x y) (go xs ys))
       in go l m
     | _ -> false)

(** val strip : content -> content **)

let rec strip c = match c with
| Par (_, _, c') -> strip c'
| _ -> c

(** val optionlike : content -> bool **)

let optionlike c =
  match strip c with
  | Indexed (_, _, _) -> true
  | IndexedOption (_, _, _) -> true
  | ByteMasked (_, _, _) -> true
  | BitMasked (_, _, _, _, _) -> true
  | Unmasked _ -> true
  | _ -> false

(** val unionlike : content -> bool **)

let unionlike c =
  match strip c with
  | Union (_, _, _, _) -> true
  | _ -> false

(** val pair_okb : z -> (z * z) -> bool **)

let pair_okb lc = function
| (a, b) ->
  (||) (Z.eqb a b) ((&&) ((&&) (Z.leb a b) (Z.leb Z0 a)) (Z.leb b lc))

(** val is_chars : akind -> content -> bool **)

let is_chars k = function
| Par (arr, _, c0) ->
  (match arr with
   | Some k' ->
     (match c0 with
      | Numpy (dt, shape, _) ->
        (match dt with
         | DUInt8 ->
           (match shape with
            | [] -> false
            | _ :: l ->
              (match l with
               | [] ->
                 (match k with
                  | AChar -> (match k' with
                              | AChar -> true
                              | _ -> false)
                  | AByte -> (match k' with
                              | AByte -> true
                              | _ -> false)
                  | _ -> false)
               | _ :: _ -> false))
         | _ -> false)
      | _ -> false)
   | None -> false)
| _ -> false

(** val list_content : content -> content option **)

let list_content = function
| ListOffset (_, _, c') -> Some c'
| ListA (_, _, _, c') -> Some c'
| Regular (c', _, _) -> Some c'
| _ -> None

(** val paramcheck : akind option -> content -> bool **)

let paramcheck p c =
  match p with
  | Some a ->
    (match a with
     | AString ->
       (match list_content c with
        | Some c' -> is_chars AChar c'
        | None -> false)
     | ABytestring ->
       (match list_content c with
        | Some c' -> is_chars AByte c'
        | None -> false)
     | _ -> false)
  | None -> true

(** val is_strk : akind option -> bool **)

let is_strk = function
| Some a -> (match a with
             | AString -> true
             | ABytestring -> true
             | _ -> false)
| None -> false

(** val union_okb : z list -> (z * z) -> bool **)

let union_okb lens = function
| (t, i) ->
  (&&) ((&&) (Z.leb Z0 t) (Z.leb Z0 i))
    (match get lens t with
     | Ok lc -> Z.ltb i lc
     | Err _ -> false)

(** val validb : akind option -> content -> bool **)

let rec validb p c = match c with
| Numpy (_, shape, data) ->
  (&&) (paramcheck p c)
    (match shape with
     | [] -> false
     | _ :: _ ->
       (&&) (forallb (fun d -> Z.leb Z0 d) shape)
         (Z.leb (prodZ shape) (zlen data)))
| Empty -> paramcheck p c
| ListOffset (_, o, c') ->
  (&&)
    ((&&) ((&&) (paramcheck p c) (Z.leb (Zpos XH) (zlen o)))
      (forallb (pair_okb (clen c')) (pairs o)))
    (if is_strk p then true else validb None c')
| ListA (_, s, e, c') ->
  (&&)
    ((&&) ((&&) (paramcheck p c) (Z.leb (zlen s) (zlen e)))
      (forallb (pair_okb (clen c')) (zip s e)))
    (if is_strk p then true else validb None c')
| Regular (c', size, zl) ->
  (&&) ((&&) ((&&) (paramcheck p c) (Z.leb Z0 size)) (Z.leb Z0 zl))
    (if is_strk p then true else validb None c')
| Indexed (_, ix, c') ->
  (&&)
    ((&&)
      ((&&) (paramcheck p c)
        (forallb (fun i -> (&&) (Z.leb Z0 i) (Z.ltb i (clen c'))) ix))
      (negb (optionlike c'))) (validb None c')
| IndexedOption (_, ix, c') ->
  (&&)
    ((&&) ((&&) (paramcheck p c) (forallb (fun i -> Z.ltb i (clen c')) ix))
      (negb (optionlike c'))) (validb None c')
| ByteMasked (m, _, c') ->
  (&&)
    ((&&) ((&&) (paramcheck p c) (Z.leb (zlen m) (clen c')))
      (negb (optionlike c'))) (validb None c')
| BitMasked (m, _, _, n0, c') ->
  (&&)
    ((&&)
      ((&&)
        ((&&) ((&&) (paramcheck p c) (Z.leb Z0 n0))
          (Z.leb n0 (Z.mul (zlen m) (Zpos (XO (XO (XO XH)))))))
        (Z.leb n0 (clen c'))) (negb (optionlike c'))) (validb None c')
| Unmasked c' ->
  (&&) ((&&) (paramcheck p c) (negb (optionlike c'))) (validb None c')
| Union (_, t, ix, cs) ->
  (&&)
    ((&&)
      ((&&) ((&&) (paramcheck p c) (negb (existsb unionlike cs)))
        (Z.leb (zlen t) (zlen ix)))
      (forallb (union_okb (map clen cs)) (zip t ix)))
    (let rec all = function
     | [] -> true
     | x :: xs -> (&&) (validb None x) (all xs)
     in all cs)
| Record (cs, _, n0) ->
  (&&)
    ((&&)
      ((&&) ((&&) (paramcheck p c) (Z.leb Z0 n0))
        (forallb (fun x -> Z.leb n0 (clen x)) cs))
      (match c with
       | Record (_, keys, _) ->
         (match keys with
          | Some ks -> Nat.eqb (length ks) (length cs)
          | None -> true)
       | _ -> true))
    (let rec all = function
     | [] -> true
     | x :: xs -> (&&) (validb None x) (all xs)
     in all cs)
| Par (arr, _, c') ->
  (match p with
   | Some _ -> false
   | None -> (match c' with
              | Par (_, _, _) -> false
              | _ -> validb arr c'))

(** val valid_b : content -> bool **)

let valid_b c =
  validb None c

type ty =
| TNum of dtype
| TUnk
| TList of z option * bool option * ty
| TOpt of ty
| TRec of name list option * ty list
| TUnion of ty list

(** val numpy_ty : dtype -> z list -> ty **)

let rec numpy_ty dt = function
| [] -> TNum dt
| d :: ds -> TList ((Some d), None, (numpy_ty dt ds))

(** val strflag : akind option -> bool option **)

let strflag = function
| Some a ->
  (match a with
   | AString -> Some true
   | ABytestring -> Some false
   | _ -> None)
| None -> None

(** val type_of_p : akind option -> content -> ty **)

let rec type_of_p p = function
| Numpy (dt, shape, _) -> numpy_ty dt (tl shape)
| Empty -> TUnk
| ListOffset (_, _, c') -> TList (None, (strflag p), (type_of_p None c'))
| ListA (_, _, _, c') -> TList (None, (strflag p), (type_of_p None c'))
| Regular (c', size, _) ->
  TList ((Some size), (strflag p), (type_of_p None c'))
| Indexed (_, _, c') -> type_of_p None c'
| IndexedOption (_, _, c') -> TOpt (type_of_p None c')
| ByteMasked (_, _, c') -> TOpt (type_of_p None c')
| BitMasked (_, _, _, _, c') -> TOpt (type_of_p None c')
| Unmasked c' -> TOpt (type_of_p None c')
| Union (_, _, _, cs) -> TUnion (map (type_of_p None) cs)
| Record (cs, ks, _) -> TRec (ks, (map (type_of_p None) cs))
| Par (arr, _, c') -> type_of_p arr c'

(** val type_of : content -> ty **)

let type_of c =
  type_of_p None c

type cmd =
| CNull
| CBool of bool
| CInt of z
| CReal of z
| CStr of bool * z list
| CBeginList
| CEndList
| CBeginTuple of z
| CIndex of z
| CEndTuple
| CBeginRecord of name option
| CField of name
| CEndRecord

type scmd =
| SC of cmd
| SSnapshot
| SClear

type ckind =
| KNull
| KAtom
| KBegin
| KEnd
| KInner

(** val kind_of : cmd -> ckind **)

let kind_of = function
| CNull -> KNull
| CBeginList -> KBegin
| CEndList -> KEnd
| CBeginTuple _ -> KBegin
| CIndex _ -> KInner
| CEndTuple -> KEnd
| CBeginRecord _ -> KBegin
| CField _ -> KInner
| CEndRecord -> KEnd
| _ -> KAtom

type opts = { initial : z; grow : (z -> z); junk : z }

type gb = { gid : nat; gdata : z list; glen : z; gres : z }

(** val fill : z -> z -> z list **)

let fill v n0 =
  repeat v (Z.to_nat n0)

(** val upd_nth : 'a1 list -> nat -> 'a1 -> 'a1 list **)

let rec upd_nth l i x =
  match l with
  | [] -> []
  | h :: t -> (match i with
               | O -> x :: t
               | S j -> h :: (upd_nth t j x))

(** val gb_list : gb -> z list **)

let gb_list g =
  take g.glen g.gdata

(** val gb_make : opts -> z list -> z -> gb res **)

let gb_make o pre n0 =
  if Z.ltb n0 Z0
  then Err EValue
  else let a = Z.max o.initial n0 in
       Ok { gid = O; gdata = (app pre (fill o.junk (Z.sub a n0))); glen = n0;
       gres = a }

(** val gb_empty : opts -> gb res **)

let gb_empty o =
  gb_make o [] Z0

(** val gb_full : opts -> z -> z -> gb res **)

let gb_full o v n0 =
  gb_make o (fill v n0) n0

(** val gb_arange : opts -> z -> gb res **)

let gb_arange o n0 =
  gb_make o (iota n0) n0

(** val gb_set_reserved : opts -> gb -> z -> gb **)

let gb_set_reserved o g minres =
  if Z.ltb g.gres minres
  then { gid = O; gdata =
         (app (take g.glen g.gdata) (fill o.junk (Z.sub minres g.glen)));
         glen = g.glen; gres = minres }
  else g

(** val gb_append : opts -> gb -> z -> gb res **)

let gb_append o g x =
  let g1 =
    if Z.eqb g.glen g.gres then gb_set_reserved o g (o.grow g.gres) else g
  in
  if (&&) (Z.leb Z0 g1.glen) (Z.ltb g1.glen g1.gres)
  then Ok { gid = g1.gid; gdata = (upd_nth g1.gdata (Z.to_nat g1.glen) x);
         glen = (Z.add g1.glen (Zpos XH)); gres = g1.gres }
  else Err EOob

(** val gb_extend : opts -> gb -> z list -> gb res **)

let rec gb_extend o g = function
| [] -> Ok g
| x :: t -> bind (gb_append o g x) (fun g1 -> gb_extend o g1 t)

(** val gb_clear : opts -> gb -> gb res **)

let gb_clear o _ =
  gb_empty o

(** val gb_convert : opts -> gb -> gb res **)

let gb_convert o g =
  if Z.ltb g.gres Z0
  then Err EValue
  else let a = Z.max o.initial g.gres in
       Ok { gid = O; gdata =
       (app (take g.glen g.gdata) (fill o.junk (Z.sub a g.glen))); glen =
       g.glen; gres = a }

type builder =
| BUnknown of z
| BBool of gb
| BInt of gb
| BFloat of gb
| BString of bool * gb * gb
| BOption of gb * builder
| BList of gb * builder * bool
| BRecord of builder list * name list * name * bool * z * bool * z * z
| BTuple of builder list * z * bool * z
| BUnion of gb * gb * builder list * z

type sres =
| SOk of builder * builder option
| SErr of err * builder

(** val blen : builder -> z **)

let blen = function
| BUnknown n0 -> n0
| BBool g -> g.glen
| BInt g -> g.glen
| BFloat g -> g.glen
| BString (_, offs, _) -> Z.sub offs.glen (Zpos XH)
| BOption (idx, _) -> idx.glen
| BList (offs, _, _) -> Z.sub offs.glen (Zpos XH)
| BRecord (_, _, _, _, len, _, _, _) ->
  if Z.eqb len (Zneg XH) then Z0 else len
| BTuple (_, len, _, _) -> if Z.eqb len (Zneg XH) then Z0 else len
| BUnion (tags, _, _, _) -> tags.glen

(** val active : builder -> bool **)

let rec active = function
| BOption (_, c) -> active c
| BList (_, _, begun) -> begun
| BRecord (_, _, _, _, _, begun, _, _) -> begun
| BTuple (_, _, begun, _) -> begun
| BUnion (_, _, _, cur) -> negb (Z.eqb cur (Zneg XH))
| _ -> false

(** val name_eqb : name -> name -> bool **)

let name_eqb a b =
  list_eqb Z.eqb a b

(** val pick : builder -> builder option -> builder **)

let pick self = function
| Some n0 -> n0
| None -> self

(** val mu : sres -> (builder -> builder) -> sres **)

let mu r k =
  match r with
  | SOk (c', ret) -> SOk ((k (pick c' ret)), None)
  | SErr (e, c') -> SErr (e, (k c'))

(** val dr : sres -> (builder -> builder) -> sres **)

let dr r k =
  match r with
  | SOk (c', _) -> SOk ((k c'), None)
  | SErr (e, c') -> SErr (e, (k c'))

(** val withgb : gb res -> builder -> (gb -> sres) -> sres **)

let withgb r self k =
  match r with
  | Ok g -> k g
  | Err e -> SErr (e, self)

(** val withb : builder res -> builder -> (builder -> sres) -> sres **)

let withb r self k =
  match r with
  | Ok b -> k b
  | Err e -> SErr (e, self)

(** val at_nth : ('a1 -> 'a2) -> 'a1 list -> nat -> 'a2 option **)

let rec at_nth f l i =
  match l with
  | [] -> None
  | x :: t -> (match i with
               | O -> Some (f x)
               | S j -> at_nth f t j)

(** val find_app :
    ('a1 -> 'a2) -> ('a1 -> bool) -> 'a1 list -> nat -> ((nat * 'a1) * 'a2)
    option **)

let rec find_app f p l i =
  match l with
  | [] -> None
  | x :: t -> if p x then Some ((i, x), (f x)) else find_app f p t (S i)

(** val mapMs : ('a1 -> 'a2 res) -> 'a1 list -> 'a2 list res **)

let rec mapMs f = function
| [] -> Ok []
| x :: xs -> bind (f x) (fun y -> bind (mapMs f xs) (fun ys -> Ok (y :: ys)))

(** val nth_z : 'a1 list -> z -> 'a1 option **)

let nth_z l i =
  if Z.ltb i Z0 then None else nth_error l (Z.to_nat i)

(** val string_after : opts -> bool -> gb -> gb -> z list -> builder res **)

let string_after o isstr offs cont s =
  bind (gb_extend o cont s) (fun cont' ->
    bind (gb_append o offs cont'.glen) (fun offs' -> Ok (BString (isstr,
      offs', cont'))))

(** val fresh_after : opts -> cmd -> builder res **)

let fresh_after o = function
| CBool x ->
  bind (gb_empty o) (fun g ->
    bind (gb_append o g (if x then Zpos XH else Z0)) (fun g' -> Ok (BBool g')))
| CInt x ->
  bind (gb_empty o) (fun g -> bind (gb_append o g x) (fun g' -> Ok (BInt g')))
| CReal x ->
  bind (gb_empty o) (fun g ->
    bind (gb_append o g x) (fun g' -> Ok (BFloat g')))
| CStr (e, s) ->
  bind (gb_empty o) (fun offs ->
    bind (gb_append o offs Z0) (fun offs0 ->
      bind (gb_empty o) (fun cont -> string_after o e offs0 cont s)))
| CBeginList ->
  bind (gb_empty o) (fun offs ->
    bind (gb_append o offs Z0) (fun offs0 -> Ok (BList (offs0, (BUnknown Z0),
      true))))
| CBeginTuple n0 ->
  if Z.ltb n0 Z0
  then Err EValue
  else Ok (BTuple ((repeat (BUnknown Z0) (Z.to_nat n0)), Z0, true, (Zneg XH)))
| CBeginRecord nm ->
  Ok (BRecord ([], [], (match nm with
                        | Some s -> s
                        | None -> []),
    (match nm with
     | Some _ -> false
     | None -> true), Z0, true, (Zneg XH), Z0))
| _ -> Err EValue

(** val option_null : opts -> builder -> sres **)

let option_null o self =
  withgb (gb_arange o (blen self)) self (fun idx ->
    withgb (gb_append o idx (Zneg XH)) self (fun idx' -> SOk (self, (Some
      (BOption (idx', self))))))

(** val union_wrap : opts -> builder -> cmd -> sres **)

let union_wrap o self c =
  withgb (gb_full o Z0 (blen self)) self (fun tags ->
    withgb (gb_arange o (blen self)) self (fun idx ->
      withb (fresh_after o c) self (fun nb ->
        match kind_of c with
        | KAtom ->
          withgb (gb_append o tags (Zpos XH)) self (fun tags' ->
            withgb (gb_append o idx Z0) self (fun idx' -> SOk (self, (Some
              (BUnion (tags', idx', (self :: (nb :: [])), (Zneg XH)))))))
        | _ ->
          SOk (self, (Some (BUnion (tags, idx, (self :: (nb :: [])), (Zpos
            XH))))))))

(** val unknown_start : opts -> z -> cmd -> sres **)

let unknown_start o n0 c =
  let self = BUnknown n0 in
  withb (fresh_after o c) self (fun nb ->
    if Z.eqb n0 Z0
    then SOk (self, (Some nb))
    else withgb (gb_full o (Zneg XH) n0) self (fun idx ->
           match kind_of c with
           | KAtom ->
             withgb (gb_append o idx Z0) self (fun idx' -> SOk (self, (Some
               (BOption (idx', nb)))))
           | _ -> SOk (self, (Some (BOption (idx, nb))))))

(** val takes : cmd -> builder -> bool **)

let takes c b =
  match c with
  | CBool _ -> (match b with
                | BBool _ -> true
                | _ -> false)
  | CInt _ -> (match b with
               | BInt _ -> true
               | _ -> false)
  | CReal _ -> (match b with
                | BFloat _ -> true
                | _ -> false)
  | CStr (e, _) -> (match b with
                    | BString (e', _, _) -> eqb e e'
                    | _ -> false)
  | CBeginList -> (match b with
                   | BList (_, _, _) -> true
                   | _ -> false)
  | CBeginTuple n0 ->
    (match b with
     | BTuple (cs, len, _, _) ->
       (||) (Z.eqb len (Zneg XH)) (Z.eqb (zlen cs) n0)
     | _ -> false)
  | CBeginRecord nm ->
    (match b with
     | BRecord (_, _, rn, nullp, len, _, _, _) ->
       (||) (Z.eqb len (Zneg XH))
         (match nm with
          | Some s -> name_eqb rn s
          | None -> nullp)
     | _ -> false)
  | _ -> false

(** val is_int : builder -> bool **)

let is_int = function
| BInt _ -> true
| _ -> false

(** val find_key : name -> name list -> z -> z option **)

let rec find_key k keys i =
  match keys with
  | [] -> None
  | x :: t ->
    if name_eqb x k then Some i else find_key k t (Z.add i (Zpos XH))

(** val rr_find : name -> name list -> z -> z option **)

let rr_find k keys ntt =
  match find_key k (drop ntt keys) ntt with
  | Some i -> Some i
  | None -> find_key k (take ntt keys) Z0

(** val fill_loop :
    (builder -> sres) -> z -> builder list -> builder list * err option **)

let rec fill_loop nullf len = function
| [] -> ([], None)
| c :: t ->
  let r =
    if Z.eqb (blen c) len
    then (match nullf c with
          | SOk (c', ret) -> ((pick c' ret), None)
          | SErr (e, c') -> (c', (Some e)))
    else (c, None)
  in
  let (c1, o) = r in
  (match o with
   | Some e -> ((c1 :: t), (Some e))
   | None ->
     if negb (Z.eqb (blen c1) (Z.add len (Zpos XH)))
     then ((c1 :: t), (Some EValue))
     else let (t', e) = fill_loop nullf len t in ((c1 :: t'), e))

(** val step : opts -> builder -> cmd -> sres **)

let rec step o b c =
  match b with
  | BUnknown n0 ->
    (match kind_of c with
     | KNull -> SOk ((BUnknown (Z.add n0 (Zpos XH))), None)
     | KAtom -> unknown_start o n0 c
     | KBegin -> unknown_start o n0 c
     | _ -> SErr (EValue, b))
  | BBool g ->
    (match c with
     | CNull -> option_null o b
     | CBool x ->
       withgb (gb_append o g (if x then Zpos XH else Z0)) b (fun g' -> SOk
         ((BBool g'), None))
     | _ ->
       (match kind_of c with
        | KEnd -> SErr (EValue, b)
        | KInner -> SErr (EValue, b)
        | _ -> union_wrap o b c))
  | BInt g ->
    (match c with
     | CNull -> option_null o b
     | CInt x -> withgb (gb_append o g x) b (fun g' -> SOk ((BInt g'), None))
     | CReal x ->
       withgb (gb_convert o g) b (fun gf ->
         withgb (gb_append o gf x) b (fun gf' -> SOk (b, (Some (BFloat gf')))))
     | _ ->
       (match kind_of c with
        | KEnd -> SErr (EValue, b)
        | KInner -> SErr (EValue, b)
        | _ -> union_wrap o b c))
  | BFloat g ->
    (match c with
     | CNull -> option_null o b
     | CInt x ->
       withgb (gb_append o g x) b (fun g' -> SOk ((BFloat g'), None))
     | CReal x ->
       withgb (gb_append o g x) b (fun g' -> SOk ((BFloat g'), None))
     | _ ->
       (match kind_of c with
        | KEnd -> SErr (EValue, b)
        | KInner -> SErr (EValue, b)
        | _ -> union_wrap o b c))
  | BString (e, offs, cont) ->
    (match c with
     | CNull -> option_null o b
     | CStr (e', s) ->
       if eqb e e'
       then withb (string_after o e offs cont s) b (fun b' -> SOk (b', None))
       else union_wrap o b c
     | _ ->
       (match kind_of c with
        | KEnd -> SErr (EValue, b)
        | KInner -> SErr (EValue, b)
        | _ -> union_wrap o b c))
  | BOption (idx, ct) ->
    let k = fun x -> BOption (idx, x) in
    if negb (active ct)
    then (match kind_of c with
          | KNull ->
            withgb (gb_append o idx (Zneg XH)) b (fun idx' -> SOk ((BOption
              (idx', ct)), None))
          | KAtom ->
            (match step o ct c with
             | SOk (ct', ret) ->
               let cn = pick ct' ret in
               withgb (gb_append o idx (blen ct)) (k cn) (fun idx' -> SOk
                 ((BOption (idx', cn)), None))
             | SErr (e, ct') -> SErr (e, (k ct')))
          | KBegin -> mu (step o ct c) k
          | _ -> SErr (EValue, b))
    else (match kind_of c with
          | KEnd ->
            (match step o ct c with
             | SOk (ct', _) ->
               if Z.eqb (blen ct') (blen ct)
               then SOk ((k ct'), None)
               else withgb (gb_append o idx (blen ct)) (k ct') (fun idx' ->
                      SOk ((BOption (idx', ct')), None))
             | SErr (e, ct') -> SErr (e, (k ct')))
          | _ -> dr (step o ct c) k)
  | BList (offs, ct, begun) ->
    let k = fun x -> BList (offs, x, begun) in
    if negb begun
    then (match c with
          | CNull -> option_null o b
          | CBeginList -> SOk ((BList (offs, ct, true)), None)
          | _ ->
            (match kind_of c with
             | KEnd -> SErr (EValue, b)
             | KInner -> SErr (EValue, b)
             | _ -> union_wrap o b c))
    else (match c with
          | CEndList ->
            if negb (active ct)
            then withgb (gb_append o offs (blen ct)) b (fun offs' -> SOk
                   ((BList (offs', ct, false)), None))
            else mu (step o ct c) k
          | CIndex _ -> dr (step o ct c) k
          | CEndTuple -> dr (step o ct c) k
          | CField _ -> dr (step o ct c) k
          | CEndRecord -> dr (step o ct c) k
          | _ -> mu (step o ct c) k)
  | BRecord (cs, keys, rn, nullp, len, begun, ni, ntt) ->
    let k = fun cs' -> BRecord (cs', keys, rn, nullp, len, begun, ni, ntt) in
    let ki = fun x -> k (upd_nth cs (Z.to_nat ni) x) in
    let child = fun site always_drop ->
      match nth_z cs ni with
      | Some x ->
        (match at_nth (fun x0 -> step o x0 c) cs (Z.to_nat ni) with
         | Some r ->
           if (||) always_drop (active x) then dr r ki else site r ki
         | None -> SErr (EOob, b))
      | None -> SErr (EOob, b)
    in
    (match c with
     | CNull ->
       if negb begun
       then option_null o b
       else if Z.eqb ni (Zneg XH) then SErr (EValue, b) else child mu false
     | CEndList ->
       if negb begun
       then SErr (EValue, b)
       else if Z.eqb ni (Zneg XH) then SErr (EValue, b) else child dr true
     | CIndex _ ->
       if negb begun
       then SErr (EValue, b)
       else if Z.eqb ni (Zneg XH) then SErr (EValue, b) else child dr true
     | CEndTuple ->
       if negb begun
       then SErr (EValue, b)
       else if Z.eqb ni (Zneg XH) then SErr (EValue, b) else child dr true
     | CBeginRecord nm ->
       if Z.eqb len (Zneg XH)
       then let p = (Z0, (match nm with
                          | Some s -> s
                          | None -> [])) in
            let nullp1 = match nm with
                         | Some _ -> false
                         | None -> true in
            let (len1, rn1) = p in
            let self1 = BRecord (cs, keys, rn1, nullp1, len1, begun, ni, ntt)
            in
            let same = match nm with
                       | Some s -> name_eqb rn1 s
                       | None -> nullp1
            in
            if (&&) (negb begun) same
            then SOk ((BRecord (cs, keys, rn1, nullp1, len1, true, (Zneg XH),
                   Z0)), None)
            else if negb begun
                 then union_wrap o self1 c
                 else if Z.eqb ni (Zneg XH)
                      then SErr (EValue, self1)
                      else (match nth_z cs ni with
                            | Some x ->
                              (match at_nth (fun x0 -> step o x0 c) cs
                                       (Z.to_nat ni) with
                               | Some r ->
                                 let ki1 = fun y -> BRecord
                                   ((upd_nth cs (Z.to_nat ni) y), keys, rn1,
                                   nullp1, len1, begun, ni, ntt)
                                 in
                                 if active x then dr r ki1 else mu r ki1
                               | None -> SErr (EOob, self1))
                            | None -> SErr (EOob, self1))
       else let p = (len, rn) in
            let (len1, rn1) = p in
            let self1 = BRecord (cs, keys, rn1, nullp, len1, begun, ni, ntt)
            in
            let same = match nm with
                       | Some s -> name_eqb rn1 s
                       | None -> nullp
            in
            if (&&) (negb begun) same
            then SOk ((BRecord (cs, keys, rn1, nullp, len1, true, (Zneg XH),
                   Z0)), None)
            else if negb begun
                 then union_wrap o self1 c
                 else if Z.eqb ni (Zneg XH)
                      then SErr (EValue, self1)
                      else (match nth_z cs ni with
                            | Some x ->
                              (match at_nth (fun x0 -> step o x0 c) cs
                                       (Z.to_nat ni) with
                               | Some r ->
                                 let ki1 = fun y -> BRecord
                                   ((upd_nth cs (Z.to_nat ni) y), keys, rn1,
                                   nullp, len1, begun, ni, ntt)
                                 in
                                 if active x then dr r ki1 else mu r ki1
                               | None -> SErr (EOob, self1))
                            | None -> SErr (EOob, self1))
     | CField key ->
       if negb begun
       then SErr (EValue, b)
       else let here =
              if Z.eqb ni (Zneg XH)
              then Some true
              else (match nth_z cs ni with
                    | Some x -> Some (negb (active x))
                    | None -> None)
            in
            (match here with
             | Some b0 ->
               if b0
               then (match rr_find key keys ntt with
                     | Some i ->
                       SOk ((BRecord (cs, keys, rn, nullp, len, begun, i,
                         (Z.add i (Zpos XH)))), None)
                     | None ->
                       let fresh =
                         if Z.eqb len Z0
                         then Ok (BUnknown Z0)
                         else bind (gb_full o (Zneg XH) len) (fun idx -> Ok
                                (BOption (idx, (BUnknown Z0))))
                       in
                       withb fresh b (fun nb -> SOk ((BRecord
                         ((app cs (nb :: [])), (app keys (key :: [])), rn,
                         nullp, len, begun, (zlen keys), Z0)), None)))
               else child dr true
             | None -> SErr (EOob, b))
     | CEndRecord ->
       if negb begun
       then SErr (EValue, b)
       else let here =
              if Z.eqb ni (Zneg XH)
              then Some true
              else (match nth_z cs ni with
                    | Some x -> Some (negb (active x))
                    | None -> None)
            in
            (match here with
             | Some b0 ->
               if b0
               then let (cs', o0) = fill_loop (fun x -> step o x CNull) len cs
                    in
                    (match o0 with
                     | Some e -> SErr (e, (k cs'))
                     | None ->
                       SOk ((BRecord (cs', keys, rn, nullp,
                         (Z.add len (Zpos XH)), false, ni, ntt)), None))
               else child dr true
             | None -> SErr (EOob, b))
     | _ ->
       if negb begun
       then union_wrap o b c
       else if Z.eqb ni (Zneg XH) then SErr (EValue, b) else child mu false)
  | BTuple (cs, len, begun, ni) ->
    let k = fun cs' -> BTuple (cs', len, begun, ni) in
    let ki = fun x -> k (upd_nth cs (Z.to_nat ni) x) in
    let child = fun site always_drop ->
      match nth_z cs ni with
      | Some x ->
        (match at_nth (fun x0 -> step o x0 c) cs (Z.to_nat ni) with
         | Some r ->
           if (||) always_drop (active x) then dr r ki else site r ki
         | None -> SErr (EOob, b))
      | None -> SErr (EOob, b)
    in
    (match c with
     | CNull ->
       if negb begun
       then option_null o b
       else if Z.eqb ni (Zneg XH) then SErr (EValue, b) else child mu false
     | CEndList ->
       if negb begun
       then SErr (EValue, b)
       else if Z.eqb ni (Zneg XH) then SErr (EValue, b) else child dr true
     | CBeginTuple n0 ->
       if Z.ltb n0 Z0
       then SErr (EValue, b)
       else if Z.eqb len (Zneg XH)
            then let cs1 = app cs (repeat (BUnknown Z0) (Z.to_nat n0)) in
                 let len1 = Z0 in
                 let self1 = BTuple (cs1, len1, begun, ni) in
                 if (&&) (negb begun) (Z.eqb n0 (zlen cs1))
                 then SOk ((BTuple (cs1, len1, true, (Zneg XH))), None)
                 else if negb begun
                      then union_wrap o self1 c
                      else if Z.eqb ni (Zneg XH)
                           then SErr (EValue, self1)
                           else (match nth_z cs1 ni with
                                 | Some x ->
                                   (match at_nth (fun x0 -> step o x0 c) cs
                                            (Z.to_nat ni) with
                                    | Some r ->
                                      let ki1 = fun y -> BTuple
                                        ((upd_nth cs1 (Z.to_nat ni) y), len1,
                                        begun, ni)
                                      in
                                      if active x then dr r ki1 else mu r ki1
                                    | None -> SErr (EOob, self1))
                                 | None -> SErr (EOob, self1))
            else let self1 = BTuple (cs, len, begun, ni) in
                 if (&&) (negb begun) (Z.eqb n0 (zlen cs))
                 then SOk ((BTuple (cs, len, true, (Zneg XH))), None)
                 else if negb begun
                      then union_wrap o self1 c
                      else if Z.eqb ni (Zneg XH)
                           then SErr (EValue, self1)
                           else (match nth_z cs ni with
                                 | Some x ->
                                   (match at_nth (fun x0 -> step o x0 c) cs
                                            (Z.to_nat ni) with
                                    | Some r ->
                                      let ki1 = fun y -> BTuple
                                        ((upd_nth cs (Z.to_nat ni) y), len,
                                        begun, ni)
                                      in
                                      if active x then dr r ki1 else mu r ki1
                                    | None -> SErr (EOob, self1))
                                 | None -> SErr (EOob, self1))
     | CIndex i ->
       if negb begun
       then SErr (EValue, b)
       else let here =
              if Z.eqb ni (Zneg XH)
              then Some true
              else (match nth_z cs ni with
                    | Some x -> Some (negb (active x))
                    | None -> None)
            in
            (match here with
             | Some b0 ->
               if b0
               then if (||) (Z.ltb i Z0) (Z.leb (zlen cs) i)
                    then SErr (EValue, b)
                    else SOk ((BTuple (cs, len, begun, i)), None)
               else child dr true
             | None -> SErr (EOob, b))
     | CEndTuple ->
       if negb begun
       then SErr (EValue, b)
       else let here =
              if Z.eqb ni (Zneg XH)
              then Some true
              else (match nth_z cs ni with
                    | Some x -> Some (negb (active x))
                    | None -> None)
            in
            (match here with
             | Some b0 ->
               if b0
               then let (cs', o0) = fill_loop (fun x -> step o x CNull) len cs
                    in
                    (match o0 with
                     | Some e -> SErr (e, (k cs'))
                     | None ->
                       SOk ((BTuple (cs', (Z.add len (Zpos XH)), false, ni)),
                         None))
               else child dr true
             | None -> SErr (EOob, b))
     | CField _ ->
       if negb begun
       then SErr (EValue, b)
       else if Z.eqb ni (Zneg XH) then SErr (EValue, b) else child dr true
     | CEndRecord ->
       if negb begun
       then SErr (EValue, b)
       else if Z.eqb ni (Zneg XH) then SErr (EValue, b) else child dr true
     | _ ->
       if negb begun
       then union_wrap o b c
       else if Z.eqb ni (Zneg XH) then SErr (EValue, b) else child mu false)
  | BUnion (tags, idx, cs, cur) ->
    if negb (Z.eqb cur (Zneg XH))
    then (match nth_z cs cur with
          | Some x ->
            (match at_nth (fun x0 -> step o x0 c) cs (Z.to_nat cur) with
             | Some r ->
               let kc = fun y -> upd_nth cs (Z.to_nat cur) y in
               (match kind_of c with
                | KEnd ->
                  (match r with
                   | SOk (x', _) ->
                     if Z.eqb (blen x') (blen x)
                     then SOk ((BUnion (tags, idx, (kc x'), cur)), None)
                     else let self1 = BUnion (tags, idx, (kc x'), cur) in
                          withgb (gb_append o tags cur) self1 (fun tags' ->
                            withgb (gb_append o idx (blen x)) (BUnion (tags',
                              idx, (kc x'), cur)) (fun idx' -> SOk ((BUnion
                              (tags', idx', (kc x'), (Zneg XH))), None)))
                   | SErr (e, x') ->
                     SErr (e, (BUnion (tags, idx, (kc x'), cur))))
                | _ -> dr r (fun y -> BUnion (tags, idx, (kc y), cur)))
             | None -> SErr (EOob, b))
          | None -> SErr (EOob, b))
    else (match kind_of c with
          | KNull -> option_null o b
          | KAtom ->
            let found = find_app (fun x -> step o x c) (takes c) cs O in
            let after = fun i len0 cs' ->
              let self1 = BUnion (tags, idx, cs', cur) in
              (match kind_of c with
               | KAtom ->
                 withgb (gb_append o tags (Z.of_nat i)) self1 (fun tags' ->
                   withgb (gb_append o idx len0) (BUnion (tags', idx, cs',
                     cur)) (fun idx' -> SOk ((BUnion (tags', idx', cs',
                     cur)), None)))
               | _ -> SOk ((BUnion (tags, idx, cs', (Z.of_nat i))), None))
            in
            (match found with
             | Some p ->
               let (p1, r) = p in
               let (i, x) = p1 in
               (match r with
                | SOk (x', _) -> after i (blen x) (upd_nth cs i x')
                | SErr (e, x') ->
                  SErr (e, (BUnion (tags, idx, (upd_nth cs i x'), cur))))
             | None ->
               let conv =
                 match c with
                 | CNull -> None
                 | CBool _ -> None
                 | CInt _ -> None
                 | CReal _ -> find_app (fun x -> x) is_int cs O
                 | _ -> None
               in
               (match conv with
                | Some p ->
                  let (p1, _) = p in
                  let (i, b1) = p1 in
                  (match b1 with
                   | BUnknown _ ->
                     (match c with
                      | CNull ->
                        withb (fresh_after o c) b (fun nb ->
                          after (length cs) Z0 (app cs (nb :: [])))
                      | CBool _ ->
                        withb (fresh_after o c) b (fun nb ->
                          after (length cs) Z0 (app cs (nb :: [])))
                      | CInt _ ->
                        withb (fresh_after o c) b (fun nb ->
                          after (length cs) Z0 (app cs (nb :: [])))
                      | CReal _ ->
                        withb (fresh_after o c) b (fun nb ->
                          after (length cs) Z0 (app cs (nb :: [])))
                      | CStr (_, _) ->
                        withb (fresh_after o c) b (fun nb ->
                          after (length cs) Z0 (app cs (nb :: [])))
                      | CBeginList ->
                        withb (fresh_after o c) b (fun nb ->
                          after (length cs) Z0 (app cs (nb :: [])))
                      | CEndList ->
                        withb (fresh_after o c) b (fun nb ->
                          after (length cs) Z0 (app cs (nb :: [])))
                      | CBeginTuple n0 ->
                        if Z.ltb n0 Z0
                        then SErr (EValue, (BUnion (tags, idx,
                               (app cs ((BTuple ([], (Zneg XH), false, (Zneg
                                 XH))) :: [])), cur)))
                        else withb (fresh_after o c) b (fun nb ->
                               after (length cs) Z0 (app cs (nb :: [])))
                      | CIndex _ ->
                        withb (fresh_after o c) b (fun nb ->
                          after (length cs) Z0 (app cs (nb :: [])))
                      | CEndTuple ->
                        withb (fresh_after o c) b (fun nb ->
                          after (length cs) Z0 (app cs (nb :: [])))
                      | CBeginRecord _ ->
                        withb (fresh_after o c) b (fun nb ->
                          after (length cs) Z0 (app cs (nb :: [])))
                      | CField _ ->
                        withb (fresh_after o c) b (fun nb ->
                          after (length cs) Z0 (app cs (nb :: [])))
                      | CEndRecord ->
                        withb (fresh_after o c) b (fun nb ->
                          after (length cs) Z0 (app cs (nb :: []))))
                   | BBool _ ->
                     (match c with
                      | CNull ->
                        withb (fresh_after o c) b (fun nb ->
                          after (length cs) Z0 (app cs (nb :: [])))
                      | CBool _ ->
                        withb (fresh_after o c) b (fun nb ->
                          after (length cs) Z0 (app cs (nb :: [])))
                      | CInt _ ->
                        withb (fresh_after o c) b (fun nb ->
                          after (length cs) Z0 (app cs (nb :: [])))
                      | CReal _ ->
                        withb (fresh_after o c) b (fun nb ->
                          after (length cs) Z0 (app cs (nb :: [])))
                      | CStr (_, _) ->
                        withb (fresh_after o c) b (fun nb ->
                          after (length cs) Z0 (app cs (nb :: [])))
                      | CBeginList ->
                        withb (fresh_after o c) b (fun nb ->
                          after (length cs) Z0 (app cs (nb :: [])))
                      | CEndList ->
                        withb (fresh_after o c) b (fun nb ->
                          after (length cs) Z0 (app cs (nb :: [])))
                      | CBeginTuple n0 ->
                        if Z.ltb n0 Z0
                        then SErr (EValue, (BUnion (tags, idx,
                               (app cs ((BTuple ([], (Zneg XH), false, (Zneg
                                 XH))) :: [])), cur)))
                        else withb (fresh_after o c) b (fun nb ->
                               after (length cs) Z0 (app cs (nb :: [])))
                      | CIndex _ ->
                        withb (fresh_after o c) b (fun nb ->
                          after (length cs) Z0 (app cs (nb :: [])))
                      | CEndTuple ->
                        withb (fresh_after o c) b (fun nb ->
                          after (length cs) Z0 (app cs (nb :: [])))
                      | CBeginRecord _ ->
                        withb (fresh_after o c) b (fun nb ->
                          after (length cs) Z0 (app cs (nb :: [])))
                      | CField _ ->
                        withb (fresh_after o c) b (fun nb ->
                          after (length cs) Z0 (app cs (nb :: [])))
                      | CEndRecord ->
                        withb (fresh_after o c) b (fun nb ->
                          after (length cs) Z0 (app cs (nb :: []))))
                   | BInt g ->
                     withgb (gb_convert o g) b (fun gf ->
                       let cs1 = upd_nth cs i (BFloat gf) in
                       (match c with
                        | CReal v ->
                          withgb (gb_append o gf v) (BUnion (tags, idx, cs1,
                            cur)) (fun gf' ->
                            after i gf.glen (upd_nth cs i (BFloat gf')))
                        | _ -> SErr (EValue, b)))
                   | BFloat _ ->
                     (match c with
                      | CNull ->
                        withb (fresh_after o c) b (fun nb ->
                          after (length cs) Z0 (app cs (nb :: [])))
                      | CBool _ ->
                        withb (fresh_after o c) b (fun nb ->
                          after (length cs) Z0 (app cs (nb :: [])))
                      | CInt _ ->
                        withb (fresh_after o c) b (fun nb ->
                          after (length cs) Z0 (app cs (nb :: [])))
                      | CReal _ ->
                        withb (fresh_after o c) b (fun nb ->
                          after (length cs) Z0 (app cs (nb :: [])))
                      | CStr (_, _) ->
                        withb (fresh_after o c) b (fun nb ->
                          after (length cs) Z0 (app cs (nb :: [])))
                      | CBeginList ->
                        withb (fresh_after o c) b (fun nb ->
                          after (length cs) Z0 (app cs (nb :: [])))
                      | CEndList ->
                        withb (fresh_after o c) b (fun nb ->
                          after (length cs) Z0 (app cs (nb :: [])))
                      | CBeginTuple n0 ->
                        if Z.ltb n0 Z0
                        then SErr (EValue, (BUnion (tags, idx,
                               (app cs ((BTuple ([], (Zneg XH), false, (Zneg
                                 XH))) :: [])), cur)))
                        else withb (fresh_after o c) b (fun nb ->
                               after (length cs) Z0 (app cs (nb :: [])))
                      | CIndex _ ->
                        withb (fresh_after o c) b (fun nb ->
                          after (length cs) Z0 (app cs (nb :: [])))
                      | CEndTuple ->
                        withb (fresh_after o c) b (fun nb ->
                          after (length cs) Z0 (app cs (nb :: [])))
                      | CBeginRecord _ ->
                        withb (fresh_after o c) b (fun nb ->
                          after (length cs) Z0 (app cs (nb :: [])))
                      | CField _ ->
                        withb (fresh_after o c) b (fun nb ->
                          after (length cs) Z0 (app cs (nb :: [])))
                      | CEndRecord ->
                        withb (fresh_after o c) b (fun nb ->
                          after (length cs) Z0 (app cs (nb :: []))))
                   | BString (_, _, _) ->
                     (match c with
                      | CNull ->
                        withb (fresh_after o c) b (fun nb ->
                          after (length cs) Z0 (app cs (nb :: [])))
                      | CBool _ ->
                        withb (fresh_after o c) b (fun nb ->
                          after (length cs) Z0 (app cs (nb :: [])))
                      | CInt _ ->
                        withb (fresh_after o c) b (fun nb ->
                          after (length cs) Z0 (app cs (nb :: [])))
                      | CReal _ ->
                        withb (fresh_after o c) b (fun nb ->
                          after (length cs) Z0 (app cs (nb :: [])))
                      | CStr (_, _) ->
                        withb (fresh_after o c) b (fun nb ->
                          after (length cs) Z0 (app cs (nb :: [])))
                      | CBeginList ->
                        withb (fresh_after o c) b (fun nb ->
                          after (length cs) Z0 (app cs (nb :: [])))
                      | CEndList ->
                        withb (fresh_after o c) b (fun nb ->
                          after (length cs) Z0 (app cs (nb :: [])))
                      | CBeginTuple n0 ->
                        if Z.ltb n0 Z0
                        then SErr (EValue, (BUnion (tags, idx,
                               (app cs ((BTuple ([], (Zneg XH), false, (Zneg
                                 XH))) :: [])), cur)))
                        else withb (fresh_after o c) b (fun nb ->
                               after (length cs) Z0 (app cs (nb :: [])))
                      | CIndex _ ->
                        withb (fresh_after o c) b (fun nb ->
                          after (length cs) Z0 (app cs (nb :: [])))
                      | CEndTuple ->
                        withb (fresh_after o c) b (fun nb ->
                          after (length cs) Z0 (app cs (nb :: [])))
                      | CBeginRecord _ ->
                        withb (fresh_after o c) b (fun nb ->
                          after (length cs) Z0 (app cs (nb :: [])))
                      | CField _ ->
                        withb (fresh_after o c) b (fun nb ->
                          after (length cs) Z0 (app cs (nb :: [])))
                      | CEndRecord ->
                        withb (fresh_after o c) b (fun nb ->
                          after (length cs) Z0 (app cs (nb :: []))))
                   | BOption (_, _) ->
                     (match c with
                      | CNull ->
                        withb (fresh_after o c) b (fun nb ->
                          after (length cs) Z0 (app cs (nb :: [])))
                      | CBool _ ->
                        withb (fresh_after o c) b (fun nb ->
                          after (length cs) Z0 (app cs (nb :: [])))
                      | CInt _ ->
                        withb (fresh_after o c) b (fun nb ->
                          after (length cs) Z0 (app cs (nb :: [])))
                      | CReal _ ->
                        withb (fresh_after o c) b (fun nb ->
                          after (length cs) Z0 (app cs (nb :: [])))
                      | CStr (_, _) ->
                        withb (fresh_after o c) b (fun nb ->
                          after (length cs) Z0 (app cs (nb :: [])))
                      | CBeginList ->
                        withb (fresh_after o c) b (fun nb ->
                          after (length cs) Z0 (app cs (nb :: [])))
                      | CEndList ->
                        withb (fresh_after o c) b (fun nb ->
                          after (length cs) Z0 (app cs (nb :: [])))
                      | CBeginTuple n0 ->
                        if Z.ltb n0 Z0
                        then SErr (EValue, (BUnion (tags, idx,
                               (app cs ((BTuple ([], (Zneg XH), false, (Zneg
                                 XH))) :: [])), cur)))
                        else withb (fresh_after o c) b (fun nb ->
                               after (length cs) Z0 (app cs (nb :: [])))
                      | CIndex _ ->
                        withb (fresh_after o c) b (fun nb ->
                          after (length cs) Z0 (app cs (nb :: [])))
                      | CEndTuple ->
                        withb (fresh_after o c) b (fun nb ->
                          after (length cs) Z0 (app cs (nb :: [])))
                      | CBeginRecord _ ->
                        withb (fresh_after o c) b (fun nb ->
                          after (length cs) Z0 (app cs (nb :: [])))
                      | CField _ ->
                        withb (fresh_after o c) b (fun nb ->
                          after (length cs) Z0 (app cs (nb :: [])))
                      | CEndRecord ->
                        withb (fresh_after o c) b (fun nb ->
                          after (length cs) Z0 (app cs (nb :: []))))
                   | BList (_, _, _) ->
                     (match c with
                      | CNull ->
                        withb (fresh_after o c) b (fun nb ->
                          after (length cs) Z0 (app cs (nb :: [])))
                      | CBool _ ->
                        withb (fresh_after o c) b (fun nb ->
                          after (length cs) Z0 (app cs (nb :: [])))
                      | CInt _ ->
                        withb (fresh_after o c) b (fun nb ->
                          after (length cs) Z0 (app cs (nb :: [])))
                      | CReal _ ->
                        withb (fresh_after o c) b (fun nb ->
                          after (length cs) Z0 (app cs (nb :: [])))
                      | CStr (_, _) ->
                        withb (fresh_after o c) b (fun nb ->
                          after (length cs) Z0 (app cs (nb :: [])))
                      | CBeginList ->
                        withb (fresh_after o c) b (fun nb ->
                          after (length cs) Z0 (app cs (nb :: [])))
                      | CEndList ->
                        withb (fresh_after o c) b (fun nb ->
                          after (length cs) Z0 (app cs (nb :: [])))
                      | CBeginTuple n0 ->
                        if Z.ltb n0 Z0
                        then SErr (EValue, (BUnion (tags, idx,
                               (app cs ((BTuple ([], (Zneg XH), false, (Zneg
                                 XH))) :: [])), cur)))
                        else withb (fresh_after o c) b (fun nb ->
                               after (length cs) Z0 (app cs (nb :: [])))
                      | CIndex _ ->
                        withb (fresh_after o c) b (fun nb ->
                          after (length cs) Z0 (app cs (nb :: [])))
                      | CEndTuple ->
                        withb (fresh_after o c) b (fun nb ->
                          after (length cs) Z0 (app cs (nb :: [])))
                      | CBeginRecord _ ->
                        withb (fresh_after o c) b (fun nb ->
                          after (length cs) Z0 (app cs (nb :: [])))
                      | CField _ ->
                        withb (fresh_after o c) b (fun nb ->
                          after (length cs) Z0 (app cs (nb :: [])))
                      | CEndRecord ->
                        withb (fresh_after o c) b (fun nb ->
                          after (length cs) Z0 (app cs (nb :: []))))
                   | BRecord (_, _, _, _, _, _, _, _) ->
                     (match c with
                      | CNull ->
                        withb (fresh_after o c) b (fun nb ->
                          after (length cs) Z0 (app cs (nb :: [])))
                      | CBool _ ->
                        withb (fresh_after o c) b (fun nb ->
                          after (length cs) Z0 (app cs (nb :: [])))
                      | CInt _ ->
                        withb (fresh_after o c) b (fun nb ->
                          after (length cs) Z0 (app cs (nb :: [])))
                      | CReal _ ->
                        withb (fresh_after o c) b (fun nb ->
                          after (length cs) Z0 (app cs (nb :: [])))
                      | CStr (_, _) ->
                        withb (fresh_after o c) b (fun nb ->
                          after (length cs) Z0 (app cs (nb :: [])))
                      | CBeginList ->
                        withb (fresh_after o c) b (fun nb ->
                          after (length cs) Z0 (app cs (nb :: [])))
                      | CEndList ->
                        withb (fresh_after o c) b (fun nb ->
                          after (length cs) Z0 (app cs (nb :: [])))
                      | CBeginTuple n0 ->
                        if Z.ltb n0 Z0
                        then SErr (EValue, (BUnion (tags, idx,
                               (app cs ((BTuple ([], (Zneg XH), false, (Zneg
                                 XH))) :: [])), cur)))
                        else withb (fresh_after o c) b (fun nb ->
                               after (length cs) Z0 (app cs (nb :: [])))
                      | CIndex _ ->
                        withb (fresh_after o c) b (fun nb ->
                          after (length cs) Z0 (app cs (nb :: [])))
                      | CEndTuple ->
                        withb (fresh_after o c) b (fun nb ->
                          after (length cs) Z0 (app cs (nb :: [])))
                      | CBeginRecord _ ->
                        withb (fresh_after o c) b (fun nb ->
                          after (length cs) Z0 (app cs (nb :: [])))
                      | CField _ ->
                        withb (fresh_after o c) b (fun nb ->
                          after (length cs) Z0 (app cs (nb :: [])))
                      | CEndRecord ->
                        withb (fresh_after o c) b (fun nb ->
                          after (length cs) Z0 (app cs (nb :: []))))
                   | BTuple (_, _, _, _) ->
                     (match c with
                      | CNull ->
                        withb (fresh_after o c) b (fun nb ->
                          after (length cs) Z0 (app cs (nb :: [])))
                      | CBool _ ->
                        withb (fresh_after o c) b (fun nb ->
                          after (length cs) Z0 (app cs (nb :: [])))
                      | CInt _ ->
                        withb (fresh_after o c) b (fun nb ->
                          after (length cs) Z0 (app cs (nb :: [])))
                      | CReal _ ->
                        withb (fresh_after o c) b (fun nb ->
                          after (length cs) Z0 (app cs (nb :: [])))
                      | CStr (_, _) ->
                        withb (fresh_after o c) b (fun nb ->
                          after (length cs) Z0 (app cs (nb :: [])))
                      | CBeginList ->
                        withb (fresh_after o c) b (fun nb ->
                          after (length cs) Z0 (app cs (nb :: [])))
                      | CEndList ->
                        withb (fresh_after o c) b (fun nb ->
                          after (length cs) Z0 (app cs (nb :: [])))
                      | CBeginTuple n0 ->
                        if Z.ltb n0 Z0
                        then SErr (EValue, (BUnion (tags, idx,
                               (app cs ((BTuple ([], (Zneg XH), false, (Zneg
                                 XH))) :: [])), cur)))
                        else withb (fresh_after o c) b (fun nb ->
                               after (length cs) Z0 (app cs (nb :: [])))
                      | CIndex _ ->
                        withb (fresh_after o c) b (fun nb ->
                          after (length cs) Z0 (app cs (nb :: [])))
                      | CEndTuple ->
                        withb (fresh_after o c) b (fun nb ->
                          after (length cs) Z0 (app cs (nb :: [])))
                      | CBeginRecord _ ->
                        withb (fresh_after o c) b (fun nb ->
                          after (length cs) Z0 (app cs (nb :: [])))
                      | CField _ ->
                        withb (fresh_after o c) b (fun nb ->
                          after (length cs) Z0 (app cs (nb :: [])))
                      | CEndRecord ->
                        withb (fresh_after o c) b (fun nb ->
                          after (length cs) Z0 (app cs (nb :: []))))
                   | BUnion (_, _, _, _) ->
                     (match c with
                      | CNull ->
                        withb (fresh_after o c) b (fun nb ->
                          after (length cs) Z0 (app cs (nb :: [])))
                      | CBool _ ->
                        withb (fresh_after o c) b (fun nb ->
                          after (length cs) Z0 (app cs (nb :: [])))
                      | CInt _ ->
                        withb (fresh_after o c) b (fun nb ->
                          after (length cs) Z0 (app cs (nb :: [])))
                      | CReal _ ->
                        withb (fresh_after o c) b (fun nb ->
                          after (length cs) Z0 (app cs (nb :: [])))
                      | CStr (_, _) ->
                        withb (fresh_after o c) b (fun nb ->
                          after (length cs) Z0 (app cs (nb :: [])))
                      | CBeginList ->
                        withb (fresh_after o c) b (fun nb ->
                          after (length cs) Z0 (app cs (nb :: [])))
                      | CEndList ->
                        withb (fresh_after o c) b (fun nb ->
                          after (length cs) Z0 (app cs (nb :: [])))
                      | CBeginTuple n0 ->
                        if Z.ltb n0 Z0
                        then SErr (EValue, (BUnion (tags, idx,
                               (app cs ((BTuple ([], (Zneg XH), false, (Zneg
                                 XH))) :: [])), cur)))
                        else withb (fresh_after o c) b (fun nb ->
                               after (length cs) Z0 (app cs (nb :: [])))
                      | CIndex _ ->
                        withb (fresh_after o c) b (fun nb ->
                          after (length cs) Z0 (app cs (nb :: [])))
                      | CEndTuple ->
                        withb (fresh_after o c) b (fun nb ->
                          after (length cs) Z0 (app cs (nb :: [])))
                      | CBeginRecord _ ->
                        withb (fresh_after o c) b (fun nb ->
                          after (length cs) Z0 (app cs (nb :: [])))
                      | CField _ ->
                        withb (fresh_after o c) b (fun nb ->
                          after (length cs) Z0 (app cs (nb :: [])))
                      | CEndRecord ->
                        withb (fresh_after o c) b (fun nb ->
                          after (length cs) Z0 (app cs (nb :: [])))))
                | None ->
                  (match c with
                   | CNull ->
                     withb (fresh_after o c) b (fun nb ->
                       after (length cs) Z0 (app cs (nb :: [])))
                   | CBool _ ->
                     withb (fresh_after o c) b (fun nb ->
                       after (length cs) Z0 (app cs (nb :: [])))
                   | CInt _ ->
                     withb (fresh_after o c) b (fun nb ->
                       after (length cs) Z0 (app cs (nb :: [])))
                   | CReal _ ->
                     withb (fresh_after o c) b (fun nb ->
                       after (length cs) Z0 (app cs (nb :: [])))
                   | CStr (_, _) ->
                     withb (fresh_after o c) b (fun nb ->
                       after (length cs) Z0 (app cs (nb :: [])))
                   | CBeginList ->
                     withb (fresh_after o c) b (fun nb ->
                       after (length cs) Z0 (app cs (nb :: [])))
                   | CEndList ->
                     withb (fresh_after o c) b (fun nb ->
                       after (length cs) Z0 (app cs (nb :: [])))
                   | CBeginTuple n0 ->
                     if Z.ltb n0 Z0
                     then SErr (EValue, (BUnion (tags, idx,
                            (app cs ((BTuple ([], (Zneg XH), false, (Zneg
                              XH))) :: [])), cur)))
                     else withb (fresh_after o c) b (fun nb ->
                            after (length cs) Z0 (app cs (nb :: [])))
                   | CIndex _ ->
                     withb (fresh_after o c) b (fun nb ->
                       after (length cs) Z0 (app cs (nb :: [])))
                   | CEndTuple ->
                     withb (fresh_after o c) b (fun nb ->
                       after (length cs) Z0 (app cs (nb :: [])))
                   | CBeginRecord _ ->
                     withb (fresh_after o c) b (fun nb ->
                       after (length cs) Z0 (app cs (nb :: [])))
                   | CField _ ->
                     withb (fresh_after o c) b (fun nb ->
                       after (length cs) Z0 (app cs (nb :: [])))
                   | CEndRecord ->
                     withb (fresh_after o c) b (fun nb ->
                       after (length cs) Z0 (app cs (nb :: []))))))
          | KBegin ->
            let found = find_app (fun x -> step o x c) (takes c) cs O in
            let after = fun i len0 cs' ->
              let self1 = BUnion (tags, idx, cs', cur) in
              (match kind_of c with
               | KAtom ->
                 withgb (gb_append o tags (Z.of_nat i)) self1 (fun tags' ->
                   withgb (gb_append o idx len0) (BUnion (tags', idx, cs',
                     cur)) (fun idx' -> SOk ((BUnion (tags', idx', cs',
                     cur)), None)))
               | _ -> SOk ((BUnion (tags, idx, cs', (Z.of_nat i))), None))
            in
            (match found with
             | Some p ->
               let (p1, r) = p in
               let (i, x) = p1 in
               (match r with
                | SOk (x', _) -> after i (blen x) (upd_nth cs i x')
                | SErr (e, x') ->
                  SErr (e, (BUnion (tags, idx, (upd_nth cs i x'), cur))))
             | None ->
               let conv =
                 match c with
                 | CNull -> None
                 | CBool _ -> None
                 | CInt _ -> None
                 | CReal _ -> find_app (fun x -> x) is_int cs O
                 | _ -> None
               in
               (match conv with
                | Some p ->
                  let (p1, _) = p in
                  let (i, b1) = p1 in
                  (match b1 with
                   | BUnknown _ ->
                     (match c with
                      | CNull ->
                        withb (fresh_after o c) b (fun nb ->
                          after (length cs) Z0 (app cs (nb :: [])))
                      | CBool _ ->
                        withb (fresh_after o c) b (fun nb ->
                          after (length cs) Z0 (app cs (nb :: [])))
                      | CInt _ ->
                        withb (fresh_after o c) b (fun nb ->
                          after (length cs) Z0 (app cs (nb :: [])))
                      | CReal _ ->
                        withb (fresh_after o c) b (fun nb ->
                          after (length cs) Z0 (app cs (nb :: [])))
                      | CStr (_, _) ->
                        withb (fresh_after o c) b (fun nb ->
                          after (length cs) Z0 (app cs (nb :: [])))
                      | CBeginList ->
                        withb (fresh_after o c) b (fun nb ->
                          after (length cs) Z0 (app cs (nb :: [])))
                      | CEndList ->
                        withb (fresh_after o c) b (fun nb ->
                          after (length cs) Z0 (app cs (nb :: [])))
                      | CBeginTuple n0 ->
                        if Z.ltb n0 Z0
                        then SErr (EValue, (BUnion (tags, idx,
                               (app cs ((BTuple ([], (Zneg XH), false, (Zneg
                                 XH))) :: [])), cur)))
                        else withb (fresh_after o c) b (fun nb ->
                               after (length cs) Z0 (app cs (nb :: [])))
                      | CIndex _ ->
                        withb (fresh_after o c) b (fun nb ->
                          after (length cs) Z0 (app cs (nb :: [])))
                      | CEndTuple ->
                        withb (fresh_after o c) b (fun nb ->
                          after (length cs) Z0 (app cs (nb :: [])))
                      | CBeginRecord _ ->
                        withb (fresh_after o c) b (fun nb ->
                          after (length cs) Z0 (app cs (nb :: [])))
                      | CField _ ->
                        withb (fresh_after o c) b (fun nb ->
                          after (length cs) Z0 (app cs (nb :: [])))
                      | CEndRecord ->
                        withb (fresh_after o c) b (fun nb ->
                          after (length cs) Z0 (app cs (nb :: []))))
                   | BBool _ ->
                     (match c with
                      | CNull ->
                        withb (fresh_after o c) b (fun nb ->
                          after (length cs) Z0 (app cs (nb :: [])))
                      | CBool _ ->
                        withb (fresh_after o c) b (fun nb ->
                          after (length cs) Z0 (app cs (nb :: [])))
                      | CInt _ ->
                        withb (fresh_after o c) b (fun nb ->
                          after (length cs) Z0 (app cs (nb :: [])))
                      | CReal _ ->
                        withb (fresh_after o c) b (fun nb ->
                          after (length cs) Z0 (app cs (nb :: [])))
                      | CStr (_, _) ->
                        withb (fresh_after o c) b (fun nb ->
                          after (length cs) Z0 (app cs (nb :: [])))
                      | CBeginList ->
                        withb (fresh_after o c) b (fun nb ->
                          after (length cs) Z0 (app cs (nb :: [])))
                      | CEndList ->
                        withb (fresh_after o c) b (fun nb ->
                          after (length cs) Z0 (app cs (nb :: [])))
                      | CBeginTuple n0 ->
                        if Z.ltb n0 Z0
                        then SErr (EValue, (BUnion (tags, idx,
                               (app cs ((BTuple ([], (Zneg XH), false, (Zneg
                                 XH))) :: [])), cur)))
                        else withb (fresh_after o c) b (fun nb ->
                               after (length cs) Z0 (app cs (nb :: [])))
                      | CIndex _ ->
                        withb (fresh_after o c) b (fun nb ->
                          after (length cs) Z0 (app cs (nb :: [])))
                      | CEndTuple ->
                        withb (fresh_after o c) b (fun nb ->
                          after (length cs) Z0 (app cs (nb :: [])))
                      | CBeginRecord _ ->
                        withb (fresh_after o c) b (fun nb ->
                          after (length cs) Z0 (app cs (nb :: [])))
                      | CField _ ->
                        withb (fresh_after o c) b (fun nb ->
                          after (length cs) Z0 (app cs (nb :: [])))
                      | CEndRecord ->
                        withb (fresh_after o c) b (fun nb ->
                          after (length cs) Z0 (app cs (nb :: []))))
                   | BInt g ->
                     withgb (gb_convert o g) b (fun gf ->
                       let cs1 = upd_nth cs i (BFloat gf) in
                       (match c with
                        | CReal v ->
                          withgb (gb_append o gf v) (BUnion (tags, idx, cs1,
                            cur)) (fun gf' ->
                            after i gf.glen (upd_nth cs i (BFloat gf')))
                        | _ -> SErr (EValue, b)))
                   | BFloat _ ->
                     (match c with
                      | CNull ->
                        withb (fresh_after o c) b (fun nb ->
                          after (length cs) Z0 (app cs (nb :: [])))
                      | CBool _ ->
                        withb (fresh_after o c) b (fun nb ->
                          after (length cs) Z0 (app cs (nb :: [])))
                      | CInt _ ->
                        withb (fresh_after o c) b (fun nb ->
                          after (length cs) Z0 (app cs (nb :: [])))
                      | CReal _ ->
                        withb (fresh_after o c) b (fun nb ->
                          after (length cs) Z0 (app cs (nb :: [])))
                      | CStr (_, _) ->
                        withb (fresh_after o c) b (fun nb ->
                          after (length cs) Z0 (app cs (nb :: [])))
                      | CBeginList ->
                        withb (fresh_after o c) b (fun nb ->
                          after (length cs) Z0 (app cs (nb :: [])))
                      | CEndList ->
                        withb (fresh_after o c) b (fun nb ->
                          after (length cs) Z0 (app cs (nb :: [])))
                      | CBeginTuple n0 ->
                        if Z.ltb n0 Z0
                        then SErr (EValue, (BUnion (tags, idx,
                               (app cs ((BTuple ([], (Zneg XH), false, (Zneg
                                 XH))) :: [])), cur)))
                        else withb (fresh_after o c) b (fun nb ->
                               after (length cs) Z0 (app cs (nb :: [])))
                      | CIndex _ ->
                        withb (fresh_after o c) b (fun nb ->
                          after (length cs) Z0 (app cs (nb :: [])))
                      | CEndTuple ->
                        withb (fresh_after o c) b (fun nb ->
                          after (length cs) Z0 (app cs (nb :: [])))
                      | CBeginRecord _ ->
                        withb (fresh_after o c) b (fun nb ->
                          after (length cs) Z0 (app cs (nb :: [])))
                      | CField _ ->
                        withb (fresh_after o c) b (fun nb ->
                          after (length cs) Z0 (app cs (nb :: [])))
                      | CEndRecord ->
                        withb (fresh_after o c) b (fun nb ->
                          after (length cs) Z0 (app cs (nb :: []))))
                   | BString (_, _, _) ->
                     (match c with
                      | CNull ->
                        withb (fresh_after o c) b (fun nb ->
                          after (length cs) Z0 (app cs (nb :: [])))
                      | CBool _ ->
                        withb (fresh_after o c) b (fun nb ->
                          after (length cs) Z0 (app cs (nb :: [])))
                      | CInt _ ->
                        withb (fresh_after o c) b (fun nb ->
                          after (length cs) Z0 (app cs (nb :: [])))
                      | CReal _ ->
                        withb (fresh_after o c) b (fun nb ->
                          after (length cs) Z0 (app cs (nb :: [])))
                      | CStr (_, _) ->
                        withb (fresh_after o c) b (fun nb ->
                          after (length cs) Z0 (app cs (nb :: [])))
                      | CBeginList ->
                        withb (fresh_after o c) b (fun nb ->
                          after (length cs) Z0 (app cs (nb :: [])))
                      | CEndList ->
                        withb (fresh_after o c) b (fun nb ->
                          after (length cs) Z0 (app cs (nb :: [])))
                      | CBeginTuple n0 ->
                        if Z.ltb n0 Z0
                        then SErr (EValue, (BUnion (tags, idx,
                               (app cs ((BTuple ([], (Zneg XH), false, (Zneg
                                 XH))) :: [])), cur)))
                        else withb (fresh_after o c) b (fun nb ->
                               after (length cs) Z0 (app cs (nb :: [])))
                      | CIndex _ ->
                        withb (fresh_after o c) b (fun nb ->
                          after (length cs) Z0 (app cs (nb :: [])))
                      | CEndTuple ->
                        withb (fresh_after o c) b (fun nb ->
                          after (length cs) Z0 (app cs (nb :: [])))
                      | CBeginRecord _ ->
                        withb (fresh_after o c) b (fun nb ->
                          after (length cs) Z0 (app cs (nb :: [])))
                      | CField _ ->
                        withb (fresh_after o c) b (fun nb ->
                          after (length cs) Z0 (app cs (nb :: [])))
                      | CEndRecord ->
                        withb (fresh_after o c) b (fun nb ->
                          after (length cs) Z0 (app cs (nb :: []))))
                   | BOption (_, _) ->
                     (match c with
                      | CNull ->
                        withb (fresh_after o c) b (fun nb ->
                          after (length cs) Z0 (app cs (nb :: [])))
                      | CBool _ ->
                        withb (fresh_after o c) b (fun nb ->
                          after (length cs) Z0 (app cs (nb :: [])))
                      | CInt _ ->
                        withb (fresh_after o c) b (fun nb ->
                          after (length cs) Z0 (app cs (nb :: [])))
                      | CReal _ ->
                        withb (fresh_after o c) b (fun nb ->
                          after (length cs) Z0 (app cs (nb :: [])))
                      | CStr (_, _) ->
                        withb (fresh_after o c) b (fun nb ->
                          after (length cs) Z0 (app cs (nb :: [])))
                      | CBeginList ->
                        withb (fresh_after o c) b (fun nb ->
                          after (length cs) Z0 (app cs (nb :: [])))
                      | CEndList ->
                        withb (fresh_after o c) b (fun nb ->
                          after (length cs) Z0 (app cs (nb :: [])))
                      | CBeginTuple n0 ->
                        if Z.ltb n0 Z0
                        then SErr (EValue, (BUnion (tags, idx,
                               (app cs ((BTuple ([], (Zneg XH), false, (Zneg
                                 XH))) :: [])), cur)))
                        else withb (fresh_after o c) b (fun nb ->
                               after (length cs) Z0 (app cs (nb :: [])))
                      | CIndex _ ->
                        withb (fresh_after o c) b (fun nb ->
                          after (length cs) Z0 (app cs (nb :: [])))
                      | CEndTuple ->
                        withb (fresh_after o c) b (fun nb ->
                          after (length cs) Z0 (app cs (nb :: [])))
                      | CBeginRecord _ ->
                        withb (fresh_after o c) b (fun nb ->
                          after (length cs) Z0 (app cs (nb :: [])))
                      | CField _ ->
                        withb (fresh_after o c) b (fun nb ->
                          after (length cs) Z0 (app cs (nb :: [])))
                      | CEndRecord ->
                        withb (fresh_after o c) b (fun nb ->
                          after (length cs) Z0 (app cs (nb :: []))))
                   | BList (_, _, _) ->
                     (match c with
                      | CNull ->
                        withb (fresh_after o c) b (fun nb ->
                          after (length cs) Z0 (app cs (nb :: [])))
                      | CBool _ ->
                        withb (fresh_after o c) b (fun nb ->
                          after (length cs) Z0 (app cs (nb :: [])))
                      | CInt _ ->
                        withb (fresh_after o c) b (fun nb ->
                          after (length cs) Z0 (app cs (nb :: [])))
                      | CReal _ ->
                        withb (fresh_after o c) b (fun nb ->
                          after (length cs) Z0 (app cs (nb :: [])))
                      | CStr (_, _) ->
                        withb (fresh_after o c) b (fun nb ->
                          after (length cs) Z0 (app cs (nb :: [])))
                      | CBeginList ->
                        withb (fresh_after o c) b (fun nb ->
                          after (length cs) Z0 (app cs (nb :: [])))
                      | CEndList ->
                        withb (fresh_after o c) b (fun nb ->
                          after (length cs) Z0 (app cs (nb :: [])))
                      | CBeginTuple n0 ->
                        if Z.ltb n0 Z0
                        then SErr (EValue, (BUnion (tags, idx,
                               (app cs ((BTuple ([], (Zneg XH), false, (Zneg
                                 XH))) :: [])), cur)))
                        else withb (fresh_after o c) b (fun nb ->
                               after (length cs) Z0 (app cs (nb :: [])))
                      | CIndex _ ->
                        withb (fresh_after o c) b (fun nb ->
                          after (length cs) Z0 (app cs (nb :: [])))
                      | CEndTuple ->
                        withb (fresh_after o c) b (fun nb ->
                          after (length cs) Z0 (app cs (nb :: [])))
                      | CBeginRecord _ ->
                        withb (fresh_after o c) b (fun nb ->
                          after (length cs) Z0 (app cs (nb :: [])))
                      | CField _ ->
                        withb (fresh_after o c) b (fun nb ->
                          after (length cs) Z0 (app cs (nb :: [])))
                      | CEndRecord ->
                        withb (fresh_after o c) b (fun nb ->
                          after (length cs) Z0 (app cs (nb :: []))))
                   | BRecord (_, _, _, _, _, _, _, _) ->
                     (match c with
                      | CNull ->
                        withb (fresh_after o c) b (fun nb ->
                          after (length cs) Z0 (app cs (nb :: [])))
                      | CBool _ ->
                        withb (fresh_after o c) b (fun nb ->
                          after (length cs) Z0 (app cs (nb :: [])))
                      | CInt _ ->
                        withb (fresh_after o c) b (fun nb ->
                          after (length cs) Z0 (app cs (nb :: [])))
                      | CReal _ ->
                        withb (fresh_after o c) b (fun nb ->
                          after (length cs) Z0 (app cs (nb :: [])))
                      | CStr (_, _) ->
                        withb (fresh_after o c) b (fun nb ->
                          after (length cs) Z0 (app cs (nb :: [])))
                      | CBeginList ->
                        withb (fresh_after o c) b (fun nb ->
                          after (length cs) Z0 (app cs (nb :: [])))
                      | CEndList ->
                        withb (fresh_after o c) b (fun nb ->
                          after (length cs) Z0 (app cs (nb :: [])))
                      | CBeginTuple n0 ->
                        if Z.ltb n0 Z0
                        then SErr (EValue, (BUnion (tags, idx,
                               (app cs ((BTuple ([], (Zneg XH), false, (Zneg
                                 XH))) :: [])), cur)))
                        else withb (fresh_after o c) b (fun nb ->
                               after (length cs) Z0 (app cs (nb :: [])))
                      | CIndex _ ->
                        withb (fresh_after o c) b (fun nb ->
                          after (length cs) Z0 (app cs (nb :: [])))
                      | CEndTuple ->
                        withb (fresh_after o c) b (fun nb ->
                          after (length cs) Z0 (app cs (nb :: [])))
                      | CBeginRecord _ ->
                        withb (fresh_after o c) b (fun nb ->
                          after (length cs) Z0 (app cs (nb :: [])))
                      | CField _ ->
                        withb (fresh_after o c) b (fun nb ->
                          after (length cs) Z0 (app cs (nb :: [])))
                      | CEndRecord ->
                        withb (fresh_after o c) b (fun nb ->
                          after (length cs) Z0 (app cs (nb :: []))))
                   | BTuple (_, _, _, _) ->
                     (match c with
                      | CNull ->
                        withb (fresh_after o c) b (fun nb ->
                          after (length cs) Z0 (app cs (nb :: [])))
                      | CBool _ ->
                        withb (fresh_after o c) b (fun nb ->
                          after (length cs) Z0 (app cs (nb :: [])))
                      | CInt _ ->
                        withb (fresh_after o c) b (fun nb ->
                          after (length cs) Z0 (app cs (nb :: [])))
                      | CReal _ ->
                        withb (fresh_after o c) b (fun nb ->
                          after (length cs) Z0 (app cs (nb :: [])))
                      | CStr (_, _) ->
                        withb (fresh_after o c) b (fun nb ->
                          after (length cs) Z0 (app cs (nb :: [])))
                      | CBeginList ->
                        withb (fresh_after o c) b (fun nb ->
                          after (length cs) Z0 (app cs (nb :: [])))
                      | CEndList ->
                        withb (fresh_after o c) b (fun nb ->
                          after (length cs) Z0 (app cs (nb :: [])))
                      | CBeginTuple n0 ->
                        if Z.ltb n0 Z0
                        then SErr (EValue, (BUnion (tags, idx,
                               (app cs ((BTuple ([], (Zneg XH), false, (Zneg
                                 XH))) :: [])), cur)))
                        else withb (fresh_after o c) b (fun nb ->
                               after (length cs) Z0 (app cs (nb :: [])))
                      | CIndex _ ->
                        withb (fresh_after o c) b (fun nb ->
                          after (length cs) Z0 (app cs (nb :: [])))
                      | CEndTuple ->
                        withb (fresh_after o c) b (fun nb ->
                          after (length cs) Z0 (app cs (nb :: [])))
                      | CBeginRecord _ ->
                        withb (fresh_after o c) b (fun nb ->
                          after (length cs) Z0 (app cs (nb :: [])))
                      | CField _ ->
                        withb (fresh_after o c) b (fun nb ->
                          after (length cs) Z0 (app cs (nb :: [])))
                      | CEndRecord ->
                        withb (fresh_after o c) b (fun nb ->
                          after (length cs) Z0 (app cs (nb :: []))))
                   | BUnion (_, _, _, _) ->
                     (match c with
                      | CNull ->
                        withb (fresh_after o c) b (fun nb ->
                          after (length cs) Z0 (app cs (nb :: [])))
                      | CBool _ ->
                        withb (fresh_after o c) b (fun nb ->
                          after (length cs) Z0 (app cs (nb :: [])))
                      | CInt _ ->
                        withb (fresh_after o c) b (fun nb ->
                          after (length cs) Z0 (app cs (nb :: [])))
                      | CReal _ ->
                        withb (fresh_after o c) b (fun nb ->
                          after (length cs) Z0 (app cs (nb :: [])))
                      | CStr (_, _) ->
                        withb (fresh_after o c) b (fun nb ->
                          after (length cs) Z0 (app cs (nb :: [])))
                      | CBeginList ->
                        withb (fresh_after o c) b (fun nb ->
                          after (length cs) Z0 (app cs (nb :: [])))
                      | CEndList ->
                        withb (fresh_after o c) b (fun nb ->
                          after (length cs) Z0 (app cs (nb :: [])))
                      | CBeginTuple n0 ->
                        if Z.ltb n0 Z0
                        then SErr (EValue, (BUnion (tags, idx,
                               (app cs ((BTuple ([], (Zneg XH), false, (Zneg
                                 XH))) :: [])), cur)))
                        else withb (fresh_after o c) b (fun nb ->
                               after (length cs) Z0 (app cs (nb :: [])))
                      | CIndex _ ->
                        withb (fresh_after o c) b (fun nb ->
                          after (length cs) Z0 (app cs (nb :: [])))
                      | CEndTuple ->
                        withb (fresh_after o c) b (fun nb ->
                          after (length cs) Z0 (app cs (nb :: [])))
                      | CBeginRecord _ ->
                        withb (fresh_after o c) b (fun nb ->
                          after (length cs) Z0 (app cs (nb :: [])))
                      | CField _ ->
                        withb (fresh_after o c) b (fun nb ->
                          after (length cs) Z0 (app cs (nb :: [])))
                      | CEndRecord ->
                        withb (fresh_after o c) b (fun nb ->
                          after (length cs) Z0 (app cs (nb :: [])))))
                | None ->
                  (match c with
                   | CNull ->
                     withb (fresh_after o c) b (fun nb ->
                       after (length cs) Z0 (app cs (nb :: [])))
                   | CBool _ ->
                     withb (fresh_after o c) b (fun nb ->
                       after (length cs) Z0 (app cs (nb :: [])))
                   | CInt _ ->
                     withb (fresh_after o c) b (fun nb ->
                       after (length cs) Z0 (app cs (nb :: [])))
                   | CReal _ ->
                     withb (fresh_after o c) b (fun nb ->
                       after (length cs) Z0 (app cs (nb :: [])))
                   | CStr (_, _) ->
                     withb (fresh_after o c) b (fun nb ->
                       after (length cs) Z0 (app cs (nb :: [])))
                   | CBeginList ->
                     withb (fresh_after o c) b (fun nb ->
                       after (length cs) Z0 (app cs (nb :: [])))
                   | CEndList ->
                     withb (fresh_after o c) b (fun nb ->
                       after (length cs) Z0 (app cs (nb :: [])))
                   | CBeginTuple n0 ->
                     if Z.ltb n0 Z0
                     then SErr (EValue, (BUnion (tags, idx,
                            (app cs ((BTuple ([], (Zneg XH), false, (Zneg
                              XH))) :: [])), cur)))
                     else withb (fresh_after o c) b (fun nb ->
                            after (length cs) Z0 (app cs (nb :: [])))
                   | CIndex _ ->
                     withb (fresh_after o c) b (fun nb ->
                       after (length cs) Z0 (app cs (nb :: [])))
                   | CEndTuple ->
                     withb (fresh_after o c) b (fun nb ->
                       after (length cs) Z0 (app cs (nb :: [])))
                   | CBeginRecord _ ->
                     withb (fresh_after o c) b (fun nb ->
                       after (length cs) Z0 (app cs (nb :: [])))
                   | CField _ ->
                     withb (fresh_after o c) b (fun nb ->
                       after (length cs) Z0 (app cs (nb :: [])))
                   | CEndRecord ->
                     withb (fresh_after o c) b (fun nb ->
                       after (length cs) Z0 (app cs (nb :: []))))))
          | _ -> SErr (EValue, b))

(** val offsets0 : opts -> gb res **)

let offsets0 o =
  bind (gb_empty o) (fun g -> gb_append o g Z0)

(** val clear : opts -> builder -> builder res **)

let rec clear o = function
| BUnknown _ -> Ok (BUnknown Z0)
| BBool g -> bind (gb_clear o g) (fun g' -> Ok (BBool g'))
| BInt g -> bind (gb_clear o g) (fun g' -> Ok (BInt g'))
| BFloat g -> bind (gb_clear o g) (fun g' -> Ok (BFloat g'))
| BString (e, _, cont) ->
  bind (offsets0 o) (fun offs' ->
    bind (gb_clear o cont) (fun cont' -> Ok (BString (e, offs', cont'))))
| BOption (idx, ct) ->
  bind (gb_clear o idx) (fun idx' ->
    bind (clear o ct) (fun ct' -> Ok (BOption (idx', ct'))))
| BList (_, ct, _) ->
  bind (offsets0 o) (fun offs' ->
    bind (clear o ct) (fun ct' -> Ok (BList (offs', ct', false))))
| BRecord (_, _, _, _, _, _, _, _) ->
  Ok (BRecord ([], [], [], true, (Zneg XH), false, (Zneg XH), Z0))
| BTuple (_, _, _, _) -> Ok (BTuple ([], (Zneg XH), false, (Zneg XH)))
| BUnion (tags, idx, cs, _) ->
  bind (gb_clear o tags) (fun tags' ->
    bind (gb_clear o idx) (fun idx' ->
      bind (mapMs (clear o) cs) (fun cs' -> Ok (BUnion (tags', idx', cs',
        (Zneg XH))))))

(** val numpy1 : dtype -> gb -> content **)

let numpy1 dt g =
  Numpy (dt, (g.glen :: []), (map (fun x -> DZ x) (gb_list g)))

(** val snapshot : builder -> content res **)

let rec snapshot = function
| BUnknown n0 ->
  if Z.eqb n0 Z0
  then Ok Empty
  else Ok (IndexedOption (I64, (fill (Zneg XH) n0), Empty))
| BBool g -> Ok (numpy1 DBool g)
| BInt g -> Ok (numpy1 DInt64 g)
| BFloat g -> Ok (numpy1 DFloat64 g)
| BString (e, offs, cont) ->
  Ok (Par ((Some (if e then AString else ABytestring)), None, (ListOffset
    (I64, (gb_list offs), (Par ((Some (if e then AChar else AByte)), None,
    (numpy1 DUInt8 cont)))))))
| BOption (idx, ct) ->
  bind (snapshot ct) (fun c -> Ok (IndexedOption (I64, (gb_list idx), c)))
| BList (offs, ct, _) ->
  bind (snapshot ct) (fun c -> Ok (ListOffset (I64, (gb_list offs), c)))
| BRecord (cs, keys, rn, nullp, len, _, _, _) ->
  if Z.eqb len (Zneg XH)
  then Ok Empty
  else bind (mapMs snapshot cs) (fun snaps ->
         if Nat.ltb (length keys) (length cs)
         then Err EOob
         else let r = Record (snaps, (Some (firstn (length cs) keys)), len) in
              Ok (if nullp then r else Par (None, (Some rn), r)))
| BTuple (cs, len, _, _) ->
  if Z.eqb len (Zneg XH)
  then Ok Empty
  else bind (mapMs snapshot cs) (fun snaps -> Ok (Record (snaps, None, len)))
| BUnion (tags, idx, cs, _) ->
  bind (mapMs snapshot cs) (fun snaps -> Ok (Union (I64, (gb_list tags),
    (gb_list idx), snaps)))

(** val ab_step : opts -> builder -> cmd -> builder * err option **)

let ab_step o b c =
  match step o b c with
  | SOk (self, ret) -> ((pick self ret), None)
  | SErr (e, self) -> (self, (Some e))

(** val ab_init : builder **)

let ab_init =
  BUnknown Z0

type event =
| EvErr of nat * err
| EvSnap of nat * z * content res

(** val run_session :
    opts -> builder -> nat -> scmd list -> event list * builder **)

let rec run_session o b pos0 = function
| [] -> ([], b)
| s :: t ->
  (match s with
   | SC c ->
     let (b', e) = ab_step o b c in
     let (evs, bf) = run_session o b' (S pos0) t in
     ((match e with
       | Some e0 -> (EvErr (pos0, e0)) :: evs
       | None -> evs), bf)
   | SSnapshot ->
     let (evs, bf) = run_session o b (S pos0) t in
     (((EvSnap (pos0, (blen b), (snapshot b))) :: evs), bf)
   | SClear ->
     (match clear o b with
      | Ok b' -> run_session o b' (S pos0) t
      | Err e ->
        let (evs, bf) = run_session o b (S pos0) t in
        (((EvErr (pos0, e)) :: evs), bf)))

type pyval =
| PNone
| PBool of bool
| PInt of z
| PFloat of z
| PStr of bool * z list
| PList of pyval list
| PTup of pyval list
| PRec of name option * (name * pyval) list

(** val encode : pyval -> cmd list **)

let rec encode = function
| PNone -> CNull :: []
| PBool b -> (CBool b) :: []
| PInt z0 -> (CInt z0) :: []
| PFloat z0 -> (CReal z0) :: []
| PStr (e, s) -> (CStr (e, s)) :: []
| PList l -> CBeginList :: (app (flat_map encode l) (CEndList :: []))
| PTup l ->
  (CBeginTuple
    (zlen l)) :: (app
                   (let rec go l0 i =
                      match l0 with
                      | [] -> []
                      | x :: t ->
                        (CIndex
                          i) :: (app (encode x) (go t (Z.add i (Zpos XH))))
                    in go l Z0) (CEndTuple :: []))
| PRec (nm, fs) ->
  (CBeginRecord
    nm) :: (app
             (let rec go = function
              | [] -> []
              | p :: t ->
                let (k, x) = p in (CField k) :: (app (encode x) (go t))
              in go fs) (CEndRecord :: []))

(** val encode_all : pyval list -> cmd list **)

let encode_all vs =
  flat_map encode vs

(** val val_of : pyval -> value **)

let rec val_of = function
| PNone -> VNone
| PBool b -> VBool b
| PInt z0 -> VNum (DZ z0)
| PFloat z0 -> VNum (DZ z0)
| PStr (e, s) -> VStr (e, s)
| PList l -> VList (map val_of l)
| PTup l -> VTup (map val_of l)
| PRec (_, fs) -> VRec (map (fun kv -> ((fst kv), (val_of (snd kv)))) fs)

type pos =
| Pos of pos option * (z * pos list) list
   * (name option * (name * pos) list) list

(** val p0 : pos **)

let p0 =
  Pos (None, [], [])

(** val oname_eqb : name option -> name option -> bool **)

let oname_eqb a b =
  opt_eqb name_eqb a b

(** val upd_assoc :
    ('a1 -> 'a1 -> bool) -> 'a1 -> ('a2 option -> 'a2) -> ('a1 * 'a2) list ->
    ('a1 * 'a2) list **)

let rec upd_assoc eqb0 k f = function
| [] -> (k, (f None)) :: []
| p :: t ->
  let (k', v) = p in
  if eqb0 k' k
  then (k', (f (Some v))) :: t
  else (k', v) :: (upd_assoc eqb0 k f t)

(** val assoc :
    ('a1 -> 'a1 -> bool) -> 'a1 -> ('a1 * 'a2) list -> 'a2 option **)

let rec assoc eqb0 k = function
| [] -> None
| p :: t -> let (k', v) = p in if eqb0 k' k then Some v else assoc eqb0 k t

(** val opos : pos option -> pos **)

let opos = function
| Some q -> q
| None -> p0

(** val join : pos -> pyval -> pos **)

let rec join p v =
  let Pos (lst, tups, recs) = p in
  (match v with
   | PList l -> Pos ((Some (fold_left join l (opos lst))), tups, recs)
   | PTup l ->
     let slots = fun old ->
       let rec go l0 ps =
         match l0 with
         | [] -> []
         | x :: t ->
           (join (match ps with
                  | [] -> p0
                  | q :: _ -> q) x) :: (go t (tl ps))
       in go l (match old with
                | Some ps -> ps
                | None -> [])
     in
     Pos (lst, (upd_assoc Z.eqb (zlen l) slots tups), recs)
   | PRec (nm, fs) ->
     let fields = fun old ->
       let rec go fs0 acc =
         match fs0 with
         | [] -> acc
         | p1 :: t ->
           let (k, x) = p1 in
           go t (upd_assoc name_eqb k (fun q -> join (opos q) x) acc)
       in go fs (match old with
                 | Some flds -> flds
                 | None -> [])
     in
     Pos (lst, tups, (upd_assoc oname_eqb nm fields recs))
   | _ -> p)

(** val coerce : pos -> pyval -> value **)

let rec coerce p v =
  let Pos (lst, tups, recs) = p in
  (match v with
   | PNone -> VNone
   | PBool b -> VBool b
   | PInt z0 -> VNum (DZ z0)
   | PFloat z0 -> VNum (DZ z0)
   | PStr (e, s) -> VStr (e, s)
   | PList l -> VList (map (coerce (opos lst)) l)
   | PTup l ->
     VTup
       (let rec go l0 ps =
          match l0 with
          | [] -> []
          | x :: t ->
            (coerce (match ps with
                     | [] -> p0
                     | q :: _ -> q) x) :: (go t (tl ps))
        in go l
             (match assoc Z.eqb (zlen l) tups with
              | Some ps -> ps
              | None -> []))
   | PRec (nm, fs) ->
     let flds = match assoc oname_eqb nm recs with
                | Some f -> f
                | None -> [] in
     VRec
     (map (fun kq -> ((fst kq),
       (let rec look = function
        | [] -> VNone
        | p1 :: t ->
          let (k, x) = p1 in
          if name_eqb k (fst kq) then coerce (snd kq) x else look t
        in look fs))) flds))

(** val positions : pyval list -> pos **)

let positions vs =
  fold_left join vs p0

(** val unify : pyval list -> value list **)

let unify vs =
  map (coerce (positions vs)) vs

(** val keys_nodup : name list -> bool **)

let rec keys_nodup = function
| [] -> true
| k :: t -> (&&) (negb (existsb (name_eqb k) t)) (keys_nodup t)

(** val pywf : pyval -> bool **)

let rec pywf = function
| PList l -> forallb pywf l
| PTup l -> forallb pywf l
| PRec (_, fs) ->
  (&&) (keys_nodup (map fst fs))
    (let rec go = function
     | [] -> true
     | p :: t -> let (_, x) = p in (&&) (pywf x) (go t)
     in go fs)
| _ -> true

(** val no_struct : pyval -> bool **)

let rec no_struct = function
| PList l -> forallb no_struct l
| PTup _ -> false
| PRec (_, _) -> false
| _ -> true
