(** Slicing, part 2: missing values.  The model treats an option node by slicing the present elements
    and re-inserting the [None]s ([gn], option case); the specification carries the missing lists
    along ([sg] on [None] entries).  This file has the merge algebra relating the two, the view of
    an option node as (index, content), and the "present lists" form of one step of [sg]. *)
From Coq Require Import ZArith List Bool Lia ZifyBool.
From AwkV Require Import Base Layout LayoutInd Valid Types AtAxis Carry Ops_Getitem Typing Proofs_Typing
                         Proofs_Lists Proofs_ToList Proofs_Carry Proofs_CarryValid Proofs_AtAxis Proofs_AtAxisOps
                         Proofs_C01 Proofs_Getitem.
Import ListNotations.
Open Scope Z_scope.
Ltac Zify.zify_post_hook ::= Z.to_euclidean_division_equations.

(* ---------------------------------------------------------------- merging by a list of presence flags *)
Fixpoint bmerge {A} (d : A) (ks : list bool) (ys : list A) : list A :=
  match ks with
  | [] => []
  | true :: rest => match ys with y :: ys' => y :: bmerge d rest ys' | [] => [] end
  | false :: rest => d :: bmerge d rest ys
  end.
Definition ntrue (ks : list bool) : nat := length (filter (fun b : bool => b) ks).

Definition keys_ix (ix : list Z) : list bool := map (fun i => 0 <=? i) ix.
Definition keys_ls {B} (ls : list (option B)) : list bool :=
  map (fun o : option B => match o with Some _ => true | None => false end) ls.

Lemma bmerge_length {A} (d : A) ks : forall ys, length ys = ntrue ks -> length (bmerge d ks ys) = length ks.
Proof.
  unfold ntrue. induction ks as [|[|] ks IH]; intros ys H; cbn [bmerge filter length] in *; [reflexivity| |].
  - destruct ys as [|y ys]; [discriminate|]. cbn [length] in *. rewrite IH by lia. reflexivity.
  - rewrite IH by exact H. reflexivity.
Qed.

Lemma mapM_bmerge {A B} (F : A -> res B) d d' ks : F d = Ok d' ->
  forall ys, length ys = ntrue ks -> mapM F (bmerge d ks ys) = rmap (bmerge d' ks) (mapM F ys).
Proof.
  intros Hd. unfold ntrue. induction ks as [|[|] ks IH]; intros ys H; cbn [bmerge filter length] in *.
  - destruct ys; [reflexivity|discriminate].
  - destruct ys as [|y ys]; [discriminate|]. cbn [length] in H. cbn [mapM]. rewrite IH by lia.
    destruct (F y); cbn [bind rmap]; [|reflexivity]. destruct (mapM F ys); reflexivity.
  - cbn [mapM]. rewrite Hd, IH by exact H. cbn [bind]. destruct (mapM F ys); reflexivity.
Qed.

Lemma reinsert_bmerge ls rs : reinsert ls rs = bmerge VNone (keys_ls ls) rs.
Proof.
  revert rs. induction ls as [|[l|] ls IH]; intros rs; cbn [reinsert keys_ls map bmerge]; [reflexivity| |].
  - destruct rs as [|r rs]; [reflexivity|]. rewrite IH. reflexivity.
  - rewrite IH. reflexivity.
Qed.

Lemma ntrue_keys_ls {B} (ls : list (option B)) :
  ntrue (keys_ls ls) = length (flat_map (fun o : option B => match o with Some l => [l] | None => [] end) ls).
Proof.
  unfold ntrue, keys_ls. induction ls as [|[l|] ls IH]; cbn [map filter flat_map app length]; [reflexivity| |]; rewrite IH; reflexivity.
Qed.
Lemma ntrue_keys_ix ix : ntrue (keys_ix ix) = length (filter (fun i => 0 <=? i) ix).
Proof.
  unfold ntrue, keys_ix. induction ix as [|i ix IH]; cbn [map filter length]; [reflexivity|].
  destruct (0 <=? i); cbn [length]; rewrite IH; reflexivity.
Qed.

(* the lists that are present in a merge *)
Lemma present_bmerge ks : forall pl : list (list value),
  length pl = ntrue ks -> present (bmerge None ks (map Some pl)) = pl.
Proof.
  unfold ntrue, present. induction ks as [|[|] ks IH]; intros pl H; cbn [bmerge filter length] in *.
  - destruct pl; [reflexivity|discriminate].
  - destruct pl as [|l pl]; [discriminate|]. cbn [map flat_map app]. cbn [length] in H. rewrite IH by lia. reflexivity.
  - cbn [flat_map app]. apply IH, H.
Qed.
Lemma keys_bmerge ks : forall pl : list (list value),
  length pl = ntrue ks -> keys_ls (bmerge None ks (map Some pl)) = ks.
Proof.
  unfold ntrue, keys_ls. induction ks as [|[|] ks IH]; intros pl H; cbn [bmerge filter length] in *; [reflexivity| |].
  - destruct pl as [|l pl]; [discriminate|]. cbn [map]. cbn [length] in H. rewrite IH by lia. reflexivity.
  - cbn [map]. rewrite IH by exact H. reflexivity.
Qed.

(* re-inserting twice *)
Lemma bmerge_idem {A} (d : A) ks : forall rs, bmerge d ks (bmerge d (repeat true (ntrue ks)) rs) = bmerge d ks rs.
Proof.
  unfold ntrue. induction ks as [|[|] ks IH]; intros rs; cbn [bmerge filter length repeat]; [reflexivity| |].
  - destruct rs as [|r rs]; [reflexivity|]. rewrite IH. reflexivity.
  - rewrite IH. reflexivity.
Qed.
Lemma keys_somes {B} (pl : list B) : keys_ls (map Some pl) = repeat true (length pl).
Proof. unfold keys_ls. induction pl as [|l pl IH]; [reflexivity|]. cbn [map length repeat]. rewrite IH. reflexivity. Qed.
Lemma reinsert_present ls rs : reinsert ls (reinsert (map Some (present ls)) rs) = reinsert ls rs.
Proof.
  rewrite !reinsert_bmerge, keys_somes. unfold present. rewrite <- ntrue_keys_ls. apply bmerge_idem.
Qed.

(* ---------------------------------------------------------------- values of an option node *)
Definition pickv (vs : list value) (i : Z) : res value := pick_opt vs (0 <=? i) i.

Lemma pick_present vs0 ix xs :
  mapM (pickv vs0) ix = Ok xs ->
  exists ys, mapM (get vs0) (filter (fun i => 0 <=? i) ix) = Ok ys /\ xs = bmerge VNone (keys_ix ix) ys.
Proof.
  revert xs. induction ix as [|i ix IH]; intros xs H; cbn [mapM] in H.
  - inversion H. exists []. split; reflexivity.
  - apply bind_Ok in H as (x & Hx & H). apply bind_Ok in H as (xs' & Hxs' & H). inversion H; subst.
    destruct (IH xs' Hxs') as (ys & Hys & ->). unfold pickv, pick_opt in Hx. cbn [filter keys_ix map bmerge].
    destruct (0 <=? i) eqn:E.
    + exists (x :: ys). cbn [mapM]. rewrite Hx, Hys. split; reflexivity.
    + inversion Hx. exists ys. split; [exact Hys|reflexivity].
Qed.

Lemma outindex_pick ix : forall pre ws n,
  zlen pre = n -> length ws = ntrue (keys_ix ix) ->
  mapM (pickv (pre ++ ws)) (outindex ix n) = Ok (bmerge VNone (keys_ix ix) ws).
Proof.
  unfold ntrue. induction ix as [|i ix IH]; intros pre ws n Hn Hl; cbn [outindex keys_ix map bmerge filter] in *; [reflexivity|].
  pose proof (zlen_nonneg pre). destruct (0 <=? i) eqn:E; cbn [filter length] in Hl.
  - destruct ws as [|w ws]; [discriminate|]. cbn [length] in Hl. cbn [mapM]. unfold pickv at 1, pick_opt.
    destruct (0 <=? n) eqn:E2; [|lia]. rewrite get_app2 by lia. replace (n - zlen pre) with 0 by lia. cbn [get_cons_0 bind].
    rewrite get_cons_0. cbn [bind].
    replace (pre ++ w :: ws) with ((pre ++ [w]) ++ ws) by (rewrite <- app_assoc; reflexivity).
    rewrite (IH (pre ++ [w]) ws (n + 1)); [reflexivity| |unfold keys_ix; lia]. rewrite zlen_app. cbn. lia.
  - cbn [mapM]. unfold pickv at 1, pick_opt. cbn [Z.leb Z.compare bind]. rewrite (IH pre ws n Hn Hl). reflexivity.
Qed.

Lemma to_list_outindex r ws ix :
  to_list r = Ok ws -> length ws = ntrue (keys_ix ix) ->
  to_list (IndexedOption I64 (outindex ix 0) r) = Ok (bmerge VNone (keys_ix ix) ws).
Proof.
  intros Hl Hn. rewrite to_list_IndexedOption, Hl. cbn [bind]. apply (outindex_pick ix [] ws 0); [reflexivity|exact Hn].
Qed.

(* an option node as (index, content) *)
Lemma option_view c xs :
  Valid None c -> is_opt c = true -> to_list c = Ok xs ->
  exists ix vs0,
    option_index c = Ok (ix, opt_content c) /\ Valid None (opt_content c) /\ optionlike (opt_content c) = false /\
    to_list (opt_content c) = Ok vs0 /\ mapM (pickv vs0) ix = Ok xs /\ type_of c = TOpt (type_of (opt_content c)).
Proof.
  intros HV Ho Hl. destruct c; try discriminate; cbn [opt_content option_index type_of type_of_p].
  - (* IndexedOption *)
    inversion HV; subst. rewrite to_list_IndexedOption in Hl. apply bind_Ok in Hl as (vs0 & Hl0 & Hl).
    eexists _, vs0. split; [reflexivity|]. repeat split; try assumption.
    rewrite mapM_map. rewrite <- Hl. apply mapM_ext_in. intros i _. unfold pickv, pick_opt.
    destruct (i <? 0) eqn:E.
    + destruct (0 <=? i) eqn:E2; [lia|]. reflexivity.
    + reflexivity.
  - (* ByteMasked *)
    inversion HV; subst. rewrite to_list_ByteMasked in Hl. apply bind_Ok in Hl as (vs0 & Hl0 & Hl).
    eexists _, vs0. split; [reflexivity|]. repeat split; try assumption.
    rewrite mapM_map. rewrite <- Hl. apply mapM_ext_in. intros [i b] Hin. apply zip_In in Hin as [Hin _]. apply iota_In' in Hin.
    unfold pickv, pick_opt. destruct (Bool.eqb _ _).
    + destruct (0 <=? i) eqn:E2; [reflexivity|lia].
    + reflexivity.
  - (* BitMasked *)
    inversion HV; subst. rewrite to_list_BitMasked in Hl. apply bind_Ok in Hl as (vs0 & Hl0 & Hl).
    destruct (len <? 0) eqn:En; [discriminate|].
    destruct (mapM_total (fun i => do b <- bit_at mask lsb i; Ok (if Bool.eqb b valid_when then i else -1)) (iota len)) as [ix Hix].
    { intros i Hi. destruct (mapM_Ok_In _ _ _ _ Hl Hi) as (y & Hy & _). destruct (bit_at mask lsb i); [cbn; eauto|discriminate]. }
    rewrite Hix. cbn [bind]. exists ix, vs0. split; [reflexivity|]. repeat split; try assumption.
    rewrite (mapM_mapM _ (pickv vs0) _ _ Hix). rewrite <- Hl. apply mapM_ext_in. intros i Hin. apply iota_In' in Hin.
    destruct (bit_at mask lsb i) as [b|]; cbn [bind]; [|reflexivity]. unfold pickv, pick_opt. destruct (Bool.eqb _ _).
    + destruct (0 <=? i) eqn:E2; [reflexivity|lia].
    + reflexivity.
  - (* Unmasked *)
    inversion HV; subst. rewrite to_list_Unmasked in Hl.
    exists (iota (clen c)), xs. split; [reflexivity|]. repeat split; try assumption.
    rewrite <- (to_list_len _ _ Hl). rewrite <- (gather_all xs) at 2. apply mapM_ext_in. intros i Hin. apply iota_In' in Hin.
    unfold pickv, pick_opt. destruct (0 <=? i) eqn:E2; [reflexivity|lia].
Qed.
