(* C19 — AwkwardForth: executable model of /repo/src/libawkward/forth/ForthMachine.cpp
   (ForthMachineOf<T,I>::internal_run, the compiler `parse`, the API begin/step/run/resume/call/reset),
   ForthInputBuffer.cpp and ForthOutputBuffer.cpp.   MODEL ONLY — no proofs in this file.

   Conventions
   - every integer is a Z; machine wrap-around is written explicitly (wrap w z);
   - a C++ access outside an array, a negative byte count, INT_MIN / -1 … is `Fault F_internal` (undefined behaviour
     of the implementation), never a default value;
   - non-structural recursion takes explicit fuel and returns the distinct `OutOfFuel`;
   - `fixed : bool` selects the behaviour of single-stepping at the end of a segment:
       true = the current code (since /repo commit a6624ec), false = the pinned tree before that fix (kept as history
       for the `_refuted` theorems). *)
From Coq Require Import ZArith Bool String Ascii List.
Import ListNotations.
Open Scope Z_scope.

Inductive result (A : Type) : Type :=
| Ok (a : A)
| Fault (kind : Z)  (* the C++ would perform undefined behaviour; kind: see the F_* constants *)
| OutOfFuel.
Arguments Ok {A} a.
Arguments Fault {A} kind.
Arguments OutOfFuel {A}.

(* kinds of undefined behaviour *)
Definition F_internal := 1.    (* malformed bytecode / state: cannot arise from compiled programs run through the API *)
Definition F_count := 2.       (* repetition count * item size overflows int64 (negative counts are refused since the fix) *)
Definition F_rewind := 3.      (* (pinned tree only, fixed since) negative argument of `rewind` *)
Definition F_divtrap := 4.     (* (pinned tree only, fixed since) INT_MIN / -1 trapped *)
Definition F_loopindex := 5.   (* i / j / k read below the bottom of the do-stack *)
Definition F_exitdepth := 6.   (* exit unwinds more frames than exist *)
Definition F_calldepth := 7.   (* call() at the maximum recursion depth writes beyond current_which_ *)
Definition F_recmax := 8.      (* begin() with recursion_max_depth < 1 writes beyond current_which_ *)
Definition F_nbit := 9.        (* N-bit read with N > 31: `1 << N` on an int *)

(* ------------------------------------------------------------------ lists indexed by Z *)
Definition znth {A} (l : list A) (i : Z) : option A :=
  if i <? 0 then None else nth_error l (Z.to_nat i).

Fixpoint upd_nat {A} (l : list A) (n : nat) (v : A) : option (list A) :=
  match l, n with
  | [], _ => None
  | _ :: t, O => Some (v :: t)
  | h :: t, S n' => match upd_nat t n' v with Some t' => Some (h :: t') | None => None end
  end.
Definition zupd {A} (l : list A) (i : Z) (v : A) : option (list A) :=
  if i <? 0 then None else upd_nat l (Z.to_nat i) v.

Definition zlen {A} (l : list A) : Z := Z.of_nat (length l).

Fixpoint list_eqb (a b : list Z) : bool :=
  match a, b with
  | [], [] => true
  | x :: a', y :: b' => (x =? y) && list_eqb a' b'
  | _, _ => false
  end.

Fixpoint index_of (n : list Z) (l : list (list Z)) (i : Z) : option Z :=
  match l with
  | [] => None
  | h :: t => if list_eqb h n then Some i else index_of n t (i + 1)
  end.
Definition mem_name (n : list Z) (l : list (list Z)) : bool :=
  match index_of n l 0 with Some _ => true | None => false end.

(* ------------------------------------------------------------------ machine integers *)
Definition wrap (w z : Z) : Z := (z + 2 ^ (w - 1)) mod 2 ^ w - 2 ^ (w - 1).     (* two's complement, w bits *)
Definition uwrap (w z : Z) : Z := z mod 2 ^ w.
Definition min_int (w : Z) : Z := - 2 ^ (w - 1).

(* error codes = util::ForthError *)
Definition E_none := 0.            Definition E_not_ready := 1.       Definition E_is_done := 2.
Definition E_user_halt := 3.       Definition E_recursion := 4.       Definition E_underflow := 5.
Definition E_overflow := 6.        Definition E_read_beyond := 7.     Definition E_seek_beyond := 8.
Definition E_skip_beyond := 9.     Definition E_rewind_beyond := 10.  Definition E_div_zero := 11.
Definition E_varint := 12.

(* forth_floor_div / forth_floor_mod of ForthMachine.cpp (C++ '/' and '%' truncate):
     d == -1 : quotient = wrapping negation of n, modulo = 0  (avoids the INT_MIN / -1 trap)
     else    : q = n / d, decremented when n % d != 0 and the signs of n and d differ;
               r = n % d, plus d when r != 0 and the signs of r and d differ *)
Definition forth_div (w a b : Z) : Z :=
  if b =? -1 then wrap w (- a)
  else let q := Z.quot a b in
       if negb (Z.rem a b =? 0) && negb (Bool.eqb (a <? 0) (b <? 0)) then q - 1 else q.
Definition forth_mod (w a b : Z) : Z :=
  if b =? -1 then 0
  else let r := Z.rem a b in
       if negb (r =? 0) && negb (Bool.eqb (r <? 0) (b <? 0)) then r + b else r.

(* shifts: the shift count is reduced modulo the width by the hardware *)
Definition forth_lshift (w a c : Z) : Z := wrap w (Z.shiftl a (c mod w)).
Definition forth_rshift (w a c : Z) : Z := Z.shiftr a (c mod w).

(* ------------------------------------------------------------------ dtypes of outputs, casts *)
Inductive dtype := DBool | DInt8 | DInt16 | DInt32 | DInt64 | DUInt8 | DUInt16 | DUInt32 | DUInt64
                 | DFloat32 | DFloat64.

(* integer -> binary float with p bits of precision, round to nearest even; the result is again an integer *)
Definition round_float (p z : Z) : Z :=
  let a := Z.abs z in
  if a <? 2 ^ p then z
  else
    let e := Z.log2 a + 1 - p in          (* a = m * 2^e + r with 2^(p-1) <= m < 2^p *)
    let m := Z.shiftr a e in
    let r := a - Z.shiftl m e in
    let half := 2 ^ (e - 1) in
    let m' := if r <? half then m else if half <? r then m + 1 else if Z.even m then m else m + 1 in
    Z.sgn z * Z.shiftl m' e.

Definition cast_out (d : dtype) (z : Z) : Z :=
  match d with
  | DBool => if z =? 0 then 0 else 1
  | DInt8 => wrap 8 z | DInt16 => wrap 16 z | DInt32 => wrap 32 z | DInt64 => wrap 64 z
  | DUInt8 => uwrap 8 z | DUInt16 => uwrap 16 z | DUInt32 => uwrap 32 z | DUInt64 => uwrap 64 z
  | DFloat32 => round_float 24 z
  | DFloat64 => round_float 53 z
  end.

(* previous + (OUT)value  in the arithmetic of OUT *)
Definition add_out (d : dtype) (prev z : Z) : Z := cast_out d (prev + cast_out d z).

(* ------------------------------------------------------------------ output buffers (observable content) *)
(* An output is the list of its items, MOST RECENT FIRST.  The growable-array implementation
   (capacity / resize factor) is modelled separately in Proofs_C19 and shown to refine this. *)
Definition outbuf := list Z.

Fixpoint replicate {A} (n : nat) (x : A) : list A := match n with O => [] | S k => x :: replicate k x end.

(* ------------------------------------------------------------------ typed reads *)
(* parser flags and formats, as in ForthMachine.cpp *)
Definition READ_DIRECT := 1.  Definition READ_REPEATED := 2.  Definition READ_BIGENDIAN := 4.
Definition READ_MASK := 248.  (* ~(-0x100) & (-0x8) *)
Definition READ_BOOL := 8.    Definition READ_INT8 := 16.   Definition READ_INT16 := 24.  Definition READ_INT32 := 32.
Definition READ_INT64 := 40.  Definition READ_INTP := 48.   Definition READ_UINT8 := 56.  Definition READ_UINT16 := 64.
Definition READ_UINT32 := 72. Definition READ_UINT64 := 80. Definition READ_UINTP := 88.  Definition READ_FLOAT32 := 96.
Definition READ_FLOAT64 := 104. Definition READ_VARINT := 112. Definition READ_ZIGZAG := 120. Definition READ_NBIT := 128.

(* (size in bytes, signed?) of the fixed-width integer formats; None for the others *)
Definition fixed_format (fmt : Z) : option (Z * bool) :=
  if fmt =? READ_BOOL then Some (1, false) else
  if fmt =? READ_INT8 then Some (1, true) else
  if fmt =? READ_INT16 then Some (2, true) else
  if fmt =? READ_INT32 then Some (4, true) else
  if fmt =? READ_INT64 then Some (8, true) else
  if fmt =? READ_INTP then Some (8, true) else
  if fmt =? READ_UINT8 then Some (1, false) else
  if fmt =? READ_UINT16 then Some (2, false) else
  if fmt =? READ_UINT32 then Some (4, false) else
  if fmt =? READ_UINT64 then Some (8, false) else
  if fmt =? READ_UINTP then Some (8, false) else None.

Fixpoint le_value (bs : list Z) : Z := match bs with [] => 0 | b :: t => b + 256 * le_value t end.

Definition decode (size : Z) (signed bigendian : bool) (bs : list Z) : Z :=
  let u := le_value (if bigendian then rev bs else bs) in
  if signed then wrap (8 * size) u else u.

(* split a byte list into items of `size` bytes (size > 0 as nat) *)
Fixpoint chunks (fuel : nat) (size : nat) (bs : list Z) : list (list Z) :=
  match fuel with
  | O => []
  | S f => match bs with [] => [] | _ => firstn size bs :: chunks f size (skipn size bs) end
  end.

Definition bitswap (b : Z) : Z :=      (* reverse the 8 bits of a byte *)
  (if Z.testbit b 0 then 128 else 0) + (if Z.testbit b 1 then 64 else 0) + (if Z.testbit b 2 then 32 else 0) +
  (if Z.testbit b 3 then 16 else 0) + (if Z.testbit b 4 then 8 else 0) + (if Z.testbit b 5 then 4 else 0) +
  (if Z.testbit b 6 then 2 else 0) + (if Z.testbit b 7 then 1 else 0).

(* ------------------------------------------------------------------ programs and machine states *)
Record prog := mkProg {
  p_w : Z;                               (* 32 | 64 : width of a stack cell (T) *)
  p_segs : list (list Z);                (* dictionary of bytecode segments; segment 0 = main *)
  p_words : list (list Z * Z);           (* user words: name, bytecode (segment + 66) in definition order *)
  p_vars : list (list Z);                (* variable names *)
  p_ins : list (list Z);                 (* input names *)
  p_outs : list (list Z * dtype);        (* output names and dtypes *)
  p_stack_max : Z;
  p_rec_max : Z
}.

Record machine := mkM {
  m_stack : list Z;                      (* top first *)
  m_vars : list Z;
  m_inpos : list Z;                      (* [] when no inputs are attached *)
  m_outs : list outbuf;                  (* [] when no outputs are attached *)
  m_frames : list (Z * Z);               (* (which, ip) = (current_which_, current_where_), innermost first; recursion_current_depth_ = length *)
  m_dos : list (Z * Z * Z);              (* (do_recursion_depth_ incl. ~ marker, stop, i), innermost first *)
  m_targets : list Z;                    (* recursion_target_depth_, top first *)
  m_ready : bool;
  m_err : Z
}.

Definition set_stack m s := mkM s (m_vars m) (m_inpos m) (m_outs m) (m_frames m) (m_dos m) (m_targets m) (m_ready m) (m_err m).
Definition set_vars m v := mkM (m_stack m) v (m_inpos m) (m_outs m) (m_frames m) (m_dos m) (m_targets m) (m_ready m) (m_err m).
Definition set_inpos m v := mkM (m_stack m) (m_vars m) v (m_outs m) (m_frames m) (m_dos m) (m_targets m) (m_ready m) (m_err m).
Definition set_outs m v := mkM (m_stack m) (m_vars m) (m_inpos m) v (m_frames m) (m_dos m) (m_targets m) (m_ready m) (m_err m).
Definition set_frames m v := mkM (m_stack m) (m_vars m) (m_inpos m) (m_outs m) v (m_dos m) (m_targets m) (m_ready m) (m_err m).
Definition set_dos m v := mkM (m_stack m) (m_vars m) (m_inpos m) (m_outs m) (m_frames m) v (m_targets m) (m_ready m) (m_err m).
Definition set_targets m v := mkM (m_stack m) (m_vars m) (m_inpos m) (m_outs m) (m_frames m) (m_dos m) v (m_ready m) (m_err m).
Definition set_ready m v := mkM (m_stack m) (m_vars m) (m_inpos m) (m_outs m) (m_frames m) (m_dos m) (m_targets m) v (m_err m).
Definition set_err m v := mkM (m_stack m) (m_vars m) (m_inpos m) (m_outs m) (m_frames m) (m_dos m) (m_targets m) (m_ready m) v.

Definition depth (m : machine) : Z := zlen (m_frames m).

(* what one pass through the body of the instruction loop does *)
Inductive flow := Continue | Return.
Definition step_result := result (flow * machine).
Definition stop (m : machine) (e : Z) : step_result := Ok (Return, set_err m e).
Definition continue (m : machine) : step_result := Ok (Continue, m).

(* do_abs_recursion_depth: ~x = -x-1 *)
Definition abs_depth (d : Z) : Z := if d <? 0 then - d - 1 else d.

Definition seg_len (p : prog) (which : Z) : option Z :=
  match znth (p_segs p) which with Some s => Some (zlen s) | None => None end.

(* is_segment_done() *)
Definition segment_done (p : prog) (m : machine) : result bool :=
  match m_frames m with
  | [] => Fault F_internal
  | (which, ip) :: _ => match seg_len p which with Some n => Ok (negb (ip <? n)) | None => Fault F_internal end
  end.

(* bytecode_get(); bytecodes_pointer_where()++ *)
Definition fetch (p : prog) (m : machine) : result (Z * machine) :=
  match m_frames m with
  | [] => Fault F_internal
  | (which, ip) :: fr =>
    match znth (p_segs p) which with
    | None => Fault F_internal
    | Some seg => match znth seg ip with
                  | None => Fault F_internal
                  | Some b => Ok (b, set_frames m ((which, ip + 1) :: fr))
                  end
    end
  end.

Definition move_ip (m : machine) (delta : Z) : result machine :=
  match m_frames m with
  | [] => Fault F_internal
  | (which, ip) :: fr => Ok (set_frames m ((which, ip + delta) :: fr))
  end.

(* bytecodes_pointer_push(which), preceded by the recursion check of the caller *)
Definition push_frame (p : prog) (m : machine) (which : Z) : step_result :=
  if depth m =? p_rec_max p then stop m E_recursion
  else continue (set_frames m ((which, 0) :: m_frames m)).

(* the code after the label after_end_of_segment, also duplicated in CODE_PAUSE:
   pop the finished segment; if it was the body of a do-loop, advance the loop counter *)
Definition pop_incr (m : machine) : step_result :=
  match m_frames m with
  | [] => Fault F_internal
  | _ :: fr =>
    let m1 := set_frames m fr in
    match m_dos m1 with
    | (dd, dstop, di) :: dos' =>
      if abs_depth dd =? depth m1 then
        if dd <? 0 then                                  (* do ... +loop *)
          match m_stack m1 with
          | [] => stop m1 E_underflow
          | v :: s => continue (set_dos (set_stack m1 s) ((dd, dstop, wrap 64 (di + v)) :: dos'))
          end
        else continue (set_dos m1 ((dd, dstop, wrap 64 (di + 1)) :: dos'))
      else continue m1
    | [] => continue m1
    end
  end.

(* only bytecodes_pointer_pop() *)
Definition pop_only (m : machine) : result machine :=
  match m_frames m with [] => Fault F_internal | _ :: fr => Ok (set_frames m fr) end.

(* ---- stack helpers *)
Definition can_push (p : prog) (m : machine) : bool := negb (zlen (m_stack m) =? p_stack_max p).

Definition push (p : prog) (m : machine) (v : Z) : step_result :=
  if can_push p m then continue (set_stack m (v :: m_stack m)) else stop m E_overflow.

(* unary op on the top of the stack *)
Definition un_op (m : machine) (f : Z -> Z) : step_result :=
  match m_stack m with
  | a :: s => continue (set_stack m (f a :: s))
  | [] => stop m E_underflow
  end.
(* binary op:  pair[0] = f pair[0] pair[1]   (pair[1] is the top) *)
Definition bin_op (m : machine) (f : Z -> Z -> Z) : step_result :=
  match m_stack m with
  | b :: a :: s => continue (set_stack m (f a b :: s))
  | _ => stop m E_underflow
  end.
Definition bool_cell (b : bool) : Z := if b then -1 else 0.

(* ---- inputs *)
Record env := mkEnv { e_inputs : list (list Z) }.    (* the byte strings attached by begin(), in p_ins order *)

(* ForthInputBuffer::read(num_bytes): Ok (Some bytes, m') | Ok (None, m) = read_beyond *)
Definition input_read (e : env) (m : machine) (inp nbytes : Z) : result (option (list Z) * machine) :=
  match znth (e_inputs e) inp, znth (m_inpos m) inp with
  | Some data, Some pos =>
    if (nbytes <? 0) || (2 ^ 63 <=? nbytes) then Fault F_count   (* pointer moves backwards / size overflow *)
    else if zlen data <? pos + nbytes then Ok (None, m)
    else match zupd (m_inpos m) inp (pos + nbytes) with
         | Some ip => Ok (Some (firstn (Z.to_nat nbytes) (skipn (Z.to_nat pos) data)), set_inpos m ip)
         | None => Fault F_internal
         end
  | _, _ => Fault F_internal
  end.

(* the operations of ForthOutputBuffer on the observable content *)
Inductive bop := BWrite (vs_rev : list Z)      (* write_one_* / write_* : items already cast, most recent first *)
               | BAdd (d : dtype) (v : Z)      (* write_add_int32/64 *)
               | BDup (n : Z)                  (* dup *)
               | BRewind (n : Z).              (* rewind *)
Inductive bres := BOk (b : outbuf) | BErr (err : Z) | BFault (kind : Z).

Definition buf_apply (b : outbuf) (op : bop) : bres :=
  match op with
  | BWrite vs => BOk (vs ++ b)
  | BAdd d v => BOk (add_out d (match b with [] => 0 | x :: _ => x end) v :: b)
  | BDup n => match b with
              | [] => BErr E_rewind_beyond
              | x :: _ => if 0 <? n then BOk (replicate (Z.to_nat n) x ++ b) else BOk b
              end
  | BRewind n => if (n <? 0) || (zlen b - n <? 0) then BErr E_rewind_beyond
                 else BOk (skipn (Z.to_nat n) b)
  end.

Definition out_apply (m : machine) (o : Z) (op : bop) : step_result :=
  match znth (m_outs m) o with
  | None => Fault F_internal
  | Some b => match buf_apply b op with
              | BOk b' => match zupd (m_outs m) o b' with
                          | Some os => continue (set_outs m os)
                          | None => Fault F_internal
                          end
              | BErr err => stop m err
              | BFault k => Fault k
              end
  end.

Definition out_write (m : machine) (o : Z) (vs_rev : list Z) : result machine :=   (* vs_rev: most recent first *)
  match out_apply m o (BWrite vs_rev) with
  | Ok (_, m') => Ok m'
  | Fault k => Fault k
  | OutOfFuel => OutOfFuel
  end.

Definition out_dtype (p : prog) (o : Z) : option dtype :=
  match znth (p_outs p) o with Some (_, d) => Some d | None => None end.

(* push items one by one, stopping with stack_overflow when the stack is full *)
Fixpoint push_items (p : prog) (m : machine) (vs : list Z) : step_result :=
  match vs with
  | [] => continue m
  | v :: t => if can_push p m then push_items p (set_stack m (v :: m_stack m)) t else stop m E_overflow
  end.

(* varint / zigzag: one item.  Ok (inl value, m') | Ok (inr error, m') *)
Fixpoint read_varint (fuel : nat) (e : env) (m : machine) (inp shift acc : Z) : result ((Z + Z) * machine) :=
  match fuel with
  | O => OutOfFuel
  | S f =>
    match input_read e m inp 1 with
    | Ok (Some [b], m1) =>
      if shift =? 63 then Ok (inr E_varint, m1)
      else let acc' := Z.lor acc (Z.shiftl (Z.land b 127) shift) in
           if Z.land b 128 =? 0 then Ok (inl acc', m1) else read_varint f e m1 inp (shift + 7) acc'
    | Ok (Some _, _) => Fault F_internal
    | Ok (None, m1) => Ok (inr E_read_beyond, m1)
    | Fault k => Fault k
    | OutOfFuel => OutOfFuel
    end
  end.

Definition zigzag (r : Z) : Z := Z.lxor (Z.shiftr r 1) (- (Z.land r 1)).

(* deliver one decoded item to the stack (cell width w) or to output o *)
Definition deliver (p : prog) (m : machine) (direct : option Z) (stack_value out_value : Z) : step_result :=
  match direct with
  | None => push p m stack_value
  | Some o => match out_dtype p o with
              | Some d => match out_write m o [cast_out d out_value] with Ok m' => continue m' | _ => Fault F_internal end
              | None => Fault F_internal
              end
  end.

Fixpoint read_varints (zz : bool) (p : prog) (e : env) (count : nat) (m : machine) (inp : Z) (direct : option Z)
  : step_result :=
  match count with
  | O => continue m
  | S c =>
    match read_varint 11 e m inp 0 0 with
    | Ok (inl r, m1) =>
      let sv := if zz then wrap (p_w p) (zigzag r) else wrap (p_w p) r in
      let ov := if zz then wrap (p_w p) (zigzag r) else r in
      match deliver p m1 direct sv ov with
      | Ok (Continue, m2) => read_varints zz p e c m2 inp direct
      | other => other
      end
    | Ok (inr err, m1) => stop m1 err
    | Fault k => Fault k
    | OutOfFuel => OutOfFuel
    end
  end.

(* the N-bit reader, as coded (bit width 1..31) *)
Fixpoint read_nbits (fuel : nat) (p : prog) (e : env) (m : machine) (inp : Z) (direct : option Z) (flip : bool)
         (bw mask wl wr remaining data : Z) : step_result :=
  match fuel with
  | O => OutOfFuel
  | S f =>
    if remaining =? 0 then continue m
    else if 8 <=? wr then read_nbits f p e m inp direct flip bw mask (wl - 8) (wr - 8) remaining (Z.shiftr data 8)
    else if bw <=? wl - wr then
      let tmp := Z.land (Z.shiftr data wr) mask in
      match deliver p m direct (wrap (p_w p) tmp) (wrap (p_w p) tmp) with
      | Ok (Continue, m1) => read_nbits f p e m1 inp direct flip bw mask wl (wr + bw) (wrap 64 (remaining - 1)) data
      | other => other
      end
    else
      match input_read e m inp 1 with
      | Ok (Some [b], m1) =>
        let tmp := if flip then bitswap b else b in
        read_nbits f p e m1 inp direct flip bw mask (wl + 8) wr remaining (Z.lor data (Z.shiftl tmp wl))
      | Ok (Some _, _) => Fault F_internal
      | Ok (None, m1) => stop m1 E_read_beyond
      | Fault k => Fault k
      | OutOfFuel => OutOfFuel
      end
  end.

Definition remaining_bytes (e : env) (m : machine) (inp : Z) : Z :=
  match znth (e_inputs e) inp, znth (m_inpos m) inp with
  | Some data, Some pos => zlen data - pos
  | _, _ => 0
  end.

(* a read instruction: bytecode < 0; m already has `ip` past the opcode *)
Definition exec_read (p : prog) (e : env) (m0 : machine) (bytecode : Z) : step_result :=
  let flags := - bytecode - 1 in                                   (* ~bytecode *)
  let bigendian := negb (Z.land flags READ_BIGENDIAN =? 0) in     (* byteswap on a little-endian host *)
  let repeated := negb (Z.land flags READ_REPEATED =? 0) in
  let is_direct := negb (Z.land flags READ_DIRECT =? 0) in
  let fmt := Z.land flags READ_MASK in
  match fetch p m0 with
  | Ok (inp, m1) =>
    (* num_items *)
    let items : result (option Z * machine) :=
      if repeated then
        match m_stack m1 with
        | [] => Ok (None, m1)
        | n :: s => Ok (Some n, set_stack m1 s)
        end
      else Ok (Some 1, m1) in
    match items with
    | Ok (None, m2) => stop m2 E_underflow
    | Ok (Some n, m2) =>
      if n <? 0 then stop m2 E_read_beyond else        (* a negative repetition count is refused *)
      (* for NBIT the bit width comes before the output number *)
      let with_bw : result (Z * machine) :=
        if fmt =? READ_NBIT then fetch p m2 else Ok (0, m2) in
      match with_bw with
      | Ok (bw, m3) =>
        let with_out : result (option Z * machine) :=
          if is_direct then match fetch p m3 with Ok (o, m4) => Ok (Some o, m4) | Fault k => Fault k | OutOfFuel => OutOfFuel end
          else Ok (None, m3) in
        match with_out with
        | Ok (direct, m4) =>
          if (fmt =? READ_VARINT) || (fmt =? READ_ZIGZAG) then
            (* for (count = 0; count < num_items; count++) : nothing when num_items <= 0;
               at most one item per remaining byte can succeed *)
            let cnt := Z.min (Z.max n 0) (remaining_bytes e m4 inp + 1) in
            read_varints (fmt =? READ_ZIGZAG) p e (Z.to_nat cnt) m4 inp direct
          else if fmt =? READ_NBIT then
            if (bw <? 1) || (31 <? bw) then Fault F_nbit         (* `1 << bit_width` is an int shift: UB from 32 on *)
            else if n =? 0 then continue m4
            else
              match input_read e m4 inp 1 with
              | Ok (Some [b], m5) =>
                read_nbits (Z.to_nat (32 * (Z.max 0 (remaining_bytes e m5 inp) + 2))) p e m5 inp direct bigendian
                           bw (2 ^ bw - 1) 8 0 n (if bigendian then bitswap b else b)
              | Ok (Some _, _) => Fault F_internal
              | Ok (None, m5) => stop m5 E_read_beyond
              | Fault k => Fault k
              | OutOfFuel => OutOfFuel
              end
          else
            match fixed_format fmt with
            | None => Fault F_internal                                     (* float reads are outside the model (see compile) *)
            | Some (size, signed) =>
              match input_read e m4 inp (n * size) with
              | Ok (None, m5) => stop m5 E_read_beyond
              | Ok (Some bs, m5) =>
                let items := chunks (length bs) (Z.to_nat size) bs in
                match direct with
                | Some o =>
                  match out_dtype p o with
                  | None => Fault F_internal
                  | Some d =>
                    let conv (it : list Z) :=
                      (* a bool item copied into a bool buffer keeps its byte; otherwise (OUT)value *)
                      match d with
                      | DBool => if fmt =? READ_BOOL then decode size signed bigendian it
                                 else cast_out d (decode size signed bigendian it)
                      | _ => cast_out d (decode size signed bigendian it)
                      end in
                    match out_write m5 o (rev (map conv items)) with Ok m6 => continue m6 | _ => Fault F_internal end
                  end
                | None =>
                  (* stack_push((T)value) *)
                  let conv (it : list Z) := wrap (p_w p) (decode size signed bigendian it) in
                  push_items p m5 (map conv items)
                end
              | Fault k => Fault k
              | OutOfFuel => OutOfFuel
              end
            end
        | Fault k => Fault k
        | OutOfFuel => OutOfFuel
        end
      | Fault k => Fault k
      | OutOfFuel => OutOfFuel
      end
    | Fault k => Fault k
    | OutOfFuel => OutOfFuel
    end
  | Fault k => Fault k
  | OutOfFuel => OutOfFuel
  end.

(* ------------------------------------------------------------------ opcodes *)
Definition CODE_LITERAL := 0.   Definition CODE_HALT := 1.      Definition CODE_PAUSE := 2.   Definition CODE_IF := 3.
Definition CODE_IF_ELSE := 4.   Definition CODE_DO := 5.        Definition CODE_DO_STEP := 6. Definition CODE_AGAIN := 7.
Definition CODE_UNTIL := 8.     Definition CODE_WHILE := 9.     Definition CODE_EXIT := 10.   Definition CODE_PUT := 11.
Definition CODE_INC := 12.      Definition CODE_GET := 13.      Definition CODE_LEN_INPUT := 14.
Definition CODE_POS := 15.      Definition CODE_END := 16.      Definition CODE_SEEK := 17.   Definition CODE_SKIP := 18.
Definition CODE_WRITE := 19.    Definition CODE_WRITE_ADD := 20. Definition CODE_WRITE_DUP := 21.
Definition CODE_LEN_OUTPUT := 22. Definition CODE_REWIND := 23. Definition CODE_STRING := 24.
Definition CODE_PRINT_STRING := 25. Definition CODE_PRINT := 26. Definition CODE_PRINT_CR := 27.
Definition CODE_PRINT_STACK := 28. Definition CODE_I := 29.     Definition CODE_J := 30.      Definition CODE_K := 31.
Definition CODE_DUP := 32.      Definition CODE_DROP := 33.     Definition CODE_SWAP := 34.   Definition CODE_OVER := 35.
Definition CODE_ROT := 36.      Definition CODE_NIP := 37.      Definition CODE_TUCK := 38.   Definition CODE_ADD := 39.
Definition CODE_SUB := 40.      Definition CODE_MUL := 41.      Definition CODE_DIV := 42.    Definition CODE_MOD := 43.
Definition CODE_DIVMOD := 44.   Definition CODE_NEGATE := 45.   Definition CODE_ADD1 := 46.   Definition CODE_SUB1 := 47.
Definition CODE_ABS := 48.      Definition CODE_MIN := 49.      Definition CODE_MAX := 50.    Definition CODE_EQ := 51.
Definition CODE_NE := 52.       Definition CODE_GT := 53.       Definition CODE_GE := 54.     Definition CODE_LT := 55.
Definition CODE_LE := 56.       Definition CODE_EQ0 := 57.      Definition CODE_INVERT := 58. Definition CODE_AND := 59.
Definition CODE_OR := 60.       Definition CODE_XOR := 61.      Definition CODE_LSHIFT := 62. Definition CODE_RSHIFT := 63.
Definition CODE_FALSE := 64.    Definition CODE_TRUE := 65.     Definition BOUND_DICTIONARY := 66.

(* do_i(), do_j(), do_k() *)
Definition do_index (m : machine) (k : nat) : option Z :=
  match nth_error (m_dos m) k with Some (_, _, i) => Some i | None => None end.

(* instruction with one argument that names an input / output / variable *)
Definition with_arg (p : prog) (m : machine) (k : Z -> machine -> step_result) : step_result :=
  match fetch p m with Ok (a, m1) => k a m1 | Fault k => Fault k | OutOfFuel => OutOfFuel end.

(* the `switch (bytecode)` for 0 <= bytecode < BOUND_DICTIONARY, except CODE_EXIT.
   m has `ip` already advanced past the opcode (or not, inside a do-loop header). *)
Definition exec_builtin (p : prog) (e : env) (m : machine) (bytecode : Z) : step_result :=
  let w := p_w p in
  if bytecode =? CODE_LITERAL then with_arg p m (fun num m1 => push p m1 (wrap w num))
  else if bytecode =? CODE_HALT then
    Ok (Return, set_err (set_dos (set_targets (set_frames (set_ready m false) [])
                                              (match rev (m_targets m) with [] => [] | t :: _ => [t] end)) [])
                        E_user_halt)
  else if bytecode =? CODE_PAUSE then
    match segment_done p m with
    | Ok true => match pop_incr m with Ok (_, m1) => Ok (Return, m1) | other => other end
    | Ok false => Ok (Return, m)
    | Fault k => Fault k
    | OutOfFuel => OutOfFuel
    end
  else if bytecode =? CODE_IF then
    match m_stack m with
    | [] => stop m E_underflow
    | v :: s => let m1 := set_stack m s in
                if v =? 0 then match move_ip m1 1 with Ok m2 => continue m2 | _ => Fault F_internal end else continue m1
    end
  else if bytecode =? CODE_IF_ELSE then
    match m_stack m with
    | [] => stop m E_underflow
    | v :: s => let m1 := set_stack m s in
                if v =? 0 then match move_ip m1 1 with Ok m2 => continue m2 | _ => Fault F_internal end
                else match fetch p m1 with
                     | Ok (consequent, m2) =>
                       match move_ip m2 1 with
                       | Ok m3 => push_frame p m3 (consequent - BOUND_DICTIONARY)
                       | _ => Fault F_internal
                       end
                     | Fault k => Fault k
                     | OutOfFuel => OutOfFuel
                     end
    end
  else if (bytecode =? CODE_DO) || (bytecode =? CODE_DO_STEP) then
    match m_stack m with
    | start :: stp :: s =>                            (* pair[1] = top = start, pair[0] = stop *)
      let m1 := set_stack m s in
      if zlen (m_dos m1) =? p_rec_max p then stop m1 E_recursion
      else let d := if bytecode =? CODE_DO then depth m1 else - depth m1 - 1 in
           continue (set_dos m1 ((d, stp, start) :: m_dos m1))
    | _ => stop m E_underflow
    end
  else if bytecode =? CODE_AGAIN then
    match move_ip m (-2) with Ok m1 => continue m1 | _ => Fault F_internal end
  else if bytecode =? CODE_UNTIL then
    match m_stack m with
    | [] => stop m E_underflow
    | v :: s => let m1 := set_stack m s in
                if v =? 0 then match move_ip m1 (-2) with Ok m2 => continue m2 | _ => Fault F_internal end else continue m1
    end
  else if bytecode =? CODE_WHILE then
    match m_stack m with
    | [] => stop m E_underflow
    | v :: s => let m1 := set_stack m s in
                if v =? 0 then match move_ip m1 1 with Ok m2 => continue m2 | _ => Fault F_internal end
                else match fetch p m1 with
                     | Ok (posttest, m2) =>
                       match move_ip m2 (-3) with          (* get() does ++, then -= 2 in the source: net -2 from before *)
                       | Ok m3 => push_frame p m3 (posttest - BOUND_DICTIONARY)
                       | _ => Fault F_internal
                       end
                     | Fault k => Fault k
                     | OutOfFuel => OutOfFuel
                     end
    end
  else if bytecode =? CODE_PUT then
    with_arg p m (fun num m1 =>
      match m_stack m1 with
      | [] => stop m1 E_underflow
      | v :: s => match zupd (m_vars m1) num v with
                  | Some vs => continue (set_vars (set_stack m1 s) vs)
                  | None => Fault F_internal
                  end
      end)
  else if bytecode =? CODE_INC then
    with_arg p m (fun num m1 =>
      match m_stack m1 with
      | [] => stop m1 E_underflow
      | v :: s => match znth (m_vars m1) num with
                  | Some old => match zupd (m_vars m1) num (wrap w (old + v)) with
                                | Some vs => continue (set_vars (set_stack m1 s) vs)
                                | None => Fault F_internal
                                end
                  | None => Fault F_internal
                  end
      end)
  else if bytecode =? CODE_GET then
    with_arg p m (fun num m1 =>
      if can_push p m1 then match znth (m_vars m1) num with Some v => push p m1 v | None => Fault F_internal end
      else stop m1 E_overflow)
  else if bytecode =? CODE_LEN_INPUT then
    with_arg p m (fun inp m1 =>
      if can_push p m1 then match znth (e_inputs e) inp, znth (m_inpos m1) inp with
                            | Some data, Some _ => push p m1 (wrap w (zlen data))
                            | _, _ => Fault F_internal
                            end
      else stop m1 E_overflow)
  else if bytecode =? CODE_POS then
    with_arg p m (fun inp m1 =>
      if can_push p m1 then match znth (m_inpos m1) inp with Some pos => push p m1 (wrap w pos) | None => Fault F_internal end
      else stop m1 E_overflow)
  else if bytecode =? CODE_END then
    with_arg p m (fun inp m1 =>
      if can_push p m1 then match znth (e_inputs e) inp, znth (m_inpos m1) inp with
                            | Some data, Some pos => push p m1 (bool_cell (pos =? zlen data))
                            | _, _ => Fault F_internal
                            end
      else stop m1 E_overflow)
  else if bytecode =? CODE_SEEK then
    with_arg p m (fun inp m1 =>
      match m_stack m1 with
      | [] => stop m1 E_underflow
      | v :: s => let m2 := set_stack m1 s in
                  match znth (e_inputs e) inp, znth (m_inpos m2) inp with
                  | Some data, Some _ =>
                    if (v <? 0) || (zlen data <? v) then stop m2 E_seek_beyond
                    else match zupd (m_inpos m2) inp v with Some ip => continue (set_inpos m2 ip) | None => Fault F_internal end
                  | _, _ => Fault F_internal
                  end
      end)
  else if bytecode =? CODE_SKIP then
    with_arg p m (fun inp m1 =>
      match m_stack m1 with
      | [] => stop m1 E_underflow
      | v :: s => let m2 := set_stack m1 s in
                  match znth (e_inputs e) inp, znth (m_inpos m2) inp with
                  | Some data, Some pos =>
                    let next := pos + v in
                    if (next <? 0) || (zlen data <? next) then stop m2 E_skip_beyond
                    else match zupd (m_inpos m2) inp next with Some ip => continue (set_inpos m2 ip) | None => Fault F_internal end
                  | _, _ => Fault F_internal
                  end
      end)
  else if bytecode =? CODE_WRITE then
    with_arg p m (fun o m1 =>
      match m_stack m1 with
      | [] => stop m1 E_underflow
      | v :: s => match out_dtype p o with
                  | Some d => match out_write (set_stack m1 s) o [cast_out d v] with Ok m2 => continue m2 | _ => Fault F_internal end
                  | None => Fault F_internal
                  end
      end)
  else if bytecode =? CODE_WRITE_ADD then
    with_arg p m (fun o m1 =>
      match m_stack m1 with
      | [] => stop m1 E_underflow
      | v :: s => match out_dtype p o with
                  | Some d => out_apply (set_stack m1 s) o (BAdd d v)
                  | None => Fault F_internal
                  end
      end)
  else if bytecode =? CODE_WRITE_DUP then
    with_arg p m (fun o m1 =>
      match m_stack m1 with
      | [] => stop m1 E_underflow
      | v :: s => out_apply (set_stack m1 s) o (BDup v)
      end)
  else if bytecode =? CODE_LEN_OUTPUT then
    with_arg p m (fun o m1 =>
      if can_push p m1 then match znth (m_outs m1) o with Some b => push p m1 (wrap w (zlen b)) | None => Fault F_internal end
      else stop m1 E_overflow)
  else if bytecode =? CODE_REWIND then
    with_arg p m (fun o m1 =>
      match m_stack m1 with
      | [] => stop m1 E_underflow
      | v :: s => out_apply (set_stack m1 s) o (BRewind v)
      end)
  else if bytecode =? CODE_I then
    if can_push p m then match do_index m 0 with Some i => push p m (wrap w i) | None => Fault F_loopindex end else stop m E_overflow
  else if bytecode =? CODE_J then
    if can_push p m then match do_index m 1 with Some i => push p m (wrap w i) | None => Fault F_loopindex end else stop m E_overflow
  else if bytecode =? CODE_K then
    if can_push p m then match do_index m 2 with Some i => push p m (wrap w i) | None => Fault F_loopindex end else stop m E_overflow
  else if bytecode =? CODE_DUP then
    match m_stack m with
    | [] => stop m E_underflow
    | a :: _ => push p m a
    end
  else if bytecode =? CODE_DROP then
    match m_stack m with [] => stop m E_underflow | _ :: s => continue (set_stack m s) end
  else if bytecode =? CODE_SWAP then
    match m_stack m with b :: a :: s => continue (set_stack m (a :: b :: s)) | _ => stop m E_underflow end
  else if bytecode =? CODE_OVER then
    match m_stack m with b :: a :: s => push p m a | _ => stop m E_underflow end
  else if bytecode =? CODE_ROT then
    match m_stack m with c :: b :: a :: s => continue (set_stack m (a :: c :: b :: s)) | _ => stop m E_underflow end
  else if bytecode =? CODE_NIP then
    match m_stack m with b :: a :: s => continue (set_stack m (b :: s)) | _ => stop m E_underflow end
  else if bytecode =? CODE_TUCK then
    match m_stack m with
    | b :: a :: s => if can_push p m then continue (set_stack m (b :: a :: b :: s)) else stop m E_overflow
    | _ => stop m E_underflow
    end
  else if bytecode =? CODE_ADD then bin_op m (fun a b => wrap w (a + b))
  else if bytecode =? CODE_SUB then bin_op m (fun a b => wrap w (a - b))
  else if bytecode =? CODE_MUL then bin_op m (fun a b => wrap w (a * b))
  else if (bytecode =? CODE_DIV) || (bytecode =? CODE_MOD) then
    match m_stack m with
    | b :: a :: s =>
      (* stack_pop2_before_pushing1 has already dropped one cell when the divisor is tested *)
      if b =? 0 then stop (set_stack m (a :: s)) E_div_zero
      else continue (set_stack m ((if bytecode =? CODE_DIV then forth_div w a b else forth_mod w a b) :: s))
    | _ => stop m E_underflow
    end
  else if bytecode =? CODE_DIVMOD then
    match m_stack m with
    | two :: one :: s =>
      if two =? 0 then stop m E_div_zero
      else continue (set_stack m (forth_div w one two :: forth_mod w one two :: s))
    | _ => stop m E_underflow
    end
  else if bytecode =? CODE_NEGATE then un_op m (fun a => wrap w (- a))
  else if bytecode =? CODE_ADD1 then un_op m (fun a => wrap w (a + 1))
  else if bytecode =? CODE_SUB1 then un_op m (fun a => wrap w (a - 1))
  else if bytecode =? CODE_ABS then un_op m (fun a => wrap w (Z.abs a))
  else if bytecode =? CODE_MIN then bin_op m Z.min
  else if bytecode =? CODE_MAX then bin_op m Z.max
  else if bytecode =? CODE_EQ then bin_op m (fun a b => bool_cell (a =? b))
  else if bytecode =? CODE_NE then bin_op m (fun a b => bool_cell (negb (a =? b)))
  else if bytecode =? CODE_GT then bin_op m (fun a b => bool_cell (b <? a))
  else if bytecode =? CODE_GE then bin_op m (fun a b => bool_cell (b <=? a))
  else if bytecode =? CODE_LT then bin_op m (fun a b => bool_cell (a <? b))
  else if bytecode =? CODE_LE then bin_op m (fun a b => bool_cell (a <=? b))
  else if bytecode =? CODE_EQ0 then un_op m (fun a => bool_cell (a =? 0))
  else if bytecode =? CODE_INVERT then un_op m Z.lnot
  else if bytecode =? CODE_AND then bin_op m Z.land
  else if bytecode =? CODE_OR then bin_op m Z.lor
  else if bytecode =? CODE_XOR then bin_op m Z.lxor
  else if bytecode =? CODE_LSHIFT then bin_op m (forth_lshift w)
  else if bytecode =? CODE_RSHIFT then bin_op m (forth_rshift w)
  else if bytecode =? CODE_FALSE then push p m 0
  else if bytecode =? CODE_TRUE then push p m (-1)
  else Fault F_internal.    (* strings / print words are outside the model; the compiler never emits them *)

(* CODE_EXIT *)
Fixpoint drop_dos (dos : list (Z * Z * Z)) (d : Z) : list (Z * Z * Z) :=
  match dos with
  | (dd, _, _) :: t => if abs_depth dd =? d then dos else drop_dos t d
  | [] => []
  end.

(* `as_coded_single` = single_step on the pinned tree *)
Definition exec_exit (as_coded_single : bool) (p : prog) (m : machine) : step_result :=
  match fetch p m with
  | Ok (exitdepth, m1) =>
    if (exitdepth <? 0) || (depth m1 <? exitdepth) then Fault F_exitdepth
    else
      let m2 := set_frames m1 (skipn (Z.to_nat exitdepth) (m_frames m1)) in
      let m3 := set_dos m2 (drop_dos (m_dos m2) (depth m2)) in
      if as_coded_single then
        (* as coded: leave the word only if its segment happens to be finished; no loop bookkeeping *)
        match segment_done p m3 with
        | Ok true => match pop_only m3 with Ok m4 => Ok (Return, m4) | _ => Fault F_internal end
        | Ok false => Ok (Return, m3)
        | Fault k => Fault k
        | OutOfFuel => OutOfFuel
        end
      else pop_incr m3          (* goto after_end_of_segment *)
  | Fault k => Fault k
  | OutOfFuel => OutOfFuel
  end.

(* the `if (single_step) { if (is_segment_done()) bytecodes_pointer_pop(); return; }` after an instruction *)
Definition single_tail (fixed : bool) (p : prog) (target : Z) (m : machine) : step_result :=
  if fixed then
    if depth m =? target then Ok (Return, m)
    else match segment_done p m with
         | Ok true => match pop_incr m with Ok (_, m1) => Ok (Return, m1) | other => other end
         | Ok false => Ok (Return, m)
         | Fault k => Fault k
         | OutOfFuel => OutOfFuel
         end
  else
    match segment_done p m with
    | Ok true => match pop_only m with Ok m1 => Ok (Return, m1) | _ => Fault F_internal end
    | Ok false => Ok (Return, m)
    | Fault k => Fault k
    | OutOfFuel => OutOfFuel
    end.

(* the beginning of one pass through `while (ip < length of the segment)`: read the bytecode and decide
   whether a do-loop at this recursion depth continues or ends *)
Inductive fetched := LoopEnd (m : machine) | Instr (bytecode : Z) (m : machine).

Definition fetch_instr (p : prog) (m : machine) : result fetched :=
  match m_frames m with
  | [] => Fault F_internal
  | (which, ip) :: fr =>
    match znth (p_segs p) which with
    | None => Fault F_internal
    | Some seg =>
      match znth seg ip with
      | None => Fault F_internal
      | Some bytecode =>
        let advanced := set_frames m ((which, ip + 1) :: fr) in
        match m_dos m with
        | (dd, dstop, di) :: dos' =>
          if abs_depth dd =? depth m then
            if dstop <=? di then Ok (LoopEnd (set_dos advanced dos'))      (* end the do-loop; `continue` *)
            else Ok (Instr bytecode m)                                      (* ip stays on the body *)
          else Ok (Instr bytecode advanced)
        | [] => Ok (Instr bytecode advanced)
        end
      end
    end
  end.

(* the instruction itself *)
Definition exec_op (fixed single : bool) (p : prog) (e : env) (m1 : machine) (bytecode : Z) : step_result :=
  if bytecode <? 0 then exec_read p e m1 bytecode
  else if BOUND_DICTIONARY <=? bytecode then push_frame p m1 (bytecode - BOUND_DICTIONARY)
  else if bytecode =? CODE_EXIT then exec_exit (single && negb fixed) p m1
  else exec_builtin p e m1 bytecode.

(* one pass through the body of the instruction loop; requires ip < length of the segment *)
Definition exec_instr (fixed single : bool) (p : prog) (e : env) (target : Z) (m : machine) : step_result :=
  match fetch_instr p m with
  | Ok (LoopEnd m') => continue m'
  | Ok (Instr bytecode m1) =>
    match exec_op fixed single p e m1 bytecode with
    | Ok (Continue, m2) =>
      if single then
        if bytecode =? CODE_EXIT then Ok (Return, m2)      (* only reached when fixed *)
        else single_tail fixed p target m2
      else Ok (Continue, m2)
    | other => other
    end
  | Fault k => Fault k
  | OutOfFuel => OutOfFuel
  end.

(* internal_run(single_step, recursion_target_depth_top) *)
Fixpoint internal_run (fuel : nat) (fixed single : bool) (p : prog) (e : env) (target : Z) (m : machine)
  : result machine :=
  match fuel with
  | O => OutOfFuel
  | S f =>
    if depth m =? target then Ok m
    else match segment_done p m with
         | Ok false =>
           match exec_instr fixed single p e target m with
           | Ok (Continue, m1) => internal_run f fixed single p e target m1
           | Ok (Return, m1) => Ok m1
           | Fault k => Fault k
           | OutOfFuel => OutOfFuel
           end
         | Ok true =>
           match pop_incr m with
           | Ok (Continue, m1) => internal_run f fixed single p e target m1
           | Ok (Return, m1) => Ok m1
           | Fault k => Fault k
           | OutOfFuel => OutOfFuel
           end
         | Fault k => Fault k
         | OutOfFuel => OutOfFuel
         end
  end.

(* ================================================================== tokenizer and compiler *)
Fixpoint bytes (s : string) : list Z :=
  match s with EmptyString => [] | String c t => Z.of_N (N_of_ascii c) :: bytes t end.
Definition teq (t : list Z) (s : string) : bool := list_eqb t (bytes s).

Inductive cres (A : Type) : Type :=
| COk (a : A)
| CErr              (* std::invalid_argument from the constructor: a compile-time fault *)
| CErrOther         (* another exception escapes the constructor (std::out_of_range from stoul / stoi) *)
| CUnsupported      (* the source uses vocabulary outside this model: strings, print words, float reads, >31-bit fields *)
| CFuel.
Arguments COk {A} a.
Arguments CErr {A}.
Arguments CErrOther {A}.
Arguments CUnsupported {A}.
Arguments CFuel {A}.

(* ---- tokenize (strings after ." and s" are not modelled) *)
Definition is_blank (c : Z) : bool := (c =? 32) || (c =? 13) || (c =? 9) || (c =? 11) || (c =? 12).

Fixpoint tokenize_go (src : list Z) (cur_rev : list Z) (acc_rev : list (list Z)) : list (list Z) :=
  let flush := match cur_rev with [] => acc_rev | _ => rev cur_rev :: acc_rev end in
  match src with
  | [] => rev flush
  | c :: t =>
    if is_blank c then tokenize_go t [] flush
    else if c =? 10 then tokenize_go t [] ([10] :: flush)
    else tokenize_go t (c :: cur_rev) acc_rev
  end.
Definition tokenize (src : list Z) : list (list Z) := tokenize_go src [] [].

(* ---- strtoul / stoi *)
Inductive ires := IOk (v : Z) | IInvalid | IRange.

Definition digit_val (c : Z) : Z :=
  if (48 <=? c) && (c <=? 57) then c - 48
  else if (97 <=? c) && (c <=? 122) then c - 87
  else if (65 <=? c) && (c <=? 90) then c - 55
  else 99.

Fixpoint digits (base : Z) (s : list Z) (acc : Z) (any : bool) : Z * bool :=
  match s with
  | c :: t => if digit_val c <? base then digits base t (acc * base + digit_val c) true else (acc, any)
  | [] => (acc, any)
  end.

Definition strip_sign (s : list Z) : bool * list Z :=
  match s with
  | 45 :: t => (true, t)
  | 43 :: t => (false, t)
  | _ => (false, s)
  end.

(* (int64_t)std::stoul(s, nullptr, base) *)
Definition stoul (base : Z) (s : list Z) : ires :=
  let '(neg, s1) := strip_sign s in
  let s2 := if base =? 16 then
              match s1 with
              | 48 :: x :: d :: _ => if ((x =? 120) || (x =? 88)) && (digit_val d <? 16) then skipn 2 s1 else s1
              | _ => s1
              end
            else s1 in
  let '(v, any) := digits base s2 0 false in
  if negb any then IInvalid
  else if 2 ^ 64 <=? v then IRange
  else IOk (wrap 64 (if neg then - v else v)).

(* std::stoi(s, nullptr, 10) *)
Definition stoi (s : list Z) : ires :=
  let '(neg, s1) := strip_sign s in
  let '(v, any) := digits 10 s1 0 false in
  let sv := if neg then - v else v in
  if negb any then IInvalid
  else if (sv <? - 2 ^ 31) || (2 ^ 31 <=? sv) then IRange
  else IOk sv.

Definition is_integer (word : list Z) : ires :=
  match word with
  | 48 :: 120 :: rest => stoul 16 rest
  | _ => stoul 10 word
  end.

Definition strip_prefix_char (c : Z) (s : list Z) : list Z :=
  match s with h :: t => if h =? c then t else s | [] => s end.

(* is_nbit: Ok (Some n) = true with value n; Ok None = false *)
Definition is_nbit (word : list Z) : cres (option Z) :=
  let parser := strip_prefix_char 33 (strip_prefix_char 35 word) in
  let n := length parser in
  if (5 <? Z.of_nat n) && teq (skipn (n - 5) parser) "bit->" then
    match stoi (firstn (n - 5) parser) with
    | IInvalid => COk None
    | IRange => CErrOther
    | IOk v => if (0 <? v) && (v <=? 64) then COk (Some v) else COk None
    end
  else COk None.

Definition reserved_words : list string :=
  ["("; ")"; "\"; ""; ":"; ";"; "recurse"; "variable"; "input"; "output"; "halt"; "pause";
   "if"; "then"; "else"; "do"; "loop"; "+loop"; "begin"; "again"; "until"; "while"; "repeat"; "exit";
   "!"; "+!"; "@"; "len"; "pos"; "end"; "seek"; "skip"; "<-"; "+<-"; "stack"; "rewind"]%string.
(* plus the newline token, .", s" — handled below *)

Definition input_parser_words : list string :=
  ["?->"; "b->"; "h->"; "i->"; "q->"; "n->"; "B->"; "H->"; "I->"; "Q->"; "N->"; "f->"; "d->"; "varint->"; "zigzag->";
   "!h->"; "!i->"; "!q->"; "!n->"; "!H->"; "!I->"; "!Q->"; "!N->"; "!f->"; "!d->";
   "#?->"; "#b->"; "#h->"; "#i->"; "#q->"; "#n->"; "#B->"; "#H->"; "#I->"; "#Q->"; "#N->"; "#f->"; "#d->";
   "#varint->"; "#zigzag->";
   "#!h->"; "#!i->"; "#!q->"; "#!n->"; "#!H->"; "#!I->"; "#!Q->"; "#!N->"; "#!f->"; "#!d->"]%string.

Definition dtype_words : list (string * dtype) :=
  [("bool", DBool); ("int8", DInt8); ("int16", DInt16); ("int32", DInt32); ("int64", DInt64);
   ("uint8", DUInt8); ("uint16", DUInt16); ("uint32", DUInt32); ("uint64", DUInt64);
   ("float32", DFloat32); ("float64", DFloat64)]%string.

(* generic_builtin_words_ without the print words ".", "cr", ".s" (outside the model) *)
Definition builtin_words : list (string * Z) :=
  [("i", CODE_I); ("j", CODE_J); ("k", CODE_K); ("dup", CODE_DUP); ("drop", CODE_DROP); ("swap", CODE_SWAP);
   ("over", CODE_OVER); ("rot", CODE_ROT); ("nip", CODE_NIP); ("tuck", CODE_TUCK); ("+", CODE_ADD); ("-", CODE_SUB);
   ("*", CODE_MUL); ("/", CODE_DIV); ("mod", CODE_MOD); ("/mod", CODE_DIVMOD); ("negate", CODE_NEGATE);
   ("1+", CODE_ADD1); ("1-", CODE_SUB1); ("abs", CODE_ABS); ("min", CODE_MIN); ("max", CODE_MAX); ("=", CODE_EQ);
   ("<>", CODE_NE); (">", CODE_GT); (">=", CODE_GE); ("<", CODE_LT); ("<=", CODE_LE); ("0=", CODE_EQ0);
   ("invert", CODE_INVERT); ("and", CODE_AND); ("or", CODE_OR); ("xor", CODE_XOR); ("lshift", CODE_LSHIFT);
   ("rshift", CODE_RSHIFT); ("false", CODE_FALSE); ("true", CODE_TRUE)]%string.

Definition unsupported_words : list string := ["."; "cr"; ".s"; "."""; "s"""]%string.

Fixpoint in_strings (t : list Z) (l : list string) : bool :=
  match l with [] => false | s :: r => teq t s || in_strings t r end.
Fixpoint lookup_string {A} (t : list Z) (l : list (string * A)) : option A :=
  match l with [] => None | (s, a) :: r => if teq t s then Some a else lookup_string t r end.

Record cstate := mkC {
  c_segs : list (list Z);
  c_words : list (list Z * Z);
  c_vars : list (list Z);
  c_ins : list (list Z);
  c_outs : list (list Z * dtype)
}.

Definition is_variable (cs : cstate) (w : list Z) := mem_name w (c_vars cs).
Definition is_input (cs : cstate) (w : list Z) := mem_name w (c_ins cs).
Definition is_output (cs : cstate) (w : list Z) := mem_name w (map fst (c_outs cs)).
Definition is_defined (cs : cstate) (w : list Z) := mem_name w (map fst (c_words cs)).

Definition is_reserved (w : list Z) : cres bool :=
  match is_nbit w with
  | COk (Some _) => COk true
  | COk None => COk (in_strings w reserved_words || list_eqb w [10] || in_strings w input_parser_words
                     || (match lookup_string w dtype_words with Some _ => true | None => false end)
                     || (match lookup_string w builtin_words with Some _ => true | None => false end)
                     || in_strings w unsupported_words)
  | CErr => CErr | CErrOther => CErrOther | CUnsupported => CUnsupported | CFuel => CFuel
  end.

(* the test guarding every new name; true = the name is rejected *)
Definition name_taken (cs : cstate) (name : list Z) : cres bool :=
  if is_input cs name || is_output cs name || is_variable cs name || is_defined cs name then COk true
  else match is_reserved name with
       | COk true => COk true
       | COk false => match is_integer name with IOk _ => COk true | IInvalid => COk false | IRange => CErrOther end
       | other => other
       end.

(* ---- the nesting scanners: `while (nesting > 0) { substop++; if (substop >= stop) throw; ... }` *)
Fixpoint scan {A} (fuel : nat) (toks : list (list Z)) (stop substop nesting : Z) (aux : A)
         (upd : list Z -> Z -> Z -> A -> Z * A) : option (Z * A) :=
  match fuel with
  | O => None
  | S f =>
    let substop := substop + 1 in
    if stop <=? substop then None
    else match znth toks substop with
         | None => None
         | Some t => let '(nesting', aux') := upd t substop nesting aux in
                     if 0 <? nesting' then scan f toks stop substop nesting' aux' upd else Some (substop, aux')
         end
  end.

Definition upd_pair (opn cls : string) (t : list Z) (_ n : Z) (a : unit) : Z * unit :=
  if teq t opn then (n + 1, a) else if teq t cls then (n - 1, a) else (n, a).

Definition upd_if (t : list Z) (substop n : Z) (subelse : Z) : Z * Z :=
  if teq t "if" then (n + 1, subelse)
  else if teq t "then" then (n - 1, subelse)
  else if teq t "else" && (n =? 1) then (n, substop)
  else (n, subelse).

Definition upd_do (t : list Z) (_ n : Z) (is_step : bool) : Z * bool :=
  if teq t "do" then (n + 1, is_step)
  else if teq t "loop" then (n - 1, is_step)
  else if teq t "+loop" then (n - 1, if n =? 1 then true else is_step)
  else (n, is_step).

(* begin ... : returns (substop, is_again, subwhile) *)
Fixpoint scan_begin (fuel : nat) (toks : list (list Z)) (stop substop nesting : Z) (is_again : bool) (subwhile : Z)
  : option (Z * bool * Z) :=
  match fuel with
  | O => None
  | S f =>
    let substop := substop + 1 in
    if stop <=? substop then None
    else match znth toks substop with
         | None => None
         | Some t =>
           let next (substop nesting : Z) (is_again : bool) (subwhile : Z) :=
             if 0 <? nesting then scan_begin f toks stop substop nesting is_again subwhile
             else Some (substop, is_again, subwhile) in
           if teq t "begin" then next substop (nesting + 1) is_again subwhile
           else if teq t "until" then next substop (nesting - 1) is_again subwhile
           else if teq t "again" then next substop (nesting - 1) (if nesting =? 1 then true else is_again) subwhile
           else if teq t "while" then
             let subwhile' := if nesting =? 1 then substop else subwhile in
             match scan f toks stop substop 1 tt (upd_pair "while" "repeat") with
             | None => None
             | Some (substop', _) => next substop' (nesting - 1) is_again subwhile'
             end
           else next substop nesting is_again subwhile
         end
  end.

Definition add_seg (cs : cstate) : Z * cstate :=
  (zlen (c_segs cs), mkC (c_segs cs ++ [[]]) (c_words cs) (c_vars cs) (c_ins cs) (c_outs cs)).
Definition set_seg (cs : cstate) (idx : Z) (body : list Z) : cstate :=
  match zupd (c_segs cs) idx body with
  | Some s => mkC s (c_words cs) (c_vars cs) (c_ins cs) (c_outs cs)
  | None => cs
  end.

(* the read words after an input name: returns the flag bits and nbits *)
Definition parse_reader (tok : list Z) : cres (Z * Z) :=
  let '(f1, p1) := match tok with 35 :: t => (READ_REPEATED, t) | _ => (0, tok) end in
  let '(f2, p2) := match p1 with 33 :: t => (READ_BIGENDIAN, t) | _ => (0, p1) end in
  let flags := f1 + f2 in
  match p2 with
  | [] => CErr
  | c :: rest =>
    if teq p2 "varint->" then COk (flags + READ_VARINT, 0)
    else if teq p2 "zigzag->" then COk (flags + READ_ZIGZAG, 0)
    else match is_nbit p2 with
         | COk (Some n) => if 31 <? n then CUnsupported else COk (flags + READ_NBIT, n)
         | COk None =>
           let fmt :=
             if c =? 63 then Some READ_BOOL else if c =? 98 then Some READ_INT8 else if c =? 104 then Some READ_INT16
             else if c =? 105 then Some READ_INT32 else if c =? 113 then Some READ_INT64
             else if c =? 110 then Some READ_INTP else if c =? 66 then Some READ_UINT8
             else if c =? 72 then Some READ_UINT16 else if c =? 73 then Some READ_UINT32
             else if c =? 81 then Some READ_UINT64 else if c =? 78 then Some READ_UINTP
             else if c =? 102 then Some READ_FLOAT32 else if c =? 100 then Some READ_FLOAT64 else None in
           match fmt with
           | Some f => if teq rest "->" then
                         if (f =? READ_FLOAT32) || (f =? READ_FLOAT64) then CUnsupported else COk (flags + f, 0)
                       else CErr
           | None => CErr
           end
         | CErr => CErr | CErrOther => CErrOther | CUnsupported => CUnsupported | CFuel => CFuel
         end
  end.

Definition tok_is (toks : list (list Z)) (stop i : Z) (s : string) : bool :=
  (i <? stop) && match znth toks i with Some t => teq t s | None => false end.

(* ForthMachineOf::parse *)
Fixpoint parse (fuel : nat) (toks : list (list Z)) (defn : list Z) (pos stop exitdepth dodepth : Z)
         (bcs : list Z) (cs : cstate) : cres (list Z * cstate) :=
  match fuel with
  | O => CFuel
  | S f =>
    if stop <=? pos then COk (bcs, cs)
    else
    match znth toks pos with
    | None => CErr
    | Some word =>
      let again (pos' : Z) (bcs' : list Z) (cs' : cstate) := parse f toks defn pos' stop exitdepth dodepth bcs' cs' in
      let n_toks := length toks in
      (* parse a sub-range into a fresh segment; k receives its bytecode and the new state *)
      let sub (defn' : list Z) (a b ed dd : Z) (cs0 : cstate) (k : Z -> cstate -> cres (list Z * cstate)) :=
        let '(idx, cs1) := add_seg cs0 in
        match parse f toks defn' a b ed dd [] cs1 with
        | COk (body, cs2) => k (idx + BOUND_DICTIONARY) (set_seg cs2 idx body)
        | other => other
        end in
      let declare (k : list Z -> cres (list Z * cstate)) :=
        match znth toks (pos + 1) with
        | None => CErr
        | Some name => match name_taken cs name with
                       | COk true => CErr
                       | COk false => k name
                       | CErr => CErr | CErrOther => CErrOther | CUnsupported => CUnsupported | CFuel => CFuel
                       end
        end in
      if in_strings word unsupported_words then CUnsupported
      else if teq word "(" then
        match scan n_toks toks stop pos 1 tt (upd_pair "(" ")") with
        | Some (substop, _) => again (substop + 1) bcs cs
        | None => CErr
        end
      else if teq word "\" then
        (* skip to the newline token (or to stop) *)
        let fix skip (k : nat) (i : Z) : Z :=
          match k with
          | O => i
          | S k' => if (i <? stop) && negb (match znth toks i with Some t => list_eqb t [10] | None => true end)
                    then skip k' (i + 1) else i
          end in
        again (skip n_toks pos + 1) bcs cs
      else if list_eqb word [10] then again (pos + 1) bcs cs
      else if teq word ":" then
        if (stop <=? pos + 1) || tok_is toks stop (pos + 1) ";" then CErr
        else declare (fun name =>
          match scan n_toks toks stop (pos + 1) 1 tt (upd_pair ":" ";") with
          | None => CErr
          | Some (substop, _) =>
            let bytecode := zlen (c_segs cs) + BOUND_DICTIONARY in
            let cs0 := mkC (c_segs cs) (c_words cs ++ [(name, bytecode)]) (c_vars cs) (c_ins cs) (c_outs cs) in
            sub name (pos + 2) substop 0 0 cs0 (fun _ cs3 => again (substop + 1) bcs cs3)
          end)
      else if teq word "recurse" then
        match defn with
        | [] => CErr
        | _ => again (pos + 1) (bcs ++ map snd (filter (fun nb => list_eqb (fst nb) defn) (c_words cs))) cs
        end
      else if teq word "variable" then
        if stop <=? pos + 1 then CErr
        else declare (fun name =>
          again (pos + 2) bcs (mkC (c_segs cs) (c_words cs) (c_vars cs ++ [name]) (c_ins cs) (c_outs cs)))
      else if teq word "input" then
        if stop <=? pos + 1 then CErr
        else declare (fun name =>
          again (pos + 2) bcs (mkC (c_segs cs) (c_words cs) (c_vars cs) (c_ins cs ++ [name]) (c_outs cs)))
      else if teq word "output" then
        if stop <=? pos + 2 then CErr
        else declare (fun name =>
          match znth toks (pos + 2) with
          | None => CErr
          | Some dt => match lookup_string dt dtype_words with
                       | Some d => again (pos + 3) bcs
                                         (mkC (c_segs cs) (c_words cs) (c_vars cs) (c_ins cs) (c_outs cs ++ [(name, d)]))
                       | None => CErr
                       end
          end)
      else if teq word "halt" then again (pos + 1) (bcs ++ [CODE_HALT]) cs
      else if teq word "pause" then again (pos + 1) (bcs ++ [CODE_PAUSE]) cs
      else if teq word "if" then
        match scan n_toks toks stop pos 1 (-1) upd_if with
        | None => CErr
        | Some (substop, subelse) =>
          if subelse =? -1 then
            sub defn (pos + 1) substop (exitdepth + 1) dodepth cs (fun bc cs3 =>
              again (substop + 1) (bcs ++ [CODE_IF; bc]) cs3)
          else
            sub defn (pos + 1) subelse (exitdepth + 1) dodepth cs (fun bc1 cs3 =>
              sub defn (subelse + 1) substop (exitdepth + 1) dodepth cs3 (fun bc2 cs4 =>
                again (substop + 1) (bcs ++ [CODE_IF_ELSE; bc1; bc2]) cs4))
        end
      else if teq word "do" then
        match scan n_toks toks stop pos 1 false upd_do with
        | None => CErr
        | Some (substop, is_step) =>
          sub defn (pos + 1) substop (exitdepth + 1) (dodepth + 1) cs (fun bc cs3 =>
            again (substop + 1) (bcs ++ [if is_step then CODE_DO_STEP else CODE_DO; bc]) cs3)
        end
      else if teq word "begin" then
        match scan_begin n_toks toks stop pos 1 false (-1) with
        | None => CErr
        | Some (substop, is_again, subwhile) =>
          if is_again then
            sub defn (pos + 1) substop (exitdepth + 1) dodepth cs (fun bc cs3 =>
              again (substop + 1) (bcs ++ [bc; CODE_AGAIN]) cs3)
          else if subwhile =? -1 then
            sub defn (pos + 1) substop (exitdepth + 1) dodepth cs (fun bc cs3 =>
              again (substop + 1) (bcs ++ [bc; CODE_UNTIL]) cs3)
          else
            sub defn (pos + 1) subwhile (exitdepth + 1) dodepth cs (fun bc1 cs3 =>
              sub defn (subwhile + 1) substop (exitdepth + 1) dodepth cs3 (fun bc2 cs4 =>
                again (substop + 1) (bcs ++ [bc1; CODE_WHILE; bc2]) cs4))
        end
      else if teq word "exit" then again (pos + 1) (bcs ++ [CODE_EXIT; wrap 32 exitdepth]) cs
      else if is_variable cs word then
        match index_of word (c_vars cs) 0 with
        | None => CErr
        | Some vi =>
          if tok_is toks stop (pos + 1) "!" then again (pos + 2) (bcs ++ [CODE_PUT; vi]) cs
          else if tok_is toks stop (pos + 1) "+!" then again (pos + 2) (bcs ++ [CODE_INC; vi]) cs
          else if tok_is toks stop (pos + 1) "@" then again (pos + 2) (bcs ++ [CODE_GET; vi]) cs
          else CErr
        end
      else if is_input cs word then
        match index_of word (c_ins cs) 0 with
        | None => CErr
        | Some ii =>
          if tok_is toks stop (pos + 1) "len" then again (pos + 2) (bcs ++ [CODE_LEN_INPUT; ii]) cs
          else if tok_is toks stop (pos + 1) "pos" then again (pos + 2) (bcs ++ [CODE_POS; ii]) cs
          else if tok_is toks stop (pos + 1) "end" then again (pos + 2) (bcs ++ [CODE_END; ii]) cs
          else if tok_is toks stop (pos + 1) "seek" then again (pos + 2) (bcs ++ [CODE_SEEK; ii]) cs
          else if tok_is toks stop (pos + 1) "skip" then again (pos + 2) (bcs ++ [CODE_SKIP; ii]) cs
          else if pos + 1 <? stop then
            match znth toks (pos + 1) with
            | None => CErr
            | Some rd =>
              match parse_reader rd with
              | COk (flags, nbits) =>
                let tail := if 0 <? nbits then [nbits] else [] in
                if tok_is toks stop (pos + 2) "stack" then
                  again (pos + 3) (bcs ++ [- flags - 1; ii] ++ tail) cs
                else if pos + 2 <? stop then
                  match znth toks (pos + 2) with
                  | Some o => match index_of o (map fst (c_outs cs)) 0 with
                              | Some oi => again (pos + 3) (bcs ++ [- (flags + READ_DIRECT) - 1; ii] ++ tail ++ [oi]) cs
                              | None => CErr
                              end
                  | None => CErr
                  end
                else CErr
              | CErr => CErr | CErrOther => CErrOther | CUnsupported => CUnsupported | CFuel => CFuel
              end
            end
          else CErr
        end
      else if is_output cs word then
        match index_of word (map fst (c_outs cs)) 0 with
        | None => CErr
        | Some oi =>
          if tok_is toks stop (pos + 1) "<-" then
            if tok_is toks stop (pos + 2) "stack" then again (pos + 3) (bcs ++ [CODE_WRITE; oi]) cs else CErr
          else if tok_is toks stop (pos + 1) "+<-" then
            if tok_is toks stop (pos + 2) "stack" then again (pos + 3) (bcs ++ [CODE_WRITE_ADD; oi]) cs else CErr
          else if tok_is toks stop (pos + 1) "dup" then again (pos + 2) (bcs ++ [CODE_WRITE_DUP; oi]) cs
          else if tok_is toks stop (pos + 1) "len" then again (pos + 2) (bcs ++ [CODE_LEN_OUTPUT; oi]) cs
          else if tok_is toks stop (pos + 1) "rewind" then again (pos + 2) (bcs ++ [CODE_REWIND; oi]) cs
          else CErr
        end
      else
        match lookup_string word builtin_words with
        | Some code =>
          if ((code =? CODE_I) && (dodepth <? 1)) || ((code =? CODE_J) && (dodepth <? 2))
             || ((code =? CODE_K) && (dodepth <? 3)) then CErr
          else again (pos + 1) (bcs ++ [code]) cs
        | None =>
          match filter (fun nb => list_eqb (fst nb) word) (c_words cs) with
          | (_ :: _) as found => again (pos + zlen found) (bcs ++ map snd found) cs
          | [] => match is_integer word with
                  | IOk num => again (pos + 1) (bcs ++ [CODE_LITERAL; wrap 32 num]) cs
                  | IInvalid => CErr
                  | IRange => CErrOther
                  end
          end
        end
    end
  end.

Definition compile (w stack_max rec_max : Z) (src : list Z) : cres prog :=
  let toks := tokenize src in
  let n := zlen toks in
  if existsb (fun t => teq t "."""%string || teq t "s"""%string) toks then CUnsupported else   (* string tokenisation *)
  match parse (S (S (length toks))) toks [] 0 n 0 0 [] (mkC [[]] [] [] [] []) with
  | COk (main, cs) =>
    let cs' := set_seg cs 0 main in
    COk (mkProg w (c_segs cs') (c_words cs') (c_vars cs') (c_ins cs') (c_outs cs') stack_max rec_max)
  | CErr => CErr | CErrOther => CErrOther | CUnsupported => CUnsupported | CFuel => CFuel
  end.

(* ================================================================== the public API *)
Definition zeros {A} (l : list A) : list Z := map (fun _ => 0) l.

(* ForthMachineOf::reset *)
Definition api_reset (p : prog) (m : machine) : machine :=
  mkM [] (zeros (m_vars m)) [] [] [] [] [] false E_none.

Definition init_machine (p : prog) : machine := mkM [] (zeros (p_vars p)) [] [] [] [] [] false E_none.

(* ForthMachineOf::begin(inputs); the inputs were found (env) *)
Definition api_begin (p : prog) (e : env) (m : machine) : result machine :=
  if p_rec_max p <? 1 then Fault F_recmax                  (* bytecodes_pointer_push writes current_which_[0] *)
  else Ok (mkM [] (zeros (m_vars m)) (zeros (e_inputs e)) (map (fun _ => []) (p_outs p)) [(0, 0)] [] [0] true E_none).

(* if (recursion_current_depth_ == recursion_target_depth_.top()) recursion_target_depth_.pop(); *)
Definition pop_target (m : machine) : result machine :=
  match m_targets m with
  | [] => Fault F_internal
  | t :: r => Ok (if depth m =? t then set_targets m r else m)
  end.

Definition run_and_pop (fuel : nat) (fixed single : bool) (p : prog) (e : env) (m : machine) : result machine :=
  match m_targets m with
  | [] => Fault F_internal
  | t :: _ => match internal_run fuel fixed single p e t m with
              | Ok m1 => pop_target m1
              | other => other
              end
  end.

Definition step_fuel (m : machine) : nat := S (S (length (m_frames m) + length (m_dos m))).

(* step() *)
Definition api_step (fixed : bool) (p : prog) (e : env) (m : machine) : result machine :=
  if negb (m_ready m) then Ok (set_err m E_not_ready)
  else match m_targets m with
       | [] => Ok (set_err m E_is_done)
       | _ :: _ => if negb (m_err m =? E_none) then Ok m else run_and_pop (step_fuel m) fixed true p e m
       end.

(* resume() *)
Definition api_resume (fuel : nat) (fixed : bool) (p : prog) (e : env) (m : machine) : result machine :=
  if negb (m_ready m) then Ok (set_err m E_not_ready)
  else match m_targets m with
       | [] => Ok (set_err m E_is_done)
       | _ :: _ => if negb (m_err m =? E_none) then Ok m else run_and_pop fuel fixed false p e m
       end.

(* run(inputs) *)
Definition api_run (fuel : nat) (fixed : bool) (p : prog) (e : env) (m : machine) : result machine :=
  match api_begin p e m with
  | Ok m1 => run_and_pop fuel fixed false p e m1
  | other => other
  end.

(* call(index) *)
Definition api_call (fuel : nat) (fixed : bool) (p : prog) (e : env) (m : machine) (segment : Z) : result machine :=
  if negb (m_ready m) then Ok (set_err m E_not_ready)
  else if negb (m_err m =? E_none) then Ok m
  else if p_rec_max p <=? depth m then Fault F_calldepth      (* bytecodes_pointer_push without a bound check *)
  else run_and_pop fuel fixed false p e
                   (set_frames (set_targets m (depth m :: m_targets m)) ((segment, 0) :: m_frames m)).

Definition is_done (m : machine) : bool := match m_targets m with [] => true | _ => false end.

(* ================================================================== sessions (what the drivers execute) *)
Inductive seg := SRun | SBegin | SReset | SStep | SSteps (k : Z) | SResume | SCall (name : list Z)
                | SStepAll (cap : Z)    (* step while ready, not done and no error, at most cap times *)
                | SFinish (cap : Z).    (* resume while ready, not done and no error (i.e. paused), at most cap times *)

Inductive sres :=
| SOk (m : machine) (rets_rev : list Z)
| SErrValue          (* std::invalid_argument from an API call *)
| SErrRuntime        (* std::runtime_error from an API call *)
| SFault (kind : Z)
| SFuel.

Fixpoint steps (n : nat) (fixed : bool) (p : prog) (e : env) (m : machine) (rets : list Z) : result (machine * list Z) :=
  match n with
  | O => Ok (m, rets)
  | S k => match api_step fixed p e m with
           | Ok m1 => steps k fixed p e m1 (m_err m1 :: rets)
           | Fault k => Fault k
           | OutOfFuel => OutOfFuel
           end
  end.

Definition can_go (m : machine) : bool := m_ready m && negb (is_done m) && (m_err m =? E_none).

Fixpoint stepall (n : nat) (fixed : bool) (p : prog) (e : env) (m : machine) (rets : list Z) : result (machine * list Z) :=
  match n with
  | O => Ok (m, rets)
  | S k => if can_go m then
             match api_step fixed p e m with
             | Ok m1 => stepall k fixed p e m1 (m_err m1 :: rets)
             | Fault k => Fault k
             | OutOfFuel => OutOfFuel
             end
           else Ok (m, rets)
  end.

Fixpoint finish (n : nat) (fuel : nat) (fixed : bool) (p : prog) (e : env) (m : machine) (rets : list Z)
  : result (machine * list Z) :=
  match n with
  | O => Ok (m, rets)
  | S k => if can_go m then
             match api_resume fuel fixed p e m with
             | Ok m1 => finish k fuel fixed p e m1 (m_err m1 :: rets)
             | Fault k => Fault k
             | OutOfFuel => OutOfFuel
             end
           else Ok (m, rets)
  end.

Definition lift (r : result machine) (rets : list Z) (k : machine -> list Z -> sres) : sres :=
  match r with Ok m => k m (m_err m :: rets) | Fault k => SFault k | OutOfFuel => SFuel end.

Fixpoint run_segs (fuel : nat) (fixed : bool) (p : prog) (e : option env) (segs : list seg) (m : machine) (rets : list Z)
  : sres :=
  match segs with
  | [] => SOk m rets
  | s :: rest =>
    let next m' rets' := run_segs fuel fixed p e rest m' rets' in
    (* step / resume / call do not touch the inputs when they are refused; begin / run need them *)
    let e0 := match e with Some e' => e' | None => mkEnv [] end in
    match s with
    | SRun => match e with
              | None => SErrValue
              | Some e' => lift (api_run fuel fixed p e' m) rets next
              end
    | SBegin => match e with
                | None => SErrValue
                | Some e' => match api_begin p e' m with Ok m1 => next m1 rets | Fault k => SFault k | OutOfFuel => SFuel end
                end
    | SReset => next (api_reset p m) rets
    | SStep => lift (api_step fixed p e0 m) rets next
    | SSteps k => match steps (Z.to_nat k) fixed p e0 m rets with
                  | Ok (m1, rets1) => next m1 rets1
                  | Fault k => SFault k
                  | OutOfFuel => SFuel
                  end
    | SResume => lift (api_resume fuel fixed p e0 m) rets next
    | SStepAll k => match stepall (Z.to_nat k) fixed p e0 m rets with
                    | Ok (m1, rets1) => next m1 rets1
                    | Fault k => SFault k
                    | OutOfFuel => SFuel
                    end
    | SFinish k => match finish (Z.to_nat k) fuel fixed p e0 m rets with
                   | Ok (m1, rets1) => next m1 rets1
                   | Fault k => SFault k
                   | OutOfFuel => SFuel
                   end
    | SCall name => match filter (fun nb => list_eqb (fst nb) name) (p_words p) with
                    | (_, bc) :: _ => lift (api_call fuel fixed p e0 m (bc - BOUND_DICTIONARY)) rets next
                    | [] => SErrRuntime
                    end
    end
  end.

(* find the byte strings of the declared inputs among the provided ones *)
Fixpoint assoc (n : list Z) (l : list (list Z * list Z)) : option (list Z) :=
  match l with [] => None | (k, v) :: t => if list_eqb k n then Some v else assoc n t end.
Fixpoint gather (names : list (list Z)) (given : list (list Z * list Z)) : option (list (list Z)) :=
  match names with
  | [] => Some []
  | n :: t => match assoc n given, gather t given with
              | Some v, Some r => Some (v :: r)
              | _, _ => None
              end
  end.

Definition session (fuel : nat) (fixed : bool) (p : prog) (given : list (list Z * list Z)) (segs : list seg) : sres :=
  run_segs fuel fixed p (match gather (p_ins p) given with Some i => Some (mkEnv i) | None => None end)
           segs (init_machine p) [].

(* ================================================================== compositions of API calls used in the statements *)
(* resume through pauses until the program is done, halted or in error; at most n resume calls *)
Fixpoint complete (n fuel : nat) (fixed : bool) (p : prog) (e : env) (m : machine) : result machine :=
  match n with
  | O => OutOfFuel
  | S k => if can_go m then
             match api_resume fuel fixed p e m with
             | Ok m1 => complete k fuel fixed p e m1
             | other => other
             end
           else Ok m
  end.

(* a client that only calls step / resume while the machine can go on *)
Inductive gseg := GStep | GResume (fuel : nat).

Definition apply_seg (fixed : bool) (p : prog) (e : env) (s : gseg) (m : machine) : result machine :=
  if can_go m then
    match s with GStep => api_step fixed p e m | GResume fuel => api_resume fuel fixed p e m end
  else Ok m.

Fixpoint apply_segs (fixed : bool) (p : prog) (e : env) (segs : list gseg) (m : machine) : result machine :=
  match segs with
  | [] => Ok m
  | s :: rest => match apply_seg fixed p e s m with
                 | Ok m1 => apply_segs fixed p e rest m1
                 | other => other
                 end
  end.

Definition iter_step (fixed : bool) (p : prog) (e : env) (k : nat) (m : machine) : result machine :=
  apply_segs fixed p e (repeat GStep k) m.

(* ================================================================== ForthOutputBufferOf<OUT>: the growable array *)
(* `data` is the allocated array (length = reserved_), `len` = length_.  `grow r` = (int64_t)ceil(r * resize_);
   `junk` stands for the unspecified content of freshly allocated memory. *)
Record gbuf := mkG { g_data : list Z; g_len : Z; g_res : Z }.

Definition g_new (initial junk : Z) : gbuf := mkG (replicate (Z.to_nat initial) junk) 0 initial.

Fixpoint grow_until (fuel : nat) (grow : Z -> Z) (next res : Z) : option Z :=
  match fuel with
  | O => None
  | S f => if res <? next then grow_until f grow next (grow res) else Some res
  end.

Inductive gres := GOk (g : gbuf) | GErr (err : Z) | GFault (kind : Z) | GFuel.

(* maybe_resize(next) *)
Definition g_maybe_resize (grow : Z -> Z) (junk : Z) (g : gbuf) (next : Z) : gres :=
  if g_res g <? next then
    match grow_until (S (Z.to_nat next)) grow next (g_res g) with
    | Some r => GOk (mkG (g_data g ++ replicate (Z.to_nat (r - g_res g)) junk) (g_len g) r)
    | None => GFuel
    end
  else GOk g.

(* ptr_[at + i] = vs[i] *)
Fixpoint g_store (data : list Z) (at_ : Z) (vs : list Z) : option (list Z) :=
  match vs with
  | [] => Some data
  | v :: t => match zupd data at_ v with Some d => g_store d (at_ + 1) t | None => None end
  end.

Definition g_apply (grow : Z -> Z) (junk : Z) (g : gbuf) (op : bop) : gres :=
  match op with
  | BWrite vs_rev =>
    (* write_one: length_++; maybe_resize(length_); ptr_[length_-1] = v.  write_copy: next = length_ + n; maybe_resize(next); copy *)
    let next := g_len g + zlen vs_rev in
    match g_maybe_resize grow junk g next with
    | GOk g1 => match g_store (g_data g1) (g_len g) (rev vs_rev) with
                | Some d => GOk (mkG d next (g_res g1))
                | None => GFault F_internal
                end
    | other => other
    end
  | BAdd d v =>
    let previous := if g_len g =? 0 then Some 0 else znth (g_data g) (g_len g - 1) in
    match previous with
    | None => GFault F_internal
    | Some prev =>
      let next := g_len g + 1 in
      match g_maybe_resize grow junk g next with
      | GOk g1 => match zupd (g_data g1) (next - 1) (add_out d prev v) with
                  | Some dt => GOk (mkG dt next (g_res g1))
                  | None => GFault F_internal
                  end
      | other => other
      end
    end
  | BDup n =>
    if g_len g =? 0 then GErr E_rewind_beyond
    else if 0 <? n then
      let next := g_len g + n in
      match g_maybe_resize grow junk g next with
      | GOk g1 => match znth (g_data g1) (g_len g - 1) with
                  | Some value => match g_store (g_data g1) (g_len g) (replicate (Z.to_nat n) value) with
                                  | Some d => GOk (mkG d next (g_res g1))
                                  | None => GFault F_internal
                                  end
                  | None => GFault F_internal
                  end
      | other => other
      end
    else GOk g
  | BRewind n =>
    let next := g_len g - n in
    if (n <? 0) || (next <? 0) then GErr E_rewind_beyond
    else GOk (mkG (g_data g) next (g_res g))
  end.

(* what toNumpyArray() shows, most recent first *)
Definition g_abs (g : gbuf) : outbuf := rev (firstn (Z.to_nat (g_len g)) (g_data g)).

Fixpoint g_run (grow : Z -> Z) (junk : Z) (g : gbuf) (ops : list bop) : gres :=
  match ops with
  | [] => GOk g
  | op :: rest => match g_apply grow junk g op with GOk g1 => g_run grow junk g1 rest | other => other end
  end.

Fixpoint buf_run (b : outbuf) (ops : list bop) : bres :=
  match ops with
  | [] => BOk b
  | op :: rest => match buf_apply b op with BOk b1 => buf_run b1 rest | other => other end
  end.

(* ================================================================== when is a single step of the pinned tree harmless? *)
(* The pinned tree differs from the patched one only in what happens at the END of a single step:
   (1) the finished segment is popped WITHOUT the do-loop bookkeeping, (2) `exit` does not pop the word.
   `end_of_step_plain m2`: popping the finished segment of m2 involves no do-loop bookkeeping (or nothing is popped). *)
Definition end_of_step_plain (p : prog) (t : Z) (m2 : machine) : bool :=
  match segment_done p m2 with
  | Ok true => negb (depth m2 =? t) &&
               match m_dos m2 with
               | (dd, _, _) :: _ => negb (abs_depth dd =? depth m2 - 1)      (* the segment is not a do-loop body *)
               | [] => true
               end
  | Ok false => true
  | _ => negb (depth m2 =? t)
  end.

(* follows the control flow of internal_run in single-step mode up to the instruction the step executes *)
Fixpoint step_clean (fuel : nat) (p : prog) (e : env) (t : Z) (m : machine) : bool :=
  match fuel with
  | O => true
  | S f =>
    if depth m =? t then true
    else match segment_done p m with
         | Ok true => match pop_incr m with Ok (Continue, m1) => step_clean f p e t m1 | _ => true end
         | Ok false =>
           match fetch_instr p m with
           | Ok (LoopEnd m1) => step_clean f p e t m1
           | Ok (Instr bytecode m1) =>
             if bytecode =? CODE_EXIT then false
             else match exec_op true true p e m1 bytecode with
                  | Ok (Continue, m2) => end_of_step_plain p t m2
                  | _ => true
                  end
           | _ => true
           end
         | _ => true
         end
  end.

Definition api_step_clean (p : prog) (e : env) (m : machine) : bool :=
  match m_targets m with
  | t :: _ => step_clean (step_fuel m) p e t m
  | [] => true
  end.

(* every one of the next k (guarded, patched) steps is harmless on the pinned tree *)
Fixpoint clean_run (k : nat) (p : prog) (e : env) (m : machine) : bool :=
  match k with
  | O => true
  | S k' => if can_go m then
              api_step_clean p e m &&
              match api_step true p e m with Ok m1 => clean_run k' p e m1 | _ => true end
            else true
  end.
