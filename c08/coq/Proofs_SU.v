(** C08: simplify_uniontype(merge = false): flattening nested unions keeps every value. *)
From Coq Require Import ZArith List Bool Lia ZifyBool.
From AwkV Require Import Base Layout LayoutInd Valid Types Carry Proofs_C11.
From AwkMerge Require Import Merge Lemmas_C08 Proofs_C08 Proofs_MM Proofs_Simplify.
Import ListNotations.
Open Scope Z_scope.

Definition lk (vss : list (list value)) (k j : Z) : res value := do v <- get vss k; get v j.

Lemma place_false mb contents x : place false mb contents x = Ok (zlen contents, 0, contents ++ [x]).
Proof. reflexivity. Qed.

(* what to_list of a union node says, pointwise *)
Lemma union_rows w tags index cs vs :
  to_list (Union w tags index cs) = Ok vs ->
  Forall tl_ok cs /\ zlen tags <= zlen index /\ zlen vs = zlen tags /\
  forall p t ix, get tags p = Ok t -> get index p = Ok ix ->
    exists v, get vs p = Ok v /\ lk (map vals cs) t ix = Ok v.
Proof.
  cbn [to_list]. rewrite all_fix_to_list. intros H.
  apply bind_ok in H. destruct H as (vss & Hvss & H).
  destruct (zlen index <? zlen tags) eqn:E; [discriminate|].
  assert (Htl : Forall tl_ok cs /\ vss = map vals cs).
  { clear -Hvss. apply mapM_ok_Forall2 in Hvss. induction Hvss; cbn; [split; [constructor|reflexivity]|].
    destruct IHHvss as [IH1 IH2]. split; [constructor; [eexists; eauto|exact IH1]|].
    f_equal; [symmetry; apply vals_ok; exact H | exact IH2]. }
  destruct Htl as [Htl ->].
  repeat split; auto; [lia| |].
  - apply mapM_zlen in H. rewrite H. apply zlen_zip_ge. lia.
  - intros p t ix Ht Hix. pose proof (get_zip _ _ _ _ _ Ht Hix) as Hz.
    destruct (get_mapM _ _ _ _ _ H Hz) as (v & Hv & Hg). exists v. split; auto.
Qed.

Section SU.
  Variables (tags index : list Z) (vs : list value).
  Hypothesis Hlen_ix : zlen tags <= zlen index.
  Hypothesis Hlen_vs : zlen vs = zlen tags.

  Definition row (p t ix : Z) (v : value) : Prop := get tags p = Ok t /\ get index p = Ok ix /\ get vs p = Ok v.

  (* [done t ix]: the rows already written *)
  Definition InvG (done : Z -> Z -> bool) (contents : list content) (s : st) : Prop :=
    zlen s = zlen tags /\ Forall tl_ok contents /\
    forall p t ix v, row p t ix v ->
      (done t ix = true -> exists k j, get s p = Ok (Some (k, j)) /\ lk (map vals contents) k j = Ok v) /\
      (done t ix = false -> get s p = Ok None).

  Lemma row_get_s p t ix v (s : st) : zlen s = zlen tags -> row p t ix v -> exists old, get s p = Ok old.
  Proof. intros Hs (Ht & _ & _). apply get_in_range. apply get_lt in Ht. lia. Qed.

  Lemma simp_one_len s k i b : zlen s = zlen tags -> zlen (simp_one s tags index k i b) = zlen tags.
  Proof.
    intros Hs. unfold simp_one. rewrite zlen_map.
    rewrite zlen_zip_ge; rewrite zlen_zip_ge; lia.
  Qed.
  Lemma simp_one_get s k i b p t ix v old :
    row p t ix v -> get s p = Ok old ->
    get (simp_one s tags index k i b) p = Ok (if t =? i then Some (k, ix + b) else old).
  Proof.
    intros (Ht & Hix & _) Hold. unfold simp_one.
    pose proof (get_zip _ _ _ _ _ (get_zip _ _ _ _ _ Ht Hix) Hold) as Hz.
    apply (get_map (fun x : Z * Z * option (Z * Z) =>
                      let '(t0, i0, old0) := x in if t0 =? i then Some (k, i0 + b) else old0)) in Hz.
    exact Hz.
  Qed.

  Lemma simp_in_len s itags iindex k j i b s' :
    zlen s = zlen tags -> simp_in s tags index itags iindex k j i b = Ok s' -> zlen s' = zlen tags.
  Proof.
    intros Hs H. unfold simp_in in H. apply mapM_zlen in H. rewrite H.
    rewrite zlen_zip_ge; rewrite zlen_zip_ge; lia.
  Qed.
  Lemma simp_in_get s itags iindex k j i b s' p t ix v old :
    simp_in s tags index itags iindex k j i b = Ok s' -> row p t ix v -> get s p = Ok old ->
    exists new, get s' p = Ok new /\
      (if t =? i then
         exists it, get itags ix = Ok it /\
           (if it =? j then exists ii, get iindex ix = Ok ii /\ new = Some (k, ii + b) else new = old)
       else new = old).
  Proof.
    intros H (Ht & Hix & _) Hold. unfold simp_in in H.
    pose proof (get_zip _ _ _ _ _ (get_zip _ _ _ _ _ Ht Hix) Hold) as Hz.
    destruct (get_mapM _ _ _ _ _ H Hz) as (new & Hnew & Hg). exists new. split; auto.
    cbn in Hnew. destruct (t =? i); [|inversion Hnew; reflexivity].
    apply bind_ok in Hnew. destruct Hnew as (it & Hit & Hnew). exists it. split; auto.
    destruct (it =? j); [|inversion Hnew; reflexivity].
    apply bind_ok in Hnew. destruct Hnew as (ii & Hii & Hnew). exists ii. split; auto. inversion Hnew; reflexivity.
  Qed.

  Lemma lk_app_l vss extra k j v : lk vss k j = Ok v -> lk (vss ++ extra) k j = Ok v.
  Proof.
    unfold lk. intros H. apply bind_ok in H. destruct H as (l & Hl & H).
    rewrite (get_app_l _ _ _ _ Hl). exact H.
  Qed.
  Lemma lk_snoc (cs : list content) x j : lk (map vals (cs ++ [x])) (zlen cs) j = get (vals x) j.
  Proof.
    unfold lk. rewrite map_app. cbn [map]. rewrite <- (zlen_map vals cs), get_snoc. reflexivity.
  Qed.

  (* ---- a plain (non-union) alternative ---- *)
  Lemma step_plain (cs0 : list content) i x contents s :
    (forall p t ix v, row p t ix v -> lk (map vals cs0) t ix = Ok v) ->
    get cs0 i = Ok x -> tl_ok x ->
    InvG (fun t _ => t <? i) contents s ->
    InvG (fun t _ => t <? i + 1) (contents ++ [x]) (simp_one s tags index (zlen contents) i 0).
  Proof.
    intros Horig Hx Htx (Hs & Htl & Hrows). split; [|split].
    - apply simp_one_len. exact Hs.
    - apply Forall_app. split; [exact Htl|constructor; [exact Htx|constructor]].
    - intros p t ix v Hr. destruct (row_get_s _ _ _ _ _ Hs Hr) as [old Hold].
      rewrite (simp_one_get _ _ _ _ _ _ _ _ _ Hr Hold).
      destruct (Hrows _ _ _ _ Hr) as [Hd Hn].
      destruct (t =? i) eqn:E.
      + assert (t = i) by lia. subst t. split; [|lia]. intros _.
        exists (zlen contents), (ix + 0). split; [reflexivity|].
        rewrite lk_snoc, Z.add_0_r. specialize (Horig _ _ _ _ Hr). unfold lk in Horig.
        rewrite (get_map vals _ _ _ Hx) in Horig. exact Horig.
      + split.
        * intros Hlt. destruct Hd as (k & j & Hk & Hlk); [lia|]. exists k, j. split; [congruence|].
          rewrite map_app. apply lk_app_l. exact Hlk.
        * intros Hge. rewrite <- Hold. apply Hn. lia.
  Qed.

  (* ---- a nested union: its alternatives one after the other ---- *)
  Definition itag_of (itags : list Z) (ix : Z) : Z := match get itags ix with Ok it => it | Err _ => -1 end.
  Definition done_in (itags : list Z) (i j : Z) (t ix : Z) : bool :=
    (t <? i) || ((t =? i) && (itag_of itags ix <? j)).

  Lemma inner_steps mb itags iindex ics i
        (Hval : forall p ix v, row p i ix v ->
                  exists it ii, get itags ix = Ok it /\ get iindex ix = Ok ii /\ lk (map vals ics) it ii = Ok v) :
    forall il ipre contents s r,
      ics = ipre ++ il -> Forall tl_ok il ->
      InvG (done_in itags i (zlen ipre)) contents s ->
      su_inner false mb tags index itags iindex i (zlen ipre) il contents s = Ok r ->
      InvG (done_in itags i (zlen ics)) (fst r) (snd r) /\ exists added, fst r = contents ++ added /\ added = il.
  Proof.
    induction il as [|y ys IH]; intros ipre contents s r Hics Htl Hinv H.
    - cbn in H. inversion H; subst. cbn [fst snd]. rewrite app_nil_r. split; [exact Hinv|].
      exists []. rewrite app_nil_r. auto.
    - cbn [su_inner] in H. rewrite place_false in H. cbn [bind] in H.
      apply bind_ok in H. destruct H as (s' & Hs' & H).
      pose proof (Forall_inv Htl) as Hty. pose proof (Forall_inv_tail Htl) as Htys.
      destruct Hinv as (Hs & Htlc & Hrows).
      assert (Hinv' : InvG (done_in itags i (zlen (ipre ++ [y]))) (contents ++ [y]) s').
      { split; [|split].
        - eapply simp_in_len; eauto.
        - apply Forall_app. split; [exact Htlc|constructor; [exact Hty|constructor]].
        - intros p t ix v Hr. destruct (row_get_s _ _ _ _ _ Hs Hr) as [old Hold].
          destruct (simp_in_get _ _ _ _ _ _ _ _ _ _ _ _ _ Hs' Hr Hold) as (new & Hnew & Hcase).
          destruct (Hrows _ _ _ _ Hr) as [Hd Hn].
          rewrite zlen_app. change (zlen [y]) with 1. unfold done_in in *.
          destruct (t =? i) eqn:E.
          + assert (t = i) by lia. subst t.
            destruct Hcase as (it & Hit & Hcase).
            assert (Hio : itag_of itags ix = it) by (unfold itag_of; now rewrite Hit).
            rewrite Hio in *.
            destruct (it =? zlen ipre) eqn:E2.
            * destruct Hcase as (ii & Hii & ->). split; [|lia]. intros _.
              exists (zlen contents), (ii + 0). split; [exact Hnew|].
              rewrite lk_snoc, Z.add_0_r.
              destruct (Hval _ _ _ Hr) as (it' & ii' & Hit' & Hii' & Hlk).
              assert (it' = it) by congruence. assert (ii' = ii) by congruence. subst it' ii'.
              unfold lk in Hlk. rewrite Hics in Hlk. assert (Hgy : get (map vals (ipre ++ y :: ys)) it = Ok (vals y)).
              { rewrite map_app. cbn [map]. replace it with (0 + zlen (map vals ipre)) by (rewrite zlen_map; lia).
                apply get_app_r; [lia|]. reflexivity. }
              rewrite Hgy in Hlk. exact Hlk.
            * subst new. split.
              -- intros Hdone. destruct Hd as (k & j & Hk & Hlk); [lia|]. exists k, j. split; [congruence|].
                 rewrite map_app. apply lk_app_l. exact Hlk.
              -- intros Hnd. rewrite Hnew, <- Hold. apply Hn. lia.
          + subst new. split.
            * intros Hdone. destruct Hd as (k & j & Hk & Hlk); [lia|]. exists k, j. split; [congruence|].
              rewrite map_app. apply lk_app_l. exact Hlk.
            * intros Hnd. rewrite Hnew, <- Hold. apply Hn. lia. }
      specialize (IH (ipre ++ [y]) (contents ++ [y]) s' r).
      rewrite zlen_app in IH. change (zlen [y]) with 1 in IH. rewrite <- app_assoc in IH. cbn [app] in IH.
      destruct (IH Hics Htys) as (Hfin & added & Hadd & Hadded).
      { rewrite zlen_app in Hinv'. exact Hinv'. }
      { exact H. }
      split; [exact Hfin|]. exists (y :: ys). rewrite Hadd, Hadded, <- app_assoc. auto.
  Qed.
End SU.

(* the alternatives after flattening one level *)
Definition flat1 (x : content) : list content :=
  match body x with Union _ _ _ ics => ics | _ => [x] end.
Definition flat_alts (cs : list content) : list content := concat (map flat1 cs).

Lemma InvG_ext tags index vs (d d' : Z -> Z -> bool) contents s :
  (forall p t ix v, row tags index vs p t ix v -> d t ix = d' t ix) ->
  InvG tags index vs d contents s -> InvG tags index vs d' contents s.
Proof.
  intros He (Hs & Htl & Hrows). split; [exact Hs|split; [exact Htl|]].
  intros p t ix v Hr. rewrite <- (He _ _ _ _ Hr). apply Hrows. exact Hr.
Qed.

Lemma valid_union_nostr x w t i cs : valid_b x = true -> body x = Union w t i cs ->
  is_strk (fst (params x)) = false /\ Forall (fun y => unionlike y = false) cs.
Proof.
  unfold valid_b. intros Hv Hb.
  assert (H : forall p, validb p (Union w t i cs) = true -> paramcheck p (Union w t i cs) = true /\ existsb unionlike cs = false).
  { intros p Hp. cbn [validb] in Hp. repeat (apply andb_true_iff in Hp; destruct Hp as [Hp ?]).
    split; [assumption|]. apply negb_true_iff. assumption. }
  assert (HE : forall l, existsb unionlike l = false -> Forall (fun y => unionlike y = false) l).
  { induction l; cbn; intros He; constructor; apply orb_false_iff in He; tauto. }
  destruct x; cbn [body] in Hb; try discriminate.
  - inversion Hb; subst. destruct (H _ Hv) as [_ He]. split; [reflexivity|apply HE; exact He].
  - subst x. cbn [validb] in Hv. destruct (H _ Hv) as [Hp He]. split; [|apply HE; exact He].
    cbn [params fst]. destruct arr as [[]|]; try reflexivity; cbn in Hp; discriminate.
Qed.
Lemma valid_plain_not_unionlike x : valid_b x = true -> (forall w t i cs, body x <> Union w t i cs) -> unionlike x = false.
Proof.
  unfold valid_b, unionlike. intros Hv Hb. destruct x; try reflexivity.
  - exfalso. eapply Hb. reflexivity.
  - cbn [validb] in Hv. cbn [strip]. destruct x; try reflexivity; try discriminate.
    exfalso. eapply Hb. reflexivity.
Qed.

Lemma su_loop_plain mb tags index i x xs contents s :
  (forall w t ix cs, body x <> Union w t ix cs) ->
  su_loop false mb tags index i (x :: xs) contents s
  = su_loop false mb tags index (i + 1) xs (contents ++ [x]) (simp_one s tags index (zlen contents) i 0).
Proof.
  intros Hb. cbn [su_loop]. destruct (body x); try reflexivity. exfalso. eapply Hb. reflexivity.
Qed.
Lemma su_loop_union mb tags index i x xs contents s w itags iindex ics :
  body x = Union w itags iindex ics ->
  su_loop false mb tags index i (x :: xs) contents s
  = (do r <- su_inner false mb tags index itags iindex i 0 ics contents s;
     su_loop false mb tags index (i + 1) xs (fst r) (snd r)).
Proof. intros Hb. cbn [su_loop]. rewrite Hb. reflexivity. Qed.

Section Outer.
  Variables (tags index : list Z) (vs : list value) (cs0 : list content) (mb : bool).
  Hypothesis Hlen_ix : zlen tags <= zlen index.
  Hypothesis Hlen_vs : zlen vs = zlen tags.
  Hypothesis Horig : forall p t ix v, row tags index vs p t ix v -> lk (map vals cs0) t ix = Ok v.
  Hypothesis Htl0 : Forall tl_ok cs0.
  Hypothesis Hval0 : Forall (fun x => valid_b x = true) cs0.

  Lemma outer_steps : forall l pre contents s r,
    cs0 = pre ++ l ->
    InvG tags index vs (fun t _ => t <? zlen pre) contents s ->
    su_loop false mb tags index (zlen pre) l contents s = Ok r ->
    InvG tags index vs (fun t _ => t <? zlen cs0) (fst r) (snd r) /\ fst r = contents ++ flat_alts l.
  Proof.
    induction l as [|x xs IH]; intros pre contents s r Hcs Hinv H.
    - cbn in H. inversion H; subst r. cbn [fst snd]. rewrite app_nil_r in Hcs. subst pre.
      split; [exact Hinv|]. unfold flat_alts. cbn. now rewrite app_nil_r.
    - assert (Hx : get cs0 (zlen pre) = Ok x).
      { rewrite Hcs. replace (zlen pre) with (0 + zlen pre) by lia. apply get_app_r; [lia|reflexivity]. }
      assert (Htx : tl_ok x) by (eapply Forall_forall in Htl0; [exact Htl0|]; rewrite Hcs; apply in_or_app; right; left; reflexivity).
      assert (Hvx : valid_b x = true) by (eapply Forall_forall in Hval0; [exact Hval0|]; rewrite Hcs; apply in_or_app; right; left; reflexivity).
      assert (Hcs' : cs0 = (pre ++ [x]) ++ xs) by (rewrite <- app_assoc; exact Hcs).
      destruct (body x) as [| | | | | | | | | |w' itags iindex ics| |] eqn:Eb;
        try (rewrite su_loop_plain in H by (rewrite Eb; discriminate);
             pose proof (step_plain tags index vs Hlen_ix cs0 (zlen pre) x contents s Horig Hx Htx Hinv) as Hstep;
             pose proof (IH (pre ++ [x]) (contents ++ [x]) (simp_one s tags index (zlen contents) (zlen pre) 0) r Hcs') as IH';
             rewrite zlen_app in IH'; change (zlen [x]) with 1 in IH';
             destruct (IH' Hstep H) as [Hfin Hcont];
             split; [exact Hfin|];
             rewrite Hcont, <- app_assoc; unfold flat_alts; cbn [map concat]; unfold flat1 at 2; rewrite Eb; reflexivity).
      rewrite (su_loop_union _ _ _ _ _ _ _ _ _ _ _ _ Eb) in H.
      (* a nested union *)
      apply bind_ok in H. destruct H as (r1 & Hr1 & H).
      destruct (valid_union_nostr _ _ _ _ _ Hvx Eb) as [Hns _].
      pose proof (tl_ok_vals _ Htx) as Hvx'. rewrite (to_list_nostr _ Hns), Eb in Hvx'.
      destruct (union_rows _ _ _ _ _ Hvx') as (Htli & Hli & Hlv & Hrowsi).
      assert (Hval : forall p ix v, row tags index vs p (zlen pre) ix v ->
                exists it ii, get itags ix = Ok it /\ get iindex ix = Ok ii /\ lk (map vals ics) it ii = Ok v).
      { intros p ix v Hr. specialize (Horig _ _ _ _ Hr). unfold lk in Horig.
        rewrite (get_map vals _ _ _ Hx) in Horig. cbn [bind] in Horig.
        pose proof (get_lt _ _ _ Horig) as Hrange.
        destruct (get_in_range itags ix) as [it Hit]; [lia|].
        destruct (get_in_range iindex ix) as [ii Hii]; [lia|].
        destruct (Hrowsi _ _ _ Hit Hii) as (v' & Hv' & Hlk). exists it, ii. repeat split; auto. congruence. }
      assert (Hinv0 : InvG tags index vs (done_in itags (zlen pre) (zlen (@nil content))) contents s).
      { eapply InvG_ext; [|exact Hinv]. intros p t ix v Hr. unfold done_in. change (zlen (@nil content)) with 0. cbn beta.
        destruct (t =? zlen pre) eqn:E; [|rewrite andb_false_l, orb_false_r; reflexivity].
        assert (t = zlen pre) by lia. subst t. destruct (Hval _ _ _ Hr) as (it & ii & Hit & _ & Hlk).
        unfold itag_of. rewrite Hit. unfold lk in Hlk. apply bind_ok in Hlk. destruct Hlk as (l0 & Hl0 & _).
        apply get_lt in Hl0. lia. }
      destruct (inner_steps tags index vs Hlen_ix mb itags iindex ics (zlen pre) Hval ics [] contents s r1 eq_refl Htli Hinv0 Hr1)
        as (Hinv1 & added & Hadd & Hadded).
      assert (Hinv2 : InvG tags index vs (fun t _ => t <? zlen pre + 1) (fst r1) (snd r1)).
      { eapply InvG_ext; [|exact Hinv1]. intros p t ix v Hr. unfold done_in. cbn beta.
        destruct (t =? zlen pre) eqn:E; [|rewrite andb_false_l, orb_false_r; lia].
        assert (t = zlen pre) by lia. subst t. destruct (Hval _ _ _ Hr) as (it & ii & Hit & _ & Hlk).
        unfold itag_of. rewrite Hit. unfold lk in Hlk. apply bind_ok in Hlk. destruct Hlk as (l0 & Hl0 & _).
        apply get_lt in Hl0. rewrite zlen_map in Hl0. lia. }
      pose proof (IH (pre ++ [x]) (fst r1) (snd r1) r Hcs') as IH'. rewrite zlen_app in IH'. change (zlen [x]) with 1 in IH'.
      destruct (IH' Hinv2 H) as [Hfin Hcont]. split; [exact Hfin|].
      rewrite Hcont, Hadd, Hadded, <- app_assoc. unfold flat_alts. cbn [map concat]. unfold flat1 at 2. rewrite Eb. reflexivity.
  Qed.
End Outer.

Lemma zip_fst_snd {A B} (l : list (A * B)) : zip (map fst l) (map snd l) = l.
Proof. induction l as [|[a b] l IH]; cbn; [reflexivity|]. now rewrite IH. Qed.

Lemma flat_alts_not_unionlike cs0 :
  Forall (fun x => valid_b x = true) cs0 -> Forall (fun y => unionlike y = false) (flat_alts cs0).
Proof.
  induction 1 as [|x xs Hx _ IH]; unfold flat_alts; cbn; [constructor|]. apply Forall_app. split; [|exact IH].
  unfold flat1. destruct (body x) eqn:Eb;
    try (constructor; [apply valid_plain_not_unionlike; [exact Hx|intros; congruence]|constructor]).
  destruct (valid_union_nostr _ _ _ _ _ Hx Eb) as [_ H]. exact H.
Qed.

(* (d) for unions: merge = False (no alternative is merged), any nesting of valid unions, >= 2 alternatives
   after flattening (with a single one the C++ carries that alternative; not covered) *)
Theorem simplify_union_value_pf : forall mb c w tags index cs0 vs c',
  body c = Union w tags index cs0 -> is_strk (fst (params c)) = false ->
  Forall (fun x => valid_b x = true) cs0 -> (2 <= length (flat_alts cs0))%nat ->
  to_list c = Ok vs -> simplify_union false mb c = Ok c' ->
  to_list c' = Ok vs /\
  exists t' i', body c' = Union I64 t' i' (flat_alts cs0) /\ Forall (fun y => unionlike y = false) (flat_alts cs0).
Proof.
  intros mb c w tags index cs0 vs c' Hb Hns Hval Hn Ht Hs.
  rewrite (to_list_nostr _ Hns), Hb in Ht.
  destruct (union_rows _ _ _ _ _ Ht) as (Htl0 & Hli & Hlv & Hrows).
  assert (Horig : forall p t ix v, row tags index vs p t ix v -> lk (map vals cs0) t ix = Ok v).
  { intros p t ix v (Hpt & Hpi & Hpv). destruct (Hrows _ _ _ Hpt Hpi) as (v' & Hv' & Hlk). congruence. }
  unfold simplify_union in Hs. rewrite Hb in Hs.
  destruct (zlen index <? zlen tags) eqn:E; [lia|].
  apply bind_ok in Hs. destruct Hs as ([cs s] & Hloop & Hs).
  assert (Hinv0 : InvG tags index vs (fun t _ => t <? zlen (@nil content)) [] (map (fun _ => None) tags)).
  { split; [apply zlen_map|split; [constructor|]]. intros p t ix v Hr. change (zlen (@nil content)) with 0.
    pose proof (Horig _ _ _ _ Hr) as Hlk0. unfold lk in Hlk0. apply bind_ok in Hlk0. destruct Hlk0 as (l0 & Hl0 & _).
    apply get_lt in Hl0. destruct Hr as (Hpt & _ & _).
    split; [intros; lia|]. intros _.
    apply (get_map (fun _ : Z => @None (Z * Z))) in Hpt. exact Hpt. }
  destruct (outer_steps tags index vs cs0 mb Hli Horig Htl0 Hval cs0 [] [] _ _ eq_refl Hinv0 Hloop) as [Hfin Hcont].
  cbn [fst snd app] in Hfin, Hcont. subst cs.
  destruct (127 <? zlen (flat_alts cs0)) eqn:E127; [discriminate|].
  apply bind_ok in Hs. destruct Hs as (ti & Hti & Hs).
  destruct (flat_alts cs0) as [|a1 [|a2 rest]] eqn:Efl; [cbn in Hn; lia|cbn in Hn; lia|].
  rewrite <- Efl in *. inversion Hs; subst c'. clear Hs.
  destruct Hfin as (Hsl & Htlc & Hfin).
  split.
  - rewrite to_list_mkpar by exact Hns. cbn [to_list]. rewrite all_fix_to_list.
    assert (HM : mapM to_list (flat_alts cs0) = Ok (map vals (flat_alts cs0))).
    { clear -Htlc. induction Htlc as [|x xs Hx _ IH]; cbn; [reflexivity|]. rewrite (tl_ok_vals _ Hx), IH. reflexivity. }
    rewrite HM. cbn [bind]. rewrite !zlen_map. replace (zlen ti <? zlen ti) with false by lia.
    rewrite zip_fst_snd.
    pose proof (mapM_zlen _ _ _ Hti) as Hlti.
    apply mapM_pointwise; [lia|].
    intros p [k j] Hp.
    destruct (get_mapM_inv _ _ _ _ _ Hti Hp) as (o & Ho & Hunw).
    destruct o as [kj|]; [|discriminate]. inversion Hunw; subst kj.
    pose proof (get_lt _ _ _ Hp) as Hrange.
    destruct (get_in_range tags p) as [t Hpt]; [lia|].
    destruct (get_in_range index p) as [ix Hpi]; [lia|].
    destruct (get_in_range vs p) as [v Hpv]; [lia|].
    assert (Hr : row tags index vs p t ix v) by (repeat split; assumption).
    exists v. split; [exact Hpv|].
    destruct (Hfin _ _ _ _ Hr) as [Hd _].
    pose proof (Horig _ _ _ _ Hr) as Hlk0. unfold lk in Hlk0. apply bind_ok in Hlk0. destruct Hlk0 as (l0 & Hl0 & _).
    apply get_lt in Hl0. rewrite zlen_map in Hl0.
    destruct Hd as (k' & j' & Hk' & Hlk'); [lia|].
    assert (Some (k, j) = Some (k', j')) by congruence. inversion H; subst. exact Hlk'.
  - exists (map fst ti), (map snd ti). split.
    + destruct (params c) as [[a|] [rn|]]; reflexivity.
    + apply flat_alts_not_unionlike. exact Hval.
Qed.

Example simplify_union_example :
  let inner := Union I32 [1; 0] [0; 0] [Numpy DInt64 [1] [DZ 7]; Numpy DBool [1] [DZ 1]] in
  let c := Union I64 [0; 1; 0] [1; 0; 0] [inner; ListOffset I64 [0; 1] (Numpy DInt64 [1] [DZ 3])] in
  to_list c = Ok [VNum (DZ 7); VList [VNum (DZ 3)]; VBool true] /\
  rmap to_list (simplify_union false true c) = Ok (Ok [VNum (DZ 7); VList [VNum (DZ 3)]; VBool true]) /\
  Nat.le 2 (length (flat_alts [inner; ListOffset I64 [0; 1] (Numpy DInt64 [1] [DZ 3])])).
Proof. vm_compute. repeat split. lia. Qed.

(* ---------------------------------------------------------------- numbers_to_type on a 1-d NumpyArray *)
Lemma astype_leaf dt dst d :
  rmap (leaf dst) (cast_datum dt dst d) = astype_v dst (TNum dt) (leaf dt d).
Proof.
  destruct dt; try reflexivity.
  (* bool: the value-level view of the stored byte *)
  cbn [leaf astype_v]. unfold cast_datum. cbn [fill_datum].
  destruct d as [z| |neg]; cbn [bool_datum]; try reflexivity.
  destruct (z =? 0); reflexivity.
Qed.

Theorem astype_numpy_pf dt dst n data vs c' :
  to_list (Numpy dt [n] data) = Ok vs -> astype_model dst (Numpy dt [n] data) = Ok c' ->
  exists vs', to_list c' = Ok vs' /\ astype_spec dst (type_of (Numpy dt [n] data)) vs = Ok vs' /\
              type_of c' = astype_ty dst (type_of (Numpy dt [n] data)).
Proof.
  intros Ht Ha. destruct (to_list_np1 _ _ _ _ Ht) as [Hn ->].
  unfold astype_model in Ha. cbn [astype_p] in Ha. rewrite prodZ_one in Ha.
  apply bind_ok in Ha. destruct Ha as (dd & Hdd & Ha). apply bind_ok in Ha. destruct Ha as (r & Hr & Ha).
  inversion Ha; subst c'. clear Ha.
  apply slice_ok in Hdd. destruct Hdd as (_ & _ & ->). rewrite Z.sub_0_r in Hr. unfold drop in Hr. cbn [Z.to_nat skipn] in Hr.
  pose proof (mapM_zlen _ _ _ Hr) as Hl. rewrite zlen_take in Hl by lia.
  exists (map (leaf dst) r). split; [|split].
  - rewrite to_list_np1_ok by lia. rewrite take_all by lia. reflexivity.
  - unfold astype_spec. cbn [type_of type_of_p numpy_ty tl]. rewrite mapM_map.
    apply mapM_ok_Forall2 in Hr. apply Forall2_mapM.
    clear Hl Ht. induction Hr as [|d y ds ys Hdy _ IH]; cbn [map]; [constructor|]. constructor; [|exact IH].
    cbn beta. rewrite <- astype_leaf, Hdy. reflexivity.
  - reflexivity.
Qed.
